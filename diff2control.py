#!/usr/bin/env python3
"""usage: diff2control.py <patch.diff> <name> <props,comma> <neg|pos> <expect-or-empty> <why>  > controls/<name>.json
Turns a unified diff into an in-situ control: every hunk becomes an exact-text replacement
(old = context + removed lines, new = context + added lines); several files are supported."""
import sys, json
diff, name, props, kind, expect, why = sys.argv[1:7]
files = {}
order = []
cur = None
old = new = None
def flush():
    global old, new
    if old is not None and (old or new):
        files[cur].append([''.join(old), ''.join(new)])
    old = new = None
for line in open(diff).read().split('\n'):
    if line.startswith('diff --git'):
        flush()
    elif line.startswith('+++ b/'):
        cur = line[6:].split('\t')[0]
        files.setdefault(cur, []); order.append(cur)
    elif line.startswith('--- '):
        pass
    elif line.startswith('@@'):
        flush(); old, new = [], []
    elif old is not None:
        if line.startswith('-'):
            old.append(line[1:] + '\n')
        elif line.startswith('+'):
            new.append(line[1:] + '\n')
        elif line.startswith(' '):
            old.append(line[1:] + '\n'); new.append(line[1:] + '\n')
flush()
first = order[0]
out = {"name": name, "props": props.split(','), "file": first, "edits": files[first],
       "more": [{"file": f, "edits": files[f]} for f in order[1:]],
       "negative": kind == 'neg', "expect": expect, "why": why}
json.dump(out, sys.stdout, indent=1)
