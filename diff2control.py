#!/usr/bin/env python3
"""usage: diff2control.py <patch.diff> <name> <props,comma> <neg|pos> <expect-or-empty> <why>  > controls/<name>.json
Turns a unified diff that touches ONE file into an in-situ control: every hunk becomes an exact-text replacement
(old = context + removed lines, new = context + added lines)."""
import sys, json, re
diff, name, props, kind, expect, why = sys.argv[1:7]
files = []
edits = []
old = new = None
for line in open(diff).read().split('\n'):
    if line.startswith('+++ b/'):
        files.append(line[6:])
    elif line.startswith('@@'):
        if old is not None:
            edits.append([''.join(old), ''.join(new)])
        old, new = [], []
    elif old is not None:
        if line.startswith('-') and not line.startswith('---'):
            old.append(line[1:] + '\n')
        elif line.startswith('+') and not line.startswith('+++'):
            new.append(line[1:] + '\n')
        elif line.startswith(' '):
            old.append(line[1:] + '\n'); new.append(line[1:] + '\n')
        elif line.startswith('diff --git') :
            edits.append([''.join(old), ''.join(new)]); old = None
if old is not None and (old or new):
    edits.append([''.join(old), ''.join(new)])
assert len(set(files)) == 1, 'diff must touch exactly one file: %s' % files
json.dump({"name": name, "props": props.split(','), "file": files[0], "edits": edits,
           "negative": kind == 'neg', "expect": expect, "why": why}, sys.stdout, indent=1)
