#!/bin/bash
# usage: ./run.sh <property|all> [quick|thorough] [extra cmverify flags]
# Builds the checker if stale and decides one property on /repo's current working tree.
set -u
cd "$(dirname "$0")"
export GOFLAGS=-mod=mod GOPROXY=off GOSUMDB=off GOTOOLCHAIN=local CARGO_NET_OFFLINE=true
unset GOWORK
PROP="${1:?property id}"; shift
TIER="${1:-${VERIF_TIER:-quick}}"; [ $# -gt 0 ] && shift
BIN=.bin/cmverify
if [ ! -x "$BIN" ] || [ -n "$(find checker -newer "$BIN" -name '*.go' -o -newer "$BIN" -name 'go.mod' | head -1)" ]; then
  mkdir -p .bin
  (cd checker && go build -o ../.bin/cmverify .) || { echo "VIOLATION property=$PROP replay=/verif/evidence/violations/$PROP-build.json"; mkdir -p evidence/violations; echo '{"detail":"checker failed to build"}' > evidence/violations/$PROP-build.json; exit 1; }
fi
exec "$BIN" -repo "${VERIF_REPO:-/repo}" -verif "$(pwd)" -property "$PROP" -tier "$TIER" "$@"
