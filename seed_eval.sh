#!/bin/bash
# usage: seed_eval.sh <dir with patch.diff + demo_test.go> <demo target dir relative to repo> [props...]
# Applies a seeded change to /repo, confirms (suite passes, demo fails), runs the checks, reverts, confirms demo passes.
set -u
export GOFLAGS=-mod=mod GOPROXY=off GOSUMDB=off GOTOOLCHAIN=local
D="$1"; DEMODIR="${2:-.}"; shift 2
PROPS="${@:-C01 C02 C04 C05 C07 C08 C10 C11 C12 C14 C15 C16 C17 C18 C19 C20}"
cd /repo || exit 2
if [ -n "$(git status --porcelain)" ]; then echo "repo dirty"; exit 2; fi
git apply "$D/patch.diff" || { echo "APPLY-FAILED"; exit 2; }
SUITE=$(go test -vet=off -count=1 ./... 2>&1 | grep -c "^FAIL")
cp "$D/demo_test.go" "/repo/$DEMODIR/zz_demo_test.go"
RACE=""; grep -q "race" "$D/notes.md" 2>/dev/null && grep -qi "go test -race" "$D/notes.md" && RACE="-race"
(cd "/repo/$DEMODIR" && go test $RACE -vet=off -count=1 -run 'TestDemo' . >/tmp/demo_mut.log 2>&1); DEMO_MUT=$?
rm -f "/repo/$DEMODIR/zz_demo_test.go"
FIRED=""
for p in $PROPS; do
  OUT=$(cd /verif && ./run.sh $p quick 2>&1); RC=$?
  if [ $RC -ne 0 ]; then FIRED="$FIRED $p:[$(echo "$OUT" | grep -E '^(VIOLATION|UNDECIDED):' | sed -E 's/^(VIOLATION|UNDECIDED): ([^ ]+) (.*) at .*/\2\/\3/' | cut -c1-80 | tr '\n' ';')]"; fi
done
git checkout -- . ; git clean -fdq
cp "$D/demo_test.go" "/repo/$DEMODIR/zz_demo_test.go"
(cd "/repo/$DEMODIR" && go test $RACE -vet=off -count=1 -run 'TestDemo' . >/tmp/demo_clean.log 2>&1); DEMO_CLEAN=$?
rm -f "/repo/$DEMODIR/zz_demo_test.go"
echo "suite_failures_with_mutant=$SUITE demo_with_mutant_rc=$DEMO_MUT demo_clean_rc=$DEMO_CLEAN race=$RACE"
echo "fired:$FIRED"
