package main

// paths.go — PATH: latch (field-nil dataflow), provenance slices, must-pass-through helpers.

import (
	"fmt"
	"go/constant"
	"go/token"
	"go/types"
	"strings"

	"golang.org/x/tools/go/ssa"
)

type nilState uint8

const (
	nsUnvisited nilState = iota
	nsUnknown
	nsNil
	nsNonNil
)

func (s nilState) String() string {
	return [...]string{"unvisited", "unknown", "nil", "non-nil"}[s]
}

func joinNil(a, b nilState) nilState {
	if a == nsUnvisited {
		return b
	}
	if b == nsUnvisited {
		return a
	}
	if a == b {
		return a
	}
	return nsUnknown
}

type fieldFlow struct {
	fn       *ssa.Function
	base     ssa.Value
	typ, fld string
	in       map[*ssa.BasicBlock]nilState
	mayStore func(call ssa.CallInstruction) bool
	sh       *ffShared
}

// mayStoreFieldSet computes the set of module functions that (transitively) contain a store to field typ.fld.
func mayStoreFieldSet(p *Program, typ, fld string) map[*ssa.Function]bool {
	direct := map[*ssa.Function]bool{}
	for _, fn := range p.Funcs {
		eachInstr(fn, func(in ssa.Instruction) {
			if st, ok := in.(*ssa.Store); ok {
				if _, ok := isFieldAddr(st.Addr, typ, fld); ok {
					direct[fn] = true
				}
			}
		})
	}
	cg := p.CallGraph()
	set := map[*ssa.Function]bool{}
	for f := range direct {
		set[f] = true
	}
	for changed := true; changed; {
		changed = false
		for _, fn := range p.Funcs {
			if set[fn] {
				continue
			}
			n := cg.Nodes[fn]
			if n == nil {
				continue
			}
			for _, out := range n.Out {
				if set[out.Callee.Func] {
					set[fn] = true
					changed = true
					break
				}
			}
		}
	}
	return set
}

// Interprocedural part of the latch analysis. The state of base.fld at the entry of a method is the join of the states
// at all of its static call sites that pass the caller's own tracked object as receiver (unexported methods only; anything
// else starts unknown), and a call of a method on the tracked object continues with that method's exit state for the
// current state (summaries memoised per (method, entry state); recursion yields unknown). This makes the analysis see
// through helpers extracted from a guarded region.
type ffKey struct {
	fn    *ssa.Function
	entry nilState
}

type ffShared struct {
	p        *Program
	typ, fld string
	storeSet map[*ssa.Function]bool
	exitMemo map[ffKey]nilState
	exitBusy map[ffKey]bool
	entMemo  map[*ssa.Function]nilState
	entBusy  map[*ssa.Function]bool
}

var ffSharedCache = map[string]*ffShared{}

func sharedFF(p *Program, typ, fld string, storeSet map[*ssa.Function]bool) *ffShared {
	k := fmt.Sprintf("%p/%s.%s", p, typ, fld)
	if sh, ok := ffSharedCache[k]; ok {
		return sh
	}
	// a new program (a control variant): drop the summaries of earlier ones so that they can be collected
	for old := range ffSharedCache {
		if !strings.HasPrefix(old, fmt.Sprintf("%p/", p)) {
			delete(ffSharedCache, old)
		}
	}
	sh := &ffShared{p: p, typ: typ, fld: fld, storeSet: storeSet, exitMemo: map[ffKey]nilState{}, exitBusy: map[ffKey]bool{}, entMemo: map[*ssa.Function]nilState{}, entBusy: map[*ssa.Function]bool{}}
	ffSharedCache[k] = sh
	return sh
}

// recvOfType returns fn's receiver parameter if it is a pointer to typ.
func recvOfType(fn *ssa.Function, typ string) *ssa.Parameter {
	if fn == nil || fn.Signature.Recv() == nil || len(fn.Params) == 0 {
		return nil
	}
	if typeName(deref(fn.Params[0].Type())) != typ {
		return nil
	}
	return fn.Params[0]
}

// exitState: state of recv.fld when method g returns, given the state at its entry.
func (sh *ffShared) exitState(g *ssa.Function, entry nilState) nilState {
	k := ffKey{g, entry}
	if v, ok := sh.exitMemo[k]; ok {
		return v
	}
	if sh.exitBusy[k] {
		return nsUnknown
	}
	recv := recvOfType(g, sh.typ)
	if recv == nil || g.Blocks == nil {
		return nsUnknown
	}
	sh.exitBusy[k] = true
	ff := runFieldFlow(sh, g, recv, entry)
	out := nsUnvisited
	for _, r := range returnsOf(g) {
		out = joinNil(out, ff.before(r))
	}
	if out == nsUnvisited {
		out = nsUnknown
	}
	delete(sh.exitBusy, k)
	sh.exitMemo[k] = out
	return out
}

// exitStateBool: like exitState for a method with a single bool result, split by the value returned: the state of
// recv.fld when g returns true / returns false (the idiom `func (w *T) step() bool { ...; return w.err == nil }`).
func (sh *ffShared) exitStateBool(g *ssa.Function, entry nilState) (ifTrue, ifFalse nilState) {
	recv := recvOfType(g, sh.typ)
	res := g.Signature.Results()
	if recv == nil || g.Blocks == nil || res.Len() != 1 {
		u := sh.exitState(g, entry)
		return u, u
	}
	if b, ok := res.At(0).Type().Underlying().(*types.Basic); !ok || b.Kind() != types.Bool {
		u := sh.exitState(g, entry)
		return u, u
	}
	k := ffKey{g, entry}
	if sh.exitBusy[k] {
		return nsUnknown, nsUnknown
	}
	sh.exitBusy[k] = true
	defer delete(sh.exitBusy, k)
	ff := runFieldFlow(sh, g, recv, entry)
	ifTrue, ifFalse = nsUnvisited, nsUnvisited
	for _, r := range returnsOf(g) {
		at := ff.before(r)
		v := r.Results[0]
		switch x := v.(type) {
		case *ssa.Const:
			if x.Value != nil && x.Value.Kind() == constant.Bool {
				if constant.BoolVal(x.Value) {
					ifTrue = joinNil(ifTrue, at)
				} else {
					ifFalse = joinNil(ifFalse, at)
				}
				continue
			}
		case *ssa.BinOp:
			if y, nilIdx, ok := nilTest(x); ok && ff.isFreshLoad(y, x.Block()) && x.Block() == r.Block() {
				// nilTest reports which successor index (0 = cond true) means nil
				if nilIdx == 0 {
					ifTrue, ifFalse = joinNil(ifTrue, nsNil), joinNil(ifFalse, nsNonNil)
				} else {
					ifTrue, ifFalse = joinNil(ifTrue, nsNonNil), joinNil(ifFalse, nsNil)
				}
				continue
			}
		case *ssa.Call:
			if h := x.Call.StaticCallee(); h != nil && len(x.Call.Args) > 0 && x.Call.Args[0] == ssa.Value(recv) && recvOfType(h, sh.typ) != nil && x.Block() == r.Block() {
				t, f := sh.exitStateBool(h, ff.before(x))
				ifTrue, ifFalse = joinNil(ifTrue, t), joinNil(ifFalse, f)
				continue
			}
		}
		ifTrue, ifFalse = joinNil(ifTrue, at), joinNil(ifFalse, at)
	}
	if ifTrue == nsUnvisited {
		ifTrue = nsUnknown
	}
	if ifFalse == nsUnvisited {
		ifFalse = nsUnknown
	}
	return ifTrue, ifFalse
}

// entryState: join over the static call sites of unexported method g of the state before the call, when the call's
// receiver is the caller's own tracked receiver.
func (sh *ffShared) entryState(g *ssa.Function) nilState {
	if v, ok := sh.entMemo[g]; ok {
		return v
	}
	if sh.entBusy[g] || recvOfType(g, sh.typ) == nil || g.Object() == nil || g.Object().Exported() {
		return nsUnknown
	}
	sh.entBusy[g] = true
	out := nsUnvisited
	ok := true
	for _, caller := range sh.p.Funcs {
		for _, cf := range withAnons(caller) {
			eachInstr(cf, func(in ssa.Instruction) {
				// address taken anywhere: give up
				if mc, isMC := in.(*ssa.MakeClosure); isMC && mc.Fn == ssa.Value(g) {
					ok = false
				}
				ci, isCall := in.(ssa.CallInstruction)
				if !isCall || ci.Common().StaticCallee() != g {
					return
				}
				if _, isGo := in.(*ssa.Go); isGo {
					ok = false
					return
				}
				crecv := recvOfType(cf, sh.typ)
				if crecv == nil || len(ci.Common().Args) == 0 || ci.Common().Args[0] != ssa.Value(crecv) {
					ok = false
					return
				}
				ff := runFieldFlow(sh, cf, crecv, sh.entryState(cf))
				out = joinNil(out, ff.before(in))
			})
		}
	}
	delete(sh.entBusy, g)
	if !ok || out == nsUnvisited {
		out = nsUnknown
	}
	sh.entMemo[g] = out
	return out
}

// newFieldFlow runs the forward must-analysis "base.fld is nil" over fn.
func newFieldFlow(p *Program, fn *ssa.Function, base ssa.Value, typ, fld string, storeSet map[*ssa.Function]bool) *fieldFlow {
	sh := sharedFF(p, typ, fld, storeSet)
	entry := nsUnknown
	if recv := recvOfType(fn, typ); recv != nil && ssa.Value(recv) == base {
		entry = sh.entryState(fn)
	}
	return runFieldFlow(sh, fn, base, entry)
}

func runFieldFlow(sh *ffShared, fn *ssa.Function, base ssa.Value, entry nilState) *fieldFlow {
	p, typ, fld, storeSet := sh.p, sh.typ, sh.fld, sh.storeSet
	ff := &fieldFlow{fn: fn, base: base, typ: typ, fld: fld, in: map[*ssa.BasicBlock]nilState{}, sh: sh}
	cg := p.CallGraph()
	ff.mayStore = func(call ssa.CallInstruction) bool {
		if f := call.Common().StaticCallee(); f != nil {
			return storeSet[f]
		}
		if n := cg.Nodes[fn]; n != nil {
			for _, out := range n.Out {
				if out.Site == call && storeSet[out.Callee.Func] {
					return true
				}
			}
		}
		return false
	}
	ff.in[fn.Blocks[0]] = entry
	work := []*ssa.BasicBlock{fn.Blocks[0]}
	for len(work) > 0 {
		b := work[0]
		work = work[1:]
		out := ff.transferBlock(b, ff.in[b])
		for si, s := range b.Succs {
			es := out
			if iff := blockIf(b); iff != nil {
				if x, nilIdx, ok := nilTest(iff.Cond); ok && ff.isFreshLoad(x, b) {
					if si == nilIdx {
						es = nsNil
					} else {
						es = nsNonNil
					}
				} else if st, ok := ff.sentinelTest(iff.Cond, b, si); ok {
					es = st
				} else if call, neg, ok := ff.boolCallTest(iff.Cond, b); ok {
					t, f := sh.exitStateBool(call.Call.StaticCallee(), ff.before(call))
					if neg {
						t, f = f, t
					}
					if si == 0 {
						es = t
					} else {
						es = f
					}
				}
			}
			ns := joinNil(ff.in[s], es)
			if ns != ff.in[s] {
				ff.in[s] = ns
				work = append(work, s)
			}
		}
	}
	return ff
}

// sentinelTest: cond compares with zero the integer result of a module helper that was given `base.fld != nil` (or
// `== nil`) as a bool argument, and the helper's summary says that a negative result implies that argument was false
// (resp. true): on the edge on which the result is negative the field's state follows. (`n := lineEnd(buf, i, p.err != nil);
// if n >= 0 { break }` — falling through means more input is needed, which the helper only says while err is nil.)
func (ff *fieldFlow) sentinelTest(cond ssa.Value, b *ssa.BasicBlock, succIdx int) (nilState, bool) {
	if ff.sh == nil {
		return 0, false
	}
	bo, ok := cond.(*ssa.BinOp)
	if !ok {
		return 0, false
	}
	k, isC := constInt(bo.Y)
	if !isC {
		return 0, false
	}
	// which successor means "result < 0"
	negEdge := -1
	switch {
	case bo.Op == token.GEQ && k == 0, bo.Op == token.GTR && k == -1:
		negEdge = 1
	case bo.Op == token.LSS && k == 0, bo.Op == token.LEQ && k == -1:
		negEdge = 0
	}
	if negEdge != succIdx {
		return 0, false
	}
	// the result: a call, possibly through a phi-free local (go/ssa keeps `x = f()` as the call value itself), or — for a
	// loop written `n := f(); for n < 0 { ...; n = f() }` — a phi in this very block all of whose edges are such calls, each
	// the last thing that can change the field in the predecessor it comes from
	if call, ok := bo.X.(*ssa.Call); ok {
		return ff.sentinelFromCall(call, b)
	}
	ph, ok := bo.X.(*ssa.Phi)
	if !ok || ph.Block() != b {
		return 0, false
	}
	for _, in := range b.Instrs {
		if ff.invalidates(in) {
			return 0, false
		}
	}
	var res nilState
	for i, e := range ph.Edges {
		call, ok := e.(*ssa.Call)
		if !ok || i >= len(b.Preds) || call.Block() != b.Preds[i] || len(b.Preds[i].Succs) != 1 {
			return 0, false
		}
		st, ok := ff.sentinelFromCall(call, b.Preds[i])
		if !ok || (i > 0 && st != res) {
			return 0, false
		}
		res = st
	}
	return res, len(ph.Edges) > 0
}

// sentinelFromCall: see sentinelTest; call is in block b and nothing after it in b can change the field.
func (ff *fieldFlow) sentinelFromCall(call *ssa.Call, b *ssa.BasicBlock) (nilState, bool) {
	g := call.Call.StaticCallee()
	if g == nil || !ff.sh.p.InModule(g) {
		return 0, false
	}
	// no invalidation between the call and the branch
	if call.Block() != b {
		// allow the call in a dominating block when nothing on the way can store the field: conservative, same block only
		return 0, false
	}
	after := false
	for _, in := range b.Instrs {
		if in == ssa.Instruction(call) {
			after = true
			continue
		}
		if after && ff.invalidates(in) {
			return 0, false
		}
	}
	for ai, a := range call.Call.Args {
		x, nilIdx, isNil := nilTest(a)
		if !isNil {
			continue
		}
		ld, isLd := x.(*ssa.UnOp)
		if !isLd || !ff.isOurField(ld.X) {
			continue
		}
		// the argument must be computed from a load that is still fresh at the call: same block, no invalidation between
		if ld.Block() != b {
			continue
		}
		fresh := true
		seenLd := false
		for _, in := range b.Instrs {
			if in == ssa.Instruction(ld) {
				seenLd = true
				continue
			}
			if in == ssa.Instruction(call) {
				break
			}
			if seenLd && ff.invalidates(in) {
				fresh = false
			}
		}
		if !fresh {
			continue
		}
		// nilIdx == 0: the argument is true when the field is nil; == 1: true when non-nil
		argTrueMeansNil := nilIdx == 0
		// negative result implies argument false?
		if negativeImpliesParam(ff.sh.p, g, ai, true) {
			if argTrueMeansNil {
				return nsNonNil, true
			}
			return nsNil, true
		}
		if negativeImpliesParam(ff.sh.p, g, ai, false) {
			if argTrueMeansNil {
				return nsNil, true
			}
			return nsNonNil, true
		}
	}
	return 0, false
}

// boolCallTest: cond is (the negation of) the bool result of a method call on the tracked object made in block b with
// nothing after it in b that could change the field.
func (ff *fieldFlow) boolCallTest(cond ssa.Value, b *ssa.BasicBlock) (*ssa.Call, bool, bool) {
	neg := false
	for {
		if u, ok := cond.(*ssa.UnOp); ok && u.Op == token.NOT {
			neg = !neg
			cond = u.X
			continue
		}
		break
	}
	call, ok := cond.(*ssa.Call)
	if !ok || call.Block() != b || ff.sh == nil {
		return nil, false, false
	}
	g := call.Call.StaticCallee()
	if g == nil || len(call.Call.Args) == 0 || call.Call.Args[0] != ff.base || recvOfType(g, ff.typ) == nil {
		return nil, false, false
	}
	after := false
	for _, in := range b.Instrs {
		if in == ssa.Instruction(call) {
			after = true
			continue
		}
		if after && ff.invalidates(in) {
			return nil, false, false
		}
	}
	return call, neg, true
}

func (ff *fieldFlow) isOurField(addr ssa.Value) bool {
	fa, ok := isFieldAddr(addr, ff.typ, ff.fld)
	return ok && fa.X == ff.base
}

// isFreshLoad: x is a load of base.fld in block b with no store/invalidating call between the load and the block end.
func (ff *fieldFlow) isFreshLoad(x ssa.Value, b *ssa.BasicBlock) bool {
	u, ok := x.(*ssa.UnOp)
	if !ok || u.Op != token.MUL || !ff.isOurField(u.X) || u.Block() != b {
		return false
	}
	after := false
	for _, in := range b.Instrs {
		if in == ssa.Instruction(u) {
			after = true
			continue
		}
		if after && ff.invalidates(in) {
			return false
		}
	}
	return true
}

func (ff *fieldFlow) invalidates(in ssa.Instruction) bool {
	switch x := in.(type) {
	case *ssa.Store:
		if _, ok := isFieldAddr(x.Addr, ff.typ, ff.fld); ok {
			return true
		}
	case ssa.CallInstruction:
		if _, isB := x.Common().Value.(*ssa.Builtin); isB {
			return false
		}
		return ff.mayStore(x)
	}
	return false
}

func (ff *fieldFlow) transferInstr(in ssa.Instruction, s nilState) nilState {
	switch x := in.(type) {
	case *ssa.Store:
		if _, ok := isFieldAddr(x.Addr, ff.typ, ff.fld); ok {
			if ff.isOurField(x.Addr) && isNilConst(x.Val) {
				return nsNil
			}
			return nsUnknown
		}
	case ssa.CallInstruction:
		if _, isB := x.Common().Value.(*ssa.Builtin); isB {
			return s
		}
		if ff.mayStore(x) {
			// a method of the tracked object itself: continue with its exit state for the current state
			if g := x.Common().StaticCallee(); g != nil && ff.sh != nil && len(x.Common().Args) > 0 && x.Common().Args[0] == ff.base && recvOfType(g, ff.typ) != nil {
				if _, isCall := in.(*ssa.Call); isCall {
					return ff.sh.exitState(g, s)
				}
			}
			return nsUnknown
		}
	}
	return s
}

func (ff *fieldFlow) transferBlock(b *ssa.BasicBlock, s nilState) nilState {
	for _, in := range b.Instrs {
		s = ff.transferInstr(in, s)
	}
	return s
}

// before returns the state of base.fld just before instruction in.
func (ff *fieldFlow) before(in ssa.Instruction) nilState {
	b := in.Block()
	s := ff.in[b]
	for _, x := range b.Instrs {
		if x == in {
			return s
		}
		s = ff.transferInstr(x, s)
	}
	return s
}

// ---------------------------------------------------------------------------------------------
// provenance: backward data slice

type provResult struct {
	sources []ssa.Value
}

// backSlice walks the data dependences of v backwards through arithmetic, conversions, phis, extracts and
// (optionally) through the return values of module callees, stopping at values for which stop returns true.
// Leaves (values that are neither stopped nor expandable) are returned.
func backSlice(p *Program, v ssa.Value, stop func(ssa.Value) bool, throughCalls bool) (stopped, leaves []ssa.Value) {
	seen := map[ssa.Value]bool{}
	var walk func(v ssa.Value)
	walk = func(v ssa.Value) {
		if v == nil || seen[v] {
			return
		}
		seen[v] = true
		if stop(v) {
			stopped = append(stopped, v)
			return
		}
		switch x := v.(type) {
		case *ssa.BinOp:
			walk(x.X)
			walk(x.Y)
		case *ssa.UnOp:
			if x.Op == token.MUL {
				leaves = append(leaves, v)
				return
			}
			walk(x.X)
		case *ssa.Convert:
			walk(x.X)
		case *ssa.ChangeType:
			walk(x.X)
		case *ssa.MakeInterface:
			walk(x.X)
		case *ssa.ChangeInterface:
			walk(x.X)
		case *ssa.Phi:
			for _, e := range x.Edges {
				walk(e)
			}
		case *ssa.Extract:
			if c, ok := x.Tuple.(*ssa.Call); ok && throughCalls {
				if f := c.Call.StaticCallee(); f != nil && p.InModule(f) {
					for _, b := range f.Blocks {
						if r, ok := b.Instrs[len(b.Instrs)-1].(*ssa.Return); ok && x.Index < len(r.Results) {
							walk(r.Results[x.Index])
						}
					}
					return
				}
			}
			leaves = append(leaves, v)
		case *ssa.Call:
			if f := x.Call.StaticCallee(); f != nil && p.InModule(f) && throughCalls {
				for _, b := range f.Blocks {
					if r, ok := b.Instrs[len(b.Instrs)-1].(*ssa.Return); ok && len(r.Results) > 0 {
						walk(r.Results[0])
					}
				}
				return
			}
			leaves = append(leaves, v)
		case *ssa.Const:
			leaves = append(leaves, v)
		default:
			leaves = append(leaves, v)
		}
	}
	walk(v)
	return
}

// receiverOf returns the receiver parameter of a method.
func receiverOf(fn *ssa.Function) *ssa.Parameter {
	if fn.Signature.Recv() != nil && len(fn.Params) > 0 {
		return fn.Params[0]
	}
	return nil
}

// returnsOf lists the Return instructions of fn.
func returnsOf(fn *ssa.Function) []*ssa.Return {
	var out []*ssa.Return
	for _, b := range fn.Blocks {
		if len(b.Instrs) == 0 {
			continue
		}
		if r, ok := b.Instrs[len(b.Instrs)-1].(*ssa.Return); ok {
			out = append(out, r)
		}
	}
	return out
}

func isErrorType(t types.Type) bool {
	n, ok := t.(*types.Named)
	return ok && n.Obj().Pkg() == nil && n.Obj().Name() == "error"
}

// isInvokeOf reports an interface method call with the given method name.
func isInvokeOf(in ssa.Instruction, method string) (ssa.CallInstruction, bool) {
	ci, ok := in.(ssa.CallInstruction)
	if !ok {
		return nil, false
	}
	c := ci.Common()
	if c.IsInvoke() && c.Method.Name() == method {
		return ci, true
	}
	return nil, false
}

// pathAvoiding reports whether there is a CFG path from (after) instruction a to instruction b that executes
// no instruction satisfying hit. Intraprocedural.
func pathAvoiding(a, b ssa.Instruction, hit func(ssa.Instruction) bool) bool {
	// scan remainder of a's block
	ab := a.Block()
	idx := instrIndex(a)
	for _, in := range ab.Instrs[idx+1:] {
		if in == b {
			return true
		}
		if hit(in) {
			return false
		}
	}
	seen := map[*ssa.BasicBlock]bool{}
	var walk func(blk *ssa.BasicBlock) bool
	walk = func(blk *ssa.BasicBlock) bool {
		if seen[blk] {
			return false
		}
		seen[blk] = true
		for _, in := range blk.Instrs {
			if in == b {
				return true
			}
			if hit(in) {
				return false
			}
		}
		for _, s := range blk.Succs {
			if walk(s) {
				return true
			}
		}
		return false
	}
	for _, s := range ab.Succs {
		if walk(s) {
			return true
		}
	}
	return false
}

// pathToExitAvoiding reports whether some path from (after) a reaches a function exit without executing a hit instruction.
func pathToExitAvoiding(a ssa.Instruction, hit func(ssa.Instruction) bool) bool {
	ab := a.Block()
	idx := instrIndex(a)
	scan := func(instrs []ssa.Instruction) (blocked, exit bool) {
		for _, in := range instrs {
			if hit(in) {
				return true, false
			}
			switch in.(type) {
			case *ssa.Return, *ssa.Panic:
				return false, true
			}
		}
		return false, false
	}
	if bl, ex := scan(ab.Instrs[idx+1:]); bl {
		return false
	} else if ex {
		return true
	}
	seen := map[*ssa.BasicBlock]bool{}
	var walk func(blk *ssa.BasicBlock) bool
	walk = func(blk *ssa.BasicBlock) bool {
		if seen[blk] {
			return false
		}
		seen[blk] = true
		if bl, ex := scan(blk.Instrs); bl {
			return false
		} else if ex {
			return true
		}
		for _, s := range blk.Succs {
			if walk(s) {
				return true
			}
		}
		return false
	}
	for _, s := range ab.Succs {
		if walk(s) {
			return true
		}
	}
	return false
}
