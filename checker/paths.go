package main

// paths.go — PATH: latch (field-nil dataflow), provenance slices, must-pass-through helpers.

import (
	"go/token"
	"go/types"

	"golang.org/x/tools/go/ssa"
)

type nilState uint8

const (
	nsUnvisited nilState = iota
	nsUnknown
	nsNil
	nsNonNil
)

func (s nilState) String() string {
	return [...]string{"unvisited", "unknown", "nil", "non-nil"}[s]
}

func joinNil(a, b nilState) nilState {
	if a == nsUnvisited {
		return b
	}
	if b == nsUnvisited {
		return a
	}
	if a == b {
		return a
	}
	return nsUnknown
}

type fieldFlow struct {
	fn       *ssa.Function
	base     ssa.Value
	typ, fld string
	in       map[*ssa.BasicBlock]nilState
	mayStore func(call ssa.CallInstruction) bool
}

// mayStoreFieldSet computes the set of module functions that (transitively) contain a store to field typ.fld.
func mayStoreFieldSet(p *Program, typ, fld string) map[*ssa.Function]bool {
	direct := map[*ssa.Function]bool{}
	for _, fn := range p.Funcs {
		eachInstr(fn, func(in ssa.Instruction) {
			if st, ok := in.(*ssa.Store); ok {
				if _, ok := isFieldAddr(st.Addr, typ, fld); ok {
					direct[fn] = true
				}
			}
		})
	}
	cg := p.CallGraph()
	set := map[*ssa.Function]bool{}
	for f := range direct {
		set[f] = true
	}
	for changed := true; changed; {
		changed = false
		for _, fn := range p.Funcs {
			if set[fn] {
				continue
			}
			n := cg.Nodes[fn]
			if n == nil {
				continue
			}
			for _, out := range n.Out {
				if set[out.Callee.Func] {
					set[fn] = true
					changed = true
					break
				}
			}
		}
	}
	return set
}

// newFieldFlow runs the forward must-analysis "base.fld is nil" over fn.
func newFieldFlow(p *Program, fn *ssa.Function, base ssa.Value, typ, fld string, storeSet map[*ssa.Function]bool) *fieldFlow {
	ff := &fieldFlow{fn: fn, base: base, typ: typ, fld: fld, in: map[*ssa.BasicBlock]nilState{}}
	cg := p.CallGraph()
	ff.mayStore = func(call ssa.CallInstruction) bool {
		if f := call.Common().StaticCallee(); f != nil {
			return storeSet[f]
		}
		if n := cg.Nodes[fn]; n != nil {
			for _, out := range n.Out {
				if out.Site == call && storeSet[out.Callee.Func] {
					return true
				}
			}
		}
		return false
	}
	ff.in[fn.Blocks[0]] = nsUnknown
	work := []*ssa.BasicBlock{fn.Blocks[0]}
	for len(work) > 0 {
		b := work[0]
		work = work[1:]
		out := ff.transferBlock(b, ff.in[b])
		for si, s := range b.Succs {
			es := out
			if iff := blockIf(b); iff != nil {
				if x, nilIdx, ok := nilTest(iff.Cond); ok && ff.isFreshLoad(x, b) {
					if si == nilIdx {
						es = nsNil
					} else {
						es = nsNonNil
					}
				}
			}
			ns := joinNil(ff.in[s], es)
			if ns != ff.in[s] {
				ff.in[s] = ns
				work = append(work, s)
			}
		}
	}
	return ff
}

func (ff *fieldFlow) isOurField(addr ssa.Value) bool {
	fa, ok := isFieldAddr(addr, ff.typ, ff.fld)
	return ok && fa.X == ff.base
}

// isFreshLoad: x is a load of base.fld in block b with no store/invalidating call between the load and the block end.
func (ff *fieldFlow) isFreshLoad(x ssa.Value, b *ssa.BasicBlock) bool {
	u, ok := x.(*ssa.UnOp)
	if !ok || u.Op != token.MUL || !ff.isOurField(u.X) || u.Block() != b {
		return false
	}
	after := false
	for _, in := range b.Instrs {
		if in == ssa.Instruction(u) {
			after = true
			continue
		}
		if after && ff.invalidates(in) {
			return false
		}
	}
	return true
}

func (ff *fieldFlow) invalidates(in ssa.Instruction) bool {
	switch x := in.(type) {
	case *ssa.Store:
		if _, ok := isFieldAddr(x.Addr, ff.typ, ff.fld); ok {
			return true
		}
	case ssa.CallInstruction:
		if _, isB := x.Common().Value.(*ssa.Builtin); isB {
			return false
		}
		return ff.mayStore(x)
	}
	return false
}

func (ff *fieldFlow) transferInstr(in ssa.Instruction, s nilState) nilState {
	switch x := in.(type) {
	case *ssa.Store:
		if _, ok := isFieldAddr(x.Addr, ff.typ, ff.fld); ok {
			if ff.isOurField(x.Addr) && isNilConst(x.Val) {
				return nsNil
			}
			return nsUnknown
		}
	case ssa.CallInstruction:
		if _, isB := x.Common().Value.(*ssa.Builtin); isB {
			return s
		}
		if ff.mayStore(x) {
			return nsUnknown
		}
	}
	return s
}

func (ff *fieldFlow) transferBlock(b *ssa.BasicBlock, s nilState) nilState {
	for _, in := range b.Instrs {
		s = ff.transferInstr(in, s)
	}
	return s
}

// before returns the state of base.fld just before instruction in.
func (ff *fieldFlow) before(in ssa.Instruction) nilState {
	b := in.Block()
	s := ff.in[b]
	for _, x := range b.Instrs {
		if x == in {
			return s
		}
		s = ff.transferInstr(x, s)
	}
	return s
}

// ---------------------------------------------------------------------------------------------
// provenance: backward data slice

type provResult struct {
	sources []ssa.Value
}

// backSlice walks the data dependences of v backwards through arithmetic, conversions, phis, extracts and
// (optionally) through the return values of module callees, stopping at values for which stop returns true.
// Leaves (values that are neither stopped nor expandable) are returned.
func backSlice(p *Program, v ssa.Value, stop func(ssa.Value) bool, throughCalls bool) (stopped, leaves []ssa.Value) {
	seen := map[ssa.Value]bool{}
	var walk func(v ssa.Value)
	walk = func(v ssa.Value) {
		if v == nil || seen[v] {
			return
		}
		seen[v] = true
		if stop(v) {
			stopped = append(stopped, v)
			return
		}
		switch x := v.(type) {
		case *ssa.BinOp:
			walk(x.X)
			walk(x.Y)
		case *ssa.UnOp:
			if x.Op == token.MUL {
				leaves = append(leaves, v)
				return
			}
			walk(x.X)
		case *ssa.Convert:
			walk(x.X)
		case *ssa.ChangeType:
			walk(x.X)
		case *ssa.MakeInterface:
			walk(x.X)
		case *ssa.ChangeInterface:
			walk(x.X)
		case *ssa.Phi:
			for _, e := range x.Edges {
				walk(e)
			}
		case *ssa.Extract:
			if c, ok := x.Tuple.(*ssa.Call); ok && throughCalls {
				if f := c.Call.StaticCallee(); f != nil && p.InModule(f) {
					for _, b := range f.Blocks {
						if r, ok := b.Instrs[len(b.Instrs)-1].(*ssa.Return); ok && x.Index < len(r.Results) {
							walk(r.Results[x.Index])
						}
					}
					return
				}
			}
			leaves = append(leaves, v)
		case *ssa.Call:
			if f := x.Call.StaticCallee(); f != nil && p.InModule(f) && throughCalls {
				for _, b := range f.Blocks {
					if r, ok := b.Instrs[len(b.Instrs)-1].(*ssa.Return); ok && len(r.Results) > 0 {
						walk(r.Results[0])
					}
				}
				return
			}
			leaves = append(leaves, v)
		case *ssa.Const:
			leaves = append(leaves, v)
		default:
			leaves = append(leaves, v)
		}
	}
	walk(v)
	return
}

// receiverOf returns the receiver parameter of a method.
func receiverOf(fn *ssa.Function) *ssa.Parameter {
	if fn.Signature.Recv() != nil && len(fn.Params) > 0 {
		return fn.Params[0]
	}
	return nil
}

// returnsOf lists the Return instructions of fn.
func returnsOf(fn *ssa.Function) []*ssa.Return {
	var out []*ssa.Return
	for _, b := range fn.Blocks {
		if len(b.Instrs) == 0 {
			continue
		}
		if r, ok := b.Instrs[len(b.Instrs)-1].(*ssa.Return); ok {
			out = append(out, r)
		}
	}
	return out
}

func isErrorType(t types.Type) bool {
	n, ok := t.(*types.Named)
	return ok && n.Obj().Pkg() == nil && n.Obj().Name() == "error"
}

// isInvokeOf reports an interface method call with the given method name.
func isInvokeOf(in ssa.Instruction, method string) (ssa.CallInstruction, bool) {
	ci, ok := in.(ssa.CallInstruction)
	if !ok {
		return nil, false
	}
	c := ci.Common()
	if c.IsInvoke() && c.Method.Name() == method {
		return ci, true
	}
	return nil, false
}

// pathAvoiding reports whether there is a CFG path from (after) instruction a to instruction b that executes
// no instruction satisfying hit. Intraprocedural.
func pathAvoiding(a, b ssa.Instruction, hit func(ssa.Instruction) bool) bool {
	// scan remainder of a's block
	ab := a.Block()
	idx := instrIndex(a)
	for _, in := range ab.Instrs[idx+1:] {
		if in == b {
			return true
		}
		if hit(in) {
			return false
		}
	}
	seen := map[*ssa.BasicBlock]bool{}
	var walk func(blk *ssa.BasicBlock) bool
	walk = func(blk *ssa.BasicBlock) bool {
		if seen[blk] {
			return false
		}
		seen[blk] = true
		for _, in := range blk.Instrs {
			if in == b {
				return true
			}
			if hit(in) {
				return false
			}
		}
		for _, s := range blk.Succs {
			if walk(s) {
				return true
			}
		}
		return false
	}
	for _, s := range ab.Succs {
		if walk(s) {
			return true
		}
	}
	return false
}

// pathToExitAvoiding reports whether some path from (after) a reaches a function exit without executing a hit instruction.
func pathToExitAvoiding(a ssa.Instruction, hit func(ssa.Instruction) bool) bool {
	ab := a.Block()
	idx := instrIndex(a)
	scan := func(instrs []ssa.Instruction) (blocked, exit bool) {
		for _, in := range instrs {
			if hit(in) {
				return true, false
			}
			switch in.(type) {
			case *ssa.Return, *ssa.Panic:
				return false, true
			}
		}
		return false, false
	}
	if bl, ex := scan(ab.Instrs[idx+1:]); bl {
		return false
	} else if ex {
		return true
	}
	seen := map[*ssa.BasicBlock]bool{}
	var walk func(blk *ssa.BasicBlock) bool
	walk = func(blk *ssa.BasicBlock) bool {
		if seen[blk] {
			return false
		}
		seen[blk] = true
		if bl, ex := scan(blk.Instrs); bl {
			return false
		} else if ex {
			return true
		}
		for _, s := range blk.Succs {
			if walk(s) {
				return true
			}
		}
		return false
	}
	for _, s := range ab.Succs {
		if walk(s) {
			return true
		}
	}
	return false
}
