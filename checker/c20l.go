package main

// LINE-RESET (C20): a counter that is advanced only in the "start of line" state is cleared wherever that state is set.

import (
	"fmt"
	"go/token"
	"go/types"

	"golang.org/x/tools/go/ssa"
)

func ruleLineReset(c *Ctx) {
	c.Rule("LINE-RESET", "Scanning state kept across the lines of a code block (package format): where a loop-carried counter C is advanced only on paths on which a loop-carried state variable S was found equal to a constant k (the 'nothing but indentation seen on this line yet' state), C counts something per line. Then every assignment S = k inside the loop (a line boundary) comes with C = 0 on the same path: at each merge where the new S is the constant k, the new C is the constant 0. A counter that is only ever advanced adds the indentation of earlier lines to that of a fence-like line, takes it for a line indented by four columns, and the fence chosen for the block is too short: '````⏎  a⏎  ```⏎````' came back with a three-backtick fence that its own content closes.")
	p := c.P
	n := 0
	for _, fn := range p.Funcs {
		if fn.Pkg != p.FMTs || fn.Blocks == nil {
			continue
		}
		// families of values connected through phis and +const / +value steps
		parent := map[ssa.Value]ssa.Value{}
		var find func(v ssa.Value) ssa.Value
		find = func(v ssa.Value) ssa.Value {
			if parent[v] == nil || parent[v] == v {
				parent[v] = v
				return v
			}
			r := find(parent[v])
			parent[v] = r
			return r
		}
		union := func(a, b ssa.Value) { parent[find(a)] = find(b) }
		var phis []*ssa.Phi
		eachInstr(fn, func(in ssa.Instruction) {
			switch x := in.(type) {
			case *ssa.Phi:
				if !isIntType(x.Type()) {
					return
				}
				phis = append(phis, x)
				for _, e := range x.Edges {
					if _, isC := e.(*ssa.Const); !isC {
						union(x, e)
					}
				}
			case *ssa.BinOp:
				if x.Op == token.ADD && isIntType(x.Type()) {
					if _, isC := x.X.(*ssa.Const); !isC {
						union(x, x.X)
					}
				}
			}
		})
		if len(phis) == 0 {
			continue
		}
		loops := naturalLoops(fn)
		inLoop := func(b *ssa.BasicBlock) bool {
			for i := range loops {
				if loops[i].body[b] {
					return true
				}
			}
			return false
		}
		// candidate pairs: family of C has increments, each dominated by the true edge of `s == k`, s in one family S
		type gate struct {
			fam ssa.Value
			k   int64
		}
		incGates := map[ssa.Value]map[gate]int{} // C family -> gate -> number of increments it dominates
		incCount := map[ssa.Value]int{}
		eachInstr(fn, func(in ssa.Instruction) {
			bo, ok := in.(*ssa.BinOp)
			if !ok || bo.Op != token.ADD || !isIntType(bo.Type()) {
				return
			}
			if _, isPhi := bo.X.(*ssa.Phi); !isPhi {
				return
			}
			fc := find(bo)
			// only loop-carried counters: the sum flows back into a phi of the family
			carried := false
			for _, ph := range phis {
				if find(ph) == fc {
					for _, e := range ph.Edges {
						if e == ssa.Value(bo) {
							carried = true
						}
					}
				}
			}
			if !carried {
				return
			}
			incCount[fc]++
			for _, b := range fn.Blocks {
				iff := blockIf(b)
				if iff == nil {
					continue
				}
				cmp, ok := iff.Cond.(*ssa.BinOp)
				if !ok || cmp.Op != token.EQL {
					continue
				}
				k, isC := constInt(cmp.Y)
				if !isC {
					continue
				}
				if _, isPhi := cmp.X.(*ssa.Phi); !isPhi {
					continue
				}
				if !edgeDominates(b, 0, bo.Block()) {
					continue
				}
				fs := find(cmp.X)
				if fs == fc {
					continue
				}
				if incGates[fc] == nil {
					incGates[fc] = map[gate]int{}
				}
				incGates[fc][gate{fs, k}]++
			}
		})
		for fc, gates := range incGates {
			for g, cnt := range gates {
				if cnt != incCount[fc] {
					continue // not every advance of C is under S == k
				}
				// every in-loop merge where the new S is the constant k
				sites := 0
				for _, ps := range phis {
					if find(ps) != g.fam || !inLoop(ps.Block()) {
						continue
					}
					for i, e := range ps.Edges {
						kv, isC := constInt(e)
						if !isC || kv != g.k || !inLoop(ps.Block().Preds[i]) {
							continue
						}
						sites++
						n++
						// the phi of C in the same block
						var pc *ssa.Phi
						for _, q := range phis {
							if q.Block() == ps.Block() && find(q) == fc {
								pc = q
							}
						}
						key := fmt.Sprintf("%s:state=%d#%d", shortFuncName(fn), g.k, sites)
						pos := ps.Block().Preds[i].Instrs[len(ps.Block().Preds[i].Instrs)-1].Pos()
						if pos == token.NoPos {
							pos = fn.Pos()
						}
						ok := false
						if pc != nil {
							if z, isC := constInt(pc.Edges[i]); isC && z == 0 {
								ok = true
							}
						}
						c.Check(ok, "LINE-RESET", key, pos, "the scanning state is set back to its start-of-line value here while the counter that is advanced only in that state keeps its value from earlier lines")
					}
				}
			}
		}
	}
	n += lineResetMemoryForm(c)
	c.Analysed["line_state_resets"] = n
	if n < 1 {
		// no scan in package format keeps a counter that is advanced only in one state of a loop-carried state variable (a
		// per-line helper without carried state, for instance): nothing for this rule to pair; its positive controls keep
		// showing that it recognises the idiom where it exists
		c.OK("LINE-RESET", "no-line-state", token.NoPos, "no loop-carried state/counter pair in package format")
	}
}

func isIntType(t types.Type) bool {
	b, ok := t.Underlying().(*types.Basic)
	return ok && b.Info()&types.IsInteger != 0
}

func init() {
	addControls(
		Control{Name: "fence-scan-keeps-indent-across-newline", Props: []string{"C20"}, File: "format/format.go",
			Old: "\t\t\t\t\tstate = -1\n\t\t\t\t\tindent = 0\n", New: "\t\t\t\t\tstate = -1\n", Expect: "LINE-RESET/format.codeFenceLength:state=-1#",
			Why: "the defect repaired by /repo 0a576e7 (newline inside a code block's text)"},
		Control{Name: "fence-scan-keeps-indent-across-break-node", Props: []string{"C20"}, File: "format/format.go",
			Old: "\t\t\tstate = -1\n\t\t\tindent = 0\n", New: "\t\t\tstate = -1\n", Expect: "LINE-RESET/format.codeFenceLength:state=-1#",
			Why: "the defect repaired by /repo 0a576e7 (line break node)"},
		Control{Name: "neg-fence-scan-reset-before-state", Props: []string{"C20"}, File: "format/format.go", Negative: true,
			Old: "\t\t\tstate = -1\n\t\t\tindent = 0\n", New: "\t\t\tindent = 0\n\t\t\tstate = -1\n"},
	)
}

// lineResetMemoryForm: the same rule where state and counter are variables captured by closures (heap cells): a cell is an
// Alloc of the enclosing function, or the free variable of a closure bound to it.
func lineResetMemoryForm(c *Ctx) int {
	p := c.P
	n := 0
	for _, fn := range p.Funcs {
		if fn.Pkg != p.FMTs || fn.Blocks == nil || fn.Parent() != nil {
			continue
		}
		// the family: fn and the closures it makes; cell identity through the closure bindings
		cellOf := map[ssa.Value]*ssa.Alloc{}
		family := []*ssa.Function{fn}
		eachInstr(fn, func(in ssa.Instruction) {
			if al, ok := in.(*ssa.Alloc); ok && al.Heap && isIntType(deref(al.Type())) {
				cellOf[al] = al
			}
		})
		if len(cellOf) < 2 {
			continue
		}
		closureCells := map[*ssa.Function]map[*ssa.Alloc]bool{}
		eachInstr(fn, func(in ssa.Instruction) {
			mc, ok := in.(*ssa.MakeClosure)
			if !ok {
				return
			}
			cf, ok := mc.Fn.(*ssa.Function)
			if !ok {
				return
			}
			family = append(family, cf)
			closureCells[cf] = map[*ssa.Alloc]bool{}
			for i, b := range mc.Bindings {
				if al, ok := b.(*ssa.Alloc); ok && cellOf[al] != nil && i < len(cf.FreeVars) {
					cellOf[cf.FreeVars[i]] = al
					closureCells[cf][al] = true
				}
			}
		})
		loadOf := func(v ssa.Value) *ssa.Alloc {
			if u, ok := v.(*ssa.UnOp); ok && u.Op == token.MUL {
				return cellOf[u.X]
			}
			return nil
		}
		type gate struct {
			s *ssa.Alloc
			k int64
		}
		incGates := map[*ssa.Alloc]map[gate]int{}
		incCount := map[*ssa.Alloc]int{}
		for _, f := range family {
			eachInstr(f, func(in ssa.Instruction) {
				st, ok := in.(*ssa.Store)
				if !ok {
					return
				}
				cc := cellOf[st.Addr]
				if cc == nil {
					return
				}
				bo, ok := st.Val.(*ssa.BinOp)
				if !ok || bo.Op != token.ADD || loadOf(bo.X) != cc {
					return
				}
				incCount[cc]++
				for _, b := range f.Blocks {
					iff := blockIf(b)
					if iff == nil {
						continue
					}
					cmp, ok := stripNot(iff.Cond).(*ssa.BinOp)
					if !ok || (cmp.Op != token.EQL && cmp.Op != token.NEQ) {
						continue
					}
					k, isC := constInt(cmp.Y)
					sc := loadOf(cmp.X)
					if !isC || sc == nil || sc == cc {
						continue
					}
					edge := 0
					if cmp.Op == token.NEQ {
						edge = 1
					}
					if isNegated(iff.Cond) {
						edge = 1 - edge
					}
					if !edgeDominates(b, edge, st.Block()) {
						continue
					}
					if incGates[cc] == nil {
						incGates[cc] = map[gate]int{}
					}
					incGates[cc][gate{sc, k}]++
				}
			})
		}
		for cc, gates := range incGates {
			for g, cnt := range gates {
				if cnt != incCount[cc] {
					continue
				}
				sites := 0
				for _, f := range family {
					eachInstr(f, func(in ssa.Instruction) {
						st, ok := in.(*ssa.Store)
						if !ok || cellOf[st.Addr] != g.s {
							return
						}
						if kv, isC := constInt(st.Val); !isC || kv != g.k {
							return
						}
						if f == fn && st.Block() == fn.Blocks[0] {
							return // the initialisation
						}
						sites++
						n++
						key := fmt.Sprintf("%s:state=%d#%d", shortFuncName(fn), g.k, sites)
						isClear := func(x ssa.Instruction) bool {
							s2, ok := x.(*ssa.Store)
							if !ok || cellOf[s2.Addr] != cc {
								return false
							}
							z, isC := constInt(s2.Val)
							return isC && z == 0
						}
						// cleared earlier in the same block, or on every way on before the counter is used again
						ok2 := false
						for _, x := range st.Block().Instrs {
							if x == ssa.Instruction(st) {
								break
							}
							if isClear(x) {
								ok2 = true
							}
						}
						if !ok2 {
							ok2 = !reachesUseBefore(st, isClear, func(x ssa.Instruction) bool {
								if u, ok := x.(*ssa.UnOp); ok && u.Op == token.MUL && cellOf[u.X] == cc {
									return true
								}
								if cl, ok := x.(*ssa.Call); ok {
									if mc, ok := cl.Call.Value.(*ssa.MakeClosure); ok {
										if cf, ok := mc.Fn.(*ssa.Function); ok && closureCells[cf][cc] {
											return true
										}
									}
								}
								switch x.(type) {
								case *ssa.Return:
									return true
								}
								return false
							})
						}
						c.Check(ok2, "LINE-RESET", key, st.Pos(), "the scanning state is set back to its start-of-line value here while the counter that is advanced only in that state keeps its value from earlier lines")
					})
				}
			}
		}
	}
	return n
}

// reachesUseBefore: some path from (after) a reaches an instruction for which use is true without first executing one for
// which hit is true.
func reachesUseBefore(a ssa.Instruction, hit, use func(ssa.Instruction) bool) bool {
	scan := func(instrs []ssa.Instruction) (blocked, used bool) {
		for _, in := range instrs {
			if hit(in) {
				return true, false
			}
			if use(in) {
				return false, true
			}
		}
		return false, false
	}
	ab := a.Block()
	if bl, us := scan(ab.Instrs[instrIndex(a)+1:]); bl {
		return false
	} else if us {
		return true
	}
	seen := map[*ssa.BasicBlock]bool{}
	var walk func(b *ssa.BasicBlock) bool
	walk = func(b *ssa.BasicBlock) bool {
		if seen[b] {
			return false
		}
		seen[b] = true
		if bl, us := scan(b.Instrs); bl {
			return false
		} else if us {
			return true
		}
		for _, s := range b.Succs {
			if walk(s) {
				return true
			}
		}
		return false
	}
	for _, s := range ab.Succs {
		if walk(s) {
			return true
		}
	}
	return false
}
