package main

// FMT-INDENT (C20): an Indent node in a code block is written back by its width, not by its bytes.

import (
	"fmt"
	"go/token"

	"golang.org/x/tools/go/ssa"
)

func ruleFmtIndent(c *Ctx) {
	c.Rule("FMT-INDENT", "An Indent node in a code block stands for a number of columns (the rest of a tab whose first columns belong to the container); the bytes of its span are a tab, which at the column the formatter writes it to means a different number of columns. In every function of package format that decides by an inline node's Kind() what to hand to the format writer, the blocks reachable when that Kind() is IndentKind (finite-domain path conditioning over the InlineKind domain) contain a call of (*Inline).IndentWidth: without consulting the width there is no way to write the node back with its meaning. '>\\t\\tcode' (a tab partly consumed by the block quote, then by the code indentation) came back as a whole tab.")
	p := c.P
	indent, ok := kindValue(p, "InlineKind", "IndentKind")
	if !ok {
		c.Undecided("FMT-INDENT", "IndentKind", token.NoPos, "constant not found")
		return
	}
	bs := newBSET(p)
	dom, _ := bs.domainFor(p.NamedType("InlineKind"))
	isKindCall := func(v ssa.Value) bool {
		cl, ok := v.(*ssa.Call)
		if !ok {
			return false
		}
		f := cl.Call.StaticCallee()
		return f != nil && f.Name() == "Kind" && f.Signature.Recv() != nil && typeName(deref(f.Signature.Recv().Type())) == "Inline"
	}
	n := 0
	for _, fn := range p.Funcs {
		if fn.Pkg != p.FMTs || fn.Blocks == nil {
			continue
		}
		hasKind := false
		eachInstr(fn, func(in ssa.Instruction) {
			if v, ok := in.(ssa.Value); ok && isKindCall(v) {
				hasKind = true
			}
		})
		if !hasKind {
			continue
		}
		reach := bs.reachUnderSym(fn, isKindCall, dom)
		writes, width := false, false
		var at token.Pos
		// scan: the calls of one block; module functions of package format called from an Indent-only block are
		// followed as a whole (a per-kind helper), two levels deep
		var scanInstrs func(instrs []ssa.Instruction, depth int)
		seenFn := map[*ssa.Function]bool{}
		scanInstrs = func(instrs []ssa.Instruction, depth int) {
			for _, in := range instrs {
				cl, ok := in.(*ssa.Call)
				if !ok {
					continue
				}
				f := cl.Call.StaticCallee()
				if f == nil {
					continue
				}
				if f.Signature.Recv() != nil {
					rt := typeName(deref(f.Signature.Recv().Type()))
					if rt == "formatWriter" {
						writes = true
						if at == token.NoPos {
							at = cl.Pos()
						}
					}
					if rt == "Inline" && f.Name() == "IndentWidth" {
						width = true
					}
				}
				if f.Pkg == p.FMTs && f.Blocks != nil && depth < 2 && !seenFn[f] {
					if f.Signature.Recv() != nil && typeName(deref(f.Signature.Recv().Type())) == "formatWriter" {
						continue
					}
					seenFn[f] = true
					for _, b := range f.Blocks {
						scanInstrs(b.Instrs, depth+1)
					}
				}
			}
		}
		for _, b := range fn.Blocks {
			if !reach[b][indent] {
				continue
			}
			// a block every kind reaches says nothing about Indent nodes
			all := true
			for _, d := range dom {
				if !reach[b][d] {
					all = false
				}
			}
			if all {
				continue
			}
			scanInstrs(b.Instrs, 0)
		}
		if !writes {
			continue
		}
		n++
		c.Check(width, "FMT-INDENT", shortFuncName(fn), at, "bytes are handed to the format writer for an Indent node on a path that never asks for its width")
	}
	c.Analysed["functions_writing_by_inline_kind"] = n
	if n < 1 {
		c.Undecided("FMT-INDENT", "instance-count", token.NoPos, fmt.Sprintf("%d functions of package format write by inline kind; the dispatch idiom must still be recognised", n))
	}
}

func init() {
	addControls(
		Control{Name: "indent-node-in-code-written-as-its-tab", Props: []string{"C20"}, File: "format/format.go",
			Old: "\tcase commonmark.IndentKind:\n\t\tif cursor.ParentBlock().Kind().IsCode() {", New: "\tcase commonmark.IndentKind:\n\t\tif false && cursor.ParentBlock().Kind().IsCode() {", Expect: "FMT-INDENT/format.visitInline",
			Why: "the defect repaired by /repo 6ff9d79: after e535378 made a whole tab in a container stay a tab, the formatter's habit of writing an Indent node's source bytes changed the document's meaning"},
	)
}
