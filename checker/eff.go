package main

// eff.go — EFF: write-effect / ownership / global-state analysis over module SSA
// (field-based, allocation-site heap abstraction; see DESIGN.md §2 EFF).

import (
	"fmt"
	"go/token"
	"go/types"
	"sort"
	"strings"

	"golang.org/x/tools/go/callgraph"
	"golang.org/x/tools/go/ssa"
)

type callSite struct {
	instr  ssa.CallInstruction
	caller *ssa.Function
}

type effEngine struct {
	p          *Program
	callers    map[*ssa.Function][]callSite
	callees    map[ssa.CallInstruction][]*ssa.Function
	closures   map[*ssa.Function][]*ssa.MakeClosure // MakeClosure sites per anonymous function
	stores     map[string][]ssa.Value               // cell key -> stored values (module-wide)
	scratch    map[*types.Named]bool
	scratchWhy map[*types.Named]string
	allFns     []*ssa.Function // module functions plus synthetic wrappers with bodies that call into the module
}

func newEFF(p *Program) *effEngine {
	e := &effEngine{p: p, callers: map[*ssa.Function][]callSite{}, callees: map[ssa.CallInstruction][]*ssa.Function{},
		closures: map[*ssa.Function][]*ssa.MakeClosure{}, stores: map[string][]ssa.Value{}, scratch: map[*types.Named]bool{}, scratchWhy: map[*types.Named]string{}}
	cg := p.CallGraph()
	seenFn := map[*ssa.Function]bool{}
	for fn, node := range cg.Nodes {
		if fn == nil || fn.Blocks == nil {
			continue
		}
		relevant := p.InModule(fn)
		if !relevant && fn.Synthetic != "" {
			// wrappers (thunks, bound methods) around module methods
			for _, out := range node.Out {
				if p.InModule(out.Callee.Func) {
					relevant = true
				}
			}
		}
		if !relevant {
			continue
		}
		if !seenFn[fn] {
			seenFn[fn] = true
			e.allFns = append(e.allFns, fn)
		}
	}
	sort.Slice(e.allFns, func(i, j int) bool { return e.allFns[i].String() < e.allFns[j].String() })
	for _, fn := range e.allFns {
		node := cg.Nodes[fn]
		for _, out := range node.Out {
			cal := out.Callee.Func
			if out.Site == nil {
				continue
			}
			e.callees[out.Site] = append(e.callees[out.Site], cal)
			if cal.Blocks != nil && seenFn[cal] {
				e.callers[cal] = append(e.callers[cal], callSite{out.Site, fn})
			}
		}
		eachInstr(fn, func(in ssa.Instruction) {
			if mc, ok := in.(*ssa.MakeClosure); ok {
				if f, ok := mc.Fn.(*ssa.Function); ok {
					e.closures[f] = append(e.closures[f], mc)
				}
			}
		})
	}
	// scratch candidates start optimistic; stores index needs cellsOf which needs callers only
	for _, fn := range e.allFns {
		eachInstr(fn, func(in ssa.Instruction) {
			switch x := in.(type) {
			case *ssa.Store:
				for k := range e.cellsOf(x.Addr) {
					e.stores[k] = append(e.stores[k], x.Val)
				}
			}
		})
	}
	e.computeScratch()
	return e
}

// argFor returns the value passed for parameter index pi of callee at the given site.
func argFor(site ssa.CallInstruction, callee *ssa.Function, pi int) ssa.Value {
	c := site.Common()
	if c.IsInvoke() {
		if pi == 0 {
			return c.Value
		}
		if pi-1 < len(c.Args) {
			return c.Args[pi-1]
		}
		return nil
	}
	if pi < len(c.Args) {
		return c.Args[pi]
	}
	return nil
}

func paramIndex(p *ssa.Parameter) int {
	for i, q := range p.Parent().Params {
		if q == p {
			return i
		}
	}
	return -1
}

func freeVarIndex(fv *ssa.FreeVar) int {
	for i, q := range fv.Parent().FreeVars {
		if q == fv {
			return i
		}
	}
	return -1
}

func isExportedFunc(f *ssa.Function) bool {
	if f.Parent() != nil || f.Synthetic != "" {
		return false
	}
	obj, ok := f.Object().(*types.Func)
	if !ok || !obj.Exported() {
		return false
	}
	if recv := obj.Type().(*types.Signature).Recv(); recv != nil {
		n := namedOf(recv.Type())
		return n != nil && n.Obj().Exported()
	}
	return true
}

// ---------------------------------------------------------------------------------------------
// cells: abstract memory cells an address may denote

func (e *effEngine) cellsOf(addr ssa.Value) map[string]bool {
	acc := map[string]bool{}
	e.cells(addr, acc, map[ssa.Value]bool{})
	return acc
}

func cellKeyField(fa *ssa.FieldAddr) string {
	t, f, _ := fieldAddrInfo(fa)
	return "F:" + t + "." + f
}

func (e *effEngine) cells(v ssa.Value, acc map[string]bool, seen map[ssa.Value]bool) {
	if seen[v] {
		return
	}
	seen[v] = true
	switch x := v.(type) {
	case *ssa.Alloc:
		acc[fmt.Sprintf("A:%p", x)] = true
	case *ssa.Global:
		acc["G:"+x.Name()] = true
	case *ssa.FieldAddr:
		acc[cellKeyField(x)] = true
		if g := globalRoot(x.X); g != nil {
			acc["G:"+g.Name()] = true
		}
	case *ssa.IndexAddr:
		acc["E:"+deref(x.Type()).String()] = true
		// an element of a package-level table (or of a table reachable from one) is package-level state too
		if g := globalRoot(x.X); g != nil {
			acc["G:"+g.Name()] = true
		}
	case *ssa.Parameter:
		pi := paramIndex(x)
		for _, cs := range e.callers[x.Parent()] {
			if a := argFor(cs.instr, x.Parent(), pi); a != nil {
				e.cells(a, acc, seen)
			}
		}
		if isExportedFunc(x.Parent()) {
			acc["P:"+shortFuncName(x.Parent())+"."+x.Name()] = true
		}
	case *ssa.FreeVar:
		fi := freeVarIndex(x)
		for _, mc := range e.closures[x.Parent()] {
			e.cells(mc.Bindings[fi], acc, seen)
		}
	case *ssa.Phi:
		for _, ed := range x.Edges {
			e.cells(ed, acc, seen)
		}
	case *ssa.ChangeType:
		e.cells(x.X, acc, seen)
	case *ssa.Convert:
		e.cells(x.X, acc, seen)
	case *ssa.Const:
	default:
		acc["U:"+fmt.Sprintf("%T", v)] = true
	}
}

// ---------------------------------------------------------------------------------------------
// classification of the memory a pointer-like value refers to

type classSet map[string]bool

func (cs classSet) list() []string {
	var out []string
	for k := range cs {
		out = append(out, k)
	}
	sort.Strings(out)
	return out
}

type classifier struct {
	e        *effEngine
	acc      classSet
	seen     map[ssa.Value]bool
	seenCell map[string]bool
}

func (e *effEngine) classify(v ssa.Value) classSet {
	c := &classifier{e: e, acc: classSet{}, seen: map[ssa.Value]bool{}, seenCell: map[string]bool{}}
	c.val(v)
	return c.acc
}

// outParams: API parameters documented as caller-owned output buffers.
var outParams = map[string]bool{
	"(*HTMLRenderer).AppendBlock.dst": true,
}

func (c *classifier) val(v ssa.Value) {
	if v == nil || c.seen[v] {
		return
	}
	c.seen[v] = true
	// type-based fast path: a pointer to a scratch-typed struct denotes call-owned memory
	if pt, ok := v.Type().Underlying().(*types.Pointer); ok {
		if n := namedOf(pt.Elem()); n != nil && c.e.scratch[n] {
			c.acc["scratch:"+n.Obj().Name()] = true
			return
		}
	}
	switch x := v.(type) {
	case *ssa.Alloc, *ssa.MakeSlice, *ssa.MakeMap, *ssa.MakeChan:
		c.acc["local"] = true
	case *ssa.Const:
		// nil or constant: no memory
	case *ssa.Global:
		c.acc["global:"+x.Name()] = true
	case *ssa.Function, *ssa.Builtin:
	case *ssa.Parameter:
		pi := paramIndex(x)
		for _, cs := range c.e.callers[x.Parent()] {
			if a := argFor(cs.instr, x.Parent(), pi); a != nil {
				c.val(a)
			}
		}
		if isExportedFunc(x.Parent()) {
			key := shortFuncName(x.Parent()) + "." + x.Name()
			if outParams[key] {
				c.acc["out:"+key] = true
			} else {
				c.acc["api:"+key] = true
			}
		} else if len(c.e.callers[x.Parent()]) == 0 {
			c.acc["unknown:param of uncalled function "+shortFuncName(x.Parent())] = true
		}
	case *ssa.FreeVar:
		fi := freeVarIndex(x)
		for _, mc := range c.e.closures[x.Parent()] {
			c.val(mc.Bindings[fi])
		}
	case *ssa.Phi:
		for _, ed := range x.Edges {
			c.val(ed)
		}
	case *ssa.FieldAddr:
		c.val(x.X)
	case *ssa.IndexAddr:
		c.val(x.X)
	case *ssa.Slice:
		if _, isStr := x.X.Type().Underlying().(*types.Basic); isStr {
			return
		}
		c.val(x.X)
	case *ssa.ChangeType:
		c.val(x.X)
	case *ssa.Convert:
		if b, ok := x.X.Type().Underlying().(*types.Basic); ok && b.Info()&types.IsString != 0 {
			c.acc["local"] = true // string -> []byte/[]rune conversion allocates
			return
		}
		c.val(x.X)
	case *ssa.MakeInterface:
		c.val(x.X)
	case *ssa.ChangeInterface:
		c.val(x.X)
	case *ssa.TypeAssert:
		c.val(x.X)
	case *ssa.MakeClosure:
		c.acc["local"] = true
	case *ssa.Extract:
		if call, ok := x.Tuple.(*ssa.Call); ok {
			c.callResult(call, x.Index)
			return
		}
		c.acc["shared:tuple element"] = true
	case *ssa.UnOp:
		if x.Op == token.MUL {
			for k := range c.e.cellsOf(x.X) {
				c.cell(k, x)
			}
			return
		}
		c.acc["unknown:unop"] = true
	case *ssa.Field:
		// field of a struct value: the struct value was loaded from somewhere
		c.val(x.X)
	case *ssa.Index:
		c.val(x.X)
	case *ssa.Lookup:
		c.acc["shared:map element"] = true
	case *ssa.Next, *ssa.Range:
		c.acc["shared:range element"] = true
	case *ssa.Call:
		c.callResult(x, 0)
	case *ssa.BinOp:
	default:
		c.acc[fmt.Sprintf("unknown:%T", v)] = true
	}
}

func (c *classifier) cell(key string, load *ssa.UnOp) {
	if c.seenCell[key] {
		return
	}
	c.seenCell[key] = true
	switch key[0] {
	case 'A':
		for _, v := range c.e.stores[key] {
			c.val(v)
		}
	case 'G':
		c.acc["global:"+key[2:]] = true
	case 'F':
		tf := key[2:]
		tname := tf[:strings.LastIndex(tf, ".")]
		if c.e.scratchByName(tname) {
			for _, v := range c.e.stores[key] {
				c.val(v)
			}
		} else {
			c.acc["shared:"+tf] = true
		}
	case 'E':
		c.acc["shared:element of "+key[2:]] = true
	case 'P':
		c.acc["api:"+key[2:]] = true
	default:
		c.acc["unknown:"+key] = true
	}
}

func (e *effEngine) scratchByName(name string) bool {
	for n, ok := range e.scratch {
		if ok && n.Obj().Name() == name {
			return true
		}
	}
	return false
}

// extAlias: external callees whose result aliases (or extends) an argument; others returning fresh memory.
var extAliasArg0 = map[string]bool{
	"bytes.TrimLeft": true, "bytes.TrimRight": true, "bytes.TrimSpace": true, "bytes.Trim": true, "bytes.TrimPrefix": true, "bytes.TrimSuffix": true,
	"bytes.TrimFunc": true, "bytes.TrimLeftFunc": true, "bytes.TrimRightFunc": true,
	"strconv.AppendInt": true, "strconv.AppendUint": true, "strconv.AppendQuote": true, "strconv.AppendBool": true, "strconv.AppendFloat": true,
	"unicode/utf8.AppendRune": true, "fmt.Appendf": true, "fmt.Append": true, "fmt.Appendln": true,
	"slices.Grow": true, "slices.Clip": true, "slices.Insert": true, "slices.Delete": true,
}
var extFresh = map[string]bool{
	"strings.Fields": true, "strings.Split": true, "strings.SplitN": true, "bytes.Fields": true, "bytes.Split": true,
	"bytes.ToLower": true, "bytes.ToUpper": true, "bytes.Clone": true, "bytes.Repeat": true, "bytes.Join": true,
	"slices.Clone": true, "fmt.Errorf": true, "errors.New": true, "fmt.Sprintf": true,
	"golang.org/x/text/cases.Fold": true,
}

func (c *classifier) callResult(call *ssa.Call, idx int) {
	if b, ok := call.Call.Value.(*ssa.Builtin); ok {
		switch b.Name() {
		case "append":
			c.acc["local"] = true
			c.val(call.Call.Args[0])
		case "min", "max", "len", "cap":
		default:
			c.acc["unknown:builtin "+b.Name()] = true
		}
		return
	}
	cals := c.e.callees[call]
	if f := call.Call.StaticCallee(); f != nil && len(cals) == 0 {
		cals = []*ssa.Function{f}
	}
	if len(cals) == 0 {
		c.acc["ext:result of dynamic call "+call.Call.Value.String()] = true
		return
	}
	for _, f := range cals {
		if f.Blocks != nil && (c.e.p.InModule(f) || f.Synthetic != "") {
			for _, b := range f.Blocks {
				if r, ok := b.Instrs[len(b.Instrs)-1].(*ssa.Return); ok && idx < len(r.Results) {
					c.val(r.Results[idx])
				}
			}
			continue
		}
		name := f.String()
		switch {
		case extAliasArg0[name]:
			c.acc["local"] = true
			c.val(call.Call.Args[0])
		case extFresh[name], name == "(*sync.Pool).Get":
			c.acc["local"] = true
		default:
			if !isPointerLike(call.Type()) {
				continue
			}
			c.acc["ext:result of "+name] = true
		}
	}
}

// ---------------------------------------------------------------------------------------------
// scratch types: unexported struct types none of whose allocation sites escapes the allocating call tree

func (e *effEngine) computeScratch() {
	cands := map[*types.Named]bool{}
	allocs := map[*types.Named][]ssa.Value{}
	addAlloc := func(t types.Type, v ssa.Value) {
		// unwrap arrays/slices of T
		for {
			switch u := t.Underlying().(type) {
			case *types.Array:
				t = u.Elem()
				continue
			case *types.Slice:
				t = u.Elem()
				continue
			}
			break
		}
		n := namedOf(t)
		if n == nil || n.Obj().Pkg() == nil || n.Obj().Exported() {
			return
		}
		if _, ok := n.Underlying().(*types.Struct); !ok {
			return
		}
		pp := n.Obj().Pkg().Path()
		if pp != cmPath && pp != fmtPath {
			return
		}
		cands[n] = true
		allocs[n] = append(allocs[n], v)
	}
	for _, fn := range e.allFns {
		eachInstr(fn, func(in ssa.Instruction) {
			switch x := in.(type) {
			case *ssa.Alloc:
				addAlloc(deref(x.Type()), x)
			case *ssa.MakeSlice:
				addAlloc(x.Type(), x)
			}
		})
	}
	// optimistic start, remove escaping ones until stable (escape analysis consults e.scratch for store targets)
	for n := range cands {
		e.scratch[n] = true
	}
	for changed := true; changed; {
		changed = false
		for n := range cands {
			if !e.scratch[n] {
				continue
			}
			for _, a := range allocs[n] {
				if esc, why := e.escapes(a); esc {
					e.scratch[n] = false
					e.scratchWhy[n] = why
					changed = true
					break
				}
			}
			// type-level: no non-scratch module struct may embed T by value or hold a typed reference to it
		}
	}
	for n := range cands {
		if !e.scratch[n] {
			continue
		}
		for m := range cands {
			_ = m
		}
	}
	// package-level variables hold their type reach by definition
	for _, sp := range []*ssa.Package{e.p.CMs, e.p.FMTs} {
		for _, m := range sp.Members {
			if g, ok := m.(*ssa.Global); ok {
				for _, r := range typeReach(deref(g.Type())) {
					if e.scratch[r] {
						e.scratch[r] = false
						e.scratchWhy[r] = "held by package-level variable " + g.Name()
					}
				}
			}
		}
	}
	// type-level holder check against all module named struct types (exported or not)
	for _, pk := range []*types.Package{e.p.CM.Types, e.p.FMT.Types} {
		sc := pk.Scope()
		for _, name := range sc.Names() {
			tn, ok := sc.Lookup(name).(*types.TypeName)
			if !ok {
				continue
			}
			hn, ok := tn.Type().(*types.Named)
			if !ok {
				continue
			}
			st, ok := hn.Underlying().(*types.Struct)
			if !ok || e.scratch[hn] {
				continue
			}
			for i := 0; i < st.NumFields(); i++ {
				for _, r := range typeReach(st.Field(i).Type()) {
					if e.scratch[r] {
						e.scratch[r] = false
						e.scratchWhy[r] = fmt.Sprintf("non-scratch type %s can hold it in field %s", hn.Obj().Name(), st.Field(i).Name())
					}
				}
			}
		}
	}
}

// typeReach lists the named struct types statically reachable from t (not through interfaces or funcs).
func typeReach(t types.Type) []*types.Named {
	var out []*types.Named
	seen := map[types.Type]bool{}
	var walk func(t types.Type)
	walk = func(t types.Type) {
		if seen[t] {
			return
		}
		seen[t] = true
		if n, ok := types.Unalias(t).(*types.Named); ok {
			if _, isS := n.Underlying().(*types.Struct); isS {
				out = append(out, n)
			}
			walk(n.Underlying())
			return
		}
		switch u := t.(type) {
		case *types.Pointer:
			walk(u.Elem())
		case *types.Slice:
			walk(u.Elem())
		case *types.Array:
			walk(u.Elem())
		case *types.Map:
			walk(u.Key())
			walk(u.Elem())
		case *types.Struct:
			for i := 0; i < u.NumFields(); i++ {
				walk(u.Field(i).Type())
			}
		}
	}
	walk(t)
	return out
}

// escapes reports whether (a pointer to) the allocation v can leave the call tree that allocated it:
// stored into non-local/non-scratch memory, passed to external code, returned from the exported API, sent or spawned.
// Two modes are tracked: ptr (the value is or aliases a pointer into the object) and holder (the value is the
// address of memory that contains such a pointer, e.g. a captured variable cell or a local options struct).
func (e *effEngine) escapes(v ssa.Value) (bool, string) {
	target := namedOf(deref(v.Type()))
	if a, ok := deref(v.Type()).Underlying().(*types.Array); ok {
		target = namedOf(a.Elem())
	}
	if sl, ok := v.Type().Underlying().(*types.Slice); ok {
		target = namedOf(sl.Elem())
	}
	type key struct {
		v      ssa.Value
		holder bool
	}
	seen := map[key]bool{}
	var why string
	fail := func(s string) bool {
		if why == "" {
			why = s
		}
		return true
	}
	// mayCarry: could a value of this type be or contain a pointer to the target object?
	mayCarry := func(t types.Type) bool {
		if !isPointerLike(t) {
			return false
		}
		var opaque func(t types.Type, seen map[types.Type]bool) bool
		opaque = func(t types.Type, seen map[types.Type]bool) bool {
			if seen[t] {
				return false
			}
			seen[t] = true
			switch u := t.Underlying().(type) {
			case *types.Interface, *types.Signature:
				return true
			case *types.Basic:
				return u.Kind() == types.UnsafePointer
			case *types.Pointer:
				return opaque(u.Elem(), seen)
			case *types.Slice:
				return opaque(u.Elem(), seen)
			case *types.Array:
				return opaque(u.Elem(), seen)
			case *types.Map:
				return opaque(u.Key(), seen) || opaque(u.Elem(), seen)
			case *types.Struct:
				for i := 0; i < u.NumFields(); i++ {
					if opaque(u.Field(i).Type(), seen) {
						return true
					}
				}
			}
			return false
		}
		if opaque(t, map[types.Type]bool{}) {
			return true
		}
		for _, n := range typeReach(t) {
			if n == target {
				return true
			}
		}
		return false
	}
	var esc func(v ssa.Value, holder bool, depth int) bool
	storeInto := func(x *ssa.Store, depth int) bool {
		root := x.Addr
		for {
			if fa, ok := root.(*ssa.FieldAddr); ok {
				root = fa.X
				continue
			}
			if ia, ok := root.(*ssa.IndexAddr); ok {
				root = ia.X
				continue
			}
			break
		}
		switch rt := root.(type) {
		case *ssa.Alloc:
			return esc(rt, true, depth+1)
		case *ssa.FreeVar, *ssa.Parameter, *ssa.Phi, *ssa.UnOp, *ssa.Call, *ssa.Slice, *ssa.MakeSlice, *ssa.Extract:
			if n := namedOf(deref(root.Type())); n != nil && e.scratch[n] {
				return false // stored into a scratch-typed object, which is checked on its own
			}
			cls := e.classify(root)
			onlyLocal := len(cls) > 0
			for k := range cls {
				if k != "local" && !strings.HasPrefix(k, "scratch:") {
					onlyLocal = false
				}
			}
			if !onlyLocal {
				return fail(fmt.Sprintf("stored into non-local memory at %s (%s)", e.p.Pos(x.Pos()), strings.Join(cls.list(), ",")))
			}
			// local memory reached through a variable: the holder is whatever that memory is; follow the root as holder
			return esc(root, true, depth+1)
		default:
			return fail(fmt.Sprintf("stored into non-local memory at %s", e.p.Pos(x.Pos())))
		}
	}
	esc = func(v ssa.Value, holder bool, depth int) bool {
		k := key{v, holder}
		if seen[k] {
			return false
		}
		seen[k] = true
		if depth > 60 {
			return fail("escape analysis depth bound exceeded")
		}
		for _, r := range refsOf(v) {
			switch x := r.(type) {
			case *ssa.Store:
				if x.Val != v {
					continue // a write into v's referent
				}
				// the pointer (or the holder's address) is stored somewhere
				if storeInto(x, depth) {
					return true
				}
			case *ssa.FieldAddr:
				if esc(x, holder, depth+1) {
					return true
				}
			case *ssa.IndexAddr:
				if esc(x, holder, depth+1) {
					return true
				}
			case *ssa.Slice, *ssa.Phi, *ssa.ChangeType, *ssa.Convert, *ssa.MakeInterface, *ssa.ChangeInterface, *ssa.TypeAssert:
				if esc(r.(ssa.Value), holder, depth+1) {
					return true
				}
			case *ssa.Extract, *ssa.Field, *ssa.Index:
				// component of a by-value aggregate that carries the pointer
				if mayCarry(r.(ssa.Value).Type()) {
					if esc(r.(ssa.Value), holder, depth+1) {
						return true
					}
				}
			case *ssa.UnOp:
				if x.Op != token.MUL {
					continue
				}
				if holder {
					// reading the held pointer back
					if mayCarry(x.Type()) {
						if esc(x, false, depth+1) {
							return true
						}
					}
				} else if _, isStruct := x.Type().Underlying().(*types.Struct); isStruct && v.Type().String() != "" {
					// by-value copy of the object itself: a copy is a new object; its pointer-like contents are not the object
				}
			case *ssa.MakeClosure:
				if esc(x, false, depth+1) {
					return true
				}
				if f, ok := x.Fn.(*ssa.Function); ok {
					for i, b := range x.Bindings {
						if b == v && i < len(f.FreeVars) {
							if esc(f.FreeVars[i], holder, depth+1) {
								return true
							}
						}
					}
				}
			case ssa.CallInstruction:
				com := x.Common()
				if _, isGo := x.(*ssa.Go); isGo {
					return fail("passed to a goroutine at " + e.p.Pos(x.Pos()))
				}
				if b, ok := com.Value.(*ssa.Builtin); ok {
					switch b.Name() {
					case "append":
						if val, ok := x.(ssa.Value); ok && esc(val, holder, depth+1) {
							return true
						}
					case "copy":
						if len(com.Args) == 2 && com.Args[1] == v && mayCarry(v.Type()) {
							if esc(com.Args[0], true, depth+1) {
								return true
							}
						}
					}
					continue
				}
				if com.Value == v && !com.IsInvoke() {
					continue // v is the function being called
				}
				cals := e.callees[x]
				if f := com.StaticCallee(); f != nil && len(cals) == 0 {
					cals = []*ssa.Function{f}
				}
				if len(cals) == 0 {
					return fail("passed to an unresolved dynamic call at " + e.p.Pos(x.Pos()))
				}
				usedAsArg := false
				for _, f := range cals {
					if f.Blocks == nil || !(e.p.InModule(f) || f.Synthetic != "") {
						if externalRetains(f) {
							return fail("passed to external function " + f.String() + " at " + e.p.Pos(x.Pos()))
						}
						continue
					}
					for pi, p := range f.Params {
						if argFor(x, f, pi) == v {
							usedAsArg = true
							if esc(p, holder, depth+1) {
								return true
							}
						}
					}
				}
				_ = usedAsArg
			case *ssa.Return:
				fn := x.Parent()
				if isExportedFunc(fn) {
					return fail("returned from exported " + shortFuncName(fn))
				}
				idx := 0
				for i, res := range x.Results {
					if res == v {
						idx = i
					}
				}
				for _, cs := range e.callers[fn] {
					val, ok := cs.instr.(ssa.Value)
					if !ok {
						continue
					}
					if len(x.Results) > 1 {
						for _, ref := range refsOf(val) {
							if ex, ok := ref.(*ssa.Extract); ok && ex.Index == idx {
								if esc(ex, holder, depth+1) {
									return true
								}
							}
						}
					} else if esc(val, holder, depth+1) {
						return true
					}
				}
				if len(e.callers[fn]) == 0 {
					return fail("returned from function without known callers " + shortFuncName(fn))
				}
			case *ssa.MapUpdate:
				if x.Value == v || x.Key == v {
					cls := e.classify(x.Map)
					for k := range cls {
						if k != "local" && !strings.HasPrefix(k, "scratch:") {
							return fail("stored into non-local map at " + e.p.Pos(x.Pos()))
						}
					}
					if esc(x.Map, true, depth+1) {
						return true
					}
				}
			case *ssa.Send:
				return fail("sent on a channel at " + e.p.Pos(x.Pos()))
			}
		}
		return false
	}
	r := esc(v, false, 0)
	return r, why
}

// externalRetains: external callees are assumed not to retain their arguments unless listed (none used today retain).
func externalRetains(f *ssa.Function) bool {
	if f.Pkg == nil {
		return true
	}
	switch f.Pkg.Pkg.Path() {
	case "bytes", "strings", "unicode", "unicode/utf8", "strconv", "html", "fmt", "errors", "math", "sort", "slices",
		"golang.org/x/net/html/atom", "golang.org/x/text/cases":
		return false
	}
	return true
}

func (e *effEngine) classifyNoScratchShortcut(v ssa.Value) classSet {
	return e.classify(v)
}

// ---------------------------------------------------------------------------------------------
// writes

type writeSite struct {
	instr  ssa.Instruction
	target ssa.Value // pointer/slice/map written through
	kind   string
}

// writesOf lists every instruction of fn that writes memory.
func (e *effEngine) writesOf(fn *ssa.Function) []writeSite {
	var out []writeSite
	eachInstr(fn, func(in ssa.Instruction) {
		switch x := in.(type) {
		case *ssa.Store:
			out = append(out, writeSite{x, x.Addr, "store"})
		case *ssa.MapUpdate:
			out = append(out, writeSite{x, x.Map, "map update"})
		case ssa.CallInstruction:
			com := x.Common()
			if b, ok := com.Value.(*ssa.Builtin); ok {
				switch b.Name() {
				case "append":
					// append writes into arg 0's backing array when capacity allows
					if len(com.Args) > 0 {
						out = append(out, writeSite{x, com.Args[0], "append"})
					}
				case "copy", "clear":
					out = append(out, writeSite{x, com.Args[0], b.Name()})
				case "delete":
					out = append(out, writeSite{x, com.Args[0], "delete"})
				}
				return
			}
			// external callees that write through an argument
			if f := com.StaticCallee(); f != nil && f.Blocks == nil {
				for _, ai := range extWritesArgs(f) {
					if ai < len(com.Args) {
						out = append(out, writeSite{x, com.Args[ai], "external " + f.String()})
					}
				}
			}
			if com.IsInvoke() && com.Method.Name() == "Read" && len(com.Args) == 1 {
				out = append(out, writeSite{x, com.Args[0], "io.Reader.Read buffer"})
			}
		}
	})
	return out
}

// extWritesArgs: argument indices an external function writes through (static callees only; receiver is index 0).
func extWritesArgs(f *ssa.Function) []int {
	name := f.String()
	switch {
	case strings.HasPrefix(name, "strconv.Append"), name == "unicode/utf8.EncodeRune", name == "unicode/utf8.AppendRune",
		strings.HasPrefix(name, "fmt.Append"), name == "encoding/binary.PutUvarint":
		return []int{0}
	case strings.HasPrefix(name, "(*strings.Builder)."), strings.HasPrefix(name, "(*bytes.Buffer)."):
		return []int{0}
	case name == "sort.Slice", name == "sort.SliceStable", name == "sort.Strings", name == "sort.Ints", strings.HasPrefix(name, "slices.Sort"), name == "slices.Reverse":
		return []int{0}
	}
	return nil
}

// targetObject strips field/index addressing to the pointer (or slice/map) whose referent is written.
func targetObject(addr ssa.Value) ssa.Value {
	for {
		switch x := addr.(type) {
		case *ssa.FieldAddr:
			if _, isAlloc := x.X.(*ssa.Alloc); isAlloc {
				return x.X
			}
			// object pointed to by x.X
			return x.X
		case *ssa.IndexAddr:
			return x.X
		default:
			return addr
		}
	}
}

// classifyWrite classifies the memory written by a write site.
func (e *effEngine) classifyWrite(w writeSite) classSet {
	t := w.target
	if w.kind == "store" {
		// nested addressing &a.b.c / &a[i].f : walk to the outermost object
		for {
			switch x := t.(type) {
			case *ssa.FieldAddr:
				t = x.X
				if _, ok := t.(*ssa.FieldAddr); ok {
					continue
				}
				if _, ok := t.(*ssa.IndexAddr); ok {
					continue
				}
			case *ssa.IndexAddr:
				t = x.X
				if _, ok := t.(*ssa.FieldAddr); ok {
					// &x.f[i] where f is an array field
					continue
				}
			}
			break
		}
	}
	return e.classify(t)
}

// reachableFrom computes module functions reachable from the entries through the call graph. The callback calls
// inside commonmark.Walk are context-sensitive: only callbacks that a function already in the set stores into a
// WalkOptions value are followed (the renderer's callbacks are not reachable from Format and vice versa), instead of
// every function of a matching signature.
func (e *effEngine) reachableFrom(entries []*ssa.Function) map[*ssa.Function]bool {
	cg := e.p.CallGraph()
	walk := e.p.Func("Walk")
	seen := map[*ssa.Function]bool{}
	// callbacks stored into WalkOptions (or any struct field of func type named Pre/Post/ChildCount/Child) by fn
	callbacksOf := func(fn *ssa.Function) []*ssa.Function {
		var out []*ssa.Function
		for _, f := range withAnons(fn) {
			eachInstr(f, func(in ssa.Instruction) {
				st, ok := in.(*ssa.Store)
				if !ok {
					return
				}
				fa, ok := st.Addr.(*ssa.FieldAddr)
				if !ok {
					return
				}
				if tn, _, _ := fieldAddrInfo(fa); tn != "WalkOptions" {
					return
				}
				if g := funcValueOf(st.Val); g != nil {
					out = append(out, g)
					// a bound-method wrapper or trampoline: also what it calls is found by the normal traversal
				}
			})
		}
		return out
	}
	allowed := map[*ssa.Function]bool{}
	var visit func(n *callgraph.Node)
	visit = func(n *callgraph.Node) {
		if n == nil || n.Func == nil || seen[n.Func] {
			return
		}
		seen[n.Func] = true
		for _, cb := range callbacksOf(n.Func) {
			allowed[cb] = true
		}
		for _, out := range n.Out {
			if walk != nil && n.Func == walk && out.Site != nil && out.Site.Common().StaticCallee() == nil && !out.Site.Common().IsInvoke() {
				continue // callback calls of Walk: handled below
			}
			visit(out.Callee)
		}
	}
	for _, f := range entries {
		visit(cg.Nodes[f])
	}
	// follow the allowed callbacks (to a fixed point: callbacks may start further walks)
	for changed := true; changed; {
		changed = false
		if walk == nil || !seen[walk] {
			break
		}
		for cb := range allowed {
			if !seen[cb] {
				visit(cg.Nodes[cb])
				changed = true
			}
		}
	}
	return seen
}

// globalRoot: v is a package-level variable, or an address/value obtained from one by loads, field/element selection and
// re-slicing only (the contents of a global container).
func globalRoot(v ssa.Value) *ssa.Global {
	for d := 0; d < 8; d++ {
		switch x := v.(type) {
		case *ssa.Global:
			return x
		case *ssa.UnOp:
			if x.Op != token.MUL {
				return nil
			}
			v = x.X
		case *ssa.FieldAddr:
			v = x.X
		case *ssa.IndexAddr:
			v = x.X
		case *ssa.Slice:
			v = x.X
		case *ssa.Field:
			v = x.X
		case *ssa.Index:
			v = x.X
		default:
			return nil
		}
	}
	return nil
}
