package main

// C20 — FMT-QUOTE: text written between double quotes by the formatter has its quotes and backslashes escaped.

import (
	"fmt"
	"go/token"
	"strings"

	"golang.org/x/tools/go/ssa"
)

func ruleFmtQuote(c *Ctx) {
	c.Rule("FMT-QUOTE", "The formatter writes link titles between double quotes. In package format, wherever a write of a constant that ends in '\"' is followed in the same straight-line code by a write of a non-constant string and then by a write of a constant that starts with '\"', the non-constant string is the result of a call that is handed the quote character as a constant (a strings.Replacer built from constants, strings.ReplaceAll, or a function of the package in which a backslash can be written in front of '\"' and of '\\\\'): a title taken verbatim from the tree may contain a double quote (written \\\" or &quot; in the source), and written back unescaped it ends the title early — the link is no longer a link.")
	p := c.P
	n := 0
	for _, fn := range p.Funcs {
		if fn.Pkg != p.FMTs || fn.Blocks == nil {
			continue
		}
		for _, b := range fn.Blocks {
			// the sequence of writer calls in this block: (const string | dynamic value)
			type w struct {
				call *ssa.Call
				cst  string
				isC  bool
				arg  ssa.Value
			}
			var ws []w
			for _, in := range b.Instrs {
				call, ok := in.(*ssa.Call)
				if !ok {
					continue
				}
				g := call.Call.StaticCallee()
				if g == nil || g.Pkg != p.FMTs || receiverOf(g) == nil || typeName(deref(receiverOf(g).Type())) != "formatWriter" || len(call.Call.Args) != 2 {
					continue
				}
				if bt := call.Call.Args[1].Type().String(); bt != "string" && bt != "[]byte" {
					continue
				}
				if s, ok := constString(call.Call.Args[1]); ok {
					ws = append(ws, w{call, s, true, nil})
				} else {
					ws = append(ws, w{call, "", false, call.Call.Args[1]})
				}
			}
			for i := 1; i+1 < len(ws); i++ {
				if ws[i].isC || !ws[i-1].isC || !ws[i+1].isC || !strings.HasSuffix(ws[i-1].cst, `"`) || !strings.HasPrefix(ws[i+1].cst, `"`) {
					continue
				}
				n++
				key := fmt.Sprintf("%s:quoted-write#%d", shortFuncName(fn), n)
				good, why := quoteEscaped(p, ws[i].arg, 0)
				c.Check(good, "FMT-QUOTE", key, ws[i].call.Pos(), why)
			}
		}
	}
	c.Analysed["quoted_dynamic_writes"] = n
	if n < 2 {
		c.Undecided("FMT-QUOTE", "instance-count", token.NoPos, fmt.Sprintf("%d writes of dynamic text between double quotes found in package format; 2 confirmed by hand (title of an inline link, title of a reference definition)", n))
	}
}

// quoteEscaped: v is the result of an escaping call that knows about '"'.
func quoteEscaped(p *Program, v ssa.Value, depth int) (bool, string) {
	if depth > 3 {
		return false, "too deep"
	}
	switch x := v.(type) {
	case *ssa.Convert:
		return quoteEscaped(p, x.X, depth+1)
	case *ssa.Call:
		g := x.Call.StaticCallee()
		if g == nil {
			return false, "the text comes from a dynamic call"
		}
		name := g.String()
		switch name {
		case "strings.ReplaceAll":
			if s, ok := constString(x.Call.Args[1]); ok && s == `"` {
				return true, "strings.ReplaceAll of the quote"
			}
		case "(*strings.Replacer).Replace":
			// the replacer: a NewReplacer call (directly, or stored in a package-level variable by the initialiser)
			// one of whose constant arguments is the quote
			if replacerKnowsQuote(p, x.Call.Args[0]) {
				return true, "a strings.Replacer one of whose pairs replaces the quote"
			}
			return false, "the text passes through a strings.Replacer none of whose (constant) pairs is the quote"
		}
		if p.InModule(g) && g.Pkg == p.FMTs {
			// a wrapper: every value it returns is itself the result of an escaping call
			if rets := returnsOf(g); len(rets) > 0 {
				all := true
				for _, r := range rets {
					if len(r.Results) != 1 {
						all = false
						continue
					}
					if ok, _ := quoteEscaped(p, r.Results[0], depth+1); !ok {
						all = false
					}
				}
				if all {
					return true, "a helper of the package that returns an escaping call's result"
				}
			}
			// a function of the package that can write/emit a backslash for '"'
			mentionsQuote, mentionsBackslash := false, false
			for _, h := range withAnons(g) {
				eachInstr(h, func(in ssa.Instruction) {
					for _, op := range in.Operands(nil) {
						if op == nil || *op == nil {
							continue
						}
						if s, ok := constString(*op); ok {
							if strings.Contains(s, `"`) {
								mentionsQuote = true
							}
							if strings.Contains(s, `\`) {
								mentionsBackslash = true
							}
						}
						if k, ok := constInt(*op); ok {
							if k == '"' {
								mentionsQuote = true
							}
							if k == '\\' {
								mentionsBackslash = true
							}
						}
					}
				})
			}
			if mentionsQuote && mentionsBackslash {
				return true, "an escaping function of the package that handles '\"' and '\\'"
			}
			return false, "the text passes through " + g.Name() + ", which does not mention the quote and the backslash"
		}
		return false, "the text is the result of " + name + ": it is written between the quotes as it is"
	}
	return false, "the text is written between the quotes as it is: " + describeValue(v)
}

// replacerKnowsQuote: r is (a load of a package-level variable initialised with) strings.NewReplacer(... "\"" ...).
func replacerKnowsQuote(p *Program, r ssa.Value) bool {
	var ctor *ssa.Call
	switch x := r.(type) {
	case *ssa.Call:
		ctor = x
	case *ssa.UnOp:
		if g, ok := x.X.(*ssa.Global); ok && x.Op == token.MUL {
			for _, fn := range p.Funcs {
				if fn.Name() != "init" {
					continue
				}
				eachInstr(fn, func(in ssa.Instruction) {
					if st, ok := in.(*ssa.Store); ok && st.Addr == ssa.Value(g) {
						if cl, ok := st.Val.(*ssa.Call); ok {
							ctor = cl
						}
					}
				})
			}
		}
	}
	if ctor == nil {
		return false
	}
	if f := ctor.Call.StaticCallee(); f == nil || f.String() != "strings.NewReplacer" || len(ctor.Call.Args) != 1 {
		return false
	}
	sl, ok := ctor.Call.Args[0].(*ssa.Slice)
	if !ok {
		return false
	}
	al, ok := sl.X.(*ssa.Alloc)
	if !ok {
		return false
	}
	found := false
	for _, ref := range refsOf(al) {
		if ia, ok := ref.(*ssa.IndexAddr); ok {
			for _, rr := range refsOf(ia) {
				if st, ok := rr.(*ssa.Store); ok {
					if s, ok := constString(st.Val); ok && s == "\"" {
						found = true
					}
				}
			}
		}
	}
	return found
}

func init() {
	addControls(
		Control{Name: "inline-link-title-written-verbatim", Props: []string{"C20"}, File: "format/format.go",
			Old: "\t\t\t\tfw.s(escapeTitle(title.Text(source)))\n", New: "\t\t\t\tfw.s(title.Text(source))\n", Expect: "FMT-QUOTE/format.postInline",
			Why: "the defect repaired by /repo 5e26a51: a title with an escaped double quote came back unescaped and the link was lost"},
		Control{Name: "title-escaper-without-the-quote", Props: []string{"C20"}, File: "format/format.go",
			Old: "strings.NewReplacer(`\\`, `\\\\`, `\"`, `\\\"`, `&`, `&amp;`)", New: "strings.NewReplacer(`\\`, `\\\\`, `&`, `&amp;`)", Expect: "FMT-QUOTE/"},
		Control{Name: "neg-title-escaped-with-replaceall", Props: []string{"C20"}, File: "format/format.go", Negative: true,
			Old: "\treturn titleEscaper.Replace(title)\n", New: "\ttitle = strings.ReplaceAll(title, `\\`, `\\\\`)\n\ttitle = strings.ReplaceAll(title, `&`, `&amp;`)\n\treturn strings.ReplaceAll(title, `\"`, `\\\"`)\n"},
	)
}
