package main

// EMPH-CLEAR (C11, C05, C06): process-emphasis leaves nothing above stack_bottom.

import (
	"fmt"
	"go/token"

	"golang.org/x/tools/go/ssa"
)

func ruleEmphClear(c *Ctx) {
	c.Rule("EMPH-CLEAR", "On every path from the entry of processEmphasis to a return, the last store into the delimiter stack (inlineState.stack) cuts it down to the stack_bottom parameter: the result of the stack's delete helper called with (stack, stackBottom, len(stack)), or the slice stack[:stackBottom]; no call that may store the stack follows it. This is the last step of the specification's procedure ('we remove all delimiters above stack_bottom'), and the link code relies on it: finishLink removes the opening bracket by index right after the call, and a delimiter left above it from the link text is matched later with delimiters outside the link — emphasis that swallows the link's destination, title or label nodes.")
	p := c.P
	fn := p.Method("InlineParser", "processEmphasis")
	if !c.NeedFunc("EMPH-CLEAR", fn, "(*InlineParser).processEmphasis") {
		return
	}
	var bottom *ssa.Parameter
	for _, prm := range fn.Params {
		if b, ok := prm.Type().Underlying().(interface{ Kind() int }); ok {
			_ = b
		}
		if prm.Type().String() == "int" {
			bottom = prm
		}
	}
	if bottom == nil {
		c.Undecided("EMPH-CLEAR", "processEmphasis:stackBottom", fn.Pos(), "no int parameter (the stack bottom) found")
		return
	}
	storeSet := mayStoreFieldSet(p, "inlineState", "stack")
	isStackLoad := func(v ssa.Value) bool {
		_, ok := isLoadOfField(v, "inlineState", "stack")
		return ok
	}
	isLenOfStack := func(v ssa.Value) bool {
		if call, ok := isBuiltinCall(v, "len"); ok {
			return isStackLoad(call.Call.Args[0])
		}
		return false
	}
	// classify an instruction: +1 truncation to bottom, -1 other store (or call that may store), 0 neutral
	classify := func(in ssa.Instruction) int {
		switch x := in.(type) {
		case *ssa.Store:
			if _, ok := isFieldAddr(x.Addr, "inlineState", "stack"); !ok {
				return 0
			}
			switch v := x.Val.(type) {
			case *ssa.Call:
				g := v.Call.StaticCallee()
				if g != nil && p.InModule(g) && len(v.Call.Args) == 3 && isStackLoad(v.Call.Args[0]) && v.Call.Args[1] == ssa.Value(bottom) && isLenOfStack(v.Call.Args[2]) {
					return 1
				}
			case *ssa.Slice:
				if isStackLoad(v.X) && v.Low == nil && v.High == ssa.Value(bottom) {
					return 1
				}
			}
			return -1
		case ssa.CallInstruction:
			if g := x.Common().StaticCallee(); g != nil && storeSet[g] && g != fn {
				return -1
			}
			if g := x.Common().StaticCallee(); g == fn {
				return -1
			}
		}
		return 0
	}
	// forward must-analysis: in[b] = AND over preds of out[pred]; entry false
	nb := len(fn.Blocks)
	out := make([]bool, nb)
	inS := make([]bool, nb)
	for i := range out {
		out[i] = true // optimistic
	}
	changed := true
	for changed {
		changed = false
		for _, b := range fn.Blocks {
			s := true
			if b.Index == 0 {
				s = false
			}
			for _, pr := range b.Preds {
				s = s && out[pr.Index]
			}
			inS[b.Index] = s
			for _, in := range b.Instrs {
				switch classify(in) {
				case 1:
					s = true
				case -1:
					s = false
				}
			}
			if out[b.Index] != s {
				out[b.Index] = s
				changed = true
			}
		}
	}
	n := 0
	for _, r := range returnsOf(fn) {
		n++
		s := inS[r.Block().Index]
		for _, in := range r.Block().Instrs {
			if in == ssa.Instruction(r) {
				break
			}
			switch classify(in) {
			case 1:
				s = true
			case -1:
				s = false
			}
		}
		c.Check(s, "EMPH-CLEAR", fmt.Sprintf("processEmphasis:return#%d", n), r.Pos(), "a return is reachable on which the delimiter stack has not been cut down to stack_bottom (delimiters of the processed range stay on the stack)")
	}
	if n == 0 {
		c.Undecided("EMPH-CLEAR", "processEmphasis:returns", token.NoPos, "no return found")
	}
}

func init() {
	addControls(
		Control{Name: "process-emphasis-keeps-delimiters-above-bottom", Props: []string{"C11", "C05"}, File: "inlines.go",
			Old: "\t// After we’re done, we remove all delimiters above stack_bottom from the delimiter stack.\n\tstate.stack = deleteDelimiterStack(state.stack, stackBottom, len(state.stack))\n", New: "", Expect: "EMPH-CLEAR/processEmphasis:return",
			Why: "'[*a* *b](/u) c*' then gives emphasis that contains the link's destination node"},
		Control{Name: "neg-process-emphasis-truncates-by-slicing", Props: []string{"C11", "C05"}, File: "inlines.go", Negative: true,
			Old: "\tstate.stack = deleteDelimiterStack(state.stack, stackBottom, len(state.stack))\n}", New: "\tfor i := stackBottom; i < len(state.stack); i++ {\n\t\tstate.stack[i] = delimiterStackElement{}\n\t}\n\tstate.stack = state.stack[:stackBottom]\n}"},
	)
}
