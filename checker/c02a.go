package main

// C02 — CHAR-ADVANCE: a position is moved over several bytes at once only when those bytes are known to be ASCII.

import (
	"fmt"
	"go/token"
	"go/types"
	"sort"
	"strings"

	"golang.org/x/tools/go/ssa"
)

func ruleCharAdvance(c *Ctx) {
	c.Rule("CHAR-ADVANCE", "Span boundaries fall on character boundaries only if a position that is advanced by a constant k >= 2 skips single-byte characters. For every sum X + k (k = 2..4) in package commonmark where the function reads the bytes in between (S[X+j], 0 < j < k): at the point of the sum each such byte is known to be ASCII — over all 256 values of the byte, the sum's block is reachable only for values below 0x80 (the branches on that byte are evaluated, all other branches taken both ways). `end = start + 2` after a backslash whose follower is merely known not to be ASCII punctuation cuts a multi-byte character (and the three-byte padding of a NUL) in two.")
	p := c.P
	e := newBSET(p)
	n := 0
	perFn := map[*ssa.Function]int{}
	for _, fn := range p.Funcs {
		if fn.Pkg != p.CMs || fn.Blocks == nil {
			continue
		}
		// byte loads by (slice term, base term, offset)
		type load struct {
			v      *ssa.UnOp
			ia     *ssa.IndexAddr
			base   ssa.Value
			offset int64
		}
		var loads []load
		eachInstr(fn, func(in ssa.Instruction) {
			ld, ok := in.(*ssa.UnOp)
			if !ok || ld.Op != token.MUL {
				return
			}
			ia, ok := ld.X.(*ssa.IndexAddr)
			if !ok {
				return
			}
			sl, ok := ia.X.Type().Underlying().(*types.Slice)
			if !ok {
				return
			}
			if bt, ok := sl.Elem().Underlying().(*types.Basic); !ok || bt.Kind() != types.Uint8 {
				return
			}
			b, k := splitAdd(ia.Index)
			// a read of S[c:][i] is a read of S[c+i]
			if rs, ok := ia.X.(*ssa.Slice); ok && rs.Low != nil {
				if low, ok := constInt(rs.Low); ok && low > 0 {
					k += low
				}
			}
			loads = append(loads, load{ld, ia, b, k})
		})
		if len(loads) == 0 {
			continue
		}
		eachInstr(fn, func(in ssa.Instruction) {
			bo, ok := in.(*ssa.BinOp)
			if !ok || bo.Op != token.ADD {
				return
			}
			if bt, ok := bo.Type().Underlying().(*types.Basic); !ok || bt.Kind() != types.Int {
				return
			}
			base, k := splitAdd(bo)
			if k < 2 || k > 4 {
				return
			}
			// only the outermost sum of a chain (pos+1)+1
			for _, r := range refsOf(bo) {
				if b2, ok := r.(*ssa.BinOp); ok && b2.Op == token.ADD {
					if _, isC := constInt(b2.Y); isC && b2.X == ssa.Value(bo) {
						return
					}
				}
			}
			// an index used only to read a byte further ahead is not an advance
			onlyIndex := len(refsOf(bo)) > 0
			for _, r := range refsOf(bo) {
				switch x := r.(type) {
				case *ssa.IndexAddr:
					if x.Index != ssa.Value(bo) {
						onlyIndex = false
					}
				case *ssa.BinOp:
					if x.Op == token.ADD || x.Op == token.SUB {
						onlyIndex = false
					}
				case *ssa.DebugRef:
				default:
					onlyIndex = false
				}
			}
			if onlyIndex {
				// comparisons (pos+2 < end) and reads S[pos+2] only
				cmpOnly := true
				for _, r := range refsOf(bo) {
					if _, isIA := r.(*ssa.IndexAddr); isIA {
						continue
					}
					if b2, ok := r.(*ssa.BinOp); ok {
						switch b2.Op {
						case token.LSS, token.LEQ, token.GTR, token.GEQ, token.EQL, token.NEQ:
							continue
						}
					}
					if _, ok := r.(*ssa.DebugRef); ok {
						continue
					}
					cmpOnly = false
				}
				if cmpOnly {
					return
				}
			}
			if !flowsToSpan(p, bo, 0, map[ssa.Value]bool{}) {
				return
			}
			// the bytes in between that the function reads
			var missing []string
			have := 0
			for j := int64(1); j < k; j++ {
				var syms []*ssa.UnOp
				for _, l := range loads {
					if l.offset == j && (l.base == base || sameTerm(l.base, base)) {
						syms = append(syms, l.v)
					}
				}
				if len(syms) == 0 {
					continue
				}
				have++
				isSym := func(v ssa.Value) bool {
					for _, s := range syms {
						if v == ssa.Value(s) {
							return true
						}
					}
					return false
				}
				reach := e.reachUnderSym(fn, isSym, byteDomain())
				var wide []int64
				for d := range reach[bo.Block()] {
					if d >= 0x80 {
						wide = append(wide, d)
					}
				}
				if len(wide) > 0 {
					sort.Slice(wide, func(a, b int) bool { return wide[a] < wide[b] })
					missing = append(missing, fmt.Sprintf("byte at +%d may be 0x%02x..0x%02x (%d non-ASCII values reach this point)", j, wide[0], wide[len(wide)-1], len(wide)))
				}
			}
			if have == 0 {
				return
			}
			n++
			perFn[fn]++
			key := fmt.Sprintf("%s:+%d#%d", shortFuncName(fn), k, perFn[fn])
			c.Check(len(missing) == 0, "CHAR-ADVANCE", key, bo.Pos(), "a position is advanced over bytes that are not known to be ASCII: "+strings.Join(missing, "; "))
		})
	}
	c.Analysed["multi_byte_advances"] = n
}

// flowsToSpan: does the position v end up in the Start or End of a Span — stored in this function (through phis and
// further sums), or returned to a caller of the module that stores it?
func flowsToSpan(p *Program, v ssa.Value, depth int, seen map[ssa.Value]bool) bool {
	if seen[v] {
		return false
	}
	seen[v] = true
	for _, r := range refsOf(v) {
		switch x := r.(type) {
		case *ssa.Store:
			if x.Val != v {
				continue
			}
			if fa, ok := x.Addr.(*ssa.FieldAddr); ok {
				tn, fname, _ := fieldAddrInfo(fa)
				if tn == "Span" && (fname == "Start" || fname == "End") {
					return true
				}
			}
			// a local variable: follow its loads
			if al, ok := x.Addr.(*ssa.Alloc); ok {
				for _, rr := range refsOf(al) {
					if ld, ok := rr.(*ssa.UnOp); ok && ld.Op == token.MUL {
						if flowsToSpan(p, ld, depth, seen) {
							return true
						}
					}
				}
			}
		case *ssa.Phi:
			if flowsToSpan(p, x, depth, seen) {
				return true
			}
		case *ssa.BinOp:
			if (x.Op == token.ADD || x.Op == token.SUB) && flowsToSpan(p, x, depth, seen) {
				return true
			}
		case *ssa.Return:
			if depth >= 2 {
				continue
			}
			fn := x.Parent()
			idx := -1
			for i, res := range x.Results {
				if res == v {
					idx = i
				}
			}
			for _, g := range p.Funcs {
				found := false
				eachInstr(g, func(in ssa.Instruction) {
					call, ok := in.(*ssa.Call)
					if found || !ok || call.Call.StaticCallee() != fn {
						return
					}
					var res ssa.Value = call
					if len(x.Results) > 1 {
						res = nil
						for _, rr := range refsOf(call) {
							if ex, ok := rr.(*ssa.Extract); ok && ex.Index == idx {
								res = ex
							}
						}
					}
					if res != nil && flowsToSpan(p, res, depth+1, seen) {
						found = true
					}
				})
				if found {
					return true
				}
			}
		}
	}
	return false
}

// SPAN-LEN: no inline span boundary is the length of the whole root source.
func ruleSpanLen(c *Ctx) {
	c.Rule("SPAN-LEN", "The source an inline parser state works on is the Source of the whole root block, which also holds the container's markers, sibling blocks and following lines. Its length is therefore never a boundary of an inline node: no value len(state.source) (or len of the reader's source) reaches the Start or End of a Span, in the function itself or through its callers. A fall-back `return len(state.source)` for \"end of the text\" gives the text after the last node of a heading inside a block quote a span that runs over the following lines.")
	p := c.P
	n, bad := 0, 0
	for _, fn := range p.Funcs {
		if fn.Pkg != p.CMs || fn.Blocks == nil {
			continue
		}
		eachInstr(fn, func(in ssa.Instruction) {
			call, ok := in.(*ssa.Call)
			if !ok {
				return
			}
			cl, ok := isBuiltinCall(call, "len")
			if !ok {
				return
			}
			fa, ok := isLoadOfFieldAny(cl.Call.Args[0], "source")
			if !ok {
				return
			}
			tn, _, _ := fieldAddrInfo(fa)
			if tn != "inlineState" && tn != "inlineByteReader" {
				return
			}
			n++
			if flowsToSpan(p, call, 0, map[ssa.Value]bool{}) {
				bad++
				c.Viol("SPAN-LEN", fmt.Sprintf("%s:len(%s.source)", shortFuncName(fn), tn), call.Pos(), "the length of the whole root source can become a boundary of an inline node's span")
			}
		})
	}
	c.Analysed["len_of_inline_source_sites"] = n
	if bad == 0 {
		c.OK("SPAN-LEN", "all", token.NoPos, fmt.Sprintf("%d uses of len(source) in the inline parser; none reaches a span", n))
	}
}
