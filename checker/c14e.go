package main

// C14 — EOF-BREAK: a code line that lacks its line ending gets the synthetic one, whichever kind of code block it is in.

import (
	"fmt"
	"go/token"
	"sort"
	"strings"

	"golang.org/x/tools/go/ssa"
)

func ruleEOFBreak(c *Ctx) {
	c.Rule("EOF-BREAK", "A code block's text is its lines with their line endings; the last line of the input may lack one, and the parser stands in a zero-width soft line break node (Start = End) for it so that the block renders the same with and without a final line ending. Somewhere in package commonmark such a node is created for each of the two code block kinds: collecting, over all sites that build a soft line break whose Start and End are the same term, the block kinds for which the site is reachable (a site inside blockRules[K].onClose counts for K only; elsewhere branches on ContainerKind() / Kind() are decided per kind, all other branches both ways), the union contains IndentedCodeBlockKind and FencedCodeBlockKind. Without the node for one kind, \"```\\nfoo\" and \"```\\nfoo\\n\" render differently.")
	p := c.P
	sbK, _ := kindValue(p, "InlineKind", "SoftLineBreakKind")
	indK, _ := kindValue(p, "BlockKind", "IndentedCodeBlockKind")
	fenK, _ := kindValue(p, "BlockKind", "FencedCodeBlockKind")
	// onClose closures by kind
	onCloseOf := map[*ssa.Function]int64{}
	for k, e := range blockRulesTable(p) {
		if e.onClose != nil {
			onCloseOf[e.onClose] = k
		}
	}
	bs := newBSET(p)
	dom, _ := bs.domainFor(p.NamedType("BlockKind"))
	covered := map[int64][]string{}
	nSites := 0
	for _, fn := range p.Funcs {
		if fn.Pkg != p.CMs || fn.Blocks == nil {
			continue
		}
		var reach map[*ssa.BasicBlock]map[int64]bool
		eachInstr(fn, func(in ssa.Instruction) {
			al, ok := in.(*ssa.Alloc)
			if !ok || typeName(deref(al.Type())) != "Inline" {
				return
			}
			ks := allocKindValues(al)
			if len(ks) != 1 {
				return
			}
			if k, ok := constInt(ks[0]); !ok || k != sbK {
				return
			}
			// zero width: Start and End stored with the same term
			var startV, endV ssa.Value
			for _, r := range refsOf(al) {
				fa, ok := r.(*ssa.FieldAddr)
				if !ok {
					continue
				}
				if tn, f, _ := fieldAddrInfo(fa); tn != "Inline" || f != "span" {
					continue
				}
				for _, r2 := range refsOf(fa) {
					fa2, ok := r2.(*ssa.FieldAddr)
					if !ok {
						continue
					}
					_, f2, _ := fieldAddrInfo(fa2)
					for _, r3 := range refsOf(fa2) {
						if st, ok := r3.(*ssa.Store); ok && st.Addr == ssa.Value(fa2) {
							if f2 == "Start" {
								startV = st.Val
							} else if f2 == "End" {
								endV = st.Val
							}
						}
					}
				}
			}
			if startV == nil || endV == nil || !(startV == endV || sameTerm(startV, endV)) {
				return
			}
			nSites++
			site := fmt.Sprintf("%s@%s", shortFuncName(fn), p.Pos(al.Pos()))
			if k, ok := onCloseOf[fn]; ok {
				covered[k] = append(covered[k], site)
				return
			}
			if par := fn.Parent(); par != nil {
				if k, ok := onCloseOf[par]; ok {
					covered[k] = append(covered[k], site)
					return
				}
			}
			if reach == nil {
				isSym := func(v ssa.Value) bool {
					cl, ok := v.(*ssa.Call)
					if !ok || cl.Call.StaticCallee() == nil {
						return false
					}
					n := cl.Call.StaticCallee().Name()
					return (n == "ContainerKind" || n == "Kind" || n == "TipKind") && typeName(cl.Type()) == "BlockKind"
				}
				reach = bs.reachUnderSym(fn, isSym, dom)
			}
			for _, d := range dom {
				if reach[al.Block()][d] {
					covered[d] = append(covered[d], site)
				}
			}
		})
	}
	c.Analysed["zero_width_soft_break_sites"] = nSites
	for _, k := range []int64{indK, fenK} {
		sites := covered[k]
		sort.Strings(sites)
		c.Check(len(sites) > 0, "EOF-BREAK", blockKindName(p, k), token.NoPos, "sites that create the stand-in line ending for this kind: "+strings.Join(uniqStrings(sites), ", "))
	}
}

func init() {
	addControls(
		Control{Name: "eof-break-for-indented-code-only", Props: []string{"C14"}, File: "parse.go",
			Old: "\tif p.ContainerKind().IsCode() && !hasByteSuffix(p.line, \"\\n\") && !hasByteSuffix(p.line, \"\\r\") {", New: "\tif p.ContainerKind() == IndentedCodeBlockKind && !hasByteSuffix(p.line, \"\\n\") && !hasByteSuffix(p.line, \"\\r\") {", Expect: "EOF-BREAK/FencedCodeBlockKind"},
		Control{Name: "neg-eof-break-kind-test-in-a-local", Props: []string{"C14"}, File: "parse.go", Negative: true,
			Old: "\tif p.ContainerKind().IsCode() && !hasByteSuffix(p.line, \"\\n\") && !hasByteSuffix(p.line, \"\\r\") {", New: "\tinCode := p.ContainerKind() == IndentedCodeBlockKind || p.ContainerKind() == FencedCodeBlockKind\n\tif inCode && !hasByteSuffix(p.line, \"\\n\") && !hasByteSuffix(p.line, \"\\r\") {"},
	)
}
