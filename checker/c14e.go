package main

// C14 — EOF-BREAK: a code line that lacks its line ending gets the synthetic one, whichever kind of code block it is in.

import (
	"fmt"
	"go/token"
	"sort"
	"strings"

	"golang.org/x/tools/go/ssa"
)

func ruleEOFBreak(c *Ctx) {
	c.Rule("EOF-BREAK", "A code block's text is its lines with their line endings; the last line of the input may lack one, and the parser stands in a zero-width soft line break node (Start = End) for it so that the block renders the same with and without a final line ending. Somewhere in package commonmark such a node is created for each of the two code block kinds: collecting, over all sites that build a soft line break whose Start and End are the same term, the block kinds for which the site is reachable (a site inside blockRules[K].onClose counts for K only; elsewhere the dominating conditions over a kind-valued call are decided per kind — conditions over the same call intersected, different calls united, everything else ignored), the union contains IndentedCodeBlockKind and FencedCodeBlockKind. Without the node for one kind, \"```\\nfoo\" and \"```\\nfoo\\n\" render differently.")
	p := c.P
	sbK, _ := kindValue(p, "InlineKind", "SoftLineBreakKind")
	indK, _ := kindValue(p, "BlockKind", "IndentedCodeBlockKind")
	fenK, _ := kindValue(p, "BlockKind", "FencedCodeBlockKind")
	// onClose closures by kind
	onCloseOf := map[*ssa.Function]int64{}
	for k, e := range blockRulesTable(p) {
		if e.onClose != nil {
			onCloseOf[e.onClose] = k
		}
	}
	bs := newBSET(p)
	dom, _ := bs.domainFor(p.NamedType("BlockKind"))
	covered := map[int64][]string{}
	nSites := 0
	for _, fn := range p.Funcs {
		if fn.Pkg != p.CMs || fn.Blocks == nil {
			continue
		}
		eachInstr(fn, func(in ssa.Instruction) {
			al, ok := in.(*ssa.Alloc)
			if !ok || typeName(deref(al.Type())) != "Inline" {
				return
			}
			ks := allocKindValues(al)
			if len(ks) != 1 {
				return
			}
			if k, ok := constInt(ks[0]); !ok || k != sbK {
				return
			}
			// zero width: Start and End stored with the same term
			var startV, endV ssa.Value
			for _, r := range refsOf(al) {
				fa, ok := r.(*ssa.FieldAddr)
				if !ok {
					continue
				}
				if tn, f, _ := fieldAddrInfo(fa); tn != "Inline" || f != "span" {
					continue
				}
				for _, r2 := range refsOf(fa) {
					fa2, ok := r2.(*ssa.FieldAddr)
					if !ok {
						continue
					}
					_, f2, _ := fieldAddrInfo(fa2)
					for _, r3 := range refsOf(fa2) {
						if st, ok := r3.(*ssa.Store); ok && st.Addr == ssa.Value(fa2) {
							if f2 == "Start" {
								startV = st.Val
							} else if f2 == "End" {
								endV = st.Val
							}
						}
					}
				}
			}
			if startV == nil || endV == nil || !(startV == endV || sameTerm(startV, endV) || termKey(startV, 0) == termKey(endV, 0)) {
				return
			}
			nSites++
			site := fmt.Sprintf("%s@%s", shortFuncName(fn), p.Pos(al.Pos()))
			if k, ok := onCloseOf[fn]; ok {
				covered[k] = append(covered[k], site)
				return
			}
			if par := fn.Parent(); par != nil {
				if k, ok := onCloseOf[par]; ok {
					covered[k] = append(covered[k], site)
					return
				}
			}
			// kinds admitted by the conditions that dominate the site: per kind-valued call the conditions over it are
			// intersected, different calls (the container's kind, the tip's kind) are united — an over-approximation
			isKindCall := func(v ssa.Value) bool {
				cl, ok := v.(*ssa.Call)
				if !ok || cl.Call.StaticCallee() == nil {
					return false
				}
				return typeName(cl.Type()) == "BlockKind"
			}
			allowed := map[ssa.Value]map[int64]bool{}
			for id := al.Block().Idom(); id != nil; id = id.Idom() {
				iff := blockIf(id)
				if iff == nil {
					continue
				}
				e0, e1 := edgeDominates(id, 0, al.Block()), edgeDominates(id, 1, al.Block())
				if e0 == e1 {
					continue
				}
				// the kind calls the condition mentions
				syms := map[ssa.Value]bool{}
				seenV := map[ssa.Value]bool{}
				var collect func(v ssa.Value, d int)
				collect = func(v ssa.Value, d int) {
					if v == nil || seenV[v] || d > 8 {
						return
					}
					seenV[v] = true
					if isKindCall(v) {
						syms[v] = true
						return
					}
					if in, ok := v.(ssa.Instruction); ok {
						for _, op := range in.Operands(nil) {
							if op != nil && *op != nil {
								collect(*op, d+1)
							}
						}
					}
				}
				collect(iff.Cond, 0)
				if len(syms) != 1 {
					continue
				}
				var sym ssa.Value
				for v := range syms {
					sym = v
				}
				for _, d := range dom {
					st := &evalState{e: bs, fn: fn, d: d, isSym: func(v ssa.Value) bool { return v == sym }, from: make([]int, len(fn.Blocks)), noLoopPhi: true}
					for i := range st.from {
						st.from[i] = -2
					}
					v, ok := st.eval(iff.Cond)
					admits := !ok || (v != 0) == e0
					if allowed[sym] == nil {
						allowed[sym] = map[int64]bool{}
						for _, dd := range dom {
							allowed[sym][dd] = true
						}
					}
					if !admits {
						allowed[sym][d] = false
					}
				}
			}
			for _, d := range dom {
				ok := len(allowed) == 0
				for _, m := range allowed {
					if m[d] {
						ok = true
					}
				}
				if ok {
					covered[d] = append(covered[d], site)
				}
			}
		})
	}
	c.Analysed["zero_width_soft_break_sites"] = nSites
	for _, k := range []int64{indK, fenK} {
		sites := covered[k]
		sort.Strings(sites)
		c.Check(len(sites) > 0, "EOF-BREAK", blockKindName(p, k), token.NoPos, "sites that create the stand-in line ending for this kind: "+strings.Join(uniqStrings(sites), ", "))
	}
}

func init() {
	addControls(
		Control{Name: "eof-break-for-indented-code-only", Props: []string{"C14"}, File: "parse.go",
			Old: "\tif p.ContainerKind().IsCode() && !hasByteSuffix(p.line, \"\\n\") && !hasByteSuffix(p.line, \"\\r\") {", New: "\tif p.ContainerKind() == IndentedCodeBlockKind && !hasByteSuffix(p.line, \"\\n\") && !hasByteSuffix(p.line, \"\\r\") {", Expect: "EOF-BREAK/FencedCodeBlockKind"},
		Control{Name: "neg-eof-break-kind-test-in-a-local", Props: []string{"C14"}, File: "parse.go", Negative: true,
			Old: "\tif p.ContainerKind().IsCode() && !hasByteSuffix(p.line, \"\\n\") && !hasByteSuffix(p.line, \"\\r\") {", New: "\tinCode := p.ContainerKind() == IndentedCodeBlockKind || p.ContainerKind() == FencedCodeBlockKind\n\tif inCode && !hasByteSuffix(p.line, \"\\n\") && !hasByteSuffix(p.line, \"\\r\") {"},
	)
}
