package main

// C10 / C06 — TEXT-KINDS: the text accessor reads a child's bytes according to the child's kind.

import (
	"fmt"
	"go/token"

	"golang.org/x/tools/go/ssa"
)

func ruleTextKinds(c *Ctx) {
	c.Rule("TEXT-KINDS", "In (*Inline).Text, the source bytes of a node other than the receiver (a child of an info string, link destination or link title) reach the result only where that node's kind has been tested: verbatim on the edge Kind() == TextKind, through html.UnescapeString on the edge Kind() == CharacterReferenceKind. A fast path that returns the only child's bytes without looking at its kind hands back '&quot;' for the title \"&quot;\" — the renderer then escapes the ampersand again — and an undecoded destination.")
	p := c.P
	fn := p.Method("Inline", "Text")
	if !c.NeedFunc("TEXT-KINDS", fn, "(*Inline).Text") {
		return
	}
	recv := receiverOf(fn)
	textK, _ := kindValue(p, "InlineKind", "TextKind")
	crefK, _ := kindValue(p, "InlineKind", "CharacterReferenceKind")
	rawK, _ := kindValue(p, "InlineKind", "RawHTMLKind")
	n := 0
	eachInstr(fn, func(in ssa.Instruction) {
		call, ok := in.(*ssa.Call)
		if !ok {
			return
		}
		g := call.Call.StaticCallee()
		if g == nil || g.Name() != "Span" || len(call.Call.Args) != 1 || typeName(deref(call.Call.Args[0].Type())) != "Inline" {
			return
		}
		node := call.Call.Args[0]
		if recv != nil && node == ssa.Value(recv) {
			return
		}
		// is this span used to take bytes of the source? (an argument of a call that also gets a byte slice)
		usedForBytes := false
		for _, r := range refsOf(call) {
			if c2, ok := r.(*ssa.Call); ok {
				for _, a := range c2.Call.Args {
					if a != ssa.Value(call) && a.Type().String() == "[]byte" {
						usedForBytes = true
					}
				}
			}
		}
		if !usedForBytes {
			return
		}
		n++
		key := fmt.Sprintf("Text:child-bytes#%d", n)
		// dominating kind test of this very node
		var decided int64 = -1
		for _, b := range fn.Blocks {
			iff := blockIf(b)
			if iff == nil {
				continue
			}
			bo, ok := iff.Cond.(*ssa.BinOp)
			if !ok || bo.Op != token.EQL {
				continue
			}
			kc, ok := bo.X.(*ssa.Call)
			if !ok {
				continue
			}
			if kg := kc.Call.StaticCallee(); kg == nil || kg.Name() != "Kind" || len(kc.Call.Args) != 1 || !(kc.Call.Args[0] == node || sameTerm(kc.Call.Args[0], node)) {
				continue
			}
			k, ok := constInt(bo.Y)
			if !ok {
				continue
			}
			if edgeDominates(b, 0, call.Block()) {
				decided = k
			}
		}
		switch decided {
		case -1:
			c.Viol("TEXT-KINDS", key, call.Pos(), "a child's source bytes are read without a test of the child's kind on the way")
		case textK, rawK:
			c.OK("TEXT-KINDS", key, call.Pos(), "verbatim under Kind() == "+inlineKindName(p, decided))
		case crefK:
			// must flow into html.UnescapeString
			unesc := false
			seen := map[ssa.Value]bool{}
			var follow func(v ssa.Value, d int)
			follow = func(v ssa.Value, d int) {
				if seen[v] || d > 6 {
					return
				}
				seen[v] = true
				for _, r := range refsOf(v) {
					if c2, ok := r.(*ssa.Call); ok {
						if f := c2.Call.StaticCallee(); f != nil && f.String() == "html.UnescapeString" {
							unesc = true
							return
						}
						if f := c2.Call.StaticCallee(); f != nil && p.InModule(f) {
							follow(c2, d+1)
						}
						continue
					}
					if vv, ok := r.(ssa.Value); ok {
						follow(vv, d+1)
					}
				}
			}
			follow(call, 0)
			c.Check(unesc, "TEXT-KINDS", key, call.Pos(), "the bytes of a character reference must pass through html.UnescapeString")
		default:
			c.Viol("TEXT-KINDS", key, call.Pos(), "a child's source bytes are read under Kind() == "+inlineKindName(p, decided)+", a kind whose text is not its source bytes")
		}
	})
	if n < 2 {
		c.Undecided("TEXT-KINDS", "instance-count", fn.Pos(), fmt.Sprintf("%d reads of a child's bytes found in (*Inline).Text; 2 confirmed by hand (text and character-reference children of attribute nodes)", n))
	}
}

func init() {
	addControls(
		Control{Name: "attribute-text-single-child-fast-path", Props: []string{"C10", "C06"}, File: "inlines.go",
			Old: "\tcase InfoStringKind, LinkDestinationKind, LinkTitleKind:\n\t\tsb := new(strings.Builder)", New: "\tcase InfoStringKind, LinkDestinationKind, LinkTitleKind:\n\t\tif len(inline.children) == 1 {\n\t\t\treturn string(spanSlice(source, inline.children[0].Span()))\n\t\t}\n\t\tsb := new(strings.Builder)", Expect: "TEXT-KINDS/Text:child-bytes"},
		Control{Name: "neg-attribute-text-single-text-child-fast-path", Props: []string{"C10", "C06"}, File: "inlines.go", Negative: true,
			Old: "\tcase InfoStringKind, LinkDestinationKind, LinkTitleKind:\n\t\tsb := new(strings.Builder)", New: "\tcase InfoStringKind, LinkDestinationKind, LinkTitleKind:\n\t\tif inline.ChildCount() == 1 {\n\t\t\tif only := inline.Child(0); only.Kind() == TextKind {\n\t\t\t\treturn string(spanSlice(source, only.Span()))\n\t\t\t}\n\t\t}\n\t\tsb := new(strings.Builder)"},
	)
}
