package main

import (
	"fmt"
	"go/token"
	"sort"

	"golang.org/x/tools/go/ssa"
)

func init() {
	props["C01"] = checkC01
	props["C08"] = checkC08
}

func checkC01(c *Ctx) {
	ruleHookEnd(c)
	ruleCRSplit(c)
	ruleOrphanExit(c)
	ruleCtor(c)
	ruleClamp(c)
	ruleAlias(c)
	ruleCursorPair(c)
	ruleBufForward(c)
	rulePadStart(c)
	rulePadPrefix(c)
	ruleFillLast(c)
	ruleProvOffsets(c)
	ruleWSSpec(c)
	ruleLineCountStep(c)
	ruleLineComplete(c)
	c.Assume("arithmetic inside padNulls, unpaddedNullLength, lineCount and fillNulls is trusted; ordering and non-overlap of ranges are not decided")
}

func checkC08(c *Ctx) {
	ruleCRSplit(c)
	ruleParserLatch(c)
	ruleSticky(c)
	ruleReadNUsed(c)
	ruleReadErrKept(c)
	ruleLineComplete(c)
	ruleScanStart(c)
	rulePadStart(c)
	rulePadPrefix(c)
	ruleBufForward(c)
	ruleSameMachine(c)
	ruleCtor(c)
	c.Assume("equality of the produced trees under arbitrary chunking (CR look-ahead at a buffer end, NUL padding across chunk boundaries, buffer growth) is arithmetic over buffer contents and is not decided")
}

func init() {
	addControls(
		Control{Name: "neg-padnulls-loop-bound-spelled-differently", Props: []string{"C08", "C01"}, File: "parse.go", Negative: true,
			Old: "\tfor i, j := oldLen-1, newLen-1; i >= start; i-- {", New: "\tfor i, j := oldLen-1, newLen-1; i > start-1; i-- {"},
		Control{Name: "neg-scan-resumes-at-pending-cr", Props: []string{"C08", "C01", "C04"}, File: "parse.go", Negative: true,
			Old: "\teolEnd := -1\n\tfor {", New: "\teolEnd := -1\n\tscanStart := p.i\n\tfor {",
			Edits: [][2]string{
				{"\t\tif i := bytes.IndexAny(p.buf[p.i:], \"\\r\\n\"); i >= 0 {\n\t\t\teolStart := p.i + i", "\t\tif i := bytes.IndexAny(p.buf[scanStart:], \"\\r\\n\"); i >= 0 {\n\t\t\teolStart := scanStart + i"},
				{"\t\t\t\t// Carriage return right before EOF.\n\t\t\t\teolEnd = len(p.buf)\n\t\t\t\tbreak\n\t\t\t}\n\t\t}\n", "\t\t\t\t// Carriage return right before EOF.\n\t\t\t\teolEnd = len(p.buf)\n\t\t\t\tbreak\n\t\t\t}\n\t\t\tscanStart = eolStart\n\t\t} else {\n\t\t\tscanStart = len(p.buf)\n\t\t}\n"},
			},
			Why: "the correct version of the do-not-rescan optimisation: resume at the pending CR, or past the bytes in which nothing was found"},
		Control{Name: "neg-readline-grow-with-append", Props: []string{"C01", "C08", "C04"}, File: "parse.go", Negative: true,
			Old: "\t\t\tnewbuf := make([]byte, len(p.buf), newSize)\n\t\t\tcopy(newbuf, p.buf)\n\t\t\tp.buf = newbuf", New: "\t\t\tp.buf = append(make([]byte, 0, newSize), p.buf...)",
			Why: "the buffer grows into a fresh allocation, written with append"},
		Control{Name: "offset-from-raw-index", Props: []string{"C01"}, File: "parse.go",
			Old: "\t\tp.offset += int64(unpaddedNullLength(p.buf[:p.i]))\n\t\tp.lineno += lineCount(p.buf[:p.i])", New: "\t\tp.offset += int64(p.i)\n\t\tp.lineno += lineCount(p.buf[:p.i])", Expect: "PROV(offset)"},
		Control{Name: "padNulls-without-clamp", Props: []string{"C01"}, File: "parse.go",
			Old: "source = padNulls(source[:len(source):len(source)], 0)", New: "source = padNulls(source, 0)", Expect: "CLAMP"},
		Control{Name: "lineno-counts-LF-only", Props: []string{"C01"}, File: "parse.go",
			Old: "\tp.lineno += lineCount(p.buf[:n])", New: "\tp.lineno += bytes.Count(p.buf[:n], []byte(\"\\n\"))", Expect: "PROV(lineno)"},
		Control{Name: "Source-copied", Props: []string{"C01"}, File: "parse.go",
			Old: "\t\tSource:      p.buf[:n:n],", New: "\t\tSource:      append([]byte(nil), p.buf[:n]...),", Expect: "ALIAS"},
		Control{Name: "Parse-lineno-zero", Props: []string{"C01", "C08"}, File: "parse.go",
			Old: "\t\tlineno: 1,\n\t\terr:    io.EOF,", New: "\t\terr:    io.EOF,", Expect: "CTOR"},
		Control{Name: "blank-skip-forgets-offset", Props: []string{"C01"}, File: "parse.go",
			Old: "\t\t\tp.offset += int64(unpaddedNullLength(p.buf[:p.i]))\n\t\t\tp.lineno++\n", New: "\t\t\tp.lineno++\n", Expect: "CURSOR-PAIR"},
		Control{Name: "padNulls-always-copies", Props: []string{"C01"}, File: "parse.go",
			Old: "\tif n == 0 {\n\t\treturn b\n\t}\n\toldLen := len(b)", New: "\tif n == 0 {\n\t\treturn append([]byte(nil), b...)\n\t}\n\toldLen := len(b)", Expect: "RET-SELF"},
		Control{Name: "offset-measures-other-prefix", Props: []string{"C01"}, File: "parse.go",
			Old: "\tp.offset += originalLength\n\tp.lineno += lineCount(p.buf[:n])", New: "\tp.offset += originalLength\n\tp.lineno += lineCount(p.buf[:p.i])", Expect: "PROV(lineno)"},
		Control{Name: "lineCount-final-cr-not-counted", Props: []string{"C01"}, File: "parse.go",
			Old: "\t\t\tif i+1 >= len(text) || text[i+1] != '\\n' {", New: "\t\t\tif i+1 < len(text) && text[i+1] != '\\n' {", Expect: "LINECOUNT-STEP"},
		Control{Name: "neg-lineCount-if-chain", Props: []string{"C01"}, File: "parse.go", Negative: true,
			Old: "\t\tswitch b {\n\t\tcase '\\n':\n\t\t\tcount++\n\t\tcase '\\r':\n\t\t\tif i+1 >= len(text) || text[i+1] != '\\n' {\n\t\t\t\tcount++\n\t\t\t}\n\t\t}", New: "\t\tif b == '\\n' {\n\t\t\tcount++\n\t\t} else if b == '\\r' {\n\t\t\tlast := i+1 >= len(text)\n\t\t\tif last || text[i+1] != '\\n' {\n\t\t\t\tcount++\n\t\t\t}\n\t\t}"},
		Control{Name: "neg-makeRoot-reordered-updates", Props: []string{"C01"}, File: "parse.go", Negative: true,
			Old: "\tp.offset += originalLength\n\tp.lineno += lineCount(p.buf[:n])\n\tp.buf = p.buf[n:]\n\tp.i -= n", New: "\tp.lineno += lineCount(p.buf[:n])\n\tp.offset += originalLength\n\tp.i -= n\n\tp.buf = p.buf[n:]"},
		Control{Name: "n-used-only-without-error", Props: []string{"C08"}, File: "parse.go",
			Old: "\t\tp.buf = padNulls(p.buf[:len(p.buf)+n], len(p.buf))", New: "\t\tif p.err == nil {\n\t\t\tp.buf = padNulls(p.buf[:len(p.buf)+n], len(p.buf))\n\t\t}", Expect: "READ-N-USED"},
		Control{Name: "retry-on-ErrNoProgress", Props: []string{"C08"}, File: "parse.go",
			Old: "\t\tif p.err != nil {\n\t\t\teolEnd = len(p.buf)\n\t\t\tbreak\n\t\t}\n\n\t\t// Grab more data", New: "\t\tif p.err != nil && p.err != io.ErrNoProgress {\n\t\t\teolEnd = len(p.buf)\n\t\t\tbreak\n\t\t}\n\n\t\t// Grab more data", Expect: "NOREAD"},
		Control{Name: "NextBlock-returns-fresh-EOF", Props: []string{"C08"}, File: "parse.go",
			Old: "\t\t\tif !p.readline() {\n\t\t\t\treturn nil, p.err\n\t\t\t}", New: "\t\t\tif !p.readline() {\n\t\t\t\treturn nil, io.EOF\n\t\t\t}", Expect: "STICKY"},
		Control{Name: "Rewrite-inside-block-loop", Props: []string{"C08", "C12"}, File: "parse.go",
			Old: "\t\tblocks = append(blocks, block)\n\t\trefMap.Extract(block.Source, block.AsNode())", New: "\t\tblocks = append(blocks, block)\n\t\trefMap.Extract(block.Source, block.AsNode())\n\t\t(&InlineParser{ReferenceMatcher: refMap}).Rewrite(block)", Expect: "TWOPASS"},
		Control{Name: "cr-lookahead-folded", Props: []string{"C08", "C01"}, File: "parse.go",
			Old: "\t\t\tif eolStart+1 < len(p.buf) {\n\t\t\t\t// Carriage return with enough buffer for 1 byte lookahead.\n\t\t\t\teolEnd = eolStart + 1\n\t\t\t\tif p.buf[eolEnd] == '\\n' {\n\t\t\t\t\teolEnd++\n\t\t\t\t}\n\t\t\t\tbreak\n\t\t\t}\n\t\t\tif p.err != nil {\n\t\t\t\t// Carriage return right before EOF.\n\t\t\t\teolEnd = len(p.buf)\n\t\t\t\tbreak\n\t\t\t}\n",
			New: "\t\t\teolEnd = eolStart + 1\n\t\t\tif eolEnd < len(p.buf) && p.buf[eolEnd] == '\\n' {\n\t\t\t\teolEnd++\n\t\t\t}\n\t\t\tbreak\n", Expect: "LINE-COMPLETE"},
		Control{Name: "neg-readline-err-test-as-switch", Props: []string{"C08"}, File: "parse.go", Negative: true,
			Old: "\t\tif p.err != nil {\n\t\t\teolEnd = len(p.buf)\n\t\t\tbreak\n\t\t}\n\n\t\t// Grab more data", New: "\t\tif atEOF := p.err != nil; atEOF {\n\t\t\teolEnd = len(p.buf)\n\t\t\tbreak\n\t\t}\n\n\t\t// Grab more data"},
	)
}

// PAD-PREFIX: what padNulls returns still holds the bytes in front of start.
func rulePadPrefix(c *Ctx) {
	c.Rule("PAD-PREFIX", "padNulls(b, start) widens the NULs from start on; the bytes before start are text of a block that is still pending (streaming: a read arrives while a block is open). Every slice it can return therefore derives from its parameter by re-slicing or appending (the prefix stays where it is, or append copies it), or — if it is freshly allocated — has the parameter's prefix copied into it (a copy from b or b[:…]) before the return. A fresh buffer that only receives the bytes from start on turns the pending prefix into zero bytes, which are then counted as NUL padding.")
	p := c.P
	pad := p.Func("padNulls")
	if !c.NeedFunc("PAD-PREFIX", pad, "padNulls") || len(pad.Params) == 0 {
		return
	}
	b := ssa.Value(pad.Params[0])
	// derives(v): v is b, a re-slice of a derived value, an append whose first argument is derived, or a phi of such
	var derives func(v ssa.Value, seen map[ssa.Value]bool) (ok bool, fresh []ssa.Value)
	derives = func(v ssa.Value, seen map[ssa.Value]bool) (bool, []ssa.Value) {
		if seen[v] {
			return true, nil
		}
		seen[v] = true
		switch x := v.(type) {
		case *ssa.Parameter:
			return v == b, nil
		case *ssa.Slice:
			return derives(x.X, seen)
		case *ssa.Phi:
			all := true
			var fr []ssa.Value
			for _, e := range x.Edges {
				ok, f := derives(e, seen)
				if !ok {
					all = false
				}
				fr = append(fr, f...)
			}
			return all, fr
		case *ssa.Call:
			if ac, ok := isBuiltinCall(x, "append"); ok {
				return derives(ac.Call.Args[0], seen)
			}
		case *ssa.MakeSlice:
			return true, []ssa.Value{x}
		case *ssa.Alloc:
			return true, []ssa.Value{x}
		}
		return false, nil
	}
	n := 0
	for i, r := range returnsOf(pad) {
		if len(r.Results) != 1 {
			continue
		}
		n++
		key := fmt.Sprintf("padNulls:return#%d", i)
		ok, fresh := derives(r.Results[0], map[ssa.Value]bool{})
		if !ok {
			c.Viol("PAD-PREFIX", key, r.Pos(), "the returned slice is neither derived from the parameter nor a fresh buffer the rule can follow: "+describeValue(r.Results[0]))
			continue
		}
		bad := ""
		for _, f := range fresh {
			// a copy(dst, src) with dst derived from f (f itself or f[:…]) and src derived from b
			copied := false
			eachInstr(pad, func(in ssa.Instruction) {
				call, ok := in.(*ssa.Call)
				if !ok {
					return
				}
				if cc, ok := isBuiltinCall(call, "copy"); ok {
					dst, src := cc.Call.Args[0], cc.Call.Args[1]
					for {
						if sl, ok := dst.(*ssa.Slice); ok && (sl.Low == nil || isZero(sl.Low)) {
							dst = sl.X
							continue
						}
						break
					}
					srcOK, fr := derives(src, map[ssa.Value]bool{})
					if dst == f && srcOK && len(fr) == 0 {
						// the source must start at the beginning of b
						s := src
						lowZero := true
						for {
							if sl, ok := s.(*ssa.Slice); ok {
								if sl.Low != nil && !isZero(sl.Low) {
									lowZero = false
								}
								s = sl.X
								continue
							}
							break
						}
						if lowZero {
							copied = true
						}
					}
				}
			})
			if !copied {
				bad = "a freshly allocated buffer is returned into which the bytes in front of start were never copied"
			}
		}
		c.Check(bad == "", "PAD-PREFIX", key, r.Pos(), bad)
	}
	if n == 0 {
		c.Undecided("PAD-PREFIX", "padNulls:returns", pad.Pos(), "no return found")
	}
}

func init() {
	addControls(
		Control{Name: "padnulls-grows-into-fresh-buffer-without-prefix", Props: []string{"C01", "C08"}, File: "parse.go",
			Old: "\t\tb = append(b[:cap(b)], make([]byte, newLen-cap(b))...)[:newLen]\n", New: "\t\tgrown := make([]byte, newLen)\n\t\tcopy(grown[start:], b[start:])\n\t\tb = grown\n", Expect: "PAD-PREFIX/padNulls:return"},
		Control{Name: "neg-padnulls-grows-into-fresh-buffer-with-copy", Props: []string{"C01", "C08"}, File: "parse.go", Negative: true,
			Old: "\t\tb = append(b[:cap(b)], make([]byte, newLen-cap(b))...)[:newLen]\n", New: "\t\tgrown := make([]byte, newLen)\n\t\tcopy(grown, b)\n\t\tb = grown\n"},
	)
}

// ORPHAN-EXIT: every way out of the paragraph-close hook accounts for the rest of the paragraph.
func ruleOrphanExit(c *Ctx) {
	c.Rule("ORPHAN-EXIT", "The hook that splits link reference definitions off a paragraph or setext heading returns the list of blocks that replaces it. When the definitions use up all of the content, what is left of a setext heading is its underline, kept aside as a paragraph of its own. Every return of the hook therefore yields either a list whose last element is the original block (something of it is left), or — where the original block is dropped — a list that had the kept-aside underline paragraph appended under a test that it exists (the join of `if orphan != nil { result = append(result, orphan) }`), or the result of a helper that is handed the list. A return that hands back the bare list on a path where the original block was consumed drops the underline: its bytes lie in no block although they are not white space.")
	p := c.P
	fn := p.Func("onCloseParagraph")
	if !c.NeedFunc("ORPHAN-EXIT", fn, "onCloseParagraph") {
		return
	}
	var orig *ssa.Parameter
	for _, q := range fn.Params {
		if typeName(deref(q.Type())) == "Block" {
			orig = q
		}
	}
	if orig == nil {
		c.Undecided("ORPHAN-EXIT", "onCloseParagraph:block", fn.Pos(), "no block parameter")
		return
	}
	// elements appended by an append call / held by a slice literal
	elems := func(v ssa.Value) []ssa.Value {
		var out []ssa.Value
		sl, ok := v.(*ssa.Slice)
		if !ok {
			return nil
		}
		al, ok := sl.X.(*ssa.Alloc)
		if !ok {
			return nil
		}
		for _, r := range refsOf(al) {
			if ia, ok := r.(*ssa.IndexAddr); ok {
				for _, rr := range refsOf(ia) {
					if st, ok := rr.(*ssa.Store); ok && st.Addr == ssa.Value(ia) {
						out = append(out, st.Val)
					}
				}
			}
		}
		return out
	}
	isOrig := func(v ssa.Value) bool {
		q, ok := spilledParam(v)
		return ok && q == orig
	}
	// the orphan: a *Block value that is nil on some paths (a phi with a nil edge, or a loaded cell that is stored nil / an allocation)
	isOrphanLike := func(v ssa.Value) bool {
		if ph, ok := v.(*ssa.Phi); ok {
			for _, e := range ph.Edges {
				if isNilConst(e) {
					return true
				}
			}
		}
		if u, ok := v.(*ssa.UnOp); ok && u.Op == token.MUL {
			if al, ok := u.X.(*ssa.Alloc); ok {
				_ = al
				return typeName(deref(v.Type())) == "Block"
			}
		}
		return false
	}
	lastIsOrig := func(v ssa.Value) bool {
		if call, ok := isBuiltinCall(v, "append"); ok && len(call.Call.Args) == 2 {
			for _, e := range elems(call.Call.Args[1]) {
				if isOrig(e) {
					return true
				}
			}
		}
		for _, e := range elems(v) { // []*Block{originalBlock}
			if isOrig(e) {
				return true
			}
		}
		return false
	}
	n := 0
	for i, r := range returnsOf(fn) {
		if len(r.Results) != 1 {
			continue
		}
		n++
		key := fmt.Sprintf("onCloseParagraph:return#%d", i)
		v := r.Results[0]
		switch {
		case lastIsOrig(v):
			c.OK("ORPHAN-EXIT", key, r.Pos(), "ends with the original block")
			continue
		}
		if call, ok := v.(*ssa.Call); ok {
			if _, isB := call.Call.Value.(*ssa.Builtin); !isB {
				c.OK("ORPHAN-EXIT", key, r.Pos(), "result of a helper that is handed the list")
				continue
			}
		}
		good := false
		if ph, ok := v.(*ssa.Phi); ok && len(ph.Edges) == 2 {
			for k := 0; k < 2; k++ {
				plain, with := ph.Edges[k], ph.Edges[1-k]
				if call, ok := isBuiltinCall(with, "append"); ok && len(call.Call.Args) == 2 && call.Call.Args[0] == plain {
					for _, e := range elems(call.Call.Args[1]) {
						if isOrphanLike(e) {
							// the appending predecessor is entered on the non-nil edge of a test of that value
							for _, b := range fn.Blocks {
								if iff := blockIf(b); iff != nil {
									if x, nilIdx, ok := nilTest(iff.Cond); ok && x == e && edgeDominates(b, 1-nilIdx, call.Block()) {
										good = true
									}
								}
							}
						}
					}
				}
			}
		}
		c.Check(good, "ORPHAN-EXIT", key, r.Pos(), "the hook returns a list that neither ends with the original block nor had the kept-aside underline paragraph appended under a test that it exists")
	}
	if n < 4 {
		c.Undecided("ORPHAN-EXIT", "instance-count", fn.Pos(), fmt.Sprintf("%d returns found; at least 4 confirmed by hand", n))
	}
}

func init() {
	addControls(
		Control{Name: "refdef-exit-without-setext-orphan", Props: []string{"C01"}, File: "blocks.go",
			Old: "\t\tfirstChild := nodeIndexForPosition(originalBlock.inlineChildren, r.pos)\n\t\tif firstChild < 0 {\n\t\t\tif setextOrphanParagraph != nil {\n\t\t\t\tresult = append(result, setextOrphanParagraph)\n\t\t\t}\n\t\t\treturn result\n\t\t}",
			New: "\t\tfirstChild := nodeIndexForPosition(originalBlock.inlineChildren, r.pos)\n\t\tif firstChild < 0 {\n\t\t\treturn result\n\t\t}", Expect: "ORPHAN-EXIT/onCloseParagraph:return",
			Why: "'[foo]: /url \"title\"\\n===\\n': the underline line then belongs to no block"},
	)
}

// CR-SPLIT: whoever cuts the buffer behind a CR looks at the byte after it.
func ruleCRSplit(c *Ctx) {
	c.Rule("CR-SPLIT", "A CR ends a line only if no LF follows; when the CR is the last byte read so far the LF may still arrive with the next read. In the functions that split the parser's buffer into lines (static call closure of NextBlock), a loop that compares the byte at an index I with CR and, on that arm, turns I+1 into a position — assigns it, returns it, or uses it as a slice bound — also reads the byte at I+1 of the same slice somewhere in the function (the look-ahead; whether it is consulted correctly is LINE-COMPLETE's and LINECOUNT-STEP's business). A helper that takes 'index of the CR, plus one' as the end of complete lines without ever looking at the next byte cuts CR LF in two when a read ends between them: every later block's line number is one too high.")
	p := c.P
	entry := p.Method("BlockParser", "NextBlock")
	if !c.NeedFunc("CR-SPLIT", entry, "(*BlockParser).NextBlock") {
		return
	}
	n := 0
	var fns []*ssa.Function
	for f := range staticReach(p, []*ssa.Function{entry}) {
		fns = append(fns, f)
	}
	sort.Slice(fns, func(i, j int) bool { return fns[i].String() < fns[j].String() })
	for _, fn := range fns {
		if fn.Pkg != p.CMs || fn.Blocks == nil {
			continue
		}
		// byte loads S[I]
		type ld struct {
			s, idx ssa.Value
		}
		loads := map[ssa.Value]ld{}
		eachInstr(fn, func(in ssa.Instruction) {
			if u, ok := in.(*ssa.UnOp); ok && u.Op == token.MUL {
				if ia, ok := u.X.(*ssa.IndexAddr); ok {
					loads[u] = ld{ia.X, ia.Index}
				}
			}
			// range over a byte slice: the element value is Extract #2? (go/ssa lowers slice ranges to index loops: IndexAddr) — nothing to add
		})
		site := 0
		eachInstr(fn, func(in ssa.Instruction) {
			bo, ok := in.(*ssa.BinOp)
			if !ok || bo.Op != token.EQL {
				return
			}
			k, ok := constInt(bo.Y)
			if !ok || k != '\r' {
				return
			}
			l, ok := loads[bo.X]
			if !ok {
				return
			}
			// the arm taken when the byte is CR: blocks dominated by the true edge of an If on this comparison
			var arm []*ssa.BasicBlock
			for _, b := range fn.Blocks {
				iff := blockIf(b)
				if iff == nil || iff.Cond != ssa.Value(bo) {
					continue
				}
				// the block entered when the byte is CR (it may be shared with the LF case) and what it dominates
				t := b.Succs[0]
				for _, x := range fn.Blocks {
					if x == t || t.Dominates(x) {
						arm = append(arm, x)
					}
				}
			}
			if len(arm) == 0 {
				return
			}
			// does I+1 become a position on that arm?
			becomes := false
			for _, b := range arm {
				for _, x := range b.Instrs {
					v, ok := x.(*ssa.BinOp)
					if !ok || v.Op != token.ADD {
						continue
					}
					base, kk := linTerm(v)
					ib, ik := linTerm(l.idx)
					if kk != ik+1 || !(base == ib || sameTerm(base, ib)) {
						continue
					}
					for _, r := range refsOf(v) {
						switch y := r.(type) {
						case *ssa.IndexAddr:
							if y.Index == ssa.Value(v) {
								continue // reading the next byte is the look-ahead, not a position
							}
							becomes = true
						case *ssa.BinOp:
							switch y.Op {
							case token.LSS, token.LEQ, token.GTR, token.GEQ, token.EQL, token.NEQ:
								continue // a bound check of the look-ahead
							}
							becomes = true
						case *ssa.DebugRef:
						default:
							becomes = true
						}
					}
				}
			}
			if !becomes {
				return
			}
			n++
			site++
			// a read of S[I+1] anywhere in the function
			looks := false
			for _, other := range loads {
				base, kk := linTerm(other.idx)
				ib, ik := linTerm(l.idx)
				if kk == ik+1 && (base == ib || sameTerm(base, ib)) && (other.s == l.s || sameTerm(other.s, l.s)) {
					looks = true
				}
			}
			c.Check(looks, "CR-SPLIT", fmt.Sprintf("%s:cr#%d", shortFuncName(fn), site), bo.Pos(), "on the CR arm the index plus one becomes a position, but the function never reads the byte after the CR")
		})
	}
	c.Analysed["cr_arms_that_yield_a_position"] = n
	if n == 0 {
		c.OK("CR-SPLIT", "none", token.NoPos, "no function in NextBlock's closure derives a position from the index of a CR (readline searches with IndexAny and is LINE-COMPLETE's)")
	}
}
