package main

func init() {
	props["C01"] = checkC01
	props["C08"] = checkC08
}

func checkC01(c *Ctx) {
	ruleCtor(c)
	ruleClamp(c)
	ruleAlias(c)
	ruleCursorPair(c)
	ruleBufForward(c)
	rulePadStart(c)
	ruleFillLast(c)
	ruleProvOffsets(c)
	ruleWSSpec(c)
	ruleLineCountStep(c)
	ruleLineComplete(c)
	c.Assume("arithmetic inside padNulls, unpaddedNullLength, lineCount and fillNulls is trusted; ordering and non-overlap of ranges are not decided")
}

func checkC08(c *Ctx) {
	ruleParserLatch(c)
	ruleSticky(c)
	ruleReadNUsed(c)
	ruleReadErrKept(c)
	ruleLineComplete(c)
	ruleScanStart(c)
	rulePadStart(c)
	ruleBufForward(c)
	ruleSameMachine(c)
	ruleCtor(c)
	c.Assume("equality of the produced trees under arbitrary chunking (CR look-ahead at a buffer end, NUL padding across chunk boundaries, buffer growth) is arithmetic over buffer contents and is not decided")
}

func init() {
	addControls(
		Control{Name: "neg-padnulls-loop-bound-spelled-differently", Props: []string{"C08", "C01"}, File: "parse.go", Negative: true,
			Old: "\tfor i, j := oldLen-1, newLen-1; i >= start; i-- {", New: "\tfor i, j := oldLen-1, newLen-1; i > start-1; i-- {"},
		Control{Name: "neg-scan-resumes-at-pending-cr", Props: []string{"C08", "C01", "C04"}, File: "parse.go", Negative: true,
			Old: "\teolEnd := -1\n\tfor {", New: "\teolEnd := -1\n\tscanStart := p.i\n\tfor {",
			Edits: [][2]string{
				{"\t\tif i := bytes.IndexAny(p.buf[p.i:], \"\\r\\n\"); i >= 0 {\n\t\t\teolStart := p.i + i", "\t\tif i := bytes.IndexAny(p.buf[scanStart:], \"\\r\\n\"); i >= 0 {\n\t\t\teolStart := scanStart + i"},
				{"\t\t\t\t// Carriage return right before EOF.\n\t\t\t\teolEnd = len(p.buf)\n\t\t\t\tbreak\n\t\t\t}\n\t\t}\n", "\t\t\t\t// Carriage return right before EOF.\n\t\t\t\teolEnd = len(p.buf)\n\t\t\t\tbreak\n\t\t\t}\n\t\t\tscanStart = eolStart\n\t\t} else {\n\t\t\tscanStart = len(p.buf)\n\t\t}\n"},
			},
			Why: "the correct version of the do-not-rescan optimisation: resume at the pending CR, or past the bytes in which nothing was found"},
		Control{Name: "neg-readline-grow-with-append", Props: []string{"C01", "C08", "C04"}, File: "parse.go", Negative: true,
			Old: "\t\t\tnewbuf := make([]byte, len(p.buf), newSize)\n\t\t\tcopy(newbuf, p.buf)\n\t\t\tp.buf = newbuf", New: "\t\t\tp.buf = append(make([]byte, 0, newSize), p.buf...)",
			Why: "the buffer grows into a fresh allocation, written with append"},
		Control{Name: "offset-from-raw-index", Props: []string{"C01"}, File: "parse.go",
			Old: "\t\tp.offset += int64(unpaddedNullLength(p.buf[:p.i]))\n\t\tp.lineno += lineCount(p.buf[:p.i])", New: "\t\tp.offset += int64(p.i)\n\t\tp.lineno += lineCount(p.buf[:p.i])", Expect: "PROV(offset)"},
		Control{Name: "padNulls-without-clamp", Props: []string{"C01"}, File: "parse.go",
			Old: "source = padNulls(source[:len(source):len(source)], 0)", New: "source = padNulls(source, 0)", Expect: "CLAMP"},
		Control{Name: "lineno-counts-LF-only", Props: []string{"C01"}, File: "parse.go",
			Old: "\tp.lineno += lineCount(p.buf[:n])", New: "\tp.lineno += bytes.Count(p.buf[:n], []byte(\"\\n\"))", Expect: "PROV(lineno)"},
		Control{Name: "Source-copied", Props: []string{"C01"}, File: "parse.go",
			Old: "\t\tSource:      p.buf[:n:n],", New: "\t\tSource:      append([]byte(nil), p.buf[:n]...),", Expect: "ALIAS"},
		Control{Name: "Parse-lineno-zero", Props: []string{"C01", "C08"}, File: "parse.go",
			Old: "\t\tlineno: 1,\n\t\terr:    io.EOF,", New: "\t\terr:    io.EOF,", Expect: "CTOR"},
		Control{Name: "blank-skip-forgets-offset", Props: []string{"C01"}, File: "parse.go",
			Old: "\t\t\tp.offset += int64(unpaddedNullLength(p.buf[:p.i]))\n\t\t\tp.lineno++\n", New: "\t\t\tp.lineno++\n", Expect: "CURSOR-PAIR"},
		Control{Name: "padNulls-always-copies", Props: []string{"C01"}, File: "parse.go",
			Old: "\tif n == 0 {\n\t\treturn b\n\t}\n\toldLen := len(b)", New: "\tif n == 0 {\n\t\treturn append([]byte(nil), b...)\n\t}\n\toldLen := len(b)", Expect: "RET-SELF"},
		Control{Name: "offset-measures-other-prefix", Props: []string{"C01"}, File: "parse.go",
			Old: "\tp.offset += originalLength\n\tp.lineno += lineCount(p.buf[:n])", New: "\tp.offset += originalLength\n\tp.lineno += lineCount(p.buf[:p.i])", Expect: "PROV(lineno)"},
		Control{Name: "lineCount-final-cr-not-counted", Props: []string{"C01"}, File: "parse.go",
			Old: "\t\t\tif i+1 >= len(text) || text[i+1] != '\\n' {", New: "\t\t\tif i+1 < len(text) && text[i+1] != '\\n' {", Expect: "LINECOUNT-STEP"},
		Control{Name: "neg-lineCount-if-chain", Props: []string{"C01"}, File: "parse.go", Negative: true,
			Old: "\t\tswitch b {\n\t\tcase '\\n':\n\t\t\tcount++\n\t\tcase '\\r':\n\t\t\tif i+1 >= len(text) || text[i+1] != '\\n' {\n\t\t\t\tcount++\n\t\t\t}\n\t\t}", New: "\t\tif b == '\\n' {\n\t\t\tcount++\n\t\t} else if b == '\\r' {\n\t\t\tlast := i+1 >= len(text)\n\t\t\tif last || text[i+1] != '\\n' {\n\t\t\t\tcount++\n\t\t\t}\n\t\t}"},
		Control{Name: "neg-makeRoot-reordered-updates", Props: []string{"C01"}, File: "parse.go", Negative: true,
			Old: "\tp.offset += originalLength\n\tp.lineno += lineCount(p.buf[:n])\n\tp.buf = p.buf[n:]\n\tp.i -= n", New: "\tp.lineno += lineCount(p.buf[:n])\n\tp.offset += originalLength\n\tp.i -= n\n\tp.buf = p.buf[n:]"},
		Control{Name: "n-used-only-without-error", Props: []string{"C08"}, File: "parse.go",
			Old: "\t\tp.buf = padNulls(p.buf[:len(p.buf)+n], len(p.buf))", New: "\t\tif p.err == nil {\n\t\t\tp.buf = padNulls(p.buf[:len(p.buf)+n], len(p.buf))\n\t\t}", Expect: "READ-N-USED"},
		Control{Name: "retry-on-ErrNoProgress", Props: []string{"C08"}, File: "parse.go",
			Old: "\t\tif p.err != nil {\n\t\t\teolEnd = len(p.buf)\n\t\t\tbreak\n\t\t}\n\n\t\t// Grab more data", New: "\t\tif p.err != nil && p.err != io.ErrNoProgress {\n\t\t\teolEnd = len(p.buf)\n\t\t\tbreak\n\t\t}\n\n\t\t// Grab more data", Expect: "NOREAD"},
		Control{Name: "NextBlock-returns-fresh-EOF", Props: []string{"C08"}, File: "parse.go",
			Old: "\t\t\tif !p.readline() {\n\t\t\t\treturn nil, p.err\n\t\t\t}", New: "\t\t\tif !p.readline() {\n\t\t\t\treturn nil, io.EOF\n\t\t\t}", Expect: "STICKY"},
		Control{Name: "Rewrite-inside-block-loop", Props: []string{"C08", "C12"}, File: "parse.go",
			Old: "\t\tblocks = append(blocks, block)\n\t\trefMap.Extract(block.Source, block.AsNode())", New: "\t\tblocks = append(blocks, block)\n\t\trefMap.Extract(block.Source, block.AsNode())\n\t\t(&InlineParser{ReferenceMatcher: refMap}).Rewrite(block)", Expect: "TWOPASS"},
		Control{Name: "cr-lookahead-folded", Props: []string{"C08", "C01"}, File: "parse.go",
			Old: "\t\t\tif eolStart+1 < len(p.buf) {\n\t\t\t\t// Carriage return with enough buffer for 1 byte lookahead.\n\t\t\t\teolEnd = eolStart + 1\n\t\t\t\tif p.buf[eolEnd] == '\\n' {\n\t\t\t\t\teolEnd++\n\t\t\t\t}\n\t\t\t\tbreak\n\t\t\t}\n\t\t\tif p.err != nil {\n\t\t\t\t// Carriage return right before EOF.\n\t\t\t\teolEnd = len(p.buf)\n\t\t\t\tbreak\n\t\t\t}\n",
			New: "\t\t\teolEnd = eolStart + 1\n\t\t\tif eolEnd < len(p.buf) && p.buf[eolEnd] == '\\n' {\n\t\t\t\teolEnd++\n\t\t\t}\n\t\t\tbreak\n", Expect: "LINE-COMPLETE"},
		Control{Name: "neg-readline-err-test-as-switch", Props: []string{"C08"}, File: "parse.go", Negative: true,
			Old: "\t\tif p.err != nil {\n\t\t\teolEnd = len(p.buf)\n\t\t\tbreak\n\t\t}\n\n\t\t// Grab more data", New: "\t\tif atEOF := p.err != nil; atEOF {\n\t\t\teolEnd = len(p.buf)\n\t\t\tbreak\n\t\t}\n\n\t\t// Grab more data"},
	)
}
