package main

// PREFILTER (C06, C15): a test of the byte after the dispatch byte, placed in front of an inline recogniser,
// lets through every byte the construct can continue with.

import (
	"fmt"
	"go/token"
	"sort"

	"golang.org/x/tools/go/ssa"
)

// firstAfter: for a recogniser called at the dispatch byte, the bytes that can follow that byte in an instance of the
// construct (CommonMark 0.30: autolinks §6.5 — a scheme starts with a letter, an e-mail address with one of
// a-zA-Z0-9.!#$%&'*+/=?^_`{|}~- ; raw HTML §6.6 — tag name letter, '/', '!', '?'; character references §2.5 — '#'
// or a letter/digit of an entity name).
func firstAfterTable() map[string]map[int64]bool {
	set := func(s string, alnum bool, letters bool) map[int64]bool {
		m := map[int64]bool{}
		for i := 0; i < len(s); i++ {
			m[int64(s[i])] = true
		}
		for c := int64('a'); c <= 'z'; c++ {
			if alnum || letters {
				m[c], m[c-'a'+'A'] = true, true
			}
		}
		for c := int64('0'); c <= '9' && alnum; c++ {
			m[c] = true
		}
		return m
	}
	return map[string]map[int64]bool{
		"parseAutolink":        set(".!#$%&'*+/=?^_`{|}~-", true, true),
		"parseHTMLTag":         set("/!?", false, true),
		"parseCharacterEscape": set("#", true, true),
	}
}

func rulePrefilter(c *Ctx) {
	c.Rule("PREFILTER", "In the inline tokenizer, a recogniser that is tried at the dispatch byte (parseAutolink and parseHTMLTag at '<', parseCharacterEscape at '&') stays reachable for every value of the following byte with which an instance of its construct can continue (evaluating the branches that depend on source[pos+1] alone for each of the 256 values, all other branches both ways): a fast path 'nothing can start here' in front of the recogniser must not be narrower than the construct's first set — '<' followed by a digit or by one of .!#$%&'*+/=?^_`{|}~- can start an e-mail autolink.")
	p := c.P
	fn := p.Method("InlineParser", "parse")
	if !c.NeedFunc("PREFILTER", fn, "(*InlineParser).parse") {
		return
	}
	table := firstAfterTable()
	// the symbol: loads of (some byte slice)[X + 1]
	isNext := func(v ssa.Value) bool {
		u, ok := v.(*ssa.UnOp)
		if !ok || u.Op != token.MUL {
			return false
		}
		ia, ok := u.X.(*ssa.IndexAddr)
		if !ok {
			return false
		}
		_, k := splitAdd(ia.Index)
		return k == 1
	}
	e := newBSET(p)
	dom := byteDomain()
	reach := e.reachUnderSym(fn, isNext, dom)
	n := 0
	eachInstr(fn, func(in ssa.Instruction) {
		call, ok := in.(*ssa.Call)
		if !ok {
			return
		}
		g := call.Call.StaticCallee()
		if g == nil {
			return
		}
		want, ok := table[g.Name()]
		if !ok || !p.InModule(g) {
			return
		}
		n++
		var missing []int64
		for v := range want {
			if !reach[call.Block()][v] {
				missing = append(missing, v)
			}
		}
		sort.Slice(missing, func(i, j int) bool { return missing[i] < missing[j] })
		c.Check(len(missing) == 0, "PREFILTER", fmt.Sprintf("parse:%s#%d", g.Name(), n), call.Pos(), "the recogniser is not reached when the byte after the dispatch byte is one of "+describeSet(missing, true)+", with which its construct can continue")
	})
	// recognisers reached through a method (parseHTMLTag takes a reader; parseAutolink a slice): all are plain calls today
	if n < 3 {
		c.Undecided("PREFILTER", "instance-count", fn.Pos(), fmt.Sprintf("%d recogniser calls found in the tokenizer (parseAutolink, parseHTMLTag, parseCharacterEscape confirmed by hand)", n))
	}
}

func init() {
	addControls(
		Control{Name: "angle-bracket-fast-path-letters-only", Props: []string{"C06", "C15"}, File: "inlines.go",
			Old: "\t\t\t\tcase '<':\n\t\t\t\t\tif end := parseAutolink(", New: "\t\t\t\tcase '<':\n\t\t\t\t\tif pos+1 >= state.spanEnd() || !opensHTMLMarkup(source[pos+1]) {\n\t\t\t\t\t\tpos++\n\t\t\t\t\t\tcontinue\n\t\t\t\t\t}\n\t\t\t\t\tif end := parseAutolink(", Expect: "PREFILTER/parse:parseAutolink",
			Why: "<123@example.com> is an e-mail autolink"},
		Control{Name: "neg-angle-bracket-fast-path-space-only", Props: []string{"C06", "C15"}, File: "inlines.go", Negative: true,
			Old: "\t\t\t\tcase '<':\n\t\t\t\t\tif end := parseAutolink(", New: "\t\t\t\tcase '<':\n\t\t\t\t\tif pos+1 >= state.spanEnd() || source[pos+1] == ' ' || source[pos+1] == '\\n' {\n\t\t\t\t\t\tpos++\n\t\t\t\t\t\tcontinue\n\t\t\t\t\t}\n\t\t\t\t\tif end := parseAutolink("},
	)
}
