package main

// c05x.go — UNPARSED-REUSE ("no unparsed node remains", necessary condition) and DEACTIVATE-RANGE.

import (
	"fmt"
	"go/token"
	"go/types"
	"sort"
	"strings"

	"golang.org/x/tools/go/ssa"
)

func isInlinePtr(t types.Type) bool {
	pt, ok := t.Underlying().(*types.Pointer)
	return ok && typeName(pt.Elem()) == "Inline"
}

// attachesParam: which *Inline parameters (index) of a module function/closure end up as an element of an append to a
// []*Inline list, directly or through another such function (bounded depth).
func attachingParams(p *Program) map[*ssa.Function]map[int]bool {
	res := map[*ssa.Function]map[int]bool{}
	var all []*ssa.Function
	for _, f := range p.Funcs {
		all = append(all, withAnons(f)...)
	}
	mark := func(f *ssa.Function, i int) bool {
		if res[f] == nil {
			res[f] = map[int]bool{}
		}
		if res[f][i] {
			return false
		}
		res[f][i] = true
		return true
	}
	paramIndex := func(f *ssa.Function, v ssa.Value) int {
		for i, q := range f.Params {
			if ssa.Value(q) == v {
				return i
			}
		}
		return -1
	}
	for round := 0; round < 4; round++ {
		changed := false
		for _, f := range all {
			eachInstr(f, func(in ssa.Instruction) {
				call, ok := in.(*ssa.Call)
				if !ok {
					return
				}
				if _, isApp := isBuiltinCall(call, "append"); isApp {
					if sl, ok := call.Type().Underlying().(*types.Slice); !ok || !isInlinePtr(sl.Elem()) {
						return
					}
					for _, e := range varargElems(call) {
						if i := paramIndex(f, e); i >= 0 && mark(f, i) {
							changed = true
						}
					}
					return
				}
				g := calleeFunc(call)
				if g == nil || res[g] == nil {
					return
				}
				for j := range res[g] {
					if j < len(call.Call.Args) {
						if i := paramIndex(f, call.Call.Args[j]); i >= 0 && mark(f, i) {
							changed = true
						}
					}
				}
			})
		}
		if !changed {
			break
		}
	}
	return res
}

// calleeFunc resolves a static callee or a directly called closure (call of a MakeClosure value / local func literal).
// For closures the receiver-less Args line up with Params.
func calleeFunc(call *ssa.Call) *ssa.Function {
	if f := call.Call.StaticCallee(); f != nil {
		return f
	}
	if mc, ok := call.Call.Value.(*ssa.MakeClosure); ok {
		return mc.Fn.(*ssa.Function)
	}
	return nil
}

// listElemKey: if v is an element load L[i] with L a load of a []*Inline field, returns a structural key of the address.
func listElemKey(v ssa.Value) (string, bool) {
	ld, ok := v.(*ssa.UnOp)
	if !ok || ld.Op != token.MUL {
		return "", false
	}
	ia, ok := ld.X.(*ssa.IndexAddr)
	if !ok {
		return "", false
	}
	if sl, ok := ia.X.Type().Underlying().(*types.Slice); !ok || !isInlinePtr(sl.Elem()) {
		return "", false
	}
	var expr func(v ssa.Value, d int) string
	expr = func(v ssa.Value, d int) string {
		if d > 6 {
			return "?"
		}
		switch x := v.(type) {
		case *ssa.UnOp:
			if x.Op == token.MUL {
				return "*" + expr(x.X, d+1)
			}
		case *ssa.FieldAddr:
			_, f, _ := fieldAddrInfo(x)
			return expr(x.X, d+1) + "." + f
		case *ssa.Parameter:
			return "param:" + x.Name()
		case *ssa.Const:
			return x.String()
		case *ssa.BinOp:
			return "(" + expr(x.X, d+1) + x.Op.String() + expr(x.Y, d+1) + ")"
		case *ssa.Phi:
			return fmt.Sprintf("phi@%d", x.Block().Index)
		case *ssa.Alloc:
			return fmt.Sprintf("alloc@%d", x.Pos())
		case *ssa.FreeVar:
			return "free:" + x.Name()
		}
		return fmt.Sprintf("%T@%p", v, v)
	}
	return expr(ia.X, 0) + "[" + expr(ia.Index, 0) + "]", true
}

func ruleUnparsedReuse(c *Ctx) {
	c.Rule("UNPARSED-REUSE", "Inline phase, necessary for 'no unparsed node remains': besides the nodes it allocates (never UnparsedKind, LEAFKIND), the inline parser attaches nodes it takes from the block's line list (an element of a []*Inline field). Every such attachment — the element appended to a child list, or passed to a function that appends that parameter — is unreachable when the element's Kind() is UnparsedKind (BSET path-conditioning on the Kind() of that same list element). Handing over a line node instead of a fresh Text node leaves an Unparsed node in the finished tree, which Rewrite never revisits.")
	p := c.P
	unp, ok := kindValue(p, "InlineKind", "UnparsedKind")
	if !ok {
		c.Undecided("UNPARSED-REUSE", "kinds", token.NoPos, "UnparsedKind not found")
		return
	}
	att := attachingParams(p)
	bs := newBSET(p)
	dom, _ := bs.domainFor(p.NamedType("InlineKind"))
	n := 0
	for _, top := range p.Funcs {
		if top.Pkg != p.CMs {
			continue
		}
		inInlinePhase := false
		if top.Signature.Recv() != nil {
			switch typeName(top.Signature.Recv().Type()) {
			case "InlineParser", "inlineState":
				inInlinePhase = true
			}
		}
		if !inInlinePhase {
			continue
		}
		for _, fn := range withAnons(top) {
			eachInstr(fn, func(in ssa.Instruction) {
				call, ok := in.(*ssa.Call)
				if !ok {
					return
				}
				var attached []ssa.Value
				if _, isApp := isBuiltinCall(call, "append"); isApp {
					if sl, ok := call.Type().Underlying().(*types.Slice); ok && isInlinePtr(sl.Elem()) {
						attached = varargElems(call)
					}
				} else if g := calleeFunc(call); g != nil && att[g] != nil {
					for j := range att[g] {
						if j < len(call.Call.Args) {
							attached = append(attached, call.Call.Args[j])
						}
					}
				}
				for _, e := range attached {
					key, isElem := listElemKey(e)
					if !isElem {
						continue
					}
					n++
					// symbol: Kind() of the same element (same value, or a structurally equal element load)
					isSym := func(v ssa.Value) bool {
						cl, ok := v.(*ssa.Call)
						if !ok || cl.Call.StaticCallee() == nil || cl.Call.StaticCallee().Name() != "Kind" || len(cl.Call.Args) != 1 {
							return false
						}
						if cl.Call.Args[0] == e {
							return true
						}
						k2, ok := listElemKey(cl.Call.Args[0])
						return ok && k2 == key
					}
					reach := bs.reachUnderSym(fn, isSym, dom)
					ckey := fmt.Sprintf("%s:attach#%d", shortFuncName(fn), n)
					c.Check(!reach[call.Block()][unp], "UNPARSED-REUSE", ckey, call.Pos(),
						"a node taken from the line list ("+key+") is attached to the tree on a path where it can still be an Unparsed node")
				}
			})
		}
	}
	if n < 1 {
		c.Undecided("UNPARSED-REUSE", "instance-count", token.NoPos, "no reuse of line-list nodes found in the inline phase (the parser keeps Indent nodes of the line list, so there is at least one)")
	}
}

// DEACTIVATE-RANGE: the loop in finishLink that clears the active bit of earlier '[' openers covers the whole stack
// below the opener.
func ruleDeactivateRange(c *Ctx) {
	c.Rule("DEACTIVATE-RANGE", "No link contains a link (necessary condition, with LINK-DEACTIVATE): the loop in finishLink that clears the active bit of earlier `[` openers runs over every stack entry below the finished link's opener — a range over stack[:k], or an index loop starting at the constant 0. A remembered lower bound goes stale when the stack shrinks and leaves an outer opener active.")
	p := c.P
	fn := p.Method("InlineParser", "finishLink")
	if !c.NeedFunc("DEACTIVATE-RANGE", fn, "(*InlineParser).finishLink") {
		return
	}
	n := 0
	for _, l := range naturalLoops(fn) {
		// does the loop store into a flags field?
		var storePos token.Pos
		for b := range l.body {
			for _, in := range b.Instrs {
				if st, ok := in.(*ssa.Store); ok {
					if fa, ok := st.Addr.(*ssa.FieldAddr); ok {
						if _, f, _ := fieldAddrInfo(fa); f == "flags" {
							storePos = st.Pos()
						}
					}
				}
			}
		}
		if !storePos.IsValid() {
			continue
		}
		n++
		// index phi of the loop and its initial value
		var bad []string
		found := false
		for _, in := range l.header.Instrs {
			ph, ok := in.(*ssa.Phi)
			if !ok {
				break
			}
			// loop counter: one edge from outside, one self-increment
			for i, pr := range l.header.Preds {
				if l.body[pr] {
					continue
				}
				init := ph.Edges[i]
				isCounter := false
				for j, pr2 := range l.header.Preds {
					if l.body[pr2] {
						if bo, ok := ph.Edges[j].(*ssa.BinOp); ok && bo.Op == token.ADD && bo.X == ssa.Value(ph) {
							isCounter = true
						}
					}
				}
				if !isCounter {
					continue
				}
				found = true
				k, isC := constInt(init)
				// `for i := range s` starts at -1 with pre-increment, index loops at 0
				if !isC || (k != 0 && k != -1) {
					bad = append(bad, "starts at "+init.String())
				}
			}
		}
		key := fmt.Sprintf("finishLink:loop#%d", n)
		if !found {
			c.Undecided("DEACTIVATE-RANGE", key, storePos, "loop counter not recognised")
			continue
		}
		c.Check(len(bad) == 0, "DEACTIVATE-RANGE", key, storePos, "the deactivation loop does not start at the bottom of the stack: "+strings.Join(bad, ", "))
	}
	if n < 1 {
		c.Undecided("DEACTIVATE-RANGE", "instance-count", fn.Pos(), "no loop storing delimiter flags found in finishLink")
	}
	_ = sort.Strings
}

// UNPARSED-SCAN: Rewrite's test for pending text looks at every inline child.
func ruleUnparsedScan(c *Ctx) {
	c.Rule("UNPARSED-SCAN", "The predicate by which Rewrite decides whether a block still has text to parse (hasUnparsed) examines every inline child of the block: a unit-stride loop over the whole list that answers true for any child of kind Unparsed. A shortcut that looks at the first child only skips a paragraph that begins with an Indent node (a reference definition followed by a tab-indented continuation line inside a container), and its Unparsed nodes stay in the finished tree.")
	p := c.P
	fn := p.Func("hasUnparsed")
	if fn == nil {
		// located by use: the bool-valued module function Rewrite hands a block to before it parses it
		if rw := p.Method("InlineParser", "Rewrite"); rw != nil {
			var cands []*ssa.Function
			eachInstr(rw, func(in ssa.Instruction) {
				call, ok := in.(*ssa.Call)
				if !ok {
					return
				}
				g := call.Call.StaticCallee()
				if g == nil || !p.InModule(g) || g.Signature.Results().Len() != 1 || g.Signature.Results().At(0).Type().String() != "bool" {
					return
				}
				for _, a := range call.Call.Args {
					if typeName(deref(a.Type())) == "Block" {
						cands = append(cands, g)
						return
					}
				}
			})
			if len(cands) == 1 {
				fn = cands[0]
			}
		}
	}
	if !c.NeedFunc("UNPARSED-SCAN", fn, "hasUnparsed") {
		return
	}
	unp, _ := kindValue(p, "InlineKind", "UnparsedKind")
	found := false
	okAll, why := true, ""
	eachInstr(fn, func(in ssa.Instruction) {
		ia, ok := in.(*ssa.IndexAddr)
		if !ok {
			return
		}
		if _, ok := isLoadOfFieldAny(ia.X, "inlineChildren"); !ok {
			return
		}
		found = true
		if ok2, w := unitStrideOver(ia.Index, ia.X); !ok2 {
			// unitStrideOver wants len(param); accept len of the same list load
			okAll, why = false, w
			ph, isPhi := ia.Index.(*ssa.Phi)
			bo, isBo := ia.Index.(*ssa.BinOp)
			if isBo {
				ph, isPhi = bo.X.(*ssa.Phi)
			}
			if isPhi {
				// range loop over the list: index phi starting at -1/0 with +1 steps, bounded by len of a load of the same field
				start, step, bounded := false, false, false
				for _, e := range ph.Edges {
					if k, isC := constInt(e); isC && (k == 0 || k == -1) {
						start = true
					}
					if b2, ok := e.(*ssa.BinOp); ok && b2.Op == token.ADD && b2.X == ssa.Value(ph) {
						if one, isC := constInt(b2.Y); isC && one == 1 {
							step = true
						}
					}
				}
				for _, blk := range fn.Blocks {
					if iff := blockIf(blk); iff != nil {
						if cmp, ok := iff.Cond.(*ssa.BinOp); ok && cmp.Op == token.LSS {
							if cl, ok := isBuiltinCall(cmp.Y, "len"); ok {
								if _, ok := isLoadOfFieldAny(cl.Call.Args[0], "inlineChildren"); ok {
									bounded = true
								}
							}
						}
					}
				}
				if start && step && bounded {
					okAll, why = true, ""
				}
				// counting down: from len(list)-1 by -1 while the index is >= 0
				dstart, dstep, dbound := false, false, false
				for _, e := range ph.Edges {
					if b2, ok := e.(*ssa.BinOp); ok && b2.Op == token.SUB {
						if one, isC := constInt(b2.Y); isC && one == 1 {
							if b2.X == ssa.Value(ph) {
								dstep = true
							} else if cl, ok := isBuiltinCall(b2.X, "len"); ok {
								if _, ok := isLoadOfFieldAny(cl.Call.Args[0], "inlineChildren"); ok {
									dstart = true
								}
							}
						}
					}
				}
				for _, blk := range fn.Blocks {
					if iff := blockIf(blk); iff != nil {
						if cmp, ok := iff.Cond.(*ssa.BinOp); ok && cmp.X == ssa.Value(ph) {
							if k, isC := constInt(cmp.Y); isC && ((cmp.Op == token.GEQ && k == 0) || (cmp.Op == token.GTR && k == -1)) {
								dbound = true
							}
						}
					}
				}
				if dstart && dstep && dbound {
					okAll, why = true, ""
				}
			}
		}
	})
	if !found {
		c.Viol("UNPARSED-SCAN", "hasUnparsed:loop", fn.Pos(), "no loop over the block's inline children")
		return
	}
	// constant index (first child only)?
	eachInstr(fn, func(in ssa.Instruction) {
		if ia, ok := in.(*ssa.IndexAddr); ok {
			if _, isList := isLoadOfFieldAny(ia.X, "inlineChildren"); isList {
				if _, isC := constInt(ia.Index); isC {
					okAll, why = false, "a child at a constant position decides for the whole block"
				}
			}
		}
	})
	if why == "" {
		why = "every inline child is examined"
	}
	c.Check(okAll, "UNPARSED-SCAN", "hasUnparsed", fn.Pos(), why)
	// a child of kind Unparsed settles the answer: with the child's kind fixed to Unparsed, every way through the loop
	// body (conditions on anything else taken both ways) ends in `return true`
	isElem := func(v ssa.Value) bool {
		ld, ok := v.(*ssa.UnOp)
		if !ok || ld.Op != token.MUL {
			return false
		}
		ia, ok := ld.X.(*ssa.IndexAddr)
		if !ok {
			return false
		}
		_, isList := isLoadOfFieldAny(ia.X, "inlineChildren")
		return isList
	}
	var kindVals []ssa.Value
	eachInstr(fn, func(in ssa.Instruction) {
		switch x := in.(type) {
		case *ssa.Call:
			if g := x.Call.StaticCallee(); g != nil && g.Name() == "Kind" && len(x.Call.Args) == 1 && isElem(x.Call.Args[0]) {
				kindVals = append(kindVals, x)
			}
		case *ssa.UnOp:
			if x.Op == token.MUL {
				if fa, ok := isFieldAddr(x.X, "Inline", "kind"); ok && isElem(fa.X) {
					kindVals = append(kindVals, x)
				}
			}
		}
	})
	if len(kindVals) == 0 {
		return
	}
	isKind := map[ssa.Value]bool{}
	for _, k := range kindVals {
		isKind[k] = true
	}
	st := &evalState{e: newBSET(p), fn: fn, from: make([]int, len(fn.Blocks)), noLoopPhi: true}
	st.symVal = func(v ssa.Value) (int64, bool) {
		if isKind[v] {
			return unp, true
		}
		return 0, false
	}
	for i := range st.from {
		st.from[i] = -2
	}
	start := kindVals[0].(ssa.Instruction).Block()
	escapes := ""
	visited := map[*ssa.BasicBlock]bool{}
	var dfs func(b *ssa.BasicBlock)
	dfs = func(b *ssa.BasicBlock) {
		if escapes != "" {
			return
		}
		if visited[b] {
			if b == start || b.Dominates(start) {
				escapes = "the loop goes on to the next child"
			}
			return
		}
		visited[b] = true
		switch t := b.Instrs[len(b.Instrs)-1].(type) {
		case *ssa.Return:
			if len(t.Results) == 1 {
				if k, ok := t.Results[0].(*ssa.Const); ok && k.Value != nil && k.Value.String() == "true" {
					return
				}
			}
			escapes = "a path returns something other than true"
		case *ssa.If:
			succs := b.Succs
			st.why = ""
			if v, ok := st.eval(t.Cond); ok {
				if v != 0 {
					succs = b.Succs[:1]
				} else {
					succs = b.Succs[1:]
				}
			}
			for _, s := range succs {
				if s.Dominates(start) && s != start {
					escapes = "the loop goes on to the next child"
					return
				}
				st.from[s.Index] = b.Index
				dfs(s)
			}
		case *ssa.Jump:
			s := b.Succs[0]
			if s.Dominates(start) && s != start {
				escapes = "the loop goes on to the next child"
				return
			}
			st.from[s.Index] = b.Index
			dfs(s)
		}
	}
	dfs(start)
	c.Check(escapes == "", "UNPARSED-SCAN", "hasUnparsed:kind-decides", kindVals[0].Pos(), "a child of kind Unparsed does not always make the answer true: "+escapes)
}

// LOOSE-AGREE: the items of a list carry the list's own tightness.
func ruleLooseAgree(c *Ctx) {
	c.Rule("LOOSE-AGREE", "Every store into the tightness flag (listLoose) of a block taken from X.blockChildren — an item of the list X — stores X's own flag: the loaded X.listLoose, or the constant c on a path dominated by the branch X.listLoose == c; it runs for every item (a unit-stride loop over the whole X.blockChildren, the store on every iteration). A per-item condition (only items with several children, only non-empty items) makes IsTightList disagree between a list and some of its items.")
	p := c.P
	n := 0
	for _, fn := range p.Funcs {
		if fn.Blocks == nil {
			continue
		}
		var loops []natLoop
		eachInstr(fn, func(in ssa.Instruction) {
			st, ok := in.(*ssa.Store)
			if !ok {
				return
			}
			fa, ok := isFieldAddr(st.Addr, "Block", "listLoose")
			if !ok {
				return
			}
			ld, ok := fa.X.(*ssa.UnOp)
			if !ok || ld.Op != token.MUL {
				return
			}
			ia, ok := ld.X.(*ssa.IndexAddr)
			if !ok {
				return
			}
			sl, ok := ia.X.(*ssa.UnOp)
			if !ok || sl.Op != token.MUL {
				return
			}
			cf, ok := isFieldAddr(sl.X, "Block", "blockChildren")
			if !ok {
				return
			}
			list := cf.X
			n++
			label := shortFuncName(fn)
			if strings.HasPrefix(label, "init$") {
				label = "rule-closure"
			}
			key := fmt.Sprintf("%s:item-store#%d", label, n)
			// value
			okVal, why := false, "the value stored is neither the list's flag nor a constant under a test of the list's flag"
			if vl, ok := st.Val.(*ssa.UnOp); ok && vl.Op == token.MUL {
				if lf, ok := isFieldAddr(vl.X, "Block", "listLoose"); ok && (lf.X == list || sameTerm(lf.X, list)) {
					okVal = true
				}
			}
			if k, ok := st.Val.(*ssa.Const); ok && k.Value != nil {
				want := k.Value.String() == "true"
				for _, b := range fn.Blocks {
					iff := blockIf(b)
					if iff == nil {
						continue
					}
					cond := stripNot(iff.Cond)
					cl, ok := cond.(*ssa.UnOp)
					if !ok || cl.Op != token.MUL {
						continue
					}
					lf, ok := isFieldAddr(cl.X, "Block", "listLoose")
					if !ok || !(lf.X == list || sameTerm(lf.X, list)) {
						continue
					}
					edge := 0
					if !want {
						edge = 1
					}
					if isNegated(iff.Cond) {
						edge = 1 - edge
					}
					if edgeDominates(b, edge, st.Block()) {
						okVal = true
					}
				}
			}
			c.Check(okVal, "LOOSE-AGREE", key, st.Pos(), why)
			// coverage
			if loops == nil {
				loops = naturalLoops(fn)
			}
			var loop *natLoop
			for i := range loops {
				if loops[i].body[st.Block()] && (loop == nil || len(loops[i].body) < len(loop.body)) {
					loop = &loops[i]
				}
			}
			every := false
			whyC := "the store is not inside a loop over the list's children"
			if loop != nil {
				ok, w := unitStrideOver(ia.Index, sl)
				whyC = "the loop does not visit every child: " + w
				if ok {
					every = true
					for _, l := range loop.latches {
						if !st.Block().Dominates(l) {
							every = false
							whyC = "the store is skipped on some iterations"
						}
					}
				}
			}
			c.Check(every, "LOOSE-AGREE", key+":every-item", st.Pos(), whyC)
		})
	}
	c.Analysed["item_tightness_stores"] = n
	if n == 0 {
		c.Assume("LOOSE-AGREE: no store into the tightness flag of a list's child was found; the rule recognises nothing and decides nothing")
	}
}

// UNPARSED-RETURN: the inline pass hands back what it built, never the block's line nodes.
func ruleUnparsedReturn(c *Ctx) {
	c.Rule("UNPARSED-RETURN", "(*InlineParser).parse replaces a block's line nodes (Unparsed, Indent) by inline nodes; Rewrite stores what it returns as the block's children. No value it returns is the block's own inlineChildren slice (or a re-slice of it): a fast path 'nothing to do, return the children as they are' leaves an UnparsedKind node in a fully parsed tree — for an empty ATX heading, whose only line node has zero length.")
	p := c.P
	fn := p.Method("InlineParser", "parse")
	if !c.NeedFunc("UNPARSED-RETURN", fn, "(*InlineParser).parse") {
		return
	}
	n := 0
	for i, r := range returnsOf(fn) {
		for _, res := range r.Results {
			n++
			bad := false
			seen := map[ssa.Value]bool{}
			var walk func(v ssa.Value, d int)
			walk = func(v ssa.Value, d int) {
				if v == nil || seen[v] || d > 6 {
					return
				}
				seen[v] = true
				switch x := v.(type) {
				case *ssa.Slice:
					walk(x.X, d+1)
				case *ssa.Phi:
					for _, e := range x.Edges {
						walk(e, d+1)
					}
				case *ssa.UnOp:
					if _, ok := isLoadOfField(x, "Block", "inlineChildren"); ok {
						bad = true
					}
				}
			}
			walk(res, 0)
			c.Check(!bad, "UNPARSED-RETURN", fmt.Sprintf("parse:return#%d", i), r.Pos(), "the block's own line nodes are returned as the result of the inline pass")
		}
	}
	if n == 0 {
		c.Undecided("UNPARSED-RETURN", "parse:returns", fn.Pos(), "no return found")
	}
}

func init() {
	addControls(
		Control{Name: "inline-pass-returns-line-nodes-for-empty-text", Props: []string{"C05"}, File: "inlines.go",
			Old: "func (p *InlineParser) parse(source []byte, container *Block) []*Inline {\n", New: "func (p *InlineParser) parse(source []byte, container *Block) []*Inline {\n\tif len(container.inlineChildren) == 1 && container.inlineChildren[0].Span().Len() == 0 {\n\t\treturn container.inlineChildren\n\t}\n", Expect: "UNPARSED-RETURN/parse:return"},
	)
}
