package main

// C12 — references: FIRSTWINS, REFCLOSURE, NORMPROV, TWOPASS, TRAV(Extract).

import (
	"fmt"
	"go/constant"
	"go/token"
	"go/types"
	"sort"
	"strings"

	"golang.org/x/tools/go/ssa"
)

func init() { props["C12"] = checkC12 }

func checkC12(c *Ctx) {
	ruleFirstWins(c)
	ruleRefClosure(c)
	ruleNormProv(c)
	ruleNormWS(c)
	ruleNormReader(c)
	ruleRawViewPhase(c)
	ruleNulView(c)
	ruleSameMachine(c)
	ruleSpecBoundsFor(c, "C12")
	c.Rule("TRAV", "Explicit-stack traversals whose visiting order is observable pop from the end and push children by descending index (a stack; a queue would visit breadth-first): containers are visited in document order, so 'first definition' means first in source.")
	if fn := c.P.Method("ReferenceMap", "Extract"); c.NeedFunc("TRAV", fn, "(ReferenceMap).Extract") {
		ok, why := travOrder(fn)
		c.Check(ok, "TRAV", "(ReferenceMap).Extract", fn.Pos(), why)
	}
	c.Assume("the normaliser's own semantics (Unicode case folding, whitespace collapse) and label recognition are not decided")
}

func isRefMapType(t types.Type) bool {
	n := namedOf(t)
	return n != nil && n.Obj().Name() == "ReferenceMap" && n.Obj().Pkg() != nil && n.Obj().Pkg().Path() == cmPath
}

func ruleFirstWins(c *Ctx) {
	c.Rule("FIRSTWINS", "Every update of a ReferenceMap is dominated by the not-found edge of a lookup of the same map with the same key: an existing definition is never replaced.")
	n := 0
	for _, fn := range c.P.Funcs {
		eachInstr(fn, func(in ssa.Instruction) {
			mu, ok := in.(*ssa.MapUpdate)
			if !ok || !isRefMapType(mu.Map.Type()) {
				return
			}
			n++
			key := fmt.Sprintf("%s:update#%d", shortFuncName(fn), n)
			guarded := false
			for _, b := range fn.Blocks {
				iff := blockIf(b)
				if iff == nil {
					continue
				}
				cond := stripNot(iff.Cond)
				ex, ok := cond.(*ssa.Extract)
				if !ok || ex.Index != 1 {
					continue
				}
				lk, ok := ex.Tuple.(*ssa.Lookup)
				if !ok || !lk.CommaOk || lk.X != mu.Map || !sameValue(lk.Index, mu.Key) {
					continue
				}
				notFound := 1
				if isNegated(iff.Cond) {
					notFound = 0
				}
				if edgeDominates(b, notFound, mu.Block()) {
					// no other update of the map between the lookup and this update
					clean := !pathHasOtherUpdate(lk, mu)
					if clean {
						guarded = true
					}
				}
			}
			c.Check(guarded, "FIRSTWINS", key, mu.Pos(), "map update must lie behind the not-found edge of `_, ok := m[key]` for the same map and key")
		})
	}
	if n < 1 {
		c.Undecided("FIRSTWINS", "instance-count", token.NoPos, "no ReferenceMap update found in the module")
	}
}

func pathHasOtherUpdate(from ssa.Instruction, to *ssa.MapUpdate) bool {
	// is there a path from `from` to `to` that executes another MapUpdate on the same map?
	hitOther := false
	seen := map[*ssa.BasicBlock]bool{}
	var walk func(b *ssa.BasicBlock, start int, dirty bool)
	walk = func(b *ssa.BasicBlock, start int, dirty bool) {
		for _, in := range b.Instrs[start:] {
			if in == ssa.Instruction(to) {
				if dirty {
					hitOther = true
				}
				return
			}
			if mu, ok := in.(*ssa.MapUpdate); ok && mu.Map == to.Map {
				dirty = true
			}
		}
		for _, s := range b.Succs {
			if !seen[s] {
				seen[s] = true
				walk(s, 0, dirty)
			}
		}
	}
	walk(from.Block(), instrIndex(from)+1, false)
	return hitOther
}

// matchCallArg: cond is a successful-match test — the interface call MatchReference(v), or a call of a module helper
// that returns true only when MatchReference (or a lookup in the reference map) succeeded for the label it was given.
// Returns the label value in the caller.
func matchCallArg(cond ssa.Value) (ssa.Value, bool) {
	ci, ok := cond.(*ssa.Call)
	if !ok {
		return nil, false
	}
	if ci.Call.IsInvoke() {
		if ci.Call.Method.Name() == "MatchReference" && len(ci.Call.Args) == 1 {
			return ci.Call.Args[0], true
		}
		return nil, false
	}
	g := ci.Call.StaticCallee()
	if g == nil || g.Blocks == nil {
		return nil, false
	}
	// every non-false return of g is a match result for one and the same parameter
	pi := -1
	for _, r := range returnsOf(g) {
		if len(r.Results) != 1 {
			return nil, false
		}
		seen := map[ssa.Value]bool{}
		okAll := true
		var w func(v ssa.Value)
		w = func(v ssa.Value) {
			if seen[v] || !okAll {
				return
			}
			seen[v] = true
			switch x := v.(type) {
			case *ssa.Const:
				if x.Value != nil && x.Value.Kind() == constant.Bool && !constant.BoolVal(x.Value) {
					return // false: no match claimed
				}
				okAll = false
			case *ssa.Phi:
				for _, e := range x.Edges {
					w(e)
				}
			case *ssa.Call:
				if a, ok := matchCallArg(x); ok {
					for i, q := range g.Params {
						if ssa.Value(q) == a {
							if pi >= 0 && pi != i {
								okAll = false
							}
							pi = i
							return
						}
					}
				}
				okAll = false
			case *ssa.Extract:
				// `_, found := m[label]` on a reference map
				if lk, ok := x.Tuple.(*ssa.Lookup); ok && lk.CommaOk && x.Index == 1 {
					for i, q := range g.Params {
						if ssa.Value(q) == lk.Index {
							if pi >= 0 && pi != i {
								okAll = false
							}
							pi = i
							return
						}
					}
				}
				okAll = false
			default:
				okAll = false
			}
		}
		w(r.Results[0])
		if !okAll {
			return nil, false
		}
	}
	if pi < 0 || pi >= len(ci.Call.Args) {
		return nil, false
	}
	return ci.Call.Args[pi], true
}

// matchEdgeDominates: blk is dominated by the true edge of a successful-match test of arg where argOK(arg).
func matchEdgeDominates(fn *ssa.Function, blk *ssa.BasicBlock, argOK func(ssa.Value) bool) bool {
	for _, b := range fn.Blocks {
		iff := blockIf(b)
		if iff == nil {
			continue
		}
		cond := stripNot(iff.Cond)
		arg, ok := matchCallArg(cond)
		if !ok {
			continue
		}
		if !argOK(arg) {
			continue
		}
		idx := 0
		if isNegated(iff.Cond) {
			idx = 1
		}
		if edgeDominates(b, idx, blk) {
			return true
		}
	}
	return false
}

func ruleRefClosure(c *Ctx) {
	c.Rule("REFCLOSURE", "Every instruction that makes a link/image node a reference (a store to the ref field of a node produced by wrap, or appending a LinkLabel child to such a node) is dominated by the true edge of ReferenceMatcher.MatchReference called with the very value that becomes the node's reference.")
	p := c.P
	wrap := p.Method("inlineState", "wrap")
	if !c.NeedFunc("REFCLOSURE", wrap, "(*inlineState).wrap") {
		return
	}
	n := 0
	for _, fn := range p.Funcs {
		eachInstr(fn, func(in ssa.Instruction) {
			switch x := in.(type) {
			case *ssa.Store:
				fa, ok := isFieldAddr(x.Addr, "Inline", "ref")
				if !ok {
					return
				}
				// the reference of a freshly built label node (a definition's label, a full reference's label) is the
				// label's own text; it becomes a link's reference only when the label is attached (checked below)
				if al, isAl := fa.X.(*ssa.Alloc); isAl && allocHasKind(al, "LinkLabelKind") {
					return
				}
				n++
				key := fmt.Sprintf("%s:ref-store#%d", shortFuncName(fn), n)
				ok2 := matchEdgeDominates(fn, x.Block(), func(a ssa.Value) bool { return a == x.Val })
				c.Check(ok2, "REFCLOSURE", key, x.Pos(), "a node is given a reference without a dominating successful MatchReference of that same value")
			case *ssa.Call:
				if _, ok := isBuiltinCall(x, "append"); !ok {
					return
				}
				// append(linkNode.children, label) with linkNode from wrap and label a LinkLabelKind node
				if _, ok := isLoadOfField(x.Call.Args[0], "Inline", "children"); !ok {
					return
				}
				elems := varargElems(x)
				for _, e := range elems {
					al, ok := e.(*ssa.Alloc)
					if !ok || !allocHasKind(al, "LinkLabelKind") {
						continue
					}
					n++
					key := fmt.Sprintf("%s:label-append#%d", shortFuncName(fn), n)
					ok2 := matchEdgeDominates(fn, x.Block(), func(a ssa.Value) bool {
						fa2, ok := isLoadOfField(a, "Inline", "ref")
						return ok && fa2.X == ssa.Value(al)
					})
					c.Check(ok2, "REFCLOSURE", key, x.Pos(), "a label is attached to a link/image without a dominating successful MatchReference of the label's reference")
				}
			}
		})
	}
	if n < 1 {
		c.Undecided("REFCLOSURE", "instance-count", token.NoPos, fmt.Sprintf("%d reference-creating sites found (every store to Inline.ref and every attachment of a label node in the module is inspected; a parser with reference links has at least one)", n))
	}
}

// varargElems returns the values stored into the variadic slice of an append call.
func varargElems(call *ssa.Call) []ssa.Value {
	var out []ssa.Value
	if len(call.Call.Args) < 2 {
		return nil
	}
	sl, ok := call.Call.Args[1].(*ssa.Slice)
	if !ok {
		return nil
	}
	al, ok := sl.X.(*ssa.Alloc)
	if !ok {
		return nil
	}
	for _, r := range refsOf(al) {
		if ia, ok := r.(*ssa.IndexAddr); ok {
			for _, rr := range refsOf(ia) {
				if st, ok := rr.(*ssa.Store); ok {
					out = append(out, st.Val)
				}
			}
		}
	}
	return out
}

// allocKinds returns the constant kind names stored into the kind field of a node literal.
func allocKindValues(al *ssa.Alloc) []ssa.Value {
	var out []ssa.Value
	for _, r := range refsOf(al) {
		fa, ok := r.(*ssa.FieldAddr)
		if !ok {
			continue
		}
		_, f, _ := fieldAddrInfo(fa)
		if f != "kind" {
			continue
		}
		for _, rr := range refsOf(fa) {
			if st, ok := rr.(*ssa.Store); ok && st.Addr == ssa.Value(fa) {
				out = append(out, st.Val)
			}
		}
	}
	return out
}

func kindConstName(pkg *types.Package, t types.Type, v ssa.Value) string {
	cv, ok := constInt(v)
	if !ok {
		return ""
	}
	for _, k := range ConstsOfType(pkg, t) {
		if kv, ok := constInt64Of(k); ok && kv == cv {
			return k.Name()
		}
	}
	return fmt.Sprintf("%d", cv)
}

func constInt64Of(k *types.Const) (int64, bool) {
	s := k.Val().ExactString()
	var v int64
	_, err := fmt.Sscanf(s, "%d", &v)
	return v, err == nil
}

func allocHasKind(al *ssa.Alloc, name string) bool {
	for _, v := range allocKindValues(al) {
		n := namedOf(v.Type())
		if n == nil {
			continue
		}
		if kindConstName(n.Obj().Pkg(), n, v) == name {
			return true
		}
	}
	return false
}

func ruleNormProv(c *Ctx) {
	c.Rule("NORMPROV", "Every value stored to Inline.ref anywhere is the result of transformLinkReference or transformLinkReferenceSpan; transformLinkReference delegates to transformLinkReferenceSpan; the key Extract inserts is (*Inline).LinkReference(), whose results are loads of that field: definitions and uses go through the one normaliser.")
	p := c.P
	t1 := p.Func("transformLinkReference")
	t2 := p.Func("transformLinkReferenceSpan")
	if !c.NeedFunc("NORMPROV", t1, "transformLinkReference") || !c.NeedFunc("NORMPROV", t2, "transformLinkReferenceSpan") {
		return
	}
	n := 0
	for _, fn := range p.Funcs {
		eachInstr(fn, func(in ssa.Instruction) {
			st, ok := in.(*ssa.Store)
			if !ok {
				return
			}
			if _, ok := isFieldAddr(st.Addr, "Inline", "ref"); !ok {
				return
			}
			n++
			key := fmt.Sprintf("%s:ref#%d", shortFuncName(fn), n)
			good := false
			var check func(v ssa.Value, depth int) bool
			check = func(v ssa.Value, depth int) bool {
				switch x := v.(type) {
				case *ssa.Call:
					f := x.Call.StaticCallee()
					return f == t1 || f == t2
				case *ssa.Phi:
					if depth > 4 {
						return false
					}
					for _, e := range x.Edges {
						if !check(e, depth+1) {
							return false
						}
					}
					return true
				}
				return false
			}
			good = check(st.Val, 0)
			c.Check(good, "NORMPROV", key, st.Pos(), "reference stored without passing through the normaliser: "+st.Val.String())
		})
	}
	if n < 2 {
		c.Undecided("NORMPROV", "instance-count", token.NoPos, fmt.Sprintf("%d stores to Inline.ref found; every store in the module is inspected and there must be at least one for definitions and one for uses", n))
	}
	// NORM-FOLD: every result of the normaliser passed through Unicode case folding
	for i, r := range returnsOf(t2) {
		v := r.Results[0]
		good := false
		if cl, ok := v.(*ssa.Call); ok {
			if f := cl.Call.StaticCallee(); f != nil && f.String() == "(golang.org/x/text/cases.Caser).String" {
				if inner, ok := cl.Call.Args[0].(*ssa.Call); ok && inner.Call.StaticCallee() != nil && inner.Call.StaticCallee().String() == "golang.org/x/text/cases.Fold" {
					good = true
				}
			}
		}
		if str, ok := constString(v); ok && str == "" {
			good = true
		}
		c.Check(good, "NORMPROV", fmt.Sprintf("transformLinkReferenceSpan:return#%d:folded", i), r.Pos(), "every label the normaliser returns must be the result of cases.Fold().String(…): a path that skips folding stores keys in a different normal form")
	}
	// BACKTRACK-FULL: when the label starts at a node emitted earlier (the position after an opener on the delimiter stack),
	// the normaliser must be given the whole unparsed list, not the suffix from the current node.
	for _, fn := range p.Funcs {
		eachInstr(fn, func(in ssa.Instruction) {
			call, ok := in.(*ssa.Call)
			if !ok || call.Call.StaticCallee() != t2 || fn == t1 {
				return
			}
			nodes := call.Call.Args[1]
			if sl, ok := nodes.(*ssa.Slice); ok && sl.Low != nil && !isZero(sl.Low) {
				if _, isUnparsed := isLoadOfField(sl.X, "inlineState", "unparsed"); isUnparsed {
					c.Viol("NORMPROV", shortFuncName(fn)+":label-nodes", in.Pos(), "a label that began at an earlier node is normalised over only the suffix of the unparsed list: the text before the current node is lost")
					return
				}
			}
			c.OK("NORMPROV", shortFuncName(fn)+":label-nodes", in.Pos(), "normaliser is given the full node list")
		})
	}
	// delegation
	deleg := true
	for _, r := range returnsOf(t1) {
		v := r.Results[0]
		if s, ok := constString(v); ok && s == "" {
			continue
		}
		if cl, ok := v.(*ssa.Call); ok && cl.Call.StaticCallee() == t2 {
			continue
		}
		deleg = false
	}
	c.Check(deleg, "NORMPROV", "transformLinkReference:delegates", t1.Pos(), "transformLinkReference must return \"\" or transformLinkReferenceSpan(...)")
	// Extract's key
	ext := p.Method("ReferenceMap", "Extract")
	lr := p.Method("Inline", "LinkReference")
	if ext != nil && lr != nil {
		eachInstr(ext, func(in ssa.Instruction) {
			if mu, ok := in.(*ssa.MapUpdate); ok && isRefMapType(mu.Map.Type()) {
				cl, ok := mu.Key.(*ssa.Call)
				c.Check(ok && cl.Call.StaticCallee() == lr, "NORMPROV", "Extract:key", mu.Pos(), "the key inserted must be the label node's LinkReference()")
			}
		})
		okLR := true
		for _, r := range returnsOf(lr) {
			v := r.Results[0]
			if _, ok := isLoadOfField(v, "Inline", "ref"); ok {
				continue
			}
			if cl, ok := v.(*ssa.Call); ok && cl.Call.StaticCallee() == lr {
				continue
			}
			okLR = false
		}
		c.Check(okLR, "NORMPROV", "LinkReference:returns-ref", lr.Pos(), "LinkReference must return the stored (normalised) ref field")
	}
}

// travOrder recognises the two document-order idioms of explicit-stack traversals.
func travOrder(fn *ssa.Function) (bool, string) {
	var header *ssa.BasicBlock
	var stack *ssa.Phi
	for _, b := range fn.Blocks {
		iff := blockIf(b)
		if iff == nil {
			continue
		}
		bo, ok := iff.Cond.(*ssa.BinOp)
		if !ok || bo.Op != token.GTR || !isZero(bo.Y) {
			continue
		}
		cl, ok := isBuiltinCall(bo.X, "len")
		if !ok {
			continue
		}
		if ph, ok := cl.Call.Args[0].(*ssa.Phi); ok && ph.Block() == b {
			header, stack = b, ph
		}
	}
	if header == nil {
		return false, "explicit-stack loop `for len(stack) > 0` not recognised"
	}
	isLenMinus1 := func(v ssa.Value) bool {
		bo, ok := v.(*ssa.BinOp)
		if !ok || bo.Op != token.SUB {
			return false
		}
		one, ok := constInt(bo.Y)
		cl, ok2 := isBuiltinCall(bo.X, "len")
		return ok && one == 1 && ok2 && cl.Call.Args[0] == ssa.Value(stack)
	}
	popEnd, popFront := false, false
	eachInstr(fn, func(in ssa.Instruction) {
		if ia, ok := in.(*ssa.IndexAddr); ok && ia.X == ssa.Value(stack) {
			if isLenMinus1(ia.Index) {
				popEnd = true
			} else if isZero(ia.Index) {
				popFront = true
			}
		}
	})
	// children pushes: appends to the stack inside an inner loop with an index phi
	desc, asc := false, false
	found := false
	eachInstr(fn, func(in ssa.Instruction) {
		call, ok := in.(*ssa.Call)
		if !ok {
			return
		}
		if _, ok := isBuiltinCall(call, "append"); !ok || !types.Identical(call.Type(), stack.Type()) {
			return
		}
		// the pushed child: Child(x, i) with i a phi
		for _, e := range varargElems(call) {
			var idx ssa.Value
			switch x := e.(type) {
			case *ssa.Call:
				if len(x.Call.Args) >= 2 {
					idx = x.Call.Args[len(x.Call.Args)-1]
				}
			case *ssa.UnOp:
				if ia, ok := x.X.(*ssa.IndexAddr); ok {
					idx = ia.Index
				}
			}
			if idx == nil {
				// maybe wrapped: AsNode(children[i]) etc.
				if x, ok := e.(*ssa.Call); ok && len(x.Call.Args) == 1 {
					if ld, ok := x.Call.Args[0].(*ssa.UnOp); ok {
						if ia, ok := ld.X.(*ssa.IndexAddr); ok {
							idx = ia.Index
						}
					} else if inner, ok := x.Call.Args[0].(*ssa.Call); ok && len(inner.Call.Args) >= 2 {
						idx = inner.Call.Args[len(inner.Call.Args)-1]
					}
				}
			}
			ph, ok := idx.(*ssa.Phi)
			if !ok {
				continue
			}
			found = true
			for _, ed := range ph.Edges {
				if bo, ok := ed.(*ssa.BinOp); ok && bo.X == ssa.Value(ph) {
					if one, ok := constInt(bo.Y); ok && one == 1 {
						if bo.Op == token.SUB {
							desc = true
						} else if bo.Op == token.ADD {
							asc = true
						}
					}
				}
			}
		}
	})
	if !found {
		return false, "no indexed child push found in the traversal"
	}
	switch {
	case popEnd && desc && !asc && !popFront:
		return true, "pop from the end, children pushed by descending index"
	case popFront:
		return false, "frames are taken from the front of the slice: a queue visits level by level, not in document order, so a shallower later node is seen before a deeper earlier one"
	}
	return false, fmt.Sprintf("traversal order idiom not document order (popEnd=%v popFront=%v descending=%v ascending=%v)", popEnd, popFront, desc, asc)
}

func init() {
	addControls(
		Control{Name: "Extract-children-ascending", Props: []string{"C12"}, File: "references.go",
			Old: "\t\t\tfor i := block.ChildCount() - 1; i >= 0; i-- {", New: "\t\t\tfor i := 0; i < block.ChildCount(); i++ {", Expect: "TRAV"},
		Control{Name: "Extract-last-definition-wins", Props: []string{"C12"}, File: "references.go",
			Old: "\t\t\tif _, exists := m[label]; label == \"\" || exists {", New: "\t\t\tif label == \"\" {", Expect: "FIRSTWINS"},
		Control{Name: "shortcut-accepted-without-matcher", Props: []string{"C12"}, File: "inlines.go",
			Old: "\t\tif p.ReferenceMatcher == nil || !p.ReferenceMatcher.MatchReference(normalizedLabel) {\n\t\t\tstate.addToRoot(&Inline{\n\t\t\t\tkind: TextKind,\n\t\t\t\tspan: Span{\n\t\t\t\t\tStart: start,\n\t\t\t\t\tEnd:   start + 1,",
			New: "\t\tif p.ReferenceMatcher != nil && !p.ReferenceMatcher.MatchReference(normalizedLabel) {\n\t\t\tstate.addToRoot(&Inline{\n\t\t\t\tkind: TextKind,\n\t\t\t\tspan: Span{\n\t\t\t\t\tStart: start,\n\t\t\t\t\tEnd:   start + 1,", Expect: "REFCLOSURE"},
		Control{Name: "ref-lowercased-instead-of-folded", Props: []string{"C12"}, File: "inlines.go",
			Old: "\t\tlinkNode.ref = normalizedLabel\n\t\tlinkNode.span = Span{", New: "\t\tlinkNode.ref = strings.ToLower(normalizedLabel)\n\t\tlinkNode.span = Span{", Expect: "NORMPROV"},
		Control{Name: "full-reference-checks-other-label", Props: []string{"C12"}, File: "inlines.go",
			Old: "\t\tif p.ReferenceMatcher == nil || !p.ReferenceMatcher.MatchReference(inlineLabel.ref) {", New: "\t\tif p.ReferenceMatcher == nil || !p.ReferenceMatcher.MatchReference(strings.TrimSpace(inlineLabel.ref)) {", Expect: "REFCLOSURE"},
		Control{Name: "neg-Extract-exists-test-split", Props: []string{"C12"}, File: "references.go", Negative: true,
			Old: "\t\t\tif _, exists := m[label]; label == \"\" || exists {\n\t\t\t\tcontinue\n\t\t\t}", New: "\t\t\tif label == \"\" {\n\t\t\t\tcontinue\n\t\t\t}\n\t\t\tif _, exists := m[label]; exists {\n\t\t\t\tcontinue\n\t\t\t}"},
	)
}

// unicodeWSFuncs: external functions that classify or strip *Unicode* white space (a strict superset of the spec's
// space, tab, line feed, carriage return).
var unicodeWSFuncs = map[string]bool{
	"strings.TrimSpace": true, "strings.Fields": true, "bytes.TrimSpace": true, "bytes.Fields": true,
	"unicode.IsSpace": true, "strings.FieldsFunc": true, "bytes.FieldsFunc": true,
}

// ruleNormWS: the label normaliser treats exactly space, tab, LF and CR as white space.
func ruleNormWS(c *Ctx) {
	c.Rule("NORM-WS", "Inside the label normaliser (transformLinkReferenceSpan and what it calls in the module) white space is exactly space, tab, line feed and carriage return: every module predicate it uses that accepts any of them accepts exactly these four (BSET), constant cut-sets contain only them, and no Unicode-white-space function (strings.TrimSpace, strings.Fields, unicode.IsSpace, …) is applied to label text.")
	p := c.P
	fn := p.Func("transformLinkReferenceSpan")
	if !c.NeedFunc("NORM-WS", fn, "transformLinkReferenceSpan") {
		return
	}
	bs := newBSET(p)
	n := 0
	eachInstr(fn, func(in ssa.Instruction) {
		call, ok := in.(*ssa.Call)
		if !ok {
			return
		}
		f := call.Call.StaticCallee()
		if f == nil {
			return
		}
		name := f.String()
		key := fmt.Sprintf("transformLinkReferenceSpan→%s#%d", strings.TrimPrefix(name, cmPath+"."), n+1)
		switch {
		case unicodeWSFuncs[name]:
			n++
			c.Viol("NORM-WS", key, in.Pos(), name+" treats every Unicode white-space character (NBSP, NEL, EM SPACE, form feed, …) as label white space; the spec's label matching knows only space, tab and line endings")
		case name == "strings.Trim" || name == "strings.TrimLeft" || name == "strings.TrimRight" || name == "bytes.Trim":
			n++
			set, ok := constString(call.Call.Args[1])
			good := ok && strings.Trim(set, " \t\r\n") == ""
			c.Check(good, "NORM-WS", key, in.Pos(), fmt.Sprintf("cut-set %q must contain only space, tab, LF, CR", set))
		case p.InModule(f) && len(call.Call.Args) == 1:
			t := bs.Table(f)
			if t.why != "" || len(t.domain) != 256 {
				return
			}
			var acc []int64
			for i, d := range t.domain {
				if t.res[i].kind == oRet && t.res[i].val != 0 {
					acc = append(acc, d)
				}
			}
			isWS := false
			for _, d := range acc {
				if d == ' ' || d == '\t' || d == '\n' || d == '\r' {
					isWS = true
				}
			}
			if !isWS {
				return
			}
			n++
			good := len(acc) == 4
			c.Check(good, "NORM-WS", key, in.Pos(), "white-space predicate accepts "+describeSet(acc, true)+"; must be exactly space, tab, LF, CR")
		}
	})
	if n < 2 {
		c.Undecided("NORM-WS", "instance-count", token.NoPos, fmt.Sprintf("%d white-space classifications found in the normaliser, at least 2 expected", n))
	}
}

// NORM-READER: the label normaliser reads document bytes only through the NUL-mapping reader.
func ruleNormReader(c *Ctx) {
	c.Rule("NORM-READER", "Definitions are normalised while the block's buffer still holds padded zero bytes for each NUL of the input; uses are normalised after the padding has been filled in with U+FFFD. The two agree only because the normaliser reads label bytes through inlineByteReader, whose current() presents padding as U+FFFD. In the normaliser (transformLinkReferenceSpan and module functions it calls with the source), the source bytes are therefore never indexed, sliced or converted directly — the source parameter is only handed to the reader's constructor. A fast path that folds source[span] directly gives a definition with a NUL in its label a key no use can match.")
	p := c.P
	fn := p.Func("transformLinkReferenceSpan")
	if !c.NeedFunc("NORM-READER", fn, "transformLinkReferenceSpan") {
		return
	}
	var src ssa.Value
	for _, q := range fn.Params {
		if sl, ok := q.Type().Underlying().(*types.Slice); ok {
			if b, ok := sl.Elem().Underlying().(*types.Basic); ok && b.Kind() == types.Uint8 {
				src = q
				break
			}
		}
	}
	if src == nil {
		c.Undecided("NORM-READER", "transformLinkReferenceSpan:source", fn.Pos(), "no byte-slice source parameter")
		return
	}
	var bad []string
	var pos token.Pos
	handed := 0
	for _, r := range refsOf(src) {
		switch x := r.(type) {
		case *ssa.Call:
			g := x.Call.StaticCallee()
			if g != nil && p.InModule(g) && g.Signature.Results().Len() == 1 {
				if pt, ok := g.Signature.Results().At(0).Type().Underlying().(*types.Pointer); ok && typeName(pt.Elem()) == "inlineByteReader" {
					handed++
					continue
				}
			}
			if _, isLen := isBuiltinCall(x, "len"); isLen {
				continue
			}
			bad = append(bad, "passed to "+calleeName(&x.Call))
			pos = x.Pos()
		case *ssa.DebugRef:
		case *ssa.Slice:
			bad = append(bad, "sliced directly")
			pos = x.Pos()
		case *ssa.IndexAddr:
			bad = append(bad, "indexed directly")
			pos = x.Pos()
		case *ssa.Convert:
			bad = append(bad, "converted directly")
			pos = x.Pos()
		default:
			if in, ok := r.(ssa.Instruction); ok {
				bad = append(bad, fmt.Sprintf("used by %T", in))
				pos = in.Pos()
			}
		}
	}
	// the reader itself must not be asked for raw views of the bytes: a method (or helper) that is handed the reader and
	// returns a byte slice or a string hands back unmapped source bytes, and so does the reader's source field
	eachInstr(fn, func(in ssa.Instruction) {
		switch x := in.(type) {
		case *ssa.Call:
			g := x.Call.StaticCallee()
			if g == nil || !p.InModule(g) {
				return
			}
			takesReader := false
			for _, a := range x.Call.Args {
				if typeName(deref(a.Type())) == "inlineByteReader" {
					takesReader = true
				}
			}
			if !takesReader {
				return
			}
			res := g.Signature.Results()
			for i := 0; i < res.Len(); i++ {
				switch t := res.At(i).Type().Underlying().(type) {
				case *types.Slice:
					if b, ok := t.Elem().Underlying().(*types.Basic); ok && b.Kind() == types.Uint8 {
						bad = append(bad, "raw bytes obtained from the reader through "+g.Name())
						pos = x.Pos()
					}
				case *types.Basic:
					if t.Info()&types.IsString != 0 {
						bad = append(bad, "raw text obtained from the reader through "+g.Name())
						pos = x.Pos()
					}
				}
			}
		case *ssa.FieldAddr:
			if tn, f, _ := fieldAddrInfo(x); tn == "inlineByteReader" && f == "source" {
				bad = append(bad, "the reader's source field is read directly")
				pos = x.Pos()
			}
		}
	})
	if !pos.IsValid() {
		pos = fn.Pos()
	}
	sort.Strings(bad)
	c.Check(len(bad) == 0 && handed > 0, "NORM-READER", "transformLinkReferenceSpan", pos, "the label's source bytes are read without the reader that maps NUL padding: "+strings.Join(bad, ", "))
}
