package main

// HTMLBLOCK-TABLE (C06): the tag-name tables of HTML block start conditions 1 and 6 equal CommonMark 0.30's lists.

import (
	"fmt"
	"go/ast"
	"go/token"
	"go/types"
	"sort"
	"strings"

	"golang.org/x/tools/go/ssa"
)

// CommonMark 0.30 §4.6.
var specHTMLBlock1 = []string{"pre", "script", "style", "textarea"}
var specHTMLBlock6 = strings.Fields(`address article aside base basefont blockquote body caption center col colgroup dd details dialog dir div dl dt
 fieldset figcaption figure footer form frame frameset h1 h2 h3 h4 h5 h6 head header hr html iframe legend li link main menu menuitem nav noframes
 ol optgroup option p param section source summary table tbody td tfoot th thead title tr track ul`)

// htmlConditionClosures reads the htmlBlockConditions literal: per entry its startCondition and endCondition functions.
func htmlConditionClosures(p *Program) (starts, ends []*ssa.Function) {
	cl := pkgVarLiteral(p, "htmlBlockConditions")
	if cl == nil {
		return nil, nil
	}
	for _, el := range cl.Elts {
		inner, ok := el.(*ast.CompositeLit)
		if !ok {
			starts, ends = append(starts, nil), append(ends, nil)
			continue
		}
		var st, en *ssa.Function
		for i, fe := range inner.Elts {
			if kv, ok := fe.(*ast.KeyValueExpr); ok {
				if id, ok := kv.Key.(*ast.Ident); ok {
					switch id.Name {
					case "startCondition":
						st = ssaFuncOfExpr(p, kv.Value)
					case "endCondition":
						en = ssaFuncOfExpr(p, kv.Value)
					}
				}
				continue
			}
			switch i {
			case 0:
				st = ssaFuncOfExpr(p, fe)
			case 1:
				en = ssaFuncOfExpr(p, fe)
			}
		}
		starts, ends = append(starts, st), append(ends, en)
	}
	return
}

// tableStringsUsedBy: every string the package initialiser stores into the package-level slice/array tables that fn
// (or a module function it calls directly) loads: string constants and names of atom constants, at any depth of
// element structure (a table of pairs counts with both members).
func tableStringsUsedBy(p *Program, fn *ssa.Function) (out []string, why string, pos token.Pos) {
	if fn == nil || fn.Blocks == nil {
		return nil, "condition function not resolved", token.NoPos
	}
	pos = fn.Pos()
	globals := map[*ssa.Global]bool{}
	var scan func(f *ssa.Function, depth int)
	scan = func(f *ssa.Function, depth int) {
		for _, g := range withAnons(f) {
			eachInstr(g, func(in ssa.Instruction) {
				for _, op := range in.Operands(nil) {
					if op == nil || *op == nil {
						continue
					}
					if gl, ok := (*op).(*ssa.Global); ok && gl.Pkg == p.CMs {
						switch deref(gl.Type()).Underlying().(type) {
						case *types.Slice, *types.Array:
							globals[gl] = true
						}
					}
				}
				if depth < 1 {
					if ci, ok := in.(ssa.CallInstruction); ok {
						if cal := ci.Common().StaticCallee(); cal != nil && p.InModule(cal) && cal.Blocks != nil {
							scan(cal, depth+1)
						}
					}
				}
			})
		}
	}
	scan(fn, 0)
	initFn := p.CMs.Func("init")
	if initFn == nil {
		return nil, "no package initialiser", pos
	}
	for gl := range globals {
		// written outside the initialiser?
		for _, f := range p.Funcs {
			if f == initFn {
				continue
			}
			eachInstr(f, func(in ssa.Instruction) {
				if st, ok := in.(*ssa.Store); ok && st.Addr == ssa.Value(gl) {
					why = "table " + gl.Name() + " is assigned outside the package initialiser (" + shortFuncName(f) + ")"
				}
			})
		}
		var backing ssa.Value
		eachInstr(initFn, func(in ssa.Instruction) {
			if st, ok := in.(*ssa.Store); ok && st.Addr == ssa.Value(gl) {
				if sl, ok := st.Val.(*ssa.Slice); ok {
					backing = sl.X
				}
			}
		})
		var root ssa.Value = gl
		if backing != nil {
			root = backing
		}
		var walk func(addr ssa.Value, depth int)
		walk = func(addr ssa.Value, depth int) {
			if depth > 4 {
				return
			}
			var refs []ssa.Instruction
			if r := addr.Referrers(); r != nil {
				refs = *r
			} else {
				// a global has no referrer list: scan the initialiser
				eachInstr(initFn, func(in ssa.Instruction) {
					for _, op := range in.Operands(nil) {
						if op != nil && *op == addr {
							refs = append(refs, in)
						}
					}
				})
			}
			for _, r := range refs {
				switch x := r.(type) {
				case *ssa.IndexAddr:
					if x.X == addr {
						walk(x, depth+1)
					}
				case *ssa.FieldAddr:
					if x.X == addr {
						walk(x, depth+1)
					}
				case *ssa.Store:
					if x.Addr != addr {
						continue
					}
					if sv, ok := constString(x.Val); ok {
						out = append(out, sv)
						continue
					}
					if call, ok := x.Val.(*ssa.Call); ok {
						if f := call.Call.StaticCallee(); f != nil && f.String() == "(golang.org/x/net/html/atom.Atom).String" && len(call.Call.Args) == 1 {
							if cst, ok := call.Call.Args[0].(*ssa.Const); ok {
								if n := namedOf(cst.Type()); n != nil && n.Obj().Pkg() != nil {
									if nm := kindConstName(n.Obj().Pkg(), n, cst); nm != "" {
										out = append(out, strings.ToLower(nm))
										continue
									}
								}
							}
						}
					}
					if _, isSlice := x.Val.(*ssa.Slice); isSlice {
						continue
					}
					if bt, ok := x.Val.Type().Underlying().(*types.Basic); ok && bt.Info()&types.IsString != 0 {
						why = "an element of table " + gl.Name() + " is neither a string constant nor an atom constant's name"
					}
				}
			}
		}
		walk(root, 0)
	}
	sort.Strings(out)
	return out, why, pos
}

func ruleHTMLBlockTable(c *Ctx) {
	c.Rule("HTMLBLOCK-TABLE", "The tag names that open an HTML block by start condition 1 (and their end tags) and by start condition 6 are exactly CommonMark 0.30's lists: the package-level tables that the first and the sixth entry of htmlBlockConditions range over are written only by the package initialiser, and the strings in them (string constants, or names of atom constants; '<', '</' and '>' stripped) equal the specification's sets. 'source' replaced by 'search' (the 0.31 list), or an element dropped, changes which lines may interrupt a paragraph.")
	p := c.P
	starts, ends := htmlConditionClosures(p)
	if len(starts) < 6 {
		c.Undecided("HTMLBLOCK-TABLE", "htmlBlockConditions", token.NoPos, fmt.Sprintf("%d entries recovered from the htmlBlockConditions literal; the specification has seven start conditions", len(starts)))
		return
	}
	check := func(key string, fn *ssa.Function, want []string, pick func(string) (string, bool)) {
		got, why, pos := tableStringsUsedBy(p, fn)
		if why != "" {
			c.Undecided("HTMLBLOCK-TABLE", key, pos, why)
			return
		}
		gs := map[string]bool{}
		for _, g := range got {
			if nm, ok := pick(g); ok {
				gs[nm] = true
			}
		}
		ws := map[string]bool{}
		var missing, extra []string
		for _, w := range want {
			ws[w] = true
			if !gs[w] {
				missing = append(missing, w)
			}
		}
		for g := range gs {
			if !ws[g] {
				extra = append(extra, g)
			}
		}
		sort.Strings(missing)
		sort.Strings(extra)
		c.Check(len(missing) == 0 && len(extra) == 0, "HTMLBLOCK-TABLE", key, pos, fmt.Sprintf("%d names; missing from the specification's list: %v; not in the specification's list: %v", len(gs), missing, extra))
	}
	open := func(s string) (string, bool) {
		if strings.HasPrefix(s, "</") {
			return "", false
		}
		return strings.ToLower(strings.TrimSuffix(strings.TrimPrefix(s, "<"), ">")), s != "" && s != "/>" && s != "<" && s != ">"
	}
	closing := func(s string) (string, bool) {
		if !strings.HasPrefix(s, "</") {
			return "", false
		}
		return strings.ToLower(strings.TrimSuffix(strings.TrimPrefix(s, "</"), ">")), len(s) > 2
	}
	check("condition-1:start", starts[0], specHTMLBlock1, open)
	check("condition-1:end", ends[0], specHTMLBlock1, closing)
	check("condition-6:start", starts[5], specHTMLBlock6, open)
}

func init() {
	addControls(
		Control{Name: "html-block-list-source-becomes-search", Props: []string{"C06"}, File: "parse_html.go",
			Old: "\t\tatom.Source.String(),\n", New: "\t\t\"search\",\n", Expect: "HTMLBLOCK-TABLE/condition-6:start"},
		Control{Name: "html-block-condition-1-without-textarea", Props: []string{"C06"}, File: "parse_html.go",
			Old: "\t\t\"<textarea\",\n", New: "", Expect: "HTMLBLOCK-TABLE/condition-1:start"},
		Control{Name: "neg-html-block-list-entry-as-literal", Props: []string{"C06"}, File: "parse_html.go", Negative: true,
			Old: "\t\tatom.Source.String(),\n", New: "\t\t\"source\",\n"},
	)
}
