package main

// HTMLBLOCK-TABLE (C06): the tag-name tables of HTML block start conditions 1 and 6 equal CommonMark 0.30's lists.

import (
	"fmt"
	"go/token"
	"go/types"
	"sort"
	"strings"

	"golang.org/x/tools/go/ssa"
)

// CommonMark 0.30 §4.6.
var specHTMLBlock1 = []string{"pre", "script", "style", "textarea"}
var specHTMLBlock6 = strings.Fields(`address article aside base basefont blockquote body caption center col colgroup dd details dialog dir div dl dt
 fieldset figcaption figure footer form frame frameset h1 h2 h3 h4 h5 h6 head header hr html iframe legend li link main menu menuitem nav noframes
 ol optgroup option p param section source summary table tbody td tfoot th thead title tr track ul`)

// stringTableOf: the elements of a package-level []string / [N]string variable as its initialiser stores them
// (string constants, or atom constants converted with String()).
func stringTableOf(p *Program, name string) ([]string, token.Pos, string) {
	g, ok := p.CMs.Members[name].(*ssa.Global)
	if !ok {
		return nil, token.NoPos, "package-level variable " + name + " not found"
	}
	initFn := p.CMs.Func("init")
	if initFn == nil {
		return nil, g.Pos(), "no package initialiser"
	}
	var backing ssa.Value
	why := ""
	eachInstr(initFn, func(in ssa.Instruction) {
		st, ok := in.(*ssa.Store)
		if !ok || st.Addr != ssa.Value(g) {
			return
		}
		if sl, ok := st.Val.(*ssa.Slice); ok {
			backing = sl.X
		} else {
			why = "initialised by something other than a slice literal"
		}
	})
	// written anywhere else?
	for _, fn := range p.Funcs {
		if fn == initFn {
			continue
		}
		eachInstr(fn, func(in ssa.Instruction) {
			if st, ok := in.(*ssa.Store); ok && st.Addr == ssa.Value(g) {
				why = "assigned outside the package initialiser (" + shortFuncName(fn) + ")"
			}
		})
	}
	if why != "" {
		return nil, g.Pos(), why
	}
	al, ok := backing.(*ssa.Alloc)
	if !ok {
		return nil, g.Pos(), "backing array of the initialiser not found"
	}
	arr, ok := deref(al.Type()).Underlying().(*types.Array)
	if !ok {
		return nil, g.Pos(), "initialiser is not an array literal"
	}
	out := make([]string, arr.Len())
	set := make([]bool, arr.Len())
	for _, r := range refsOf(al) {
		ia, ok := r.(*ssa.IndexAddr)
		if !ok {
			continue
		}
		idx, ok := constInt(ia.Index)
		if !ok || idx < 0 || idx >= arr.Len() {
			return nil, g.Pos(), "element stored at a non-constant index"
		}
		for _, rr := range refsOf(ia) {
			st, ok := rr.(*ssa.Store)
			if !ok || st.Addr != ssa.Value(ia) {
				continue
			}
			if s, ok := constString(st.Val); ok {
				out[idx], set[idx] = s, true
				continue
			}
			if call, ok := st.Val.(*ssa.Call); ok {
				if f := call.Call.StaticCallee(); f != nil && f.String() == "(golang.org/x/net/html/atom.Atom).String" && len(call.Call.Args) == 1 {
					if cst, ok := call.Call.Args[0].(*ssa.Const); ok {
						if n := namedOf(cst.Type()); n != nil && n.Obj().Pkg() != nil {
							if nm := kindConstName(n.Obj().Pkg(), n, cst); nm != "" {
								out[idx], set[idx] = strings.ToLower(nm), true
								continue
							}
						}
					}
				}
			}
			return nil, st.Pos(), "an element is neither a string constant nor an atom constant's name"
		}
	}
	for i, ok := range set {
		if !ok {
			return nil, g.Pos(), fmt.Sprintf("element %d has no value", i)
		}
	}
	return out, g.Pos(), ""
}

func ruleHTMLBlockTable(c *Ctx) {
	c.Rule("HTMLBLOCK-TABLE", "The tag names that open an HTML block by start condition 1 (and their end tags) and by start condition 6 are exactly CommonMark 0.30's lists: the package-level tables the start conditions range over are written only by the package initialiser, and their elements (string constants, or names of atom constants) equal the specification's sets. 'source' replaced by 'search' (the 0.31 list), or an element dropped, changes which lines may interrupt a paragraph.")
	p := c.P
	check := func(name string, want []string, strip func(string) string) {
		got, pos, why := stringTableOf(p, name)
		if why != "" {
			c.Undecided("HTMLBLOCK-TABLE", name, pos, why)
			return
		}
		gs := map[string]bool{}
		for _, g := range got {
			gs[strip(g)] = true
		}
		ws := map[string]bool{}
		var missing, extra []string
		for _, w := range want {
			ws[w] = true
			if !gs[w] {
				missing = append(missing, w)
			}
		}
		for g := range gs {
			if !ws[g] {
				extra = append(extra, g)
			}
		}
		sort.Strings(missing)
		sort.Strings(extra)
		c.Check(len(missing) == 0 && len(extra) == 0, "HTMLBLOCK-TABLE", name, pos, fmt.Sprintf("%d names; missing from the specification's list: %v; not in the specification's list: %v", len(got), missing, extra))
	}
	check("htmlBlockStarters1", specHTMLBlock1, func(s string) string { return strings.ToLower(strings.TrimPrefix(s, "<")) })
	check("htmlBlockEnders1", specHTMLBlock1, func(s string) string {
		return strings.ToLower(strings.TrimSuffix(strings.TrimPrefix(s, "</"), ">"))
	})
	check("htmlBlockStarters6", specHTMLBlock6, strings.ToLower)
}

func init() {
	addControls(
		Control{Name: "html-block-list-source-becomes-search", Props: []string{"C06"}, File: "parse_html.go",
			Old: "\t\tatom.Source.String(),\n", New: "\t\t\"search\",\n", Expect: "HTMLBLOCK-TABLE/htmlBlockStarters6"},
		Control{Name: "html-block-condition-1-without-textarea", Props: []string{"C06"}, File: "parse_html.go",
			Old: "\t\t\"<textarea\",\n", New: "", Expect: "HTMLBLOCK-TABLE/htmlBlockStarters1"},
		Control{Name: "neg-html-block-list-entry-as-literal", Props: []string{"C06"}, File: "parse_html.go", Negative: true,
			Old: "\t\tatom.Source.String(),\n", New: "\t\t\"source\",\n"},
	)
}
