package main

// htx.go — HTX: HTML lexer-state typestate + escape taint over every append to the render buffer.

import (
	"fmt"
	"go/token"
	"go/types"
	"sort"
	"strings"

	"golang.org/x/tools/go/ssa"
)

type lex uint8

const (
	lxText lex = iota
	lxTagOpen
	lxEndTagOpen
	lxTagName
	lxEndTagName
	lxTagSp
	lxAttrName
	lxAttrEq
	lxAttrDQ
	lxAfterVal
	lxErr
)

var lexNames = [...]string{"TEXT", "TAG_OPEN", "ENDTAG_OPEN", "TAG_NAME", "ENDTAG_NAME", "TAG", "ATTR_NAME", "ATTR_EQ", "ATTR_DQ", "AFTER_VALUE", "ERROR"}

func (l lex) String() string { return lexNames[l] }

func isLetter(c byte) bool { return c >= 'a' && c <= 'z' || c >= 'A' && c <= 'Z' }
func isAlnum(c byte) bool  { return isLetter(c) || c >= '0' && c <= '9' }
func isWS(c byte) bool     { return c == ' ' || c == '\t' || c == '\n' || c == '\r' || c == '\f' }

// lexStep advances the restricted HTML tokenizer by one constant byte.
func lexStep(s lex, c byte) (lex, string) {
	switch s {
	case lxText:
		if c == '<' {
			return lxTagOpen, ""
		}
		return lxText, ""
	case lxTagOpen:
		switch {
		case isLetter(c):
			return lxTagName, ""
		case c == '/':
			return lxEndTagOpen, ""
		}
		return lxErr, fmt.Sprintf("'<' followed by %q", c)
	case lxEndTagOpen:
		if isLetter(c) {
			return lxEndTagName, ""
		}
		return lxErr, fmt.Sprintf("'</' followed by %q", c)
	case lxTagName:
		switch {
		case isAlnum(c):
			return lxTagName, ""
		case isWS(c):
			return lxTagSp, ""
		case c == '>':
			return lxText, ""
		case c == '/':
			return lxTagSp, ""
		}
		return lxErr, fmt.Sprintf("%q directly after a tag name", c)
	case lxEndTagName:
		switch {
		case isAlnum(c):
			return lxEndTagName, ""
		case c == '>':
			return lxText, ""
		case isWS(c):
			return lxEndTagName, ""
		}
		return lxErr, fmt.Sprintf("%q inside an end tag", c)
	case lxTagSp:
		switch {
		case isWS(c) || c == '/':
			return lxTagSp, ""
		case isLetter(c):
			return lxAttrName, ""
		case c == '>':
			return lxText, ""
		}
		return lxErr, fmt.Sprintf("%q where an attribute name was expected", c)
	case lxAttrName:
		switch {
		case isAlnum(c) || c == '-' || c == '_' || c == ':':
			return lxAttrName, ""
		case c == '=':
			return lxAttrEq, ""
		case isWS(c):
			return lxTagSp, ""
		case c == '>':
			return lxText, ""
		}
		return lxErr, fmt.Sprintf("%q inside an attribute name", c)
	case lxAttrEq:
		if c == '"' {
			return lxAttrDQ, ""
		}
		return lxErr, fmt.Sprintf("attribute value not double-quoted (got %q)", c)
	case lxAttrDQ:
		if c == '"' {
			return lxAfterVal, ""
		}
		return lxAttrDQ, ""
	case lxAfterVal:
		switch {
		case isWS(c) || c == '/':
			return lxTagSp, ""
		case c == '>':
			return lxText, ""
		}
		return lxErr, fmt.Sprintf("%q directly after a closing quote (attributes must be separated by white space)", c)
	}
	return lxErr, "lexer already in error"
}

func lexString(s lex, str string) (lex, string) {
	for i := 0; i < len(str); i++ {
		var why string
		s, why = lexStep(s, str[i])
		if s == lxErr {
			return s, why
		}
	}
	return s, ""
}

type evKind uint8

const (
	evConst evKind = iota
	evName
	evEsc
	evInt
	evRaw
	evCall
	evMarkLen
	evRollback
)

type htxEvent struct {
	kind   evKind
	s      string
	desc   string
	callee *ssa.Function
	lenKey ssa.Value
	instr  ssa.Instruction
	san    string // sanitiser name for evEsc
	param  int    // for evRaw: index of the emitting function's own string parameter that is appended (+1; 0 = none)
}

type htxViolation struct {
	rule, fn, what string
	pos            token.Pos
}

type htxEngine struct {
	p         *Program
	bufParams map[*ssa.Function]map[int]bool
	emitter   map[*ssa.Function]bool
	events    map[*ssa.Function]map[ssa.Instruction]htxEvent
	summary   map[string][]lex
	inprog    map[string]bool
	lenStates map[ssa.Value]map[lex]bool
	viol      map[string]htxViolation
	escCtx    map[string]map[lex]bool // sanitiser -> contexts its output lands in
	okEvents  []string
	rawAllow  func(ev htxEvent) (bool, string)
	atomArgs  map[string]bool
	attrNames map[string]bool
	changed   bool
}

func newHTX(p *Program) *htxEngine {
	h := &htxEngine{p: p, bufParams: map[*ssa.Function]map[int]bool{}, emitter: map[*ssa.Function]bool{},
		events: map[*ssa.Function]map[ssa.Instruction]htxEvent{}, summary: map[string][]lex{}, inprog: map[string]bool{},
		lenStates: map[ssa.Value]map[lex]bool{}, viol: map[string]htxViolation{}, escCtx: map[string]map[lex]bool{},
		atomArgs: map[string]bool{}, attrNames: map[string]bool{}}
	h.discover()
	return h
}

func (h *htxEngine) cmFuncs() []*ssa.Function {
	var out []*ssa.Function
	for _, f := range h.p.Funcs {
		if f.Pkg == h.p.CMs {
			out = append(out, f)
		}
	}
	return out
}

// isBuf: does v denote (a view of) the render output buffer?
func (h *htxEngine) isBuf(v ssa.Value, seen map[ssa.Value]bool) bool {
	if v == nil || seen[v] {
		return false
	}
	seen[v] = true
	if _, ok := isLoadOfField(v, "renderState", "dst"); ok {
		return true
	}
	switch x := v.(type) {
	case *ssa.Parameter:
		return h.bufParams[x.Parent()][paramIndex(x)]
	case *ssa.Phi:
		for _, e := range x.Edges {
			if h.isBuf(e, seen) {
				return true
			}
		}
	case *ssa.Slice:
		return h.isBuf(x.X, seen)
	case *ssa.Call:
		if _, ok := isBuiltinCall(x, "append"); ok {
			return h.isBuf(x.Call.Args[0], seen)
		}
		if f := x.Call.StaticCallee(); f != nil {
			if strings.HasPrefix(f.String(), "strconv.Append") && len(x.Call.Args) > 0 {
				return h.isBuf(x.Call.Args[0], seen)
			}
			if h.p.InModule(f) {
				for i, a := range x.Call.Args {
					if h.bufParams[f][i] && h.isBuf(a, seen) {
						return true
					}
				}
			}
		}
	}
	return false
}

func (h *htxEngine) buf(v ssa.Value) bool { return h.isBuf(v, map[ssa.Value]bool{}) }

// discover computes buffer parameters and the emitter set by fixpoint, then extracts events.
func (h *htxEngine) discover() {
	fns := h.cmFuncs()
	for changed := true; changed; {
		changed = false
		for _, fn := range fns {
			eachInstr(fn, func(in ssa.Instruction) {
				call, ok := in.(*ssa.Call)
				if !ok {
					return
				}
				f := call.Call.StaticCallee()
				if f == nil || !h.p.InModule(f) {
					return
				}
				for i, a := range call.Call.Args {
					if _, isSl := a.Type().Underlying().(*types.Slice); !isSl {
						continue
					}
					if h.buf(a) && !h.bufParams[f][i] {
						// only byte slices that the callee returns (appends to) are output buffers
						if f.Signature.Results().Len() == 1 && types.Identical(f.Signature.Results().At(0).Type(), a.Type()) {
							if h.bufParams[f] == nil {
								h.bufParams[f] = map[int]bool{}
							}
							h.bufParams[f][i] = true
							changed = true
						}
					}
				}
			})
		}
	}
	for changed := true; changed; {
		changed = false
		for _, fn := range fns {
			if h.emitter[fn] {
				continue
			}
			em := false
			eachInstr(fn, func(in ssa.Instruction) {
				if call, ok := in.(*ssa.Call); ok {
					if _, ok := isBuiltinCall(call, "append"); ok && h.buf(call.Call.Args[0]) {
						em = true
					}
					if f := call.Call.StaticCallee(); f != nil {
						if h.emitter[f] {
							em = true
						}
						if strings.HasPrefix(f.String(), "strconv.Append") && h.buf(call.Call.Args[0]) {
							em = true
						}
					}
				}
				if st, ok := in.(*ssa.Store); ok {
					if _, ok := isFieldAddr(st.Addr, "renderState", "dst"); ok {
						em = true
					}
				}
			})
			if em {
				h.emitter[fn] = true
				changed = true
			}
		}
	}
	for fn := range h.emitter {
		h.events[fn] = h.extract(fn)
	}
}

// classify the appended operand
func (h *htxEngine) classifyOperand(v ssa.Value) (evKind, string, string) {
	if s, ok := constString(v); ok {
		return evConst, s, ""
	}
	if bs, ok := byteSliceLit(v); ok {
		return evConst, string(bs), ""
	}
	if str, ok := constBuffer(v, 0); ok {
		return evConst, str, ""
	}
	v0 := v
	for {
		switch x := v.(type) {
		case *ssa.Convert:
			v = x.X
			continue
		case *ssa.ChangeType:
			v = x.X
			continue
		}
		break
	}
	if call, ok := v.(*ssa.Call); ok {
		if f := call.Call.StaticCallee(); f != nil {
			switch f.String() {
			case "(golang.org/x/net/html/atom.Atom).String":
				return evName, "", h.atomDesc(call.Call.Args[0])
			case "html.EscapeString":
				return evEsc, "html.EscapeString", describeValue(call.Call.Args[0])
			}
		}
	}
	return evRaw, "", describeValue(v0)
}

func describeValue(v ssa.Value) string {
	switch x := v.(type) {
	case *ssa.Call:
		var args []string
		for _, a := range x.Call.Args {
			args = append(args, describeValue(a))
		}
		return calleeShort(x.Common()) + "(" + strings.Join(args, ", ") + ")"
	case *ssa.Parameter:
		return x.Name()
	case *ssa.Slice:
		return describeValue(x.X) + "[:]"
	case *ssa.UnOp:
		if x.Op == token.MUL {
			if fa, ok := x.X.(*ssa.FieldAddr); ok {
				_, f, _ := fieldAddrInfo(fa)
				return describeValue(fa.X) + "." + f
			}
			return "*" + describeValue(x.X)
		}
	case *ssa.FieldAddr:
		_, f, _ := fieldAddrInfo(x)
		return "&" + describeValue(x.X) + "." + f
	case *ssa.Const:
		return x.String()
	case *ssa.Phi:
		return "phi(" + x.Comment + ")"
	case *ssa.Convert:
		return describeValue(x.X)
	case *ssa.Extract:
		return describeValue(x.Tuple)
	case *ssa.Alloc:
		return x.Comment
	}
	return v.Name()
}

func calleeShort(c *ssa.CallCommon) string {
	if f := c.StaticCallee(); f != nil {
		return strings.ReplaceAll(f.String(), cmPath+".", "")
	}
	if c.IsInvoke() {
		return c.Method.Name()
	}
	return "call"
}

// atomDesc resolves an atom.Atom value to the lower-cased names of the constants it may be (repo's own atom package).
func (h *htxEngine) atomDesc(v ssa.Value) string {
	names := h.atomNames(v, map[ssa.Value]bool{})
	if names == nil {
		return "?"
	}
	sort.Strings(names)
	return strings.Join(names, "|")
}

func (h *htxEngine) atomNames(v ssa.Value, seen map[ssa.Value]bool) []string {
	if seen[v] {
		return []string{}
	}
	seen[v] = true
	switch x := v.(type) {
	case *ssa.Const:
		n := namedOf(x.Type())
		if n == nil || n.Obj().Pkg() == nil {
			return nil
		}
		name := kindConstName(n.Obj().Pkg(), n, x)
		if name == "" {
			return nil
		}
		return []string{strings.ToLower(name)}
	case *ssa.Phi:
		var out []string
		for _, e := range x.Edges {
			r := h.atomNames(e, seen)
			if r == nil {
				return nil
			}
			out = append(out, r...)
		}
		return out
	case *ssa.Parameter:
		// resolved at call sites (VOCAB); inside the callee it is "an atom"
		return []string{"<" + x.Name() + ">"}
	case *ssa.Call:
		// a module helper that selects the element (e.g. heading level → h1..h6): every atom it can return
		f := x.Call.StaticCallee()
		if f == nil || f.Blocks == nil || !h.p.InModule(f) {
			return nil
		}
		var out []string
		for _, r := range returnsOf(f) {
			if len(r.Results) != 1 {
				return nil
			}
			rr := h.atomNames(r.Results[0], seen)
			if rr == nil {
				return nil
			}
			for _, n := range rr {
				if strings.HasPrefix(n, "<") {
					return nil // depends on the helper's own parameter
				}
			}
			out = append(out, rr...)
		}
		return out
	case *ssa.UnOp:
		// an element of a table of atom constants
		if x.Op != token.MUL {
			return nil
		}
		ia, ok := x.X.(*ssa.IndexAddr)
		if !ok {
			return nil
		}
		tab, ok := constArrayOf(ia.X)
		if !ok {
			return nil
		}
		oe := &outcomeEnum{h: h, p: h.p}
		var out []string
		for _, v := range tab {
			n := oe.atomName(v)
			if n == "?" {
				return nil
			}
			out = append(out, n)
		}
		sort.Strings(out)
		return out
	}
	return nil
}

func (h *htxEngine) extract(fn *ssa.Function) map[ssa.Instruction]htxEvent {
	out := map[ssa.Instruction]htxEvent{}
	lenVals := map[ssa.Value]bool{}
	eachInstr(fn, func(in ssa.Instruction) {
		call, ok := in.(*ssa.Call)
		if !ok {
			return
		}
		if cl, ok := isBuiltinCall(call, "len"); ok && h.buf(cl.Call.Args[0]) {
			out[in] = htxEvent{kind: evMarkLen, lenKey: call, instr: in}
			lenVals[call] = true
		}
	})
	eachInstr(fn, func(in ssa.Instruction) {
		switch x := in.(type) {
		case *ssa.Call:
			if _, ok := isBuiltinCall(x, "append"); ok {
				if !h.buf(x.Call.Args[0]) {
					return
				}
				if len(x.Call.Args) < 2 {
					return
				}
				// append(buf[:mark], ...) is a roll-back to the recorded length followed by the append; the roll-back
				// event sits on the slice instruction, which precedes the append in its block
				if sl, ok := x.Call.Args[0].(*ssa.Slice); ok && h.buf(sl.X) {
					if sl.Low == nil && sl.High != nil && lenVals[sl.High] && sl.Block() == x.Block() {
						out[sl] = htxEvent{kind: evRollback, lenKey: sl.High, instr: sl}
					} else if sl.Low != nil || sl.High != nil {
						h.addViol("HTX-L", fn, in.Pos(), "the output buffer is re-sliced in a way that is not a roll-back to a recorded length")
					}
				}
				k, s, d := h.classifyOperand(x.Call.Args[1])
				ev := htxEvent{kind: k, s: s, desc: d, instr: in}
				if k == evEsc {
					ev.san = s
				}
				if k == evRaw {
					// a string parameter of the emitter itself: constant at the call sites of a helper such as
					// openLinkTag(name, ` href="`, def); resolved per call
					op := x.Call.Args[1]
					for {
						if cv, ok := op.(*ssa.Convert); ok {
							op = cv.X
							continue
						}
						break
					}
					if prm, ok := op.(*ssa.Parameter); ok {
						for i, q := range fn.Params {
							if q == prm {
								ev.param = i + 1
							}
						}
					}
				}
				out[in] = ev
				return
			}
			f := x.Call.StaticCallee()
			if f == nil {
				return
			}
			if strings.HasPrefix(f.String(), "strconv.Append") && h.buf(x.Call.Args[0]) {
				out[in] = htxEvent{kind: evInt, instr: in, desc: f.String()}
				return
			}
			if h.emitter[f] {
				if f.Name() == "escapeHTML" && len(x.Call.Args) == 2 {
					out[in] = htxEvent{kind: evEsc, san: "escapeHTML", desc: describeValue(x.Call.Args[1]), instr: in}
					return
				}
				out[in] = htxEvent{kind: evCall, callee: f, instr: in}
			}
		case *ssa.Store:
			if _, ok := isFieldAddr(x.Addr, "renderState", "dst"); ok {
				if sl, ok := x.Val.(*ssa.Slice); ok && h.buf(sl.X) {
					if sl.Low == nil && sl.High != nil && lenVals[sl.High] {
						out[in] = htxEvent{kind: evRollback, lenKey: sl.High, instr: in}
					} else {
						h.addViol("HTX-L", fn, in.Pos(), "the output buffer is re-sliced in a way that is not a roll-back to a recorded length")
					}
				}
			}
		}
	})
	return out
}

func (h *htxEngine) addViol(rule string, fn *ssa.Function, pos token.Pos, what string) {
	k := rule + "|" + shortFuncName(fn) + "|" + h.p.Pos(pos) + "|" + what
	h.viol[k] = htxViolation{rule: rule, fn: shortFuncName(fn), what: what, pos: pos}
}

type htxConfig struct {
	lx  lex
	env uint32
}

// analyse interprets fn from the given entry lexer state and returns the exit states.
func (h *htxEngine) analyse(fn *ssa.Function, entry lex) []lex {
	return h.analyseB(fn, entry, nil)
}

// analyseB: bind gives constant strings for string parameters of fn at the call being analysed.
func (h *htxEngine) analyseB(fn *ssa.Function, entry lex, bind map[int]string) []lex {
	key := fmt.Sprintf("%p/%d", fn, entry)
	if len(bind) > 0 {
		var ks []int
		for k := range bind {
			ks = append(ks, k)
		}
		sort.Ints(ks)
		for _, k := range ks {
			key += fmt.Sprintf("/%d=%q", k, bind[k])
		}
	}
	if r, ok := h.summary[key]; ok {
		return r
	}
	if h.inprog[key] {
		return nil
	}
	h.inprog[key] = true
	defer delete(h.inprog, key)
	evs := h.events[fn]
	// tracked boolean phis: greatest set of bool phis whose edges are constants or tracked phis
	var tracked []*ssa.Phi
	tidx := map[*ssa.Phi]int{}
	cand := map[*ssa.Phi]bool{}
	for _, b := range fn.Blocks {
		for _, in := range b.Instrs {
			ph, ok := in.(*ssa.Phi)
			if !ok {
				break
			}
			if bt, ok := ph.Type().Underlying().(*types.Basic); ok && bt.Kind() == types.Bool {
				cand[ph] = true
			}
		}
	}
	for changed := true; changed; {
		changed = false
		for ph := range cand {
			for _, e := range ph.Edges {
				if _, isC := e.(*ssa.Const); isC {
					continue
				}
				if p2, ok := e.(*ssa.Phi); ok && cand[p2] {
					continue
				}
				delete(cand, ph)
				changed = true
				break
			}
		}
	}
	for _, b := range fn.Blocks {
		for _, in := range b.Instrs {
			if ph, ok := in.(*ssa.Phi); ok && cand[ph] && len(tracked) < 30 {
				tidx[ph] = len(tracked)
				tracked = append(tracked, ph)
			}
		}
	}
	boolVal := func(v ssa.Value, env uint32) (bool, bool) {
		neg := isNegated(v)
		v = stripNot(v)
		if ph, ok := v.(*ssa.Phi); ok {
			if i, ok := tidx[ph]; ok {
				return (env>>uint(i))&1 == 1 != neg, true
			}
		}
		return false, false
	}
	in := map[*ssa.BasicBlock]map[htxConfig]bool{}
	add := func(b *ssa.BasicBlock, c htxConfig) bool {
		if in[b] == nil {
			in[b] = map[htxConfig]bool{}
		}
		if in[b][c] {
			return false
		}
		in[b][c] = true
		return true
	}
	exits := map[lex]bool{}
	add(fn.Blocks[0], htxConfig{entry, 0})
	work := []*ssa.BasicBlock{fn.Blocks[0]}
	for len(work) > 0 {
		b := work[0]
		work = work[1:]
		cur := map[htxConfig]bool{}
		for c := range in[b] {
			cur[c] = true
		}
		for _, ins := range b.Instrs {
			ev, ok := evs[ins]
			if !ok {
				continue
			}
			next := map[htxConfig]bool{}
			evx := ev
			if evx.kind == evRaw && evx.param > 0 {
				if cs, ok := bind[evx.param-1]; ok {
					evx.kind, evx.s = evConst, cs
				}
			}
			for c := range cur {
				for _, nl := range h.apply(fn, evx, c.lx) {
					next[htxConfig{nl, c.env}] = true
				}
			}
			cur = next
		}
		term := b.Instrs[len(b.Instrs)-1]
		switch t := term.(type) {
		case *ssa.Return:
			for c := range cur {
				exits[c.lx] = true
			}
		case *ssa.Panic:
		default:
			for si, s := range b.Succs {
				for c := range cur {
					if iff, ok := t.(*ssa.If); ok {
						if v, known := boolVal(iff.Cond, c.env); known {
							if (si == 0) != v {
								continue
							}
						}
					}
					// phi transfer
					env := c.env
					pi := -1
					for i, pr := range s.Preds {
						if pr == b {
							pi = i
						}
					}
					for _, ins := range s.Instrs {
						ph, ok := ins.(*ssa.Phi)
						if !ok {
							break
						}
						ti, ok := tidx[ph]
						if !ok || pi < 0 {
							continue
						}
						var val bool
						switch e := ph.Edges[pi].(type) {
						case *ssa.Const:
							val = e.Value != nil && e.Value.String() == "true"
						case *ssa.Phi:
							val = (c.env>>uint(tidx[e]))&1 == 1
						}
						if val {
							env |= 1 << uint(ti)
						} else {
							env &^= 1 << uint(ti)
						}
					}
					if add(s, htxConfig{c.lx, env}) {
						work = append(work, s)
					}
				}
			}
		}
	}
	var out []lex
	for l := range exits {
		out = append(out, l)
	}
	sort.Slice(out, func(i, j int) bool { return out[i] < out[j] })
	h.summary[key] = out
	return out
}

// apply one event to one lexer state.
func (h *htxEngine) apply(fn *ssa.Function, ev htxEvent, l lex) []lex {
	if l == lxErr {
		return []lex{lxErr}
	}
	switch ev.kind {
	case evConst:
		// attribute names seen
		nl, why := lexString(l, ev.s)
		if nl == lxErr {
			h.addViol("HTX-L", fn, ev.instr.Pos(), fmt.Sprintf("constant %q appended in lexer state %s: %s", ev.s, l, why))
			return []lex{lxText}
		}
		h.noteAttrNames(l, ev.s)
		return []lex{nl}
	case evName:
		switch l {
		case lxTagOpen:
			return []lex{lxTagName}
		case lxEndTagOpen:
			return []lex{lxEndTagName}
		case lxText:
			return []lex{lxText}
		}
		h.addViol("HTX-L", fn, ev.instr.Pos(), fmt.Sprintf("element name appended in lexer state %s", l))
		return []lex{l}
	case evEsc, evInt:
		if ev.kind == evEsc {
			if h.escCtx[ev.san] == nil {
				h.escCtx[ev.san] = map[lex]bool{}
			}
			h.escCtx[ev.san][l] = true
		}
		if l == lxText || l == lxAttrDQ {
			return []lex{l}
		}
		h.addViol("HTX-T", fn, ev.instr.Pos(), fmt.Sprintf("dynamic text (%s) appended in lexer state %s, where only constant markup may appear", ev.desc, l))
		return []lex{l}
	case evRaw:
		if l == lxText {
			if h.rawAllow != nil {
				if ok, why := h.rawAllow(ev); !ok {
					h.addViol("HTX-RAW", fn, ev.instr.Pos(), fmt.Sprintf("unescaped data (%s) appended to text: %s", ev.desc, why))
				}
			}
			return []lex{l}
		}
		h.addViol("HTX-T", fn, ev.instr.Pos(), fmt.Sprintf("unescaped data (%s) appended in lexer state %s: input bytes can close the quote, add an attribute or open a tag", ev.desc, l))
		return []lex{l}
	case evMarkLen:
		if h.lenStates[ev.lenKey] == nil {
			h.lenStates[ev.lenKey] = map[lex]bool{}
		}
		if !h.lenStates[ev.lenKey][l] {
			h.lenStates[ev.lenKey][l] = true
			h.changed = true
		}
		return []lex{l}
	case evRollback:
		var out []lex
		for s := range h.lenStates[ev.lenKey] {
			out = append(out, s)
		}
		return out
	case evCall:
		var bind map[int]string
		if call, ok := ev.instr.(*ssa.Call); ok {
			for i, a := range call.Call.Args {
				if cs, ok := constString(a); ok {
					if bind == nil {
						bind = map[int]string{}
					}
					bind[i] = cs
				}
			}
		}
		r := h.analyseB(ev.callee, l, bind)
		if len(r) == 0 {
			return []lex{l}
		}
		return r
	}
	return []lex{l}
}

func (h *htxEngine) noteAttrNames(l lex, s string) {
	cur := ""
	for i := 0; i < len(s); i++ {
		nl, _ := lexStep(l, s[i])
		if nl == lxAttrName {
			cur += string(s[i])
		} else if cur != "" {
			h.attrNames[cur] = true
			cur = ""
		}
		l = nl
		if l == lxErr {
			return
		}
	}
	if cur != "" {
		h.attrNames[cur] = true
	}
}

// run analyses the entry callbacks until the recorded length states are stable.
func (h *htxEngine) run(entries []*ssa.Function) map[*ssa.Function][]lex {
	res := map[*ssa.Function][]lex{}
	for iter := 0; iter < 10; iter++ {
		h.changed = false
		h.summary = map[string][]lex{}
		h.viol = map[string]htxViolation{}
		// re-extract structural violations
		for fn := range h.emitter {
			h.events[fn] = h.extract(fn)
		}
		for _, e := range entries {
			res[e] = h.analyse(e, lxText)
		}
		// emitters not reached from the entries are analysed from TEXT as well
		for fn := range h.emitter {
			reached := false
			for k := range h.summary {
				if strings.HasPrefix(k, fmt.Sprintf("%p/", fn)) {
					reached = true
				}
			}
			if !reached && fn.Name() != "escapeHTML" {
				res[fn] = h.analyse(fn, lxText)
			}
		}
		if !h.changed {
			break
		}
	}
	return res
}

// constBuffer recognises a local byte slice built only by appending constants onto an empty fresh slice.
func constBuffer(v ssa.Value, depth int) (string, bool) {
	if depth > 20 {
		return "", false
	}
	switch x := v.(type) {
	case *ssa.MakeSlice:
		if n, ok := constInt(x.Len); ok && n == 0 {
			return "", true
		}
	case *ssa.Const:
		if x.Value == nil {
			return "", true
		}
	case *ssa.Slice:
		if _, isAl := x.X.(*ssa.Alloc); isAl && x.High != nil && isZero(x.High) {
			return "", true // make([]byte, 0, constant)
		}
	case *ssa.Call:
		if _, ok := isBuiltinCall(x, "append"); ok && len(x.Call.Args) == 2 {
			base, ok := constBuffer(x.Call.Args[0], depth+1)
			if !ok {
				return "", false
			}
			if s, ok := constString(x.Call.Args[1]); ok {
				return base + s, true
			}
			if bs, ok := byteSliceLit(x.Call.Args[1]); ok {
				return base + string(bs), true
			}
		}
	}
	return "", false
}
