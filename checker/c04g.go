package main

// GUARD-SUFFICES (C04): a bound stated on the way to an indexed read is enough for that read.
//
// The rule is of the "stated belief" kind: it never demands a guard. Where the code itself compares the index (or the
// index plus or minus a constant) with the length of the very slice it reads, with the exclusive end of a span, or with
// a small constant before reading at index-minus-k, the comparison has to be enough for the read it leads to, in exact
// integer arithmetic. An off-by-one in such a comparison (`>` for `>=`, `+1` dropped) or a short-circuit operator
// that sends the wrong branch to the read is an index-out-of-range panic for input that ends at that place.

import (
	"fmt"
	"go/token"
	"go/types"
	"sort"

	"golang.org/x/tools/go/ssa"
)

type gsFact struct {
	up, lo   bool  // t - B <= u ; t - B >= l
	u, l     int64 //
	neq      bool  // t - B != n
	n        int64
	where    *ssa.If
	strictly string
}

// gsRelation returns, for the edge `edge` of iff, the relation it establishes between (base) and a bound term, for every
// way the condition can be read as "base + xk REL bound + yk". bound == nil means a constant bound (then yk is the constant).
func gsEdgeFacts(iff *ssa.If, edge int, base ssa.Value, a int64, isBound func(ssa.Value) (bool, int64)) (facts []gsFact, constFacts []gsFact) {
	neg := isNegated(iff.Cond)
	bo, ok := stripNot(iff.Cond).(*ssa.BinOp)
	if !ok {
		return
	}
	op := bo.Op
	switch op {
	case token.LSS, token.LEQ, token.GTR, token.GEQ, token.EQL, token.NEQ:
	default:
		return
	}
	taken := edge == 0
	if neg {
		taken = !taken
	}
	if !taken {
		switch op {
		case token.LSS:
			op = token.GEQ
		case token.LEQ:
			op = token.GTR
		case token.GTR:
			op = token.LEQ
		case token.GEQ:
			op = token.LSS
		case token.EQL:
			op = token.NEQ
		case token.NEQ:
			op = token.EQL
		}
	}
	flip := func(o token.Token) token.Token {
		switch o {
		case token.LSS:
			return token.GTR
		case token.LEQ:
			return token.GEQ
		case token.GTR:
			return token.LSS
		case token.GEQ:
			return token.LEQ
		}
		return o
	}
	try := func(x, y ssa.Value, o token.Token) {
		xb, xk := linTerm(x)
		if !(xb == base || sameTerm(xb, base)) {
			return
		}
		// base + xk  o  y
		mk := func(d int64) gsFact { // (t - B) o' d+a, with d = yk - xk
			f := gsFact{where: iff}
			switch o {
			case token.LSS:
				f.up, f.u = true, d-1+a
			case token.LEQ:
				f.up, f.u = true, d+a
			case token.GTR:
				f.lo, f.l = true, d+1+a
			case token.GEQ:
				f.lo, f.l = true, d+a
			case token.EQL:
				f.up, f.u, f.lo, f.l = true, d+a, true, d+a
			case token.NEQ:
				f.neq, f.n = true, d+a
			}
			return f
		}
		if k, isC := constInt(y); isC {
			constFacts = append(constFacts, mk(k-xk))
			return
		}
		yb, yk := linTerm(y)
		if ok, shift := isBound(yb); ok {
			facts = append(facts, mk(yk+shift-xk))
		}
	}
	try(bo.X, bo.Y, op)
	try(bo.Y, bo.X, flip(op))
	return
}

// spanEndTerm: the End field of a Span (loaded or extracted), or a call of a module function all of whose results are such.
func spanEndTerm(v ssa.Value, depth int) bool {
	switch x := v.(type) {
	case *ssa.Field:
		if typeName(x.X.Type()) == "Span" {
			if st, ok := x.X.Type().Underlying().(*types.Struct); ok {
				return st.Field(x.Field).Name() == "End"
			}
		}
	case *ssa.UnOp:
		if x.Op == token.MUL {
			if fa, ok := x.X.(*ssa.FieldAddr); ok {
				tn, f, _ := fieldAddrInfo(fa)
				return tn == "Span" && f == "End"
			}
		}
	case *ssa.Call:
		f := x.Call.StaticCallee()
		if f == nil || f.Blocks == nil || depth > 2 || f.Signature.Results().Len() != 1 {
			return false
		}
		n := 0
		all := true
		eachInstr(f, func(in ssa.Instruction) {
			if r, ok := in.(*ssa.Return); ok {
				n++
				if !spanEndTerm(r.Results[0], depth+1) {
					all = false
				}
			}
		})
		return n > 0 && all
	}
	return false
}

func ruleGuardSuffices(c *Ctx) {
	c.Rule("GUARD-SUFFICES", "Stated-bound rule, packages commonmark and format: for every read s[t] of a slice or string with t = V + a (a an integer constant of either sign), the branches on the way to the read that compare V (plus a constant) with len(s) — or the length of the slice s was cut from at a constant offset, s = t[c:] —, with the exclusive End of a Span (directly or through an accessor that returns one), or — for a < 0 — with a constant, are collected (a read counted from the end, s[len(s)-k], needs k >= 1 outright) with the edge that dominates the read. If such a comparison bounds t from above, the tightest bound over all of them must give t < bound; if the only comparisons put t at or beyond the bound, or below zero, the read is reached exactly when it is out of range. The rule never asks for a guard that is not there (INDEX-GUARD does, for cursor and look-ahead reads); it reports a guard that is there and is not enough: `>` for `>=`, a dropped +1, `||` for `&&`.")
	p := c.P
	n := 0
	perFn := map[*ssa.Function]int{}
	for _, fn := range p.Funcs {
		if fn.Pkg != p.CMs && fn.Pkg != p.FMTs {
			continue
		}
		if fn.Blocks == nil {
			continue
		}
		var ifs []*ssa.If
		for _, b := range fn.Blocks {
			if iff := blockIf(b); iff != nil {
				ifs = append(ifs, iff)
			}
		}
		eachInstr(fn, func(in ssa.Instruction) {
			var s, idx ssa.Value
			switch y := in.(type) {
			case *ssa.IndexAddr:
				if _, ok := y.X.Type().Underlying().(*types.Slice); !ok {
					return
				}
				s, idx = y.X, y.Index
			case *ssa.Lookup:
				if bt, ok := y.X.Type().Underlying().(*types.Basic); !ok || bt.Info()&types.IsString == 0 {
					return
				}
				s, idx = y.X, y.Index
			case *ssa.Index:
				if bt, ok := y.X.Type().Underlying().(*types.Basic); !ok || bt.Info()&types.IsString == 0 {
					return
				}
				s, idx = y.X, y.Index
			default:
				return
			}
			if _, isConst := idx.(*ssa.Const); isConst {
				return
			}
			base, a := linTerm(idx)
			if _, isConst := base.(*ssa.Const); isConst {
				return
			}
			isLen := func(v ssa.Value) bool {
				cl, ok := v.(*ssa.Call)
				if !ok {
					return false
				}
				bi, ok := cl.Call.Value.(*ssa.Builtin)
				return ok && bi.Name() == "len" && len(cl.Call.Args) == 1 && (cl.Call.Args[0] == s || sameTerm(cl.Call.Args[0], s))
			}
			// len of a slice the read slice was cut from, or of a slice cut from it, with constant cut points:
			// s = t[c:] has len(t) = len(s) + c
			lenRelated := func(v ssa.Value) (bool, int64) {
				cl, ok := v.(*ssa.Call)
				if !ok {
					return false, 0
				}
				bi, ok := cl.Call.Value.(*ssa.Builtin)
				if !ok || bi.Name() != "len" || len(cl.Call.Args) != 1 {
					return false, 0
				}
				other := cl.Call.Args[0]
				if sl, ok := s.(*ssa.Slice); ok && sl.High == nil && sl.Low != nil && (sl.X == other || sameTerm(sl.X, other)) {
					if c, isC := constInt(sl.Low); isC {
						return true, c
					}
				}
				if sl, ok := other.(*ssa.Slice); ok && sl.High == nil && sl.Low != nil && (sl.X == s || sameTerm(sl.X, s)) {
					if c, isC := constInt(sl.Low); isC {
						return true, -c
					}
				}
				return false, 0
			}
			isBound := func(v ssa.Value) (bool, int64) {
				if isLen(v) || spanEndTerm(v, 0) {
					return true, 0
				}
				return lenRelated(v)
			}
			var up, lo []gsFact     // against len(s) / span end
			var cup, clo []gsFact   // against constants
			var neqs, cneqs []int64 //
			for _, iff := range ifs {
				for e := 0; e < 2; e++ {
					if !edgeDominates(iff.Block(), e, in.Block()) {
						continue
					}
					fs, cfs := gsEdgeFacts(iff, e, base, a, isBound)
					for _, f := range fs {
						if f.up {
							up = append(up, f)
						}
						if f.lo {
							lo = append(lo, f)
						}
						if f.neq {
							neqs = append(neqs, f.n)
						}
					}
					for _, f := range cfs {
						if f.up {
							cup = append(cup, f)
						}
						if f.lo {
							clo = append(clo, f)
						}
						if f.neq {
							cneqs = append(cneqs, f.n)
						}
					}
				}
			}
			fromEnd := isLen(base)
			if fromEnd && a < 0 && len(cup) == 0 && len(clo) == 0 && len(cneqs) == 0 {
				return // nothing stated about the length: not this rule's business
			}
			if fromEnd {
				clo = append(clo, gsFact{lo: true, l: a}) // a length is never negative
			}
			if !fromEnd && len(up) == 0 && len(lo) == 0 && (a >= 0 || (len(cup) == 0 && len(clo) == 0)) {
				return
			}
			n++
			perFn[fn]++
			key := fmt.Sprintf("%s:read#%d", shortFuncName(fn), perFn[fn])
			if fromEnd && a >= 0 {
				// s[len(s)+a]: no comparison is needed to know where this lands
				c.Viol("GUARD-SUFFICES", key, in.Pos(), fmt.Sprintf("read at len%+d of the slice it measures: out of range whenever it is reached", a))
				return
			}
			// upper side
			if len(up) > 0 {
				u := up[0].u
				for _, f := range up {
					if f.u < u {
						u = f.u
					}
				}
				sort.Slice(neqs, func(i, j int) bool { return neqs[i] > neqs[j] })
				for _, q := range neqs {
					if q == u {
						u--
					}
				}
				if u > -1 {
					c.Viol("GUARD-SUFFICES", key, in.Pos(), fmt.Sprintf("the comparisons on the way to this read bound its index only by bound%+d; the read needs index < bound (%s)", u, p.Pos(up[0].where.Cond.Pos())))
					return
				}
			} else if len(lo) > 0 {
				l := lo[0].l
				for _, f := range lo {
					if f.l > l {
						l = f.l
					}
				}
				if l >= 0 {
					c.Viol("GUARD-SUFFICES", key, in.Pos(), fmt.Sprintf("this read is reached only when its index is at or beyond the bound it is compared with (index >= bound%+d)", l))
					return
				}
			}
			// lower side, look-behind reads
			if a < 0 {
				if len(clo) > 0 {
					l := clo[0].l
					for _, f := range clo {
						if f.l > l {
							l = f.l
						}
					}
					sort.Slice(cneqs, func(i, j int) bool { return cneqs[i] < cneqs[j] })
					for _, q := range cneqs {
						if q == l {
							l++
						}
					}
					if l < 0 {
						c.Viol("GUARD-SUFFICES", key, in.Pos(), fmt.Sprintf("look-behind read: the comparisons on the way give index >= %d only", l))
						return
					}
				} else if len(cup) > 0 {
					u := cup[0].u
					for _, f := range cup {
						if f.u < u {
							u = f.u
						}
					}
					if u < 0 {
						c.Viol("GUARD-SUFFICES", key, in.Pos(), fmt.Sprintf("look-behind read reached only when its index is negative (index <= %d)", u))
						return
					}
				}
			}
			c.OK("GUARD-SUFFICES", key, in.Pos(), "the stated bounds are enough for the read")
		})
	}
	c.Analysed["reads_with_a_stated_bound"] = n
	if n < 20 {
		c.Undecided("GUARD-SUFFICES", "instance-count", token.NoPos, fmt.Sprintf("%d reads with a stated bound found; the comparison idiom must still be recognised", n))
	}
}

func init() {
	addControls(
		Control{Name: "email-at-sign-read-at-length", Props: []string{"C04"}, File: "inlines.go",
			Old: "\tif end >= len(text) || text[end] != '@' {", New: "\tif end > len(text) || text[end] != '@' {", Expect: "GUARD-SUFFICES/parseEmail:read#",
			Why: "bulk mutant inlines.go:1701 `>=` to `>`: '<a' followed by end of input reads text[len(text)]; the suite has no such input"},
		Control{Name: "nul-run-look-behind-with-or", Props: []string{"C04"}, File: "inlines.go",
			Old: "\tfor start > 0 && source[start-1] == 0 {", New: "\tfor start > 0 || source[start-1] == 0 {", Expect: "GUARD-SUFFICES/computeNullVirtualPosition:read#",
			Why: "bulk mutant inlines.go:2101: reads source[-1] for a NUL at offset 0"},
		Control{Name: "neg-email-at-sign-bound-rewritten", Props: []string{"C04"}, File: "inlines.go", Negative: true,
			Old: "\tif end >= len(text) || text[end] != '@' {", New: "\tif !(end < len(text)) || text[end] != '@' {"},
		Control{Name: "neg-nul-run-look-behind-geq-one", Props: []string{"C04"}, File: "inlines.go", Negative: true,
			Old: "\tfor start > 0 && source[start-1] == 0 {", New: "\tfor start >= 1 && source[start-1] == 0 {"},
	)
}

func init() {
	addControls(
		Control{Name: "last-line-node-read-at-length", Props: []string{"C04"}, File: "inlines.go",
			Old: "\t\treturn state.unparsed[len(state.unparsed)-1].Span().End", New: "\t\treturn state.unparsed[len(state.unparsed)-0].Span().End", Expect: "GUARD-SUFFICES/(*inlineState).spanEnd:read#",
			Why: "bulk mutant inlines.go:301 `1` to `0`"},
		Control{Name: "crlf-hard-break-trim-needs-two-bytes", Props: []string{"C04"}, File: "inlines.go",
			Old: "\t\tcase len(spanText) >= 2 && spanText[len(spanText)-2] == '\\r' && spanText[len(spanText)-1] == '\\n':", New: "\t\tcase len(spanText) >= 1 && spanText[len(spanText)-2] == '\\r' && spanText[len(spanText)-1] == '\\n':", Expect: "GUARD-SUFFICES/",
			Why: "a one-byte text node in front of a hard break would read spanText[-1]"},
	)
}

func init() {
	addControls(
		Control{Name: "email-autolink-bound-against-outer-slice", Props: []string{"C04"}, File: "inlines.go",
			Old: "\tif emailEnd := parseEmail(text[1:]); emailEnd >= 0 && 1+emailEnd < len(text) && text[1+emailEnd] == '>' {\n\t\treturn 2 + emailEnd", New: "\taddress := text[1:]\n\tif emailEnd := parseEmail(address); emailEnd >= 0 && emailEnd < len(text) && address[emailEnd] == '>' {\n\t\treturn 2 + emailEnd", Expect: "GUARD-SUFFICES/parseAutolink:read#",
			Why: "seeded change of round 11: the index moved to the sub-slice, the bound stayed with the outer one"},
		Control{Name: "neg-email-autolink-address-slice", Props: []string{"C04"}, File: "inlines.go", Negative: true,
			Old: "\tif emailEnd := parseEmail(text[1:]); emailEnd >= 0 && 1+emailEnd < len(text) && text[1+emailEnd] == '>' {\n\t\treturn 2 + emailEnd", New: "\taddress := text[1:]\n\tif emailEnd := parseEmail(address); emailEnd >= 0 && emailEnd+1 < len(text) && address[emailEnd] == '>' {\n\t\treturn 2 + emailEnd"},
	)
}
