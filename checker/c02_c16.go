package main

// c02_c16.go — necessary structural conditions for C02 (spans of root blocks and of carried-over blocks) and C16 (no
// hidden state crosses a root-block boundary). Both properties as a whole are value-level; only these parts are claimed.

import (
	"fmt"
	"go/token"
	"go/types"
	"sort"
	"strings"

	"golang.org/x/tools/go/ssa"
)

func init() {
	props["C02"] = checkC02
	props["C16"] = checkC16
}

// termKey prints a structural key of an access path (no CSE in go/ssa: `docChildren[0]` read twice is two loads).
func termKey(v ssa.Value, d int) string {
	if d > 8 {
		return "…"
	}
	switch x := v.(type) {
	case *ssa.Parameter:
		return "param:" + x.Name()
	case *ssa.Const:
		return x.String()
	case *ssa.UnOp:
		if x.Op == token.MUL {
			return "*" + termKey(x.X, d+1)
		}
		return x.Op.String() + termKey(x.X, d+1)
	case *ssa.FieldAddr:
		_, f, _ := fieldAddrInfo(x)
		return termKey(x.X, d+1) + "." + f
	case *ssa.Field:
		_, f := fieldInfo(x)
		return termKey(x.X, d+1) + "." + f
	case *ssa.IndexAddr:
		return termKey(x.X, d+1) + "[" + termKey(x.Index, d+1) + "]"
	case *ssa.Call:
		if f := x.Call.StaticCallee(); f != nil {
			var as []string
			for _, a := range x.Call.Args {
				as = append(as, termKey(a, d+1))
			}
			return f.Name() + "(" + strings.Join(as, ",") + ")"
		}
	case *ssa.BinOp:
		return "(" + termKey(x.X, d+1) + x.Op.String() + termKey(x.Y, d+1) + ")"
	case *ssa.Alloc:
		return fmt.Sprintf("alloc@%d", x.Pos())
	}
	return fmt.Sprintf("%T@%p", v, v)
}

// spanEndOf: v is the End of the span of block pointer X (X.Span().End or X.span.End); returns the key of X.
func spanEndOf(v ssa.Value) (string, bool) {
	var base ssa.Value
	var f string
	switch x := v.(type) {
	case *ssa.Field:
		_, f = fieldInfo(x)
		base = x.X
	case *ssa.UnOp:
		if x.Op != token.MUL {
			return "", false
		}
		fa, ok := x.X.(*ssa.FieldAddr)
		if !ok {
			return "", false
		}
		_, f, _ = fieldAddrInfo(fa)
		// X.span.End : FieldAddr(FieldAddr(X, span), End)
		if inner, ok := fa.X.(*ssa.FieldAddr); ok {
			if tn, sf, _ := fieldAddrInfo(inner); tn == "Block" && sf == "span" && f == "End" {
				return termKey(inner.X, 0), true
			}
		}
		return "", false
	default:
		return "", false
	}
	if f != "End" {
		return "", false
	}
	// base is a Span value: result of X.Span() or a load of X.span
	switch b := base.(type) {
	case *ssa.Call:
		if g := b.Call.StaticCallee(); g != nil && g.Name() == "Span" && len(b.Call.Args) == 1 {
			return termKey(b.Call.Args[0], 0), true
		}
	case *ssa.UnOp:
		if fa, ok := b.X.(*ssa.FieldAddr); ok && b.Op == token.MUL {
			if tn, sf, _ := fieldAddrInfo(fa); tn == "Block" && sf == "span" {
				return termKey(fa.X, 0), true
			}
		}
	}
	return "", false
}

func checkC02(c *Ctx) {
	c.Assume("only the root-span end and the re-basing of carried-over blocks are decided; validity, nesting, sibling order and character alignment of all other spans are arithmetic over loop-computed offsets and are not decided")
	ruleRootCut(c)
	ruleRebase(c)
	ruleCharAdvance(c)
	ruleSpanLen(c)
	ruleResync(c)
	ruleResyncNotFound(c)
	ruleTextResume(c)
	ruleParaRestStart(c)
	ruleCloseAtLineStart(c)
	ruleCollectBound(c)
	ruleHookEnd(c)
	ruleSpanOrder(c)
}

// ROOT-CUT: the Source of a root block ends exactly where the span of the block it carries ends.
func ruleRootCut(c *Ctx) {
	c.Rule("ROOT-CUT", "Where a RootBlock is built, its Source is buf[:n] and its Block is a copy of *X with n the End of X's own span — one value on every path, not a choice between several positions. (C02: 'a root block's span ends at len(Source)'.) Cutting at the start of the following block instead differs as soon as that block is indented: the indentation lands in the earlier block's Source, behind the end of its span.")
	p := c.P
	n := 0
	for _, fn := range p.Funcs {
		if fn.Pkg != p.CMs {
			continue
		}
		eachInstr(fn, func(in ssa.Instruction) {
			al, ok := in.(*ssa.Alloc)
			if !ok || typeName(deref(al.Type())) != "RootBlock" {
				return
			}
			var src, blk ssa.Value
			var pos token.Pos
			for _, r := range refsOf(al) {
				fa, ok := r.(*ssa.FieldAddr)
				if !ok {
					continue
				}
				_, f, _ := fieldAddrInfo(fa)
				for _, rr := range refsOf(fa) {
					if st, ok := rr.(*ssa.Store); ok && st.Addr == ssa.Value(fa) {
						switch f {
						case "Source":
							src, pos = st.Val, st.Pos()
						case "Block":
							blk = st.Val
						}
					}
				}
			}
			if src == nil || blk == nil {
				return
			}
			n++
			key := fmt.Sprintf("%s:RootBlock#%d", shortFuncName(fn), n)
			sl, ok := src.(*ssa.Slice)
			if !ok || sl.High == nil {
				c.Undecided("ROOT-CUT", key, pos, "Source is not a prefix buf[:n] of the buffer")
				return
			}
			ld, ok := blk.(*ssa.UnOp)
			if !ok || ld.Op != token.MUL {
				c.Undecided("ROOT-CUT", key, pos, "Block is not a copy of an existing block")
				return
			}
			xKey := termKey(ld.X, 0)
			// every source of the cut bound must be X's span end
			var bad []string
			seen := map[ssa.Value]bool{}
			var w func(v ssa.Value)
			w = func(v ssa.Value) {
				if seen[v] {
					return
				}
				seen[v] = true
				if ph, ok := v.(*ssa.Phi); ok {
					for _, e := range ph.Edges {
						w(e)
					}
					return
				}
				if k, ok := spanEndOf(v); ok && k == xKey {
					return
				}
				bad = append(bad, describeValue(v))
			}
			w(sl.High)
			sort.Strings(bad)
			c.Check(len(bad) == 0, "ROOT-CUT", key, pos, "the root block's Source is cut at a position other than the end of the span of the block it carries: "+strings.Join(bad, ", "))
		})
	}
	if n < 1 {
		c.Undecided("ROOT-CUT", "instance-count", token.NoPos, "no construction of a RootBlock found")
	}
}

// REBASE: blocks carried over to the next call are shifted completely, and by the length that was cut.
func ruleRebase(c *Ctx) {
	c.Rule("REBASE", "When a closed root block is cut off the buffer, blocks closed on the same line stay behind with offsets relative to the old buffer start. (all) The function that shifts them adds its delta to the Start and to the End of the span of every block and of every inline it reaches, and pushes the children of every node it visits, whatever the node's kind (BSET path-conditioning on Kind(): the push is reachable for every kind). (delta) The delta passed is the negated cut bound. Otherwise spans of carried-over nodes point outside their root block's Source.")
	p := c.P
	fn := p.Func("offsetTree")
	if !c.NeedFunc("REBASE", fn, "offsetTree") {
		return
	}
	var delta ssa.Value
	for _, q := range fn.Params {
		if b, ok := q.Type().Underlying().(*types.Basic); ok && b.Info()&types.IsInteger != 0 {
			delta = q
		}
	}
	if delta == nil {
		c.Undecided("REBASE", "offsetTree:delta", fn.Pos(), "no integer delta parameter")
		return
	}
	// span shifts: direct stores X.span.F = X.span.F + delta, or a helper called with &X.span and delta that does so
	shifted := map[string]map[string]bool{"Block": {}, "Inline": {}}
	var shiftStores func(f *ssa.Function, spanAddr func(ssa.Value) (string, bool), d ssa.Value, depth int)
	shiftStores = func(f *ssa.Function, spanAddr func(ssa.Value) (string, bool), d ssa.Value, depth int) {
		eachInstr(f, func(in ssa.Instruction) {
			switch x := in.(type) {
			case *ssa.Store:
				fa, ok := x.Addr.(*ssa.FieldAddr)
				if !ok {
					return
				}
				tn, fld, _ := fieldAddrInfo(fa)
				if tn != "Span" {
					return
				}
				owner, ok := spanAddr(fa.X)
				if !ok {
					return
				}
				bo, ok := x.Val.(*ssa.BinOp)
				if !ok || bo.Op != token.ADD || (bo.X != d && bo.Y != d) {
					return
				}
				shifted[owner][fld] = true
			case *ssa.Call:
				g := x.Call.StaticCallee()
				if g == nil || g.Blocks == nil || !p.InModule(g) || depth > 1 {
					return
				}
				// a helper receiving (&X.span, delta)
				for ai, a := range x.Call.Args {
					owner, ok := spanAddr(a)
					if !ok {
						continue
					}
					for di, dv := range x.Call.Args {
						if dv == d && ai < len(g.Params) && di < len(g.Params) {
							sp := g.Params[ai]
							shiftStores(g, func(v ssa.Value) (string, bool) {
								if v == ssa.Value(sp) {
									return owner, true
								}
								return "", false
							}, g.Params[di], depth+1)
						}
					}
				}
			}
		})
	}
	shiftStores(fn, func(v ssa.Value) (string, bool) {
		if fa, ok := v.(*ssa.FieldAddr); ok {
			if tn, f, _ := fieldAddrInfo(fa); f == "span" && (tn == "Block" || tn == "Inline") {
				return tn, true
			}
		}
		return "", false
	}, delta, 0)
	for _, tn := range []string{"Block", "Inline"} {
		var missing []string
		for _, f := range []string{"Start", "End"} {
			if !shifted[tn][f] {
				missing = append(missing, f)
			}
		}
		c.Check(len(missing) == 0, "REBASE", "offsetTree:all:"+tn+".span", fn.Pos(), fmt.Sprintf("offsetTree does not add its delta to %s of every %s span", strings.Join(missing, " and "), tn))
	}
	// children pushes are not restricted by node kind
	isKind, dom, kt := kindSymOf(p, fn)
	nPush := 0
	if isKind != nil {
		// several kind types may be read (block and inline); handle each kind type separately
	}
	eachInstr(fn, func(in ssa.Instruction) {
		call, ok := in.(*ssa.Call)
		if !ok {
			return
		}
		if _, isApp := isBuiltinCall(call, "append"); !isApp {
			return
		}
		// pushes of children: an element that is a Child(...) result, an AsNode() of one, or an element of a children list
		isChildPush := false
		for _, e := range varargElems(call) {
			seen := map[ssa.Value]bool{}
			var w func(v ssa.Value, d int)
			w = func(v ssa.Value, d int) {
				if v == nil || seen[v] || d > 5 {
					return
				}
				seen[v] = true
				switch x := v.(type) {
				case *ssa.Call:
					if g := x.Call.StaticCallee(); g != nil {
						if g.Name() == "Child" {
							isChildPush = true
							return
						}
						for _, a := range x.Call.Args {
							w(a, d+1)
						}
					}
				case *ssa.UnOp:
					if ia, ok := x.X.(*ssa.IndexAddr); ok {
						if fa, ok := isLoadOfFieldAny(ia.X, "children", "blockChildren", "inlineChildren"); ok {
							_ = fa
							isChildPush = true
						}
					}
				case *ssa.MakeInterface, *ssa.ChangeType, *ssa.Convert:
					var ops []*ssa.Value
					for _, op := range x.(ssa.Instruction).Operands(ops) {
						if op != nil {
							w(*op, d+1)
						}
					}
				}
			}
			w(e, 0)
		}
		if !isChildPush {
			return
		}
		nPush++
		key := fmt.Sprintf("offsetTree:all:children#%d", nPush)
		if isKind == nil {
			c.OK("REBASE", key, call.Pos(), "children are pushed without looking at the node's kind")
			return
		}
		reach := newBSET(p).reachUnderSym(fn, isKind, dom)
		var missing []string
		for _, d := range dom {
			if !reach[call.Block()][d] {
				missing = append(missing, kindName(p, kt, d))
			}
		}
		sort.Strings(missing)
		c.Check(len(missing) == 0, "REBASE", key, call.Pos(), "the children of nodes of these kinds are not re-based: "+strings.Join(missing, ", "))
	})
	if nPush < 1 {
		c.Undecided("REBASE", "offsetTree:all:children", fn.Pos(), "no push of child nodes found in offsetTree")
	}
	// delta at the call sites: the negated cut bound
	nCalls := 0
	for _, caller := range p.Funcs {
		eachInstr(caller, func(in ssa.Instruction) {
			call, ok := in.(*ssa.Call)
			if !ok || call.Call.StaticCallee() != fn {
				return
			}
			nCalls++
			key := fmt.Sprintf("%s:delta#%d", shortFuncName(caller), nCalls)
			var arg ssa.Value
			for i, q := range fn.Params {
				if ssa.Value(q) == delta && i < len(call.Call.Args) {
					arg = call.Call.Args[i]
				}
			}
			// cut bounds of the caller: low bounds of buf = buf[k:], made directly or by a helper it calls with k as argument
			var cuts []ssa.Value
			directCuts := func(f *ssa.Function) []ssa.Value {
				var out []ssa.Value
				eachInstr(f, func(x ssa.Instruction) {
					if st, ok := x.(*ssa.Store); ok {
						if _, ok := isFieldAddr(st.Addr, "BlockParser", "buf"); ok {
							if sl, ok := st.Val.(*ssa.Slice); ok && sl.Low != nil && !isZero(sl.Low) {
								out = append(out, sl.Low)
							}
						}
					}
				})
				return out
			}
			cuts = directCuts(caller)
			eachInstr(caller, func(x ssa.Instruction) {
				cl, ok := x.(*ssa.Call)
				if !ok {
					return
				}
				g := cl.Call.StaticCallee()
				if g == nil || g.Blocks == nil || !p.InModule(g) || g == fn {
					return
				}
				for _, k := range directCuts(g) {
					for pi, q := range g.Params {
						if ssa.Value(q) == k && pi < len(cl.Call.Args) {
							cuts = append(cuts, cl.Call.Args[pi])
						}
					}
				}
			})
			neg, ok := arg.(*ssa.UnOp)
			good := false
			if ok && neg.Op == token.SUB {
				for _, k := range cuts {
					if sameTerm(neg.X, k) || neg.X == k {
						good = true
					}
				}
			}
			if bo, isBo := arg.(*ssa.BinOp); isBo && bo.Op == token.SUB && isZero(bo.X) {
				for _, k := range cuts {
					if sameTerm(bo.Y, k) || bo.Y == k {
						good = true
					}
				}
			}
			c.Check(good, "REBASE", key, call.Pos(), "carried-over blocks are shifted by something other than minus the length cut off the buffer")
		})
	}
	if nCalls < 1 {
		c.Undecided("REBASE", "delta:instance-count", fn.Pos(), "offsetTree is never called")
	}
}

// isLoadOfFieldAny: v is a load of one of the named fields (of any struct).
func isLoadOfFieldAny(v ssa.Value, names ...string) (*ssa.FieldAddr, bool) {
	ld, ok := v.(*ssa.UnOp)
	if !ok || ld.Op != token.MUL {
		return nil, false
	}
	fa, ok := ld.X.(*ssa.FieldAddr)
	if !ok {
		return nil, false
	}
	_, f, _ := fieldAddrInfo(fa)
	for _, n := range names {
		if f == n {
			return fa, true
		}
	}
	return nil, false
}

func checkC16(c *Ctx) {
	c.Assume("only the absence of hidden state that survives a root-block boundary is decided (necessary for a block to parse the same on its own); that closing a block at end of input equals closing it because of the next line is behavioural, per block rule, and not decided")
	ruleInlineParserStateless(c)
	rulePhaseScratch(c)
	ruleNulView(c)
	// a definition's label is normalised before the NUL padding is filled in, the same label in the block's Source after
	ruleNormReader(c)
	ruleRawViewPhase(c)
	ruleCloseAtLineStart(c)
}

// INLINE-STATELESS: the inline parser keeps nothing between Rewrite calls.
func ruleInlineParserStateless(c *Ctx) {
	c.Rule("INLINE-STATELESS", "No instruction in the module stores into a field of an InlineParser other than while building a fresh one (composite literal). One InlineParser rewrites every root block of a document in turn; anything it remembered from an earlier block (a memo of positions, a cache keyed by block-relative spans) would make a block parse differently in the document than on its own.")
	p := c.P
	n, bad := 0, 0
	for _, top := range p.Funcs {
		for _, fn := range withAnons(top) {
			eachInstr(fn, func(in ssa.Instruction) {
				var addr ssa.Value
				switch x := in.(type) {
				case *ssa.Store:
					addr = x.Addr
				case *ssa.MapUpdate:
					addr = x.Map
				default:
					return
				}
				// walk the address back to a field of InlineParser
				v := addr
				for d := 0; d < 6; d++ {
					switch y := v.(type) {
					case *ssa.FieldAddr:
						if tn, f, _ := fieldAddrInfo(y); tn == "InlineParser" {
							n++
							if _, fresh := y.X.(*ssa.Alloc); fresh {
								return
							}
							bad++
							c.Viol("INLINE-STATELESS", fmt.Sprintf("%s:InlineParser.%s#%d", shortFuncName(fn), f, n), in.Pos(), "the inline parser's field "+f+" is written after construction: state that carries over to the next root block")
							return
						}
						v = y.X
					case *ssa.IndexAddr:
						v = y.X
					case *ssa.UnOp:
						v = y.X
					default:
						return
					}
				}
			})
		}
	}
	if bad == 0 {
		c.OK("INLINE-STATELESS", "InlineParser", token.NoPos, fmt.Sprintf("%d stores into InlineParser fields, all into fresh literals", n))
	}
}

// PHASE-SCRATCH: per-line and per-paragraph parser state does not outlive the call that created it.
func rulePhaseScratch(c *Ctx) {
	c.Rule("PHASE-SCRATCH", "The working state of the inline phase (inlineState, inlineByteReader) is of scratch types in the sense of the write-effect analysis (no value or pointer of these types is ever stored in a package-level variable, a parser object or a tree node), and no pointer to a lineParser — the working state of the block phase, made afresh by every NextBlock call — is stored anywhere but in a local variable or in a lineParser. What crosses a root-block boundary is therefore only the BlockParser's own fields (buffer cursor, latched error, carried-over closed blocks).")
	p := c.P
	e := newEFF(p)
	for _, name := range []string{"inlineState", "inlineByteReader"} {
		nt := p.NamedType(name)
		if nt == nil {
			c.Undecided("PHASE-SCRATCH", name, token.NoPos, "type "+name+" not found")
			continue
		}
		why := e.scratchWhy[nt]
		c.Check(e.scratch[nt], "PHASE-SCRATCH", name, nt.Obj().Pos(), "values of this type outlive the call that made them: "+why)
	}
	// lineParser pointers
	bad := 0
	n := 0
	isLP := func(t types.Type) bool {
		if pt, ok := t.Underlying().(*types.Pointer); ok {
			return typeName(pt.Elem()) == "lineParser"
		}
		return false
	}
	for _, top := range p.Funcs {
		for _, fn := range withAnons(top) {
			eachInstr(fn, func(in ssa.Instruction) {
				switch x := in.(type) {
				case *ssa.Store:
					if !isLP(x.Val.Type()) {
						return
					}
					n++
					switch a := x.Addr.(type) {
					case *ssa.Alloc:
						return
					case *ssa.FieldAddr:
						if tn, _, _ := fieldAddrInfo(a); tn == "lineParser" {
							return
						}
					}
					bad++
					c.Viol("PHASE-SCRATCH", fmt.Sprintf("%s:lineParser-stored#%d", shortFuncName(fn), n), in.Pos(), "a pointer to the per-call line parser is stored in "+x.Addr.String())
				case *ssa.MapUpdate:
					if isLP(x.Value.Type()) {
						bad++
						c.Viol("PHASE-SCRATCH", fmt.Sprintf("%s:lineParser-in-map", shortFuncName(fn)), in.Pos(), "a pointer to the per-call line parser is stored in a map")
					}
				case *ssa.MakeClosure:
					// captured by a closure that is itself stored: conservative, only flag closures stored in globals/fields
				}
			})
		}
	}
	// the constructor is called once per NextBlock call, never cached
	if nl := p.Func("newLineParser"); nl != nil {
		sites := 0
		for _, fn := range p.Funcs {
			eachInstr(fn, func(in ssa.Instruction) {
				if call, ok := in.(*ssa.Call); ok && call.Call.StaticCallee() == nl {
					sites++
				}
			})
		}
		c.Analysed["newLineParser_call_sites"] = sites
	}
	if bad == 0 {
		c.OK("PHASE-SCRATCH", "lineParser", token.NoPos, fmt.Sprintf("%d stores of lineParser pointers, all into locals or the line parser itself", n))
	}
}
