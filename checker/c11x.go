package main

// EMPH-KX — exact cache-key soundness by finite enumeration (BSET-style collecting semantics over
// typ × flags × n of both delimiter elements; no compiled code of /repo is executed).

import (
	"fmt"
	"go/token"
	"go/types"
	"sort"
	"strings"

	"golang.org/x/tools/go/ssa"
)

// nOnlyMod3 reports whether every use of a load of field `n` of the given struct parameters in fn flows only into
// `% 3` (directly or through one addition of such loads): then enumerating n over a full set of residues is exact.
func nOnlyMod3(fn *ssa.Function, params []*ssa.Parameter) (bool, string) {
	type pr struct {
		sp *ssa.Alloc
		p  *ssa.Parameter
	}
	var ps []pr
	for _, p := range params {
		ps = append(ps, pr{spillOf(p), p})
	}
	isN := func(v ssa.Value) bool {
		for _, q := range ps {
			if f, ok := fieldOfLoad(v, q.sp, q.p); ok && f == "n" {
				return true
			}
		}
		return false
	}
	ok := true
	why := ""
	var okUse func(v ssa.Value, depth int) bool
	okUse = func(v ssa.Value, depth int) bool {
		for _, r := range refsOf(v) {
			switch x := r.(type) {
			case *ssa.BinOp:
				if x.Op == token.REM {
					if k, isc := constInt(x.Y); isc && k == 3 && x.X == v {
						continue
					}
					return false
				}
				if x.Op == token.ADD && depth == 0 {
					if !okUse(x, 1) {
						return false
					}
					continue
				}
				return false
			case *ssa.DebugRef:
				continue
			default:
				return false
			}
		}
		return true
	}
	eachInstr(fn, func(in ssa.Instruction) {
		v, isv := in.(ssa.Value)
		if !isv || !isN(v) {
			return
		}
		// a run can be longer than 255 delimiters: in a narrow integer the stored value (and a sum of two) is no longer
		// congruent to the run length modulo 3
		if b, isB := v.Type().Underlying().(*types.Basic); isB {
			switch b.Kind() {
			case types.Int, types.Int64, types.Uint, types.Uint64, types.Int32, types.Uint32:
			default:
				ok = false
				why = fmt.Sprintf("%s reads the run length from a %s, which wraps around for long runs (256 is not a multiple of 3)", shortFuncName(fn), b.Name())
				return
			}
		}
		if !okUse(v, 0) {
			ok = false
			why = fmt.Sprintf("%s uses a delimiter run length other than modulo 3", shortFuncName(fn))
		}
	})
	return ok, why
}

// flagBitsUsed returns the union of constant masks ANDed with loads of field `flags` in fn; ok=false if flags is used otherwise.
func flagBitsUsed(fn *ssa.Function, params []*ssa.Parameter) (int64, bool) {
	var mask int64
	ok := true
	eachInstr(fn, func(in ssa.Instruction) {
		v, isv := in.(ssa.Value)
		if !isv {
			return
		}
		for _, p := range params {
			if f, isf := fieldOfLoad(v, spillOf(p), p); isf && f == "flags" {
				for _, r := range refsOf(v) {
					if bo, isb := r.(*ssa.BinOp); isb && bo.Op == token.AND {
						other := bo.Y
						if bo.Y == v {
							other = bo.X
						}
						if k, isc := constInt(other); isc {
							mask |= k
							continue
						}
					}
					if _, isd := r.(*ssa.DebugRef); isd {
						continue
					}
					ok = false
				}
			}
		}
	})
	return mask, ok
}

type delimVal struct{ typ, flags, n int64 }

func ruleEmphKX(c *Ctx) {
	p := c.P
	c.Rule("EMPH-KX", "Exact cache-key soundness: over all delimiter elements (every declared delimiter type × every combination of the flag bits either function tests × run lengths covering all residues modulo 3, after checking that run lengths are only ever used modulo 3), two closers that openersBottomIndex maps to the same slot are treated identically by isEmphasisDelimiterMatch for every opener. Otherwise the lower bound recorded after a failed search for one closer hides an opener that a later closer with the same slot would match. Closers no opener can match are never searched for and are left out.")
	pred := p.Func("isEmphasisDelimiterMatch")
	key := p.Method("delimiterStackElement", "openersBottomIndex")
	if !c.NeedFunc("EMPH-KX", pred, "isEmphasisDelimiterMatch") || !c.NeedFunc("EMPH-KX", key, "(delimiterStackElement).openersBottomIndex") {
		return
	}
	if len(pred.Params) != 2 || len(key.Params) != 1 {
		c.Undecided("EMPH-KX", "signature", pred.Pos(), "expected isEmphasisDelimiterMatch(open, close) and a key method on the element")
		return
	}
	if ok, why := nOnlyMod3(pred, pred.Params); !ok {
		c.Undecided("EMPH-KX", "isEmphasisDelimiterMatch:n", pred.Pos(), why+": the finite enumeration would not be exhaustive")
		return
	}
	if ok, why := nOnlyMod3(key, key.Params); !ok {
		c.Undecided("EMPH-KX", "openersBottomIndex:n", key.Pos(), why+": the finite enumeration would not be exhaustive")
		return
	}
	m1, ok1 := flagBitsUsed(pred, pred.Params)
	m2, ok2 := flagBitsUsed(key, key.Params)
	if !ok1 || !ok2 || (m1|m2) == 0 || (m1|m2) > 0xff {
		c.Undecided("EMPH-KX", "flags", pred.Pos(), "the flags field is used other than through constant bit masks")
		return
	}
	mask := m1 | m2
	var flagVals []int64
	for f := int64(0); f <= mask; f++ {
		if f&^mask == 0 {
			flagVals = append(flagVals, f)
		}
	}
	// delimiter types: declared constants of the typ field's type
	var typVals []int64
	typNames := map[int64]string{}
	if tt := p.CM.Types.Scope().Lookup("inlineDelimiter"); tt != nil {
		for _, k := range ConstsOfType(p.CM.Types, tt.Type()) {
			if v, ok := constInt(ssa.NewConst(k.Val(), k.Type())); ok {
				typVals = append(typVals, v)
				typNames[v] = k.Name()
			}
		}
	}
	if len(typVals) == 0 {
		c.Undecided("EMPH-KX", "types", key.Pos(), "delimiter type constants not found")
		return
	}
	nVals := []int64{1, 2, 3, 4, 5, 6}
	var elems []delimVal
	for _, t := range typVals {
		for _, f := range flagVals {
			for _, n := range nVals {
				elems = append(elems, delimVal{t, f, n})
			}
		}
	}
	eng := newBSET(p)
	evalFn := func(fn *ssa.Function, vals map[*ssa.Parameter]delimVal) outcome {
		spills := map[*ssa.Parameter]*ssa.Alloc{}
		for q := range vals {
			spills[q] = spillOf(q)
		}
		st := &evalState{e: eng, fn: fn, from: make([]int, len(fn.Blocks))}
		for i := range st.from {
			st.from[i] = -2
		}
		st.symVal = func(v ssa.Value) (int64, bool) {
			for q, dv := range vals {
				if f, ok := fieldOfLoad(v, spills[q], q); ok {
					switch f {
					case "typ":
						return dv.typ, true
					case "flags":
						return dv.flags, true
					case "n":
						return dv.n, true
					}
				}
			}
			return 0, false
		}
		return st.walk()
	}
	// key per element
	keys := make([]outcome, len(elems))
	for i, e := range elems {
		keys[i] = evalFn(key, map[*ssa.Parameter]delimVal{key.Params[0]: e})
		if keys[i].kind == oUndecided {
			c.Undecided("EMPH-KX", "openersBottomIndex:eval", key.Pos(), "key function outside the analysable fragment")
			return
		}
	}
	// predicate rows per closer
	rows := make([][]bool, len(elems))
	evals := 0
	for ci, cl := range elems {
		row := make([]bool, len(elems))
		for oi, op := range elems {
			o := evalFn(pred, map[*ssa.Parameter]delimVal{pred.Params[0]: op, pred.Params[1]: cl})
			evals++
			if o.kind != oRet {
				c.Undecided("EMPH-KX", "isEmphasisDelimiterMatch:eval", pred.Pos(), "match predicate outside the analysable fragment")
				return
			}
			row[oi] = o.val != 0
		}
		rows[ci] = row
	}
	// EMPH-P: the match predicate itself against the specification (rules 9 and 10), on the same finite domain
	{
		c.Rule("EMPH-P", "isEmphasisDelimiterMatch equals the specification's matching condition on the whole finite domain (delimiter type x opener/closer bits x run length modulo 3 of both elements): same `*`/`_` character, the first can open, the second can close, and — if either of them can both open and close — the sum of the run lengths is not a multiple of 3 unless both lengths are.")
		star, _ := p.CM.Types.Scope().Lookup("inlineDelimiterStar").(*types.Const)
		under, _ := p.CM.Types.Scope().Lookup("inlineDelimiterUnderscore").(*types.Const)
		opn, _ := p.CM.Types.Scope().Lookup("openerFlag").(*types.Const)
		cls, _ := p.CM.Types.Scope().Lookup("closerFlag").(*types.Const)
		if star == nil || under == nil || opn == nil || cls == nil {
			c.Undecided("EMPH-P", "constants", pred.Pos(), "delimiter type or flag constants not found")
		} else {
			sv, _ := constInt64Of(star)
			uv, _ := constInt64Of(under)
			ob, _ := constInt64Of(opn)
			cb, _ := constInt64Of(cls)
			var dev []string
			for ci, cl := range elems {
				for oi, op := range elems {
					isEmph := (op.typ == sv || op.typ == uv) && op.typ == cl.typ
					want := isEmph && op.flags&ob != 0 && cl.flags&cb != 0
					if want && (op.flags&cb != 0 || cl.flags&ob != 0) && (op.n+cl.n)%3 == 0 && !(op.n%3 == 0 && cl.n%3 == 0) {
						want = false
					}
					if rows[ci][oi] != want && len(dev) < 5 {
						dev = append(dev, fmt.Sprintf("opener {%s flags=%#x n=%d} closer {%s flags=%#x n=%d}: %v, specification %v", typNames[op.typ], op.flags, op.n, typNames[cl.typ], cl.flags, cl.n, rows[ci][oi], want))
					}
				}
			}
			c.Check(len(dev) == 0, "EMPH-P", "isEmphasisDelimiterMatch:table", pred.Pos(), fmt.Sprintf("%d pairs; deviations: %s", len(elems)*len(elems), strings.Join(dev, "; ")))
		}
	}
	c.Analysed["emphkx_elements"] = len(elems)
	c.Analysed["emphkx_predicate_evaluations"] = evals
	desc := func(e delimVal) string {
		return fmt.Sprintf("{%s flags=%#x n=%d}", typNames[e.typ], e.flags, e.n)
	}
	searched := func(ci int) bool {
		for _, b := range rows[ci] {
			if b {
				return true
			}
		}
		return false
	}
	// closers that can match but whose key panics
	groups := map[int64][]int{}
	nSearched := 0
	for ci := range elems {
		if !searched(ci) {
			continue
		}
		nSearched++
		if keys[ci].kind == oPanic {
			c.Viol("EMPH-KX", "openersBottomIndex:panics:"+typNames[elems[ci].typ], key.Pos(), "the key function panics for a closer some opener matches: "+desc(elems[ci]))
			return
		}
		groups[keys[ci].val] = append(groups[keys[ci].val], ci)
	}
	if nSearched == 0 {
		c.Undecided("EMPH-KX", "closers", pred.Pos(), "no element is matched by any opener: predicate not understood")
		return
	}
	var ks []int64
	for k := range groups {
		ks = append(ks, k)
	}
	sort.Slice(ks, func(i, j int) bool { return ks[i] < ks[j] })
	bad := 0
	for _, k := range ks {
		g := groups[k]
		ref := g[0]
		okGroup := true
		for _, ci := range g[1:] {
			for oi := range elems {
				if rows[ci][oi] != rows[ref][oi] {
					okGroup = false
					bad++
					c.Viol("EMPH-KX", fmt.Sprintf("openersBottomIndex:slot[%s]", typNames[elems[ref].typ]), key.Pos(),
						fmt.Sprintf("closers %s and %s share search-bound slot %d but isEmphasisDelimiterMatch treats them differently for opener %s (%v vs %v)",
							desc(elems[ref]), desc(elems[ci]), k, desc(elems[oi]), rows[ref][oi], rows[ci][oi]))
					break
				}
			}
			if !okGroup {
				break
			}
		}
	}
	if bad == 0 {
		c.OK("EMPH-KX", "openersBottomIndex:slots", key.Pos(), fmt.Sprintf("%d searched closers in %d slots; within every slot the match predicate agrees for all %d openers", nSearched, len(ks), len(elems)))
	}
}

// EMPH-FLANK: flanking classification and can-open / can-close, exactly.
func ruleEmphFlank(c *Ctx) {
	c.Rule("EMPH-FLANK", "Flanking classification is the specification's: (classes) the two character classes emphasisFlags consults are exactly CommonMark 0.30's Unicode whitespace and Unicode punctuation sets (exact accept sets over all code points, BSET); (table) over all 2 x 3 x 3 combinations of delimiter character, class of the preceding character and class of the following character (whitespace, punctuation, other — the results of the classifier calls are the symbols), the opener and closer bits emphasisFlags returns equal the specification's left-/right-flanking and can-open / can-close rules (rules 1-8 of section 6.2, including the intraword restriction for `_`).")
	p := c.P
	e := newBSET(p)
	for _, o := range classifierOracles {
		if o.fn == "isUnicodeWhitespace" || o.fn == "isUnicodePunctuation" {
			checkClassifierOracle(c, e, o, "EMPH-FLANK")
		}
	}
	fn := p.Func("emphasisFlags")
	if !c.NeedFunc("EMPH-FLANK", fn, "emphasisFlags") {
		return
	}
	ws, pu := p.Func("isUnicodeWhitespace"), p.Func("isUnicodePunctuation")
	if ws == nil || pu == nil {
		return
	}
	// the two runes classified: arguments of the classifier calls; "previous" is the one decoded with DecodeLastRune
	// (or defaulting before the run), told apart by which decode call feeds them
	var prevV, nextV ssa.Value
	runeSrc := func(v ssa.Value) string {
		seen := map[ssa.Value]bool{}
		res := ""
		var w func(v ssa.Value)
		w = func(v ssa.Value) {
			if v == nil || seen[v] {
				return
			}
			seen[v] = true
			switch x := v.(type) {
			case *ssa.Phi:
				for _, ed := range x.Edges {
					w(ed)
				}
			case *ssa.Extract:
				w(x.Tuple)
			case *ssa.Call:
				if f := x.Call.StaticCallee(); f != nil {
					switch f.Name() {
					case "DecodeLastRune", "DecodeLastRuneInString":
						res = "prev"
					case "DecodeRune", "DecodeRuneInString":
						res = "next"
					}
				}
			}
		}
		w(v)
		return res
	}
	eachInstr(fn, func(in ssa.Instruction) {
		call, ok := in.(*ssa.Call)
		if !ok || (call.Call.StaticCallee() != ws && call.Call.StaticCallee() != pu) || len(call.Call.Args) != 1 {
			return
		}
		switch runeSrc(call.Call.Args[0]) {
		case "prev":
			prevV = call.Call.Args[0]
		case "next":
			nextV = call.Call.Args[0]
		}
	})
	if prevV == nil || nextV == nil {
		c.Undecided("EMPH-FLANK", "emphasisFlags:runes", fn.Pos(), "the preceding and following characters (DecodeLastRune / DecodeRune results) were not identified")
		return
	}
	// the delimiter character test: a load of source[...] compared with '*' (or '_')
	openerBit, closerBit := int64(2), int64(4)
	if k, ok := p.CM.Types.Scope().Lookup("openerFlag").(*types.Const); ok {
		openerBit, _ = constInt64Of(k)
	}
	if k, ok := p.CM.Types.Scope().Lookup("closerFlag").(*types.Const); ok {
		closerBit, _ = constInt64Of(k)
	}
	var bad []string
	n := 0
	classes := []string{"ws", "punct", "other"}
	for _, delim := range []int64{'*', '_'} {
		for _, pc := range classes {
			for _, nc := range classes {
				n++
				symVal := func(v ssa.Value) (int64, bool) {
					if call, ok := v.(*ssa.Call); ok && len(call.Call.Args) == 1 {
						cal := call.Call.StaticCallee()
						if cal == ws || cal == pu {
							cls := ""
							switch call.Call.Args[0] {
							case prevV:
								cls = pc
							case nextV:
								cls = nc
							default:
								return 0, false
							}
							if cal == ws {
								return b2i(cls == "ws"), true
							}
							return b2i(cls == "punct"), true
						}
					}
					// the delimiter byte: any load of a byte of the source slice
					if ld, ok := v.(*ssa.UnOp); ok && ld.Op == token.MUL {
						if ia, ok := ld.X.(*ssa.IndexAddr); ok {
							if _, isParam := ia.X.(*ssa.Parameter); isParam {
								return delim, true
							}
						}
					}
					return 0, false
				}
				// decide every branch that depends only on the symbols; the rune-fetching branches (span at the edge of
				// the source) do not influence the flags once the classes are fixed, so both ways must agree
				results := map[int64]bool{}
				st := &evalState{e: e, fn: fn, symVal: symVal, from: make([]int, len(fn.Blocks))}
				for i := range st.from {
					st.from[i] = -2
				}
				visits := make([]int, len(fn.Blocks))
				undecided := ""
				var dfs func(b *ssa.BasicBlock)
				dfs = func(b *ssa.BasicBlock) {
					if visits[b.Index] >= 1 || undecided != "" {
						return
					}
					visits[b.Index]++
					defer func() { visits[b.Index]-- }()
					switch t := b.Instrs[len(b.Instrs)-1].(type) {
					case *ssa.Return:
						st.why = ""
						v, ok := st.eval(t.Results[0])
						if !ok {
							undecided = st.why
							return
						}
						results[v&(openerBit|closerBit)] = true
					case *ssa.If:
						st.why = ""
						succs := b.Succs
						if v, ok := st.eval(t.Cond); ok {
							if v != 0 {
								succs = b.Succs[:1]
							} else {
								succs = b.Succs[1:]
							}
						}
						for _, s := range succs {
							prev := st.from[s.Index]
							st.from[s.Index] = b.Index
							dfs(s)
							st.from[s.Index] = prev
						}
					case *ssa.Jump:
						s := b.Succs[0]
						prev := st.from[s.Index]
						st.from[s.Index] = b.Index
						dfs(s)
						st.from[s.Index] = prev
					}
				}
				st.from[0] = -1
				dfs(fn.Blocks[0])
				// the specification
				nextWS, nextP := nc == "ws", nc == "punct"
				prevWS, prevP := pc == "ws", pc == "punct"
				left := !nextWS && (!nextP || prevWS || prevP)
				right := !prevWS && (!prevP || nextWS || nextP)
				var canOpen, canClose bool
				if delim == '*' {
					canOpen, canClose = left, right
				} else {
					canOpen = left && (!right || prevP)
					canClose = right && (!left || nextP)
				}
				want := int64(0)
				if canOpen {
					want |= openerBit
				}
				if canClose {
					want |= closerBit
				}
				desc := fmt.Sprintf("%q between %s and %s", rune(delim), pc, nc)
				if undecided != "" {
					bad = append(bad, desc+": not a function of the two classes and the delimiter ("+undecided+")")
					continue
				}
				if len(results) != 1 || !results[want] {
					var got []string
					for r := range results {
						got = append(got, fmt.Sprintf("open=%v close=%v", r&openerBit != 0, r&closerBit != 0))
					}
					sort.Strings(got)
					bad = append(bad, fmt.Sprintf("%s: %s, specification open=%v close=%v", desc, strings.Join(got, " / "), canOpen, canClose))
				}
			}
		}
	}
	c.Check(len(bad) == 0, "EMPH-FLANK", "emphasisFlags:table", fn.Pos(), fmt.Sprintf("%d combinations; deviations: %s", n, strings.Join(bad, "; ")))
}
