package main

// EMPH-KX — exact cache-key soundness by finite enumeration (BSET-style collecting semantics over
// typ × flags × n of both delimiter elements; no compiled code of /repo is executed).

import (
	"fmt"
	"go/token"
	"sort"

	"golang.org/x/tools/go/ssa"
)

// nOnlyMod3 reports whether every use of a load of field `n` of the given struct parameters in fn flows only into
// `% 3` (directly or through one addition of such loads): then enumerating n over a full set of residues is exact.
func nOnlyMod3(fn *ssa.Function, params []*ssa.Parameter) (bool, string) {
	type pr struct {
		sp *ssa.Alloc
		p  *ssa.Parameter
	}
	var ps []pr
	for _, p := range params {
		ps = append(ps, pr{spillOf(p), p})
	}
	isN := func(v ssa.Value) bool {
		for _, q := range ps {
			if f, ok := fieldOfLoad(v, q.sp, q.p); ok && f == "n" {
				return true
			}
		}
		return false
	}
	ok := true
	why := ""
	var okUse func(v ssa.Value, depth int) bool
	okUse = func(v ssa.Value, depth int) bool {
		for _, r := range refsOf(v) {
			switch x := r.(type) {
			case *ssa.BinOp:
				if x.Op == token.REM {
					if k, isc := constInt(x.Y); isc && k == 3 && x.X == v {
						continue
					}
					return false
				}
				if x.Op == token.ADD && depth == 0 {
					if !okUse(x, 1) {
						return false
					}
					continue
				}
				return false
			case *ssa.DebugRef:
				continue
			default:
				return false
			}
		}
		return true
	}
	eachInstr(fn, func(in ssa.Instruction) {
		v, isv := in.(ssa.Value)
		if !isv || !isN(v) {
			return
		}
		if !okUse(v, 0) {
			ok = false
			why = fmt.Sprintf("%s uses a delimiter run length other than modulo 3", shortFuncName(fn))
		}
	})
	return ok, why
}

// flagBitsUsed returns the union of constant masks ANDed with loads of field `flags` in fn; ok=false if flags is used otherwise.
func flagBitsUsed(fn *ssa.Function, params []*ssa.Parameter) (int64, bool) {
	var mask int64
	ok := true
	eachInstr(fn, func(in ssa.Instruction) {
		v, isv := in.(ssa.Value)
		if !isv {
			return
		}
		for _, p := range params {
			if f, isf := fieldOfLoad(v, spillOf(p), p); isf && f == "flags" {
				for _, r := range refsOf(v) {
					if bo, isb := r.(*ssa.BinOp); isb && bo.Op == token.AND {
						other := bo.Y
						if bo.Y == v {
							other = bo.X
						}
						if k, isc := constInt(other); isc {
							mask |= k
							continue
						}
					}
					if _, isd := r.(*ssa.DebugRef); isd {
						continue
					}
					ok = false
				}
			}
		}
	})
	return mask, ok
}

type delimVal struct{ typ, flags, n int64 }

func ruleEmphKX(c *Ctx) {
	p := c.P
	c.Rule("EMPH-KX", "Exact cache-key soundness: over all delimiter elements (every declared delimiter type × every combination of the flag bits either function tests × run lengths covering all residues modulo 3, after checking that run lengths are only ever used modulo 3), two closers that openersBottomIndex maps to the same slot are treated identically by isEmphasisDelimiterMatch for every opener. Otherwise the lower bound recorded after a failed search for one closer hides an opener that a later closer with the same slot would match. Closers no opener can match are never searched for and are left out.")
	pred := p.Func("isEmphasisDelimiterMatch")
	key := p.Method("delimiterStackElement", "openersBottomIndex")
	if !c.NeedFunc("EMPH-KX", pred, "isEmphasisDelimiterMatch") || !c.NeedFunc("EMPH-KX", key, "(delimiterStackElement).openersBottomIndex") {
		return
	}
	if len(pred.Params) != 2 || len(key.Params) != 1 {
		c.Undecided("EMPH-KX", "signature", pred.Pos(), "expected isEmphasisDelimiterMatch(open, close) and a key method on the element")
		return
	}
	if ok, why := nOnlyMod3(pred, pred.Params); !ok {
		c.Undecided("EMPH-KX", "isEmphasisDelimiterMatch:n", pred.Pos(), why+": the finite enumeration would not be exhaustive")
		return
	}
	if ok, why := nOnlyMod3(key, key.Params); !ok {
		c.Undecided("EMPH-KX", "openersBottomIndex:n", key.Pos(), why+": the finite enumeration would not be exhaustive")
		return
	}
	m1, ok1 := flagBitsUsed(pred, pred.Params)
	m2, ok2 := flagBitsUsed(key, key.Params)
	if !ok1 || !ok2 || (m1|m2) == 0 || (m1|m2) > 0xff {
		c.Undecided("EMPH-KX", "flags", pred.Pos(), "the flags field is used other than through constant bit masks")
		return
	}
	mask := m1 | m2
	var flagVals []int64
	for f := int64(0); f <= mask; f++ {
		if f&^mask == 0 {
			flagVals = append(flagVals, f)
		}
	}
	// delimiter types: declared constants of the typ field's type
	var typVals []int64
	typNames := map[int64]string{}
	if tt := p.CM.Types.Scope().Lookup("inlineDelimiter"); tt != nil {
		for _, k := range ConstsOfType(p.CM.Types, tt.Type()) {
			if v, ok := constInt(ssa.NewConst(k.Val(), k.Type())); ok {
				typVals = append(typVals, v)
				typNames[v] = k.Name()
			}
		}
	}
	if len(typVals) == 0 {
		c.Undecided("EMPH-KX", "types", key.Pos(), "delimiter type constants not found")
		return
	}
	nVals := []int64{1, 2, 3, 4, 5, 6}
	var elems []delimVal
	for _, t := range typVals {
		for _, f := range flagVals {
			for _, n := range nVals {
				elems = append(elems, delimVal{t, f, n})
			}
		}
	}
	eng := newBSET(p)
	evalFn := func(fn *ssa.Function, vals map[*ssa.Parameter]delimVal) outcome {
		spills := map[*ssa.Parameter]*ssa.Alloc{}
		for q := range vals {
			spills[q] = spillOf(q)
		}
		st := &evalState{e: eng, fn: fn, from: make([]int, len(fn.Blocks))}
		for i := range st.from {
			st.from[i] = -2
		}
		st.symVal = func(v ssa.Value) (int64, bool) {
			for q, dv := range vals {
				if f, ok := fieldOfLoad(v, spills[q], q); ok {
					switch f {
					case "typ":
						return dv.typ, true
					case "flags":
						return dv.flags, true
					case "n":
						return dv.n, true
					}
				}
			}
			return 0, false
		}
		return st.walk()
	}
	// key per element
	keys := make([]outcome, len(elems))
	for i, e := range elems {
		keys[i] = evalFn(key, map[*ssa.Parameter]delimVal{key.Params[0]: e})
		if keys[i].kind == oUndecided {
			c.Undecided("EMPH-KX", "openersBottomIndex:eval", key.Pos(), "key function outside the analysable fragment")
			return
		}
	}
	// predicate rows per closer
	rows := make([][]bool, len(elems))
	evals := 0
	for ci, cl := range elems {
		row := make([]bool, len(elems))
		for oi, op := range elems {
			o := evalFn(pred, map[*ssa.Parameter]delimVal{pred.Params[0]: op, pred.Params[1]: cl})
			evals++
			if o.kind != oRet {
				c.Undecided("EMPH-KX", "isEmphasisDelimiterMatch:eval", pred.Pos(), "match predicate outside the analysable fragment")
				return
			}
			row[oi] = o.val != 0
		}
		rows[ci] = row
	}
	c.Analysed["emphkx_elements"] = len(elems)
	c.Analysed["emphkx_predicate_evaluations"] = evals
	desc := func(e delimVal) string {
		return fmt.Sprintf("{%s flags=%#x n=%d}", typNames[e.typ], e.flags, e.n)
	}
	searched := func(ci int) bool {
		for _, b := range rows[ci] {
			if b {
				return true
			}
		}
		return false
	}
	// closers that can match but whose key panics
	groups := map[int64][]int{}
	nSearched := 0
	for ci := range elems {
		if !searched(ci) {
			continue
		}
		nSearched++
		if keys[ci].kind == oPanic {
			c.Viol("EMPH-KX", "openersBottomIndex:panics:"+typNames[elems[ci].typ], key.Pos(), "the key function panics for a closer some opener matches: "+desc(elems[ci]))
			return
		}
		groups[keys[ci].val] = append(groups[keys[ci].val], ci)
	}
	if nSearched == 0 {
		c.Undecided("EMPH-KX", "closers", pred.Pos(), "no element is matched by any opener: predicate not understood")
		return
	}
	var ks []int64
	for k := range groups {
		ks = append(ks, k)
	}
	sort.Slice(ks, func(i, j int) bool { return ks[i] < ks[j] })
	bad := 0
	for _, k := range ks {
		g := groups[k]
		ref := g[0]
		okGroup := true
		for _, ci := range g[1:] {
			for oi := range elems {
				if rows[ci][oi] != rows[ref][oi] {
					okGroup = false
					bad++
					c.Viol("EMPH-KX", fmt.Sprintf("openersBottomIndex:slot[%s]", typNames[elems[ref].typ]), key.Pos(),
						fmt.Sprintf("closers %s and %s share search-bound slot %d but isEmphasisDelimiterMatch treats them differently for opener %s (%v vs %v)",
							desc(elems[ref]), desc(elems[ci]), k, desc(elems[oi]), rows[ref][oi], rows[ci][oi]))
					break
				}
			}
			if !okGroup {
				break
			}
		}
	}
	if bad == 0 {
		c.OK("EMPH-KX", "openersBottomIndex:slots", key.Pos(), fmt.Sprintf("%d searched closers in %d slots; within every slot the match predicate agrees for all %d openers", nSearched, len(ks), len(elems)))
	}
}
