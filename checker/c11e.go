package main

// C11 — EMPH-EDGE: the characters next to a delimiter run are fetched exactly when they exist.

import (
	"fmt"
	"go/constant"
	"go/token"
	"go/types"
	"sort"
	"strings"

	"golang.org/x/tools/go/ssa"
)

// spanParamOf returns the parameter of fn whose type is a struct with int fields Start and End, and the field indices.
func spanParamOf(fn *ssa.Function) (*ssa.Parameter, int, int) {
	for _, q := range fn.Params {
		st, ok := q.Type().Underlying().(*types.Struct)
		if !ok {
			continue
		}
		si, ei := -1, -1
		for i := 0; i < st.NumFields(); i++ {
			switch st.Field(i).Name() {
			case "Start":
				si = i
			case "End":
				ei = i
			}
		}
		if si >= 0 && ei >= 0 {
			return q, si, ei
		}
	}
	return nil, -1, -1
}

// structFieldOfParam: is v a read of field idx of the struct parameter q (directly, or through the parameter's spill slot)?
func structFieldOfParam(v ssa.Value, q *ssa.Parameter) (int, bool) {
	switch x := v.(type) {
	case *ssa.Field:
		if x.X == ssa.Value(q) {
			return x.Field, true
		}
		// a copy of the parameter loaded from its spill slot
		if ld, ok := x.X.(*ssa.UnOp); ok && ld.Op == token.MUL {
			if al, ok := ld.X.(*ssa.Alloc); ok && allocHolds(al, q) {
				return x.Field, true
			}
		}
	case *ssa.UnOp:
		if x.Op != token.MUL {
			return 0, false
		}
		if fa, ok := x.X.(*ssa.FieldAddr); ok {
			if al, ok := fa.X.(*ssa.Alloc); ok && allocHolds(al, q) {
				return fa.Field, true
			}
		}
	}
	return 0, false
}

// allocHolds: the only store into the local al is the parameter q.
func allocHolds(al *ssa.Alloc, q *ssa.Parameter) bool {
	n := 0
	okAll := true
	for _, r := range *al.Referrers() {
		switch x := r.(type) {
		case *ssa.Store:
			if x.Addr == ssa.Value(al) {
				n++
				if x.Val != ssa.Value(q) {
					okAll = false
				}
			}
		case *ssa.FieldAddr:
			for _, rr := range *x.Referrers() {
				if s, ok := rr.(*ssa.Store); ok && s.Addr == ssa.Value(x) {
					okAll = false
				}
			}
		}
	}
	return okAll && n == 1
}

func ruleEmphEdge(c *Ctx) {
	c.Rule("EMPH-EDGE", "In emphasisFlags the character before a delimiter run is decoded exactly when the run does not start the text of its line (Start > L, with L the lower bound handed in, 0 if there is none) and from exactly source[L:Start]; the character after it exactly when the run does not end the source (End < len(source)) and from exactly source[End:]; otherwise the stand-in is a character the whitespace classifier accepts (the beginning and end of the line count as whitespace). Decided by enumerating the orderings of Start, End and len(source) over a small domain (the conditions only compare them).")
	p := c.P
	fn := p.Func("emphasisFlags")
	if fn == nil || fn.Blocks == nil {
		return
	}
	span, si, ei := spanParamOf(fn)
	var src *ssa.Parameter
	for _, q := range fn.Params {
		switch t := q.Type().Underlying().(type) {
		case *types.Slice:
			src = q
		case *types.Basic:
			if t.Kind() == types.String {
				src = q
			}
		}
	}
	// an optional lower bound: the position from which the text of the current line starts
	var lb *ssa.Parameter
	for _, q := range fn.Params {
		if bt, ok := q.Type().Underlying().(*types.Basic); ok && bt.Kind() == types.Int {
			lb = q
		}
	}
	var decLast, decNext *ssa.Call
	eachInstr(fn, func(in ssa.Instruction) {
		call, ok := in.(*ssa.Call)
		if !ok {
			return
		}
		f := call.Call.StaticCallee()
		if f == nil || f.Pkg == nil || f.Pkg.Pkg.Path() != "unicode/utf8" {
			return
		}
		switch f.Name() {
		case "DecodeLastRune", "DecodeLastRuneInString":
			decLast = call
		case "DecodeRune", "DecodeRuneInString":
			decNext = call
		}
	})
	if span == nil || src == nil || decLast == nil || decNext == nil {
		// the neighbours are fetched some other way (a helper, an index loop): this rule has nothing it recognises
		c.Assume("EMPH-EDGE: emphasisFlags does not decode its neighbours with utf8.DecodeLastRune / utf8.DecodeRune on a Span parameter directly; the rule recognises nothing in this shape and decides nothing")
		return
	}
	e := newBSET(p)
	type triple struct{ b, s, e, l int64 }
	var dom []triple
	for s := int64(0); s <= 2; s++ {
		for en := s; en <= s+1; en++ {
			for l := en; l <= en+2; l++ {
				if lb == nil {
					dom = append(dom, triple{0, s, en, l})
					continue
				}
				for b := int64(0); b <= s; b++ {
					dom = append(dom, triple{b, s, en, l})
				}
			}
		}
	}
	var bad []string
	for _, d := range dom {
		d := d
		st := &evalState{e: e, fn: fn, from: make([]int, len(fn.Blocks))}
		var lenOf func(v ssa.Value) (int64, bool)
		lenOf = func(v ssa.Value) (int64, bool) {
			switch x := v.(type) {
			case *ssa.Parameter:
				if x == src {
					return d.l, true
				}
			case *ssa.Slice:
				hi, ok := lenOf(x.X)
				if !ok {
					return 0, false
				}
				if x.High != nil {
					if hi, ok = st.eval(x.High); !ok {
						return 0, false
					}
				}
				lo := int64(0)
				if x.Low != nil {
					if lo, ok = st.eval(x.Low); !ok {
						return 0, false
					}
				}
				return hi - lo, true
			case *ssa.Convert:
				return lenOf(x.X)
			}
			return 0, false
		}
		st.symVal = func(v ssa.Value) (int64, bool) {
			if lb != nil && v == ssa.Value(lb) {
				return d.b, true
			}
			if f, ok := structFieldOfParam(v, span); ok {
				if f == si {
					return d.s, true
				}
				if f == ei {
					return d.e, true
				}
			}
			if call, ok := v.(*ssa.Call); ok {
				if cl, ok := isBuiltinCall(call, "len"); ok {
					return lenOf(cl.Call.Args[0])
				}
			}
			return 0, false
		}
		for i := range st.from {
			st.from[i] = -2
		}
		some := map[*ssa.Call]bool{}
		all := map[*ssa.Call]bool{decLast: true, decNext: true}
		argBad := ""
		visits := make([]int, len(fn.Blocks))
		var path []*ssa.BasicBlock
		var dfs func(b *ssa.BasicBlock)
		dfs = func(b *ssa.BasicBlock) {
			if visits[b.Index] >= 1 {
				return
			}
			visits[b.Index]++
			path = append(path, b)
			defer func() { visits[b.Index]--; path = path[:len(path)-1] }()
			for _, in := range b.Instrs {
				call, ok := in.(*ssa.Call)
				if !ok || (call != decLast && call != decNext) {
					continue
				}
				// the bytes handed to the decoder
				arg := call.Call.Args[0]
				for {
					if cv, ok := arg.(*ssa.Convert); ok {
						arg = cv.X
						continue
					}
					break
				}
				sl, ok := arg.(*ssa.Slice)
				if !ok {
					argBad = "the decoder's argument is not a slice of the source"
					continue
				}
				lo, hi := int64(0), d.l
				st.why = ""
				if base, ok := lenOf(sl.X); !ok || base != d.l {
					argBad = "the decoder's argument is not a slice of the whole source"
					continue
				}
				if sl.Low != nil {
					if lo, ok = st.eval(sl.Low); !ok {
						argBad = "slice bound not decided: " + st.why
						continue
					}
				}
				if sl.High != nil {
					if hi, ok = st.eval(sl.High); !ok {
						argBad = "slice bound not decided: " + st.why
						continue
					}
				}
				if call == decLast && (lo != d.b || hi != d.s) {
					argBad = fmt.Sprintf("the preceding character is decoded from source[%d:%d], not from the line's text up to Start (source[%d:%d])", lo, hi, d.b, d.s)
				}
				if call == decNext && (lo != d.e || hi != d.l) {
					argBad = fmt.Sprintf("the following character is decoded from source[%d:%d], not source[End:]", lo, hi)
				}
			}
			switch t := b.Instrs[len(b.Instrs)-1].(type) {
			case *ssa.Return:
				seen := map[*ssa.Call]bool{}
				for _, pb := range path {
					for _, in := range pb.Instrs {
						if call, ok := in.(*ssa.Call); ok && (call == decLast || call == decNext) {
							seen[call] = true
						}
					}
				}
				for _, k := range []*ssa.Call{decLast, decNext} {
					if seen[k] {
						some[k] = true
					} else {
						all[k] = false
					}
				}
			case *ssa.If:
				succs := b.Succs
				st.why = ""
				if v, ok := st.eval(t.Cond); ok {
					if v != 0 {
						succs = b.Succs[:1]
					} else {
						succs = b.Succs[1:]
					}
				}
				for _, s := range succs {
					prev := st.from[s.Index]
					st.from[s.Index] = b.Index
					dfs(s)
					st.from[s.Index] = prev
				}
			case *ssa.Jump:
				s := b.Succs[0]
				prev := st.from[s.Index]
				st.from[s.Index] = b.Index
				dfs(s)
				st.from[s.Index] = prev
			}
		}
		st.from[0] = -1
		dfs(fn.Blocks[0])
		desc := fmt.Sprintf("line start=%d Start=%d End=%d len(source)=%d", d.b, d.s, d.e, d.l)
		if argBad != "" {
			bad = append(bad, desc+": "+argBad)
		}
		for _, k := range []*ssa.Call{decLast, decNext} {
			want := d.s > d.b
			what := "preceding"
			if k == decNext {
				want = d.e < d.l
				what = "following"
			}
			switch {
			case some[k] != all[k]:
				bad = append(bad, fmt.Sprintf("%s: whether the %s character is decoded depends on something other than the three lengths", desc, what))
			case some[k] != want:
				bad = append(bad, fmt.Sprintf("%s: the %s character is decoded=%v, expected %v", desc, what, some[k], want))
			}
		}
	}
	sort.Strings(bad)
	if len(bad) > 4 {
		bad = append(bad[:4], fmt.Sprintf("… %d more", len(bad)-4))
	}
	c.Check(len(bad) == 0, "EMPH-EDGE", "emphasisFlags:neighbours", fn.Pos(), fmt.Sprintf("%d orderings of Start, End, len(source); deviations: %s", len(dom), strings.Join(bad, "; ")))

	// the stand-ins: constants merged with the decoded runes must be whitespace for the classifier
	ws := p.Func("isUnicodeWhitespace")
	if ws == nil {
		return
	}
	tab := e.Table(ws)
	for _, dc := range []*ssa.Call{decLast, decNext} {
		what := map[*ssa.Call]string{decLast: "preceding", decNext: "following"}[dc]
		var consts []int64
		found := false
		seen := map[ssa.Value]bool{}
		var fwd func(v ssa.Value)
		fwd = func(v ssa.Value) {
			if seen[v] {
				return
			}
			seen[v] = true
			for _, r := range *v.Referrers() {
				switch x := r.(type) {
				case *ssa.Extract:
					if x.Index == 0 {
						fwd(x)
					}
				case *ssa.Phi:
					found = true
					for _, ed := range x.Edges {
						if k, ok := ed.(*ssa.Const); ok {
							if k.Value != nil && k.Value.Kind() == constant.Int {
								if iv, ok := constant.Int64Val(k.Value); ok {
									consts = append(consts, iv)
								}
							}
						}
					}
					fwd(x)
				}
			}
		}
		fwd(dc)
		if !found || len(consts) == 0 {
			continue
		}
		okAll := tab.why == ""
		for _, k := range consts {
			o, ok := tab.lookup(k)
			if !ok || o.kind != oRet || o.val == 0 {
				okAll = false
			}
		}
		c.Check(okAll, "EMPH-EDGE", "emphasisFlags:stand-in:"+what, dc.Pos(), fmt.Sprintf("stand-in for a missing %s character %v must be classified as whitespace", what, consts))
	}
}

// EDGE-LINE (C09, C11): the character before a delimiter run is looked for in the text of the run's own line only.
func ruleEdgeLine(c *Ctx) {
	c.Rule("EDGE-LINE", "Inside a container every line of a paragraph carries the container's prefix ('>', indentation) in front of its text, and the inline phase sees the text as a list of line nodes over the root block's source. The character before a delimiter run that is the first thing on its line is the line ending of the line before — white space — not the byte in front of it in the source, which is the last byte of the prefix: '>' directly followed by the run (a quote marker needs no space after it) would count as punctuation and change the run's flanking. Hence, at every call site in the package, the flanking classifier is handed either an explicit lower bound that is the Start of the current line node (state.unparsed[state.unparsedPos]), or the source re-sliced from that Start with both boundaries of the run shifted by it; a classifier that is handed the whole source reads the prefix.")
	p := c.P
	fn := p.Func("emphasisFlags")
	if !c.NeedFunc("EDGE-LINE", fn, "emphasisFlags") {
		return
	}
	lbIdx, srcIdx, spanIdx := -1, -1, -1
	for i, q := range fn.Params {
		switch t := q.Type().Underlying().(type) {
		case *types.Basic:
			if t.Kind() == types.Int {
				lbIdx = i
			}
		case *types.Slice:
			srcIdx = i
		case *types.Struct:
			spanIdx = i
		}
	}
	isLineStart := func(v ssa.Value) bool {
		k := termKey(v, 0)
		return strings.Contains(k, "unparsed") && strings.Contains(k, "unparsedPos") && strings.HasSuffix(k, ".Start")
	}
	n := 0
	for _, caller := range p.Funcs {
		if caller.Pkg != p.CMs {
			continue
		}
		eachInstr(caller, func(in ssa.Instruction) {
			call, ok := in.(*ssa.Call)
			if !ok || call.Call.StaticCallee() != fn {
				return
			}
			n++
			key := fmt.Sprintf("%s:emphasisFlags#%d", shortFuncName(caller), n)
			// form A: an explicit lower bound
			if lbIdx >= 0 && lbIdx < len(call.Call.Args) {
				arg := call.Call.Args[lbIdx]
				c.Check(isLineStart(arg), "EDGE-LINE", key, call.Pos(), "the lower bound handed to the flanking classifier is "+termKey(arg, 0)+", not the Start of the current line node state.unparsed[state.unparsedPos]")
				return
			}
			// form B: the bytes handed over start at the line's text, and the run's span is shifted by the same amount
			if srcIdx < 0 || spanIdx < 0 {
				c.Undecided("EDGE-LINE", key, call.Pos(), "the classifier's parameters are not (bytes, span)")
				return
			}
			sl, ok := call.Call.Args[srcIdx].(*ssa.Slice)
			if !ok || sl.Low == nil || !isLineStart(sl.Low) {
				c.Viol("EDGE-LINE", key, call.Pos(), "the flanking classifier is handed the source from its very beginning (or from a position that is not the Start of the current line node): at the start of a continuation line inside a container it takes the container's prefix for the preceding character ('> *a⏎>*\"b\"*' closes the emphasis opened on the first line)")
				return
			}
			shifted := 0
			why := ""
			if ld, ok := call.Call.Args[spanIdx].(*ssa.UnOp); ok && ld.Op == token.MUL {
				if al, ok := ld.X.(*ssa.Alloc); ok {
					for _, r := range refsOf(al) {
						fa, ok := r.(*ssa.FieldAddr)
						if !ok {
							continue
						}
						for _, rr := range refsOf(fa) {
							st, ok := rr.(*ssa.Store)
							if !ok || st.Addr != ssa.Value(fa) {
								continue
							}
							bo, ok := st.Val.(*ssa.BinOp)
							if ok && bo.Op == token.SUB && (bo.Y == sl.Low || sameTerm(bo.Y, sl.Low)) {
								shifted++
							} else {
								why = "a boundary of the run handed to the classifier is not shifted by the line's start: " + termKey(st.Val, 0)
							}
						}
					}
				}
			}
			c.Check(shifted == 2 && why == "", "EDGE-LINE", key, call.Pos(), fmt.Sprintf("the bytes start at the line's text; %d of the run's two boundaries are expressed relative to it. %s", shifted, why))
		})
	}
	if n == 0 {
		c.Undecided("EDGE-LINE", "instance-count", fn.Pos(), "no call of emphasisFlags found")
	}
}

func init() {
	addControls(
		Control{Name: "flanking-looks-at-whole-root-source", Props: []string{"C09", "C11", "C06"}, File: "inlines.go",
			Old: "\tlineStart := state.unparsed[state.unparsedPos].Span().Start\n\trunInLine := Span{", New: "\tlineStart := 0\n\trunInLine := Span{", Expect: "EDGE-LINE/(*InlineParser).parseDelimiterRun",
			Why: "the defect repaired by /repo 0825c58: '> *a\\n>*\"b\"*' closed the emphasis of the first line"},
		Control{Name: "neg-flanking-line-text-in-a-local", Props: []string{"C09", "C11"}, File: "inlines.go", Negative: true,
			Old: "\telem := delimiterStackElement{\n\t\tflags: activeFlag | emphasisFlags(state.source[lineStart:], runInLine),", New: "\tlineText := state.source[lineStart:]\n\tflags := emphasisFlags(lineText, runInLine)\n\telem := delimiterStackElement{\n\t\tflags: activeFlag | flags,"},
	)
}
