package main

// C02 / C03-adjacent — RESYNC: after a scanner that may run across lines, the parser's line cursor follows the position.

import (
	"fmt"
	"go/token"
	"go/types"

	"golang.org/x/tools/go/ssa"
)

// containsSpan: t is the Span struct or a struct with a Span somewhere inside.
func containsSpan(t types.Type, depth int) bool {
	if depth > 3 {
		return false
	}
	if typeName(t) == "Span" {
		return true
	}
	st, ok := t.Underlying().(*types.Struct)
	if !ok {
		return false
	}
	for i := 0; i < st.NumFields(); i++ {
		if containsSpan(st.Field(i).Type(), depth+1) {
			return true
		}
	}
	return false
}

// resyncInfo: the functions that store inlineState.unparsedPos (directly, in their closures, or transitively through
// static callees), and the predicate "this instruction moves the line cursor" (a store, or a call of such a function
// that is handed the state).
func resyncInfo(p *Program) (map[*ssa.Function]bool, func(ssa.Instruction) bool) {
	// functions that store inlineState.unparsedPos, transitively through callees that receive an *inlineState
	stores := map[*ssa.Function]bool{}
	for _, fn := range p.Funcs {
		for _, f := range withAnons(fn) {
			eachInstr(f, func(in ssa.Instruction) {
				if st, ok := in.(*ssa.Store); ok {
					if _, ok := isFieldAddr(st.Addr, "inlineState", "unparsedPos"); ok {
						stores[fn] = true
					}
				}
			})
		}
	}
	for changed := true; changed; {
		changed = false
		for _, fn := range p.Funcs {
			if stores[fn] || fn.Blocks == nil {
				continue
			}
			eachInstr(fn, func(in ssa.Instruction) {
				if call, ok := in.(*ssa.Call); ok {
					if g := call.Call.StaticCallee(); g != nil && stores[g] && !stores[fn] {
						stores[fn] = true
						changed = true
					}
				}
			})
		}
	}
	isResync := func(in ssa.Instruction) bool {
		switch x := in.(type) {
		case *ssa.Store:
			_, ok := isFieldAddr(x.Addr, "inlineState", "unparsedPos")
			return ok
		case *ssa.Call:
			if g := x.Call.StaticCallee(); g != nil && stores[g] {
				for _, a := range x.Call.Args {
					if typeName(deref(a.Type())) == "inlineState" {
						return true
					}
				}
			}
		}
		return false
	}
	return stores, isResync
}

func ruleResync(c *Ctx) {
	c.Rule("RESYNC", "The inline tokenizer keeps two cursors: a byte position and the index of the line (unparsed node) it lies in. A scanner that is handed a reader over state.unparsed[state.unparsedPos:] and returns spans (parseHTMLTag, parseLinkLabel, …) may stop on a later line. Wherever a function of the tokenizer then moves on to a position that is not simply its own start plus a constant — it returns such a value, or feeds it to the position variable of its scanning loop — every path from the scanner call to that point within the same loop iteration stores state.unparsedPos (directly, or in a callee that is given the state). Otherwise the text between the old line's end and the new position is tokenized a second time: a full reference link whose label continues on the next line leaves `bar]` behind as text, overlapping the link.")
	p := c.P
	stores, isResync := resyncInfo(p)
	_ = stores
	n := 0
	for _, fn := range p.Funcs {
		if fn.Pkg != p.CMs || fn.Blocks == nil {
			continue
		}
		hasState := false
		for _, q := range fn.Params {
			if typeName(deref(q.Type())) == "inlineState" {
				hasState = true
			}
		}
		if !hasState {
			eachInstr(fn, func(in ssa.Instruction) {
				if al, ok := in.(*ssa.Alloc); ok && typeName(deref(al.Type())) == "inlineState" {
					hasState = true
				}
			})
		}
		if !hasState {
			continue
		}
		var start *ssa.Parameter
		for _, q := range fn.Params {
			if bt, ok := q.Type().Underlying().(*types.Basic); ok && bt.Kind() == types.Int {
				start = q
			}
		}
		loops := naturalLoops(fn)
		retInt := fn.Signature.Results().Len() == 1
		if retInt {
			bt, ok := fn.Signature.Results().At(0).Type().Underlying().(*types.Basic)
			retInt = ok && bt.Kind() == types.Int
		}
		site := 0
		eachInstr(fn, func(in ssa.Instruction) {
			call, ok := in.(*ssa.Call)
			if !ok {
				return
			}
			g := call.Call.StaticCallee()
			if g == nil || !p.InModule(g) || g.Signature.Results().Len() != 1 || !containsSpan(g.Signature.Results().At(0).Type(), 0) {
				return
			}
			// a reader over the remaining lines as argument
			overRest := false
			for _, a := range call.Call.Args {
				if typeName(deref(a.Type())) != "inlineByteReader" {
					continue
				}
				if mk, ok := a.(*ssa.Call); ok {
					for _, ra := range mk.Call.Args {
						if sl, ok := ra.(*ssa.Slice); ok && sl.Low != nil {
							if _, ok := isLoadOfField(sl.Low, "inlineState", "unparsedPos"); ok {
								overRest = true
							}
						}
					}
				}
			}
			if !overRest {
				return
			}
			site++
			n++
			key := fmt.Sprintf("%s:%s#%d", shortFuncName(fn), g.Name(), site)
			// innermost loop of the site
			var loop *natLoop
			for i := range loops {
				if loops[i].body[call.Block()] && (loop == nil || len(loops[i].body) < len(loop.body)) {
					loop = &loops[i]
				}
			}
			// reach: blocks (and the position inside the site's block) reachable from the site without a resync and
			// without starting a new iteration
			reachEnd := map[*ssa.BasicBlock]bool{} // terminator of block reached
			reachInstr := map[ssa.Instruction]bool{}
			var walk func(b *ssa.BasicBlock, from int)
			seen := map[*ssa.BasicBlock]bool{}
			walk = func(b *ssa.BasicBlock, from int) {
				for _, x := range b.Instrs[from:] {
					if isResync(x) {
						return
					}
					reachInstr[x] = true
				}
				reachEnd[b] = true
				for _, s := range b.Succs {
					if loop != nil && s == loop.header {
						continue
					}
					if !seen[s] {
						seen[s] = true
						walk(s, 0)
					}
				}
			}
			walk(call.Block(), instrIndex(call)+1)
			var relative func(v ssa.Value, ph *ssa.Phi, d int) bool
			relative = func(v ssa.Value, ph *ssa.Phi, d int) bool {
				if d > 6 {
					return false
				}
				switch x := v.(type) {
				case *ssa.Const:
					return true
				case *ssa.Parameter:
					return start != nil && x == start
				case *ssa.Phi:
					if ph != nil && x == ph {
						return true
					}
					for _, e := range x.Edges {
						if !relative(e, ph, d+1) {
							return false
						}
					}
					return true
				case *ssa.BinOp:
					if x.Op == token.ADD || x.Op == token.SUB {
						return relative(x.X, ph, d+1) && relative(x.Y, ph, d+1)
					}
				}
				return false
			}
			bad := ""
			var pos token.Pos
			if retInt {
				for _, r := range returnsOf(fn) {
					if !reachInstr[r] || len(r.Results) != 1 {
						continue
					}
					if !relative(r.Results[0], nil, 0) {
						bad = "a return of a position that is not start plus a constant is reached without storing state.unparsedPos"
						pos = r.Pos()
					}
				}
			}
			if loop != nil {
				for _, hi := range loop.header.Instrs {
					ph, ok := hi.(*ssa.Phi)
					if !ok {
						break
					}
					if bt, ok := ph.Type().Underlying().(*types.Basic); !ok || bt.Kind() != types.Int {
						continue
					}
					// leaves of the phi tree inside the loop
					var leaves func(x *ssa.Phi, d int)
					visited := map[*ssa.Phi]bool{}
					leaves = func(x *ssa.Phi, d int) {
						if visited[x] || d > 8 {
							return
						}
						visited[x] = true
						for i, e := range x.Edges {
							pr := x.Block().Preds[i]
							if !loop.body[pr] {
								continue
							}
							if inner, ok := e.(*ssa.Phi); ok && inner != ph && loop.body[inner.Block()] {
								leaves(inner, d+1)
								continue
							}
							if reachEnd[pr] && !relative(e, ph, 0) {
								bad = "the loop's position variable " + ph.Comment + " takes a value that is not itself plus a constant without state.unparsedPos having been stored"
								pos = pr.Instrs[len(pr.Instrs)-1].Pos()
								if !pos.IsValid() {
									pos = call.Pos()
								}
							}
						}
					}
					leaves(ph, 0)
				}
			}
			if !pos.IsValid() {
				pos = call.Pos()
			}
			c.Check(bad == "", "RESYNC", key, pos, bad)
		})
	}
	c.Analysed["scanner_sites_over_remaining_lines"] = n
	if n == 0 {
		c.Assume("RESYNC: no scanner call over state.unparsed[state.unparsedPos:] was found; the rule recognises nothing and decides nothing")
	}
}
