package main

// C02 / C03-adjacent — RESYNC: after a scanner that may run across lines, the parser's line cursor follows the position.

import (
	"fmt"
	"sort"
	"go/token"
	"go/types"

	"golang.org/x/tools/go/ssa"
)

// containsSpan: t is the Span struct or a struct with a Span somewhere inside.
func containsSpan(t types.Type, depth int) bool {
	if depth > 3 {
		return false
	}
	if typeName(t) == "Span" {
		return true
	}
	st, ok := t.Underlying().(*types.Struct)
	if !ok {
		return false
	}
	for i := 0; i < st.NumFields(); i++ {
		if containsSpan(st.Field(i).Type(), depth+1) {
			return true
		}
	}
	return false
}

// resyncInfo: the functions that store inlineState.unparsedPos (directly, in their closures, or transitively through
// static callees), and the predicate "this instruction moves the line cursor" (a store, or a call of such a function
// that is handed the state).
func resyncInfo(p *Program) (map[*ssa.Function]bool, func(ssa.Instruction) bool) {
	// functions that store inlineState.unparsedPos, transitively through callees that receive an *inlineState
	stores := map[*ssa.Function]bool{}
	for _, fn := range p.Funcs {
		for _, f := range withAnons(fn) {
			eachInstr(f, func(in ssa.Instruction) {
				if st, ok := in.(*ssa.Store); ok {
					if _, ok := isFieldAddr(st.Addr, "inlineState", "unparsedPos"); ok {
						stores[fn] = true
					}
				}
			})
		}
	}
	for changed := true; changed; {
		changed = false
		for _, fn := range p.Funcs {
			if stores[fn] || fn.Blocks == nil {
				continue
			}
			eachInstr(fn, func(in ssa.Instruction) {
				if call, ok := in.(*ssa.Call); ok {
					if g := call.Call.StaticCallee(); g != nil && stores[g] && !stores[fn] {
						stores[fn] = true
						changed = true
					}
				}
			})
		}
	}
	isResync := func(in ssa.Instruction) bool {
		switch x := in.(type) {
		case *ssa.Store:
			_, ok := isFieldAddr(x.Addr, "inlineState", "unparsedPos")
			return ok
		case *ssa.Call:
			if g := x.Call.StaticCallee(); g != nil && stores[g] {
				for _, a := range x.Call.Args {
					if typeName(deref(a.Type())) == "inlineState" {
						return true
					}
				}
			}
		}
		return false
	}
	return stores, isResync
}

func ruleResync(c *Ctx) {
	c.Rule("RESYNC", "The inline tokenizer keeps two cursors: a byte position and the index of the line (unparsed node) it lies in. A scanner that is handed a reader over state.unparsed[state.unparsedPos:] and returns spans (parseHTMLTag, parseLinkLabel, …) may stop on a later line. Wherever a function of the tokenizer then moves on to a position that is not simply its own start plus a constant — it returns such a value, or feeds it to the position variable of its scanning loop — every path from the scanner call to that point within the same loop iteration stores state.unparsedPos (directly, or in a callee that is given the state). Otherwise the text between the old line's end and the new position is tokenized a second time: a full reference link whose label continues on the next line leaves `bar]` behind as text, overlapping the link.")
	p := c.P
	stores, isResync := resyncInfo(p)
	_ = stores
	n := 0
	for _, fn := range p.Funcs {
		if fn.Pkg != p.CMs || fn.Blocks == nil {
			continue
		}
		hasState := false
		for _, q := range fn.Params {
			if typeName(deref(q.Type())) == "inlineState" {
				hasState = true
			}
		}
		if !hasState {
			eachInstr(fn, func(in ssa.Instruction) {
				if al, ok := in.(*ssa.Alloc); ok && typeName(deref(al.Type())) == "inlineState" {
					hasState = true
				}
			})
		}
		if !hasState {
			continue
		}
		var start *ssa.Parameter
		for _, q := range fn.Params {
			if bt, ok := q.Type().Underlying().(*types.Basic); ok && bt.Kind() == types.Int {
				start = q
			}
		}
		loops := naturalLoops(fn)
		retInt := fn.Signature.Results().Len() == 1
		if retInt {
			bt, ok := fn.Signature.Results().At(0).Type().Underlying().(*types.Basic)
			retInt = ok && bt.Kind() == types.Int
		}
		site := 0
		eachInstr(fn, func(in ssa.Instruction) {
			call, ok := in.(*ssa.Call)
			if !ok {
				return
			}
			g := call.Call.StaticCallee()
			if g == nil || !p.InModule(g) || g.Signature.Results().Len() != 1 || !containsSpan(g.Signature.Results().At(0).Type(), 0) {
				return
			}
			// a reader over the remaining lines as argument
			overRest := false
			for _, a := range call.Call.Args {
				if typeName(deref(a.Type())) != "inlineByteReader" {
					continue
				}
				if mk, ok := a.(*ssa.Call); ok {
					for _, ra := range mk.Call.Args {
						if sl, ok := ra.(*ssa.Slice); ok && sl.Low != nil {
							if _, ok := isLoadOfField(sl.Low, "inlineState", "unparsedPos"); ok {
								overRest = true
							}
						}
					}
				}
			}
			if !overRest {
				return
			}
			site++
			n++
			key := fmt.Sprintf("%s:%s#%d", shortFuncName(fn), g.Name(), site)
			// innermost loop of the site
			var loop *natLoop
			for i := range loops {
				if loops[i].body[call.Block()] && (loop == nil || len(loops[i].body) < len(loop.body)) {
					loop = &loops[i]
				}
			}
			// reach: blocks (and the position inside the site's block) reachable from the site without a resync and
			// without starting a new iteration
			reachEnd := map[*ssa.BasicBlock]bool{} // terminator of block reached
			reachInstr := map[ssa.Instruction]bool{}
			var walk func(b *ssa.BasicBlock, from int)
			seen := map[*ssa.BasicBlock]bool{}
			walk = func(b *ssa.BasicBlock, from int) {
				for _, x := range b.Instrs[from:] {
					if isResync(x) {
						return
					}
					reachInstr[x] = true
				}
				reachEnd[b] = true
				for _, s := range b.Succs {
					if loop != nil && s == loop.header {
						continue
					}
					if !seen[s] {
						seen[s] = true
						walk(s, 0)
					}
				}
			}
			walk(call.Block(), instrIndex(call)+1)
			var relative func(v ssa.Value, ph *ssa.Phi, d int) bool
			relative = func(v ssa.Value, ph *ssa.Phi, d int) bool {
				if d > 6 {
					return false
				}
				switch x := v.(type) {
				case *ssa.Const:
					return true
				case *ssa.Parameter:
					return start != nil && x == start
				case *ssa.Phi:
					if ph != nil && x == ph {
						return true
					}
					for _, e := range x.Edges {
						if !relative(e, ph, d+1) {
							return false
						}
					}
					return true
				case *ssa.BinOp:
					if x.Op == token.ADD || x.Op == token.SUB {
						return relative(x.X, ph, d+1) && relative(x.Y, ph, d+1)
					}
				}
				return false
			}
			bad := ""
			var pos token.Pos
			if retInt {
				for _, r := range returnsOf(fn) {
					if !reachInstr[r] || len(r.Results) != 1 {
						continue
					}
					if !relative(r.Results[0], nil, 0) {
						bad = "a return of a position that is not start plus a constant is reached without storing state.unparsedPos"
						pos = r.Pos()
					}
				}
			}
			if loop != nil {
				for _, hi := range loop.header.Instrs {
					ph, ok := hi.(*ssa.Phi)
					if !ok {
						break
					}
					if bt, ok := ph.Type().Underlying().(*types.Basic); !ok || bt.Kind() != types.Int {
						continue
					}
					// leaves of the phi tree inside the loop
					var leaves func(x *ssa.Phi, d int)
					visited := map[*ssa.Phi]bool{}
					leaves = func(x *ssa.Phi, d int) {
						if visited[x] || d > 8 {
							return
						}
						visited[x] = true
						for i, e := range x.Edges {
							pr := x.Block().Preds[i]
							if !loop.body[pr] {
								continue
							}
							if inner, ok := e.(*ssa.Phi); ok && inner != ph && loop.body[inner.Block()] {
								leaves(inner, d+1)
								continue
							}
							if reachEnd[pr] && !relative(e, ph, 0) {
								bad = "the loop's position variable " + ph.Comment + " takes a value that is not itself plus a constant without state.unparsedPos having been stored"
								pos = pr.Instrs[len(pr.Instrs)-1].Pos()
								if !pos.IsValid() {
									pos = call.Pos()
								}
							}
						}
					}
					leaves(ph, 0)
				}
			}
			if !pos.IsValid() {
				pos = call.Pos()
			}
			c.Check(bad == "", "RESYNC", key, pos, bad)
		})
	}
	c.Analysed["scanner_sites_over_remaining_lines"] = n
	if n == 0 {
		c.Assume("RESYNC: no scanner call over state.unparsed[state.unparsedPos:] was found; the rule recognises nothing and decides nothing")
	}
}

// ---------------------------------------------------------------------------------------------
// RESYNC-NOTFOUND: a line-cursor update that looks the position up must handle "past the last line".

func ruleResyncNotFound(c *Ctx) {
	c.Rule("RESYNC-NOTFOUND", "Where the line cursor state.unparsedPos is advanced by the index a position lookup over the remaining lines returned (nodeIndexForPosition over state.unparsed[state.unparsedPos:], negative when no line holds the position), every path on which the lookup's result is negative stores the number of lines (len(state.unparsed)) into the cursor before the function returns. A construct that ends with the very last byte of its paragraph — a multi-line HTML tag whose '>' is the last byte of the input — ends past every line; if the cursor stays where it was, the construct's continuation lines are tokenized a second time and their bytes are covered by two leaves.")
	p := c.P
	n := 0
	for _, fn := range p.Funcs {
		if fn.Pkg != p.CMs || fn.Blocks == nil {
			continue
		}
		eachInstr(fn, func(in ssa.Instruction) {
			call, ok := in.(*ssa.Call)
			if !ok {
				return
			}
			g := call.Call.StaticCallee()
			if g == nil || !p.InModule(g) || len(call.Call.Args) != 2 {
				return
			}
			sl, ok := restWindow(call.Call.Args[0])
			if !ok {
				return
			}
			_ = sl
			if bt, ok := g.Signature.Results().At(0).Type().Underlying().(*types.Basic); !ok || bt.Kind() != types.Int || g.Signature.Results().Len() != 1 {
				return
			}
			// is the result added to the cursor?
			feeds := false
			for _, r := range refsOf(call) {
				if bo, ok := r.(*ssa.BinOp); ok && bo.Op == token.ADD {
					for _, rr := range refsOf(bo) {
						if st, ok := rr.(*ssa.Store); ok {
							if _, ok := isFieldAddr(st.Addr, "inlineState", "unparsedPos"); ok {
								feeds = true
							}
						}
					}
				}
			}
			if !feeds {
				return
			}
			n++
			key := fmt.Sprintf("%s:%s#%d", shortFuncName(fn), g.Name(), n)
			// find the sign test of the result; on its negative edge every path must store len(unparsed) into the cursor
			isEndStore := func(x ssa.Instruction) bool {
				st, ok := x.(*ssa.Store)
				if !ok {
					return false
				}
				if _, ok := isFieldAddr(st.Addr, "inlineState", "unparsedPos"); !ok {
					return false
				}
				if lc, ok := isBuiltinCall(st.Val, "len"); ok {
					_, ok := isLoadOfField(lc.Call.Args[0], "inlineState", "unparsed")
					return ok
				}
				return false
			}
			var negStart *ssa.BasicBlock
			for _, b := range fn.Blocks {
				iff := blockIf(b)
				if iff == nil {
					continue
				}
				bo, ok := iff.Cond.(*ssa.BinOp)
				if !ok || bo.X != ssa.Value(call) {
					continue
				}
				k, ok := constInt(bo.Y)
				if !ok {
					continue
				}
				switch {
				case bo.Op == token.GEQ && k == 0, bo.Op == token.GTR && k == -1:
					negStart = b.Succs[1]
				case bo.Op == token.LSS && k == 0, bo.Op == token.LEQ && k == -1:
					negStart = b.Succs[0]
				}
			}
			if negStart == nil {
				c.Viol("RESYNC-NOTFOUND", key, call.Pos(), "the lookup's result is added to the line cursor without a test that separates 'not found' (negative) from a found index")
				return
			}
			// every path from negStart to a return passes an end store
			seen := map[*ssa.BasicBlock]bool{}
			bad := false
			var run func(b *ssa.BasicBlock)
			run = func(b *ssa.BasicBlock) {
				if seen[b] || bad {
					return
				}
				seen[b] = true
				for _, x := range b.Instrs {
					if isEndStore(x) {
						return
					}
					if _, ok := x.(*ssa.Return); ok {
						bad = true
						return
					}
				}
				if len(b.Succs) == 0 {
					return
				}
				for _, s := range b.Succs {
					run(s)
				}
			}
			run(negStart)
			c.Check(!bad, "RESYNC-NOTFOUND", key, call.Pos(), "when no remaining line holds the position the line cursor is left where it was: the function can return without moving it past the last line")
		})
	}
	c.Analysed["cursor_lookups"] = n
	if n < 1 {
		c.Undecided("RESYNC-NOTFOUND", "instance-count", token.NoPos, "no line-cursor lookup found (3 on the reference tree: raw HTML tag, full reference label, inline link; one is enough when they share a helper)")
	}
}

func init() {
	addControls(
		Control{Name: "html-tag-resync-without-not-found-arm", Props: []string{"C02", "C03"}, File: "inlines.go",
			Old: "\t\t\t\t\tif i := nodeIndexForPosition(state.unparsed[state.unparsedPos:], pos); i >= 0 {\n\t\t\t\t\t\tstate.unparsedPos += i\n\t\t\t\t\t} else {\n\t\t\t\t\t\tstate.unparsedPos = len(state.unparsed)\n\t\t\t\t\t}",
			New: "\t\t\t\t\tif i := nodeIndexForPosition(state.unparsed[state.unparsedPos:], pos); i > 0 {\n\t\t\t\t\t\tstate.unparsedPos += i\n\t\t\t\t\t}", Expect: "RESYNC-NOTFOUND/(*InlineParser).parse"},
	)
}

// ---------------------------------------------------------------------------------------------
// TEXT-RESUME: a scanner that adds a node [P+a, P+b) and returns P+k resumes exactly at the node's end.

func ruleTextResume(c *Ctx) {
	c.Rule("TEXT-RESUME", "In the functions of the inline tokenizer that are handed the state and a position P and return the position to go on from: where the value returned is P plus a constant k and the node last added to the tree in the same straight-line piece of code is a fresh node whose span was given as [P+a, P+b) with constants a, b, then k = b. The caller continues tokenizing at the returned position and takes it as the start of the next plain-text run; returning less than the end of the node just added tokenizes its bytes again (two leaves cover them, siblings overlap), returning more drops bytes.")
	p := c.P
	addToRoot := p.Method("inlineState", "addToRoot")
	if !c.NeedFunc("TEXT-RESUME", addToRoot, "(*inlineState).addToRoot") {
		return
	}
	n := 0
	for _, fn := range p.Funcs {
		if fn.Pkg != p.CMs || fn.Blocks == nil || fn.Signature.Results().Len() != 1 {
			continue
		}
		if bt, ok := fn.Signature.Results().At(0).Type().Underlying().(*types.Basic); !ok || bt.Kind() != types.Int {
			continue
		}
		hasState := false
		var posParams []*ssa.Parameter
		for _, q := range fn.Params {
			if typeName(deref(q.Type())) == "inlineState" {
				hasState = true
			}
			if bt, ok := q.Type().Underlying().(*types.Basic); ok && bt.Kind() == types.Int {
				posParams = append(posParams, q)
			}
		}
		if !hasState || len(posParams) == 0 {
			continue
		}
		isPos := func(v ssa.Value) bool {
			for _, q := range posParams {
				if v == ssa.Value(q) {
					return true
				}
			}
			return false
		}
		site := 0
		for _, r := range returnsOf(fn) {
			base, k := linTerm(r.Results[0])
			if !isPos(base) {
				continue
			}
			// last addToRoot call in the return's block
			var last *ssa.Call
			for _, x := range r.Block().Instrs {
				if x == ssa.Instruction(r) {
					break
				}
				if call, ok := x.(*ssa.Call); ok && call.Call.StaticCallee() == addToRoot {
					last = call
				}
			}
			if last == nil || len(last.Call.Args) != 2 {
				continue
			}
			al, ok := last.Call.Args[1].(*ssa.Alloc)
			if !ok {
				continue
			}
			// span stores of the fresh node
			var endV ssa.Value
			nEnd := 0
			for _, ref := range refsOf(al) {
				fa, ok := ref.(*ssa.FieldAddr)
				if !ok {
					continue
				}
				if tn, f, _ := fieldAddrInfo(fa); tn != "Inline" || f != "span" {
					continue
				}
				for _, r2 := range refsOf(fa) {
					fa2, ok := r2.(*ssa.FieldAddr)
					if !ok {
						continue
					}
					if _, f2, _ := fieldAddrInfo(fa2); f2 != "End" {
						continue
					}
					for _, r3 := range refsOf(fa2) {
						if st, ok := r3.(*ssa.Store); ok && st.Addr == ssa.Value(fa2) {
							endV = st.Val
							nEnd++
						}
					}
				}
			}
			if nEnd != 1 {
				continue
			}
			eb, b := linTerm(endV)
			if eb != base {
				continue
			}
			n++
			site++
			c.Check(k == b, "TEXT-RESUME", fmt.Sprintf("%s:return#%d", shortFuncName(fn), site), r.Pos(), fmt.Sprintf("the node just added ends at the position parameter + %d, the function returns the position parameter + %d", b, k))
		}
	}
	c.Analysed["resume_after_fresh_node_sites"] = n
	if n < 5 {
		c.Undecided("TEXT-RESUME", "instance-count", token.NoPos, fmt.Sprintf("%d sites found where a function adds a node at constant offsets from its position parameter and returns such an offset; 5 confirmed by hand in parseEndBracket and parseBackslash", n))
	}
}

func init() {
	addControls(
		Control{Name: "unmatched-collapsed-reference-resumes-after-first-bracket", Props: []string{"C02", "C03"}, File: "inlines.go",
			Old: "\t\t\tstate.stack = deleteDelimiterStack(state.stack, openDelimIndex, openDelimIndex+1)\n\t\t\treturn start + 3\n", New: "\t\t\tstate.stack = deleteDelimiterStack(state.stack, openDelimIndex, openDelimIndex+1)\n\t\t\treturn start + 1\n", Expect: "TEXT-RESUME/(*InlineParser).parseEndBracket",
			Why: "'[text][]' without a definition: '][]' is added as text and then '[' and ']' are tokenized again"},
	)
}

// ---------------------------------------------------------------------------------------------
// HOOK-END: a close hook does not move the end of the block it is handed.

func ruleHookEnd(c *Ctx) {
	c.Rule("HOOK-END", "A block's End is set where it is closed (the start of the line that ends it, or the cursor); makeRoot cuts the buffer at the End of the first closed top-level block. The onClose hooks of blockRules may drop or re-label children and split definitions off the front, but none of them — nor a helper they hand the block to — stores the End of the span of the block they are handed: an indented code block whose End is pulled back to its last non-blank line leaves its trailing blank lines in the buffer, and the next root block's Source then begins with them (its span is no longer preceded only by spaces and tabs, and its StartLine/StartOffset point at a blank line).")
	p := c.P
	n := 0
	for k, e := range blockRulesTable(p) {
		if e.onClose == nil {
			continue
		}
		n++
		hook := e.onClose
		var blk *ssa.Parameter
		for _, q := range hook.Params {
			if typeName(deref(q.Type())) == "Block" {
				blk = q
			}
		}
		key := fmt.Sprintf("blockRules[%s].onClose", blockKindName(p, k))
		if blk == nil {
			c.Undecided("HOOK-END", key, hook.Pos(), "the hook has no block parameter")
			continue
		}
		bad := ""
		var scan func(fn *ssa.Function, b ssa.Value, depth int)
		seenFn := map[*ssa.Function]bool{}
		scan = func(fn *ssa.Function, b ssa.Value, depth int) {
			if seenFn[fn] || depth > 2 {
				return
			}
			seenFn[fn] = true
			for _, g := range withAnons(fn) {
				eachInstr(g, func(in ssa.Instruction) {
					switch x := in.(type) {
					case *ssa.Store:
						fa, ok := x.Addr.(*ssa.FieldAddr)
						if !ok {
							return
						}
						if tn, f, _ := fieldAddrInfo(fa); tn != "Span" || f != "End" {
							return
						}
						inner, ok := fa.X.(*ssa.FieldAddr)
						if !ok {
							return
						}
						if tn, f, _ := fieldAddrInfo(inner); tn != "Block" || f != "span" {
							return
						}
						if q, ok := spilledParam(inner.X); ok && ssa.Value(q) == b {
							bad = "the End of the handed block's span is stored at " + p.Pos(x.Pos())
						}
					case *ssa.Call:
						if cal := x.Call.StaticCallee(); cal != nil && p.InModule(cal) && cal.Blocks != nil {
							for i, a := range x.Call.Args {
								if q, ok := spilledParam(a); ok && ssa.Value(q) == b && i < len(cal.Params) {
									scan(cal, cal.Params[i], depth+1)
								}
							}
						}
					}
				})
			}
		}
		scan(hook, blk, 0)
		c.Check(bad == "", "HOOK-END", key, hook.Pos(), bad)
	}
	if n < 2 {
		c.Undecided("HOOK-END", "instance-count", token.NoPos, fmt.Sprintf("%d onClose hooks found in blockRules; at least 2 confirmed by hand", n))
	}
}

func init() {
	addControls(
		Control{Name: "indented-code-end-pulled-back-to-last-line", Props: []string{"C02", "C01"}, File: "blocks.go",
			Old: "\t\t\t\tblock.inlineChildren = block.inlineChildren[:i:i]\n", New: "\t\t\t\tblock.inlineChildren = block.inlineChildren[:i:i]\n\t\t\t\tblock.span.End = child.Span().Start\n", Expect: "HOOK-END/blockRules[IndentedCodeBlockKind]"},
	)
}

// ---------------------------------------------------------------------------------------------
// SPAN-ORDER: a span written as (X+a, X+b) has a <= b.

func ruleSpanOrder(c *Ctx) {
	c.Rule("SPAN-ORDER", "Every span is a valid range (Start <= End). Where package commonmark builds a Span whose Start and End are the same term plus constants — {Start: pos, End: pos+1}, {Start: p.lineStart+p.i, End: p.lineStart+p.i+1}, {Start: start+1, End: end-1} is not of this form — the constant of End is not smaller than the constant of Start. A sign slip (pos-1 for pos+1) gives a node whose span is not a range; nothing that renders from children notices it.")
	p := c.P
	n := 0
	for _, fn := range p.Funcs {
		if fn.Pkg != p.CMs || fn.Blocks == nil {
			continue
		}
		// group stores by the Span address base
		type pair struct {
			start, end ssa.Value
			pos        token.Pos
		}
		spans := map[ssa.Value]*pair{}
		eachInstr(fn, func(in ssa.Instruction) {
			st, ok := in.(*ssa.Store)
			if !ok {
				return
			}
			fa, ok := st.Addr.(*ssa.FieldAddr)
			if !ok {
				return
			}
			tn, f, _ := fieldAddrInfo(fa)
			if tn != "Span" || (f != "Start" && f != "End") {
				return
			}
			pr := spans[fa.X]
			if pr == nil {
				pr = &pair{}
				spans[fa.X] = pr
			}
			if f == "Start" {
				pr.start = st.Val
			} else {
				pr.end, pr.pos = st.Val, st.Pos()
			}
		})
		site := 0
		var ordered []*pair
		for _, pr := range spans {
			ordered = append(ordered, pr)
		}
		sort.Slice(ordered, func(i, j int) bool { return ordered[i].pos < ordered[j].pos })
		for _, pr := range ordered {
			if pr.start == nil || pr.end == nil {
				continue
			}
			sb, sk := linTerm(pr.start)
			eb, ek := linTerm(pr.end)
			if _, isC := sb.(*ssa.Const); isC {
				continue
			}
			if !(sb == eb || sameTerm(sb, eb)) {
				continue
			}
			n++
			site++
			if ek < sk {
				c.Viol("SPAN-ORDER", fmt.Sprintf("%s:span#%d", shortFuncName(fn), site), pr.pos, fmt.Sprintf("Start is the term %+d, End the same term %+d: End < Start", sk, ek))
			}
		}
	}
	c.Analysed["spans_written_as_term_plus_constants"] = n
	c.Check(n >= 10, "SPAN-ORDER", "instances", token.NoPos, fmt.Sprintf("%d spans of the form (X+a, X+b) inspected (at least 10 on the reference tree)", n))
}

func init() {
	addControls(
		Control{Name: "open-bracket-text-span-end-before-start", Props: []string{"C02"}, File: "inlines.go",
			Old: "\t\t\t\t\tnode := &Inline{\n\t\t\t\t\t\tkind: TextKind,\n\t\t\t\t\t\tspan: Span{\n\t\t\t\t\t\t\tStart: pos,\n\t\t\t\t\t\t\tEnd:   pos + 1,\n\t\t\t\t\t\t},\n\t\t\t\t\t}\n\t\t\t\t\tstate.addToRoot(node)\n\t\t\t\t\tstate.stack = append(state.stack, delimiterStackElement{\n\t\t\t\t\t\ttyp:   inlineDelimiterLink,",
			New: "\t\t\t\t\tnode := &Inline{\n\t\t\t\t\t\tkind: TextKind,\n\t\t\t\t\t\tspan: Span{\n\t\t\t\t\t\t\tStart: pos,\n\t\t\t\t\t\t\tEnd:   pos - 1,\n\t\t\t\t\t\t},\n\t\t\t\t\t}\n\t\t\t\t\tstate.addToRoot(node)\n\t\t\t\t\tstate.stack = append(state.stack, delimiterStackElement{\n\t\t\t\t\t\ttyp:   inlineDelimiterLink,", Expect: "SPAN-ORDER/(*InlineParser).parse:span"},
	)
}
