package main

// bset.go — BSET: exact outcome tables of loop-free scalar predicates/maps, obtained by propagating
// every element of the parameter's finite domain through the function's SSA control-flow DAG
// (collecting semantics over a finite powerset lattice; no compiled code of /repo is executed).

import (
	"fmt"
	"go/constant"
	"go/token"
	"go/types"
	"sort"
	"strings"
	"unicode"

	"golang.org/x/tools/go/ssa"
)

type outcomeKind uint8

const (
	oRet outcomeKind = iota
	oPanic
	oUndecided
)

type outcome struct {
	kind outcomeKind
	val  int64 // bools as 0/1
}

type bsetTable struct {
	fn     *ssa.Function
	domain []int64
	res    []outcome // parallel to domain
	why    string    // reason if not analysable
	index  map[int64]int
}

func (t *bsetTable) lookup(v int64) (outcome, bool) {
	if t.index == nil {
		// dense domains start at 0 and are contiguous
		if len(t.domain) > 0 && t.domain[0] == 0 && t.domain[len(t.domain)-1] == int64(len(t.domain)-1) {
			if v >= 0 && v < int64(len(t.domain)) {
				return t.res[v], true
			}
			return outcome{}, false
		}
		t.index = map[int64]int{}
		for i, d := range t.domain {
			t.index[d] = i
		}
	}
	i, ok := t.index[v]
	if !ok {
		return outcome{}, false
	}
	return t.res[i], true
}

type bsetEngine struct {
	lenient bool // ignore side effects and result arity: only panic / no-panic reachability is of interest
	p       *Program
	cache   map[*ssa.Function]*bsetTable
	// symbol: optionally treat the result of this call instruction as the scalar variable
	symbolCall func(c *ssa.Call) bool
}

func newBSET(p *Program) *bsetEngine {
	return &bsetEngine{p: p, cache: map[*ssa.Function]*bsetTable{}}
}

func byteDomain() []int64 {
	d := make([]int64, 256)
	for i := range d {
		d[i] = int64(i)
	}
	return d
}
func runeDomain() []int64 {
	d := make([]int64, unicode.MaxRune+1)
	for i := range d {
		d[i] = int64(i)
	}
	return d
}

// domainFor derives the domain from the parameter type: byte, rune, or a module enum type (declared constants plus 0).
func (e *bsetEngine) domainFor(t types.Type) ([]int64, string) {
	if b, ok := t.(*types.Basic); ok || types.Unalias(t) != t {
		if !ok {
			b, ok = types.Unalias(t).(*types.Basic)
		}
		if ok {
			switch b.Kind() {
			case types.Uint8:
				return byteDomain(), "byte"
			case types.Int32:
				return runeDomain(), "rune"
			}
		}
	}
	if n, ok := types.Unalias(t).(*types.Named); ok {
		if bb, ok := n.Underlying().(*types.Basic); ok && bb.Info()&types.IsInteger != 0 && n.Obj().Pkg() != nil {
			cs := ConstsOfType(n.Obj().Pkg(), n)
			if len(cs) > 0 {
				seen := map[int64]bool{0: true}
				d := []int64{0}
				for _, c := range cs {
					if v, ok := constant.Int64Val(c.Val()); ok && !seen[v] {
						seen[v] = true
						d = append(d, v)
					}
				}
				sort.Slice(d, func(i, j int) bool { return d[i] < d[j] })
				return d, "enum " + n.Obj().Name()
			}
		}
	}
	return nil, ""
}

// Table analyses fn (one scalar parameter, or zero parameters plus a symbol call) over its whole domain.
func (e *bsetEngine) Table(fn *ssa.Function) *bsetTable {
	if t, ok := e.cache[fn]; ok {
		return t
	}
	t := &bsetTable{fn: fn}
	e.cache[fn] = t
	if fn == nil || fn.Blocks == nil {
		t.why = "no body"
		return t
	}
	var param *ssa.Parameter
	for _, p := range fn.Params {
		if d, _ := e.domainFor(p.Type()); d != nil {
			if param != nil {
				t.why = "more than one scalar parameter"
				return t
			}
			param = p
		}
	}
	if param == nil {
		t.why = "no scalar parameter with a finite domain"
		return t
	}
	dom, _ := e.domainFor(param.Type())
	e.run(t, fn, dom, func(v ssa.Value) bool { return v == param })
	return t
}

// TableParam analyses fn as a function of one chosen scalar parameter (other parameters are opaque).
func (e *bsetEngine) TableParam(fn *ssa.Function, param *ssa.Parameter) *bsetTable {
	t := &bsetTable{fn: fn}
	if fn == nil || fn.Blocks == nil || param == nil {
		t.why = "no body"
		return t
	}
	dom, _ := e.domainFor(param.Type())
	if dom == nil {
		t.why = "parameter has no finite domain"
		return t
	}
	e.run(t, fn, dom, func(v ssa.Value) bool { return v == ssa.Value(param) })
	return t
}

// TableSym analyses fn treating the (single) value selected by isSym as the scalar variable ranging over dom.
func (e *bsetEngine) TableSym(fn *ssa.Function, dom []int64, isSym func(v ssa.Value) bool) *bsetTable {
	t := &bsetTable{fn: fn}
	if fn == nil || fn.Blocks == nil {
		t.why = "no body"
		return t
	}
	e.run(t, fn, dom, isSym)
	return t
}

type evalState struct {
	noLoopPhi bool                            // loop-header phis are unknown (their value differs between iterations)
	symVal    func(v ssa.Value) (int64, bool) // optional: additional symbols with fixed values
	depth     int
	e         *bsetEngine
	fn        *ssa.Function
	d         int64
	isSym     func(v ssa.Value) bool
	from      []int // predecessor block index by which each block was entered (-1 = not visited)
	why       string
}

func (e *bsetEngine) run(t *bsetTable, fn *ssa.Function, dom []int64, isSym func(v ssa.Value) bool) {
	t.domain = dom
	t.res = make([]outcome, len(dom))
	st := &evalState{e: e, fn: fn, isSym: isSym, from: make([]int, len(fn.Blocks))}
	for i, d := range dom {
		st.d = d
		for j := range st.from {
			st.from[j] = -2
		}
		t.res[i] = st.walk()
		if t.res[i].kind == oUndecided {
			t.why = st.why
			// one undecided element makes the whole table undecided; stop early
			for k := i + 1; k < len(dom); k++ {
				t.res[k] = outcome{kind: oUndecided}
			}
			return
		}
	}
}

func (st *evalState) fail(format string, a ...interface{}) (int64, bool) {
	if st.why == "" {
		st.why = fmt.Sprintf(format, a...)
	}
	return 0, false
}

func (st *evalState) walk() outcome {
	b := st.fn.Blocks[0]
	st.from[0] = -1
	for steps := 0; steps <= len(st.fn.Blocks); steps++ {
		// side effects other than pure value computation are not allowed
		for _, in := range b.Instrs {
			switch x := in.(type) {
			case *ssa.Store:
				if !st.e.lenient && !addrIsLocalAlloc(x.Addr) {
					st.why = "store to non-local memory in predicate"
					return outcome{kind: oUndecided}
				}
			case *ssa.MapUpdate, *ssa.Send, *ssa.Go, *ssa.Defer, *ssa.RunDefers:
				if st.e.lenient {
					continue
				}
				st.why = fmt.Sprintf("side-effecting instruction %T in predicate", x)
				return outcome{kind: oUndecided}
			}
		}
		term := b.Instrs[len(b.Instrs)-1]
		switch x := term.(type) {
		case *ssa.Return:
			if len(x.Results) != 1 {
				if st.e.lenient {
					return outcome{kind: oRet}
				}
				st.why = "not exactly one result"
				return outcome{kind: oUndecided}
			}
			v, ok := st.eval(x.Results[0])
			if !ok {
				return outcome{kind: oUndecided}
			}
			return outcome{kind: oRet, val: v}
		case *ssa.Panic:
			return outcome{kind: oPanic}
		case *ssa.Jump:
			nb := b.Succs[0]
			if st.from[nb.Index] != -2 {
				st.why = "loop in control flow"
				return outcome{kind: oUndecided}
			}
			st.from[nb.Index] = b.Index
			b = nb
		case *ssa.If:
			v, ok := st.eval(x.Cond)
			if !ok {
				return outcome{kind: oUndecided}
			}
			nb := b.Succs[1]
			if v != 0 {
				nb = b.Succs[0]
			}
			if st.from[nb.Index] != -2 {
				st.why = "loop in control flow"
				return outcome{kind: oUndecided}
			}
			st.from[nb.Index] = b.Index
			b = nb
		default:
			st.why = fmt.Sprintf("unsupported terminator %T", term)
			return outcome{kind: oUndecided}
		}
	}
	st.why = "loop in control flow"
	return outcome{kind: oUndecided}
}

func truncTo(v int64, t types.Type) int64 {
	b, ok := t.Underlying().(*types.Basic)
	if !ok {
		return v
	}
	switch b.Kind() {
	case types.Uint8:
		return int64(uint8(v))
	case types.Int8:
		return int64(int8(v))
	case types.Uint16:
		return int64(uint16(v))
	case types.Int16:
		return int64(int16(v))
	case types.Uint32:
		return int64(uint32(v))
	case types.Int32:
		return int64(int32(v))
	}
	return v
}

func b2i(b bool) int64 {
	if b {
		return 1
	}
	return 0
}

func (st *evalState) eval(v ssa.Value) (int64, bool) {
	if st.isSym != nil && st.isSym(v) {
		return st.d, true
	}
	if st.symVal != nil {
		if x, ok := st.symVal(v); ok {
			return x, true
		}
	}
	st.depth++
	defer func() { st.depth-- }()
	if st.depth > 200 {
		return st.fail("value depends on a loop-carried variable")
	}
	switch x := v.(type) {
	case *ssa.Const:
		if x.Value == nil {
			return 0, true
		}
		switch x.Value.Kind() {
		case constant.Bool:
			return b2i(constant.BoolVal(x.Value)), true
		case constant.Int:
			i, ok := constant.Int64Val(x.Value)
			if !ok {
				return st.fail("constant out of range")
			}
			return i, true
		}
		return st.fail("unsupported constant kind %v", x.Value.Kind())
	case *ssa.Convert:
		a, ok := st.eval(x.X)
		if !ok {
			return 0, false
		}
		return truncTo(a, x.Type()), true
	case *ssa.ChangeType:
		return st.eval(x.X)
	case *ssa.UnOp:
		if x.Op == token.MUL {
			if ia, ok := x.X.(*ssa.IndexAddr); ok {
				if tab, ok := constArrayOf(ia.X); ok {
					i, ok := st.eval(ia.Index)
					if !ok {
						return 0, false
					}
					if v, ok := tab[i]; ok {
						return v, true
					}
					return st.fail("constant array index out of range")
				}
			}
			return st.fail("load from memory that is not a constant table: %s", x.X.String())
		}
		a, ok := st.eval(x.X)
		if !ok {
			return 0, false
		}
		switch x.Op {
		case token.NOT:
			return b2i(a == 0), true
		case token.SUB:
			return truncTo(-a, x.Type()), true
		case token.XOR:
			return truncTo(^a, x.Type()), true
		}
		return st.fail("unsupported unary op %v", x.Op)
	case *ssa.BinOp:
		if bt, isB := x.X.Type().Underlying().(*types.Basic); isB && bt.Info()&types.IsString != 0 && (x.Op == token.EQL || x.Op == token.NEQ) {
			// comparison of two strings that are constants on this path (a table function's result against "")
			sa, ok1 := stringOnPath(st, x.X)
			sb, ok2 := stringOnPath(st, x.Y)
			if ok1 && ok2 {
				return b2i((sa == sb) == (x.Op == token.EQL)), true
			}
			return st.fail("comparison of strings that are not constants on this path")
		}
		a, ok := st.eval(x.X)
		if !ok {
			return 0, false
		}
		b, ok := st.eval(x.Y)
		if !ok {
			return 0, false
		}
		switch x.Op {
		case token.EQL:
			return b2i(a == b), true
		case token.NEQ:
			return b2i(a != b), true
		case token.LSS:
			return b2i(a < b), true
		case token.LEQ:
			return b2i(a <= b), true
		case token.GTR:
			return b2i(a > b), true
		case token.GEQ:
			return b2i(a >= b), true
		case token.ADD:
			return truncTo(a+b, x.Type()), true
		case token.SUB:
			return truncTo(a-b, x.Type()), true
		case token.MUL:
			return truncTo(a*b, x.Type()), true
		case token.AND:
			return truncTo(a&b, x.Type()), true
		case token.OR:
			return truncTo(a|b, x.Type()), true
		case token.XOR:
			return truncTo(a^b, x.Type()), true
		case token.AND_NOT:
			return truncTo(a&^b, x.Type()), true
		case token.SHL:
			return truncTo(a<<uint(b), x.Type()), true
		case token.SHR:
			return truncTo(a>>uint(b), x.Type()), true
		case token.QUO:
			if b == 0 {
				return st.fail("division by zero")
			}
			return truncTo(a/b, x.Type()), true
		case token.REM:
			if b == 0 {
				return st.fail("division by zero")
			}
			return truncTo(a%b, x.Type()), true
		}
		return st.fail("unsupported binary op %v", x.Op)
	case *ssa.Phi:
		if st.noLoopPhi {
			for _, pr := range x.Block().Preds {
				if x.Block().Dominates(pr) {
					return st.fail("loop-carried value")
				}
			}
		}
		from := st.from[x.Block().Index]
		for i, p := range x.Block().Preds {
			if p.Index == from {
				return st.eval(x.Edges[i])
			}
		}
		return st.fail("phi evaluated on a path that did not enter its block")
	case *ssa.Index:
		if al, ok := x.X.(*ssa.UnOp); ok && al.Op == token.MUL {
			if tab, ok := constArrayOf(al.X); ok {
				i, ok := st.eval(x.Index)
				if !ok {
					return 0, false
				}
				if v, ok := tab[i]; ok {
					return v, true
				}
				return st.fail("constant array index out of range")
			}
		}
		if s, ok := constString(x.X); ok {
			i, ok := st.eval(x.Index)
			if !ok {
				return 0, false
			}
			if i < 0 || i >= int64(len(s)) {
				return st.fail("constant string index out of range")
			}
			return int64(s[i]), true
		}
		return st.fail("index of non-constant")
	case *ssa.Call:
		return st.evalCall(x)
	}
	return st.fail("unsupported value %T (%s)", v, v.String())
}

func (st *evalState) evalCall(c *ssa.Call) (int64, bool) {
	callee := c.Call.StaticCallee()
	if callee == nil {
		// a predicate chosen up front: `isDigit := isASCIIDigit; if hex { isDigit = isHex }; ... isDigit(c)` — the value is
		// decided where all candidates agree
		if ph, ok := c.Call.Value.(*ssa.Phi); ok && !c.Call.IsInvoke() && len(c.Call.Args) == 1 && len(ph.Edges) > 0 {
			a, ok := st.eval(c.Call.Args[0])
			if !ok {
				return 0, false
			}
			var res int64
			for i, e := range ph.Edges {
				f, isFn := e.(*ssa.Function)
				if !isFn || !st.e.p.InModule(f) {
					return st.fail("dynamic call in predicate")
				}
				t := st.e.Table(f)
				if t.why != "" {
					return st.fail("callee %s not analysable: %s", f.Name(), t.why)
				}
				o, ok := t.lookup(a)
				if !ok || o.kind != oRet {
					return st.fail("callee %s undecided for %d", f.Name(), a)
				}
				if i > 0 && o.val != res {
					return st.fail("the candidate predicates disagree on %d", a)
				}
				res = o.val
			}
			return res, true
		}
		return st.fail("dynamic call in predicate")
	}
	if st.e.p.InModule(callee) {
		if len(c.Call.Args) != 1 {
			// method value with receiver as scalar, e.g. (BlockKind).IsCode
			return st.fail("module callee %s with %d args", callee.Name(), len(c.Call.Args))
		}
		a, ok := st.eval(c.Call.Args[0])
		if !ok {
			return 0, false
		}
		t := st.e.Table(callee)
		if t.why != "" {
			// no finite table (e.g. an int parameter): evaluate the callee for this one argument value
			if v, ok := st.evalCalleeAt(callee, a); ok {
				return v, true
			}
			return st.fail("callee %s not analysable: %s", callee.Name(), t.why)
		}
		o, ok := t.lookup(a)
		if !ok {
			if v, ok := st.evalCalleeAt(callee, a); ok {
				return v, true
			}
			return st.fail("argument %d outside callee %s's domain", a, callee.Name())
		}
		if o.kind != oRet {
			return st.fail("callee %s panics or is undecided for %d", callee.Name(), a)
		}
		return o.val, true
	}
	name := callee.String()
	args := c.Call.Args
	switch name {
	case "strings.IndexByte":
		s, ok := constString(args[0])
		if !ok {
			return st.fail("strings.IndexByte on non-constant")
		}
		a, ok := st.eval(args[1])
		if !ok {
			return 0, false
		}
		return int64(strings.IndexByte(s, byte(a))), true
	case "strings.ContainsRune":
		s, ok := constString(args[0])
		if !ok {
			return st.fail("strings.ContainsRune on non-constant")
		}
		a, ok := st.eval(args[1])
		if !ok {
			return 0, false
		}
		return b2i(strings.ContainsRune(s, rune(a))), true
	case "strings.IndexRune":
		s, ok := constString(args[0])
		if !ok {
			return st.fail("strings.IndexRune on non-constant")
		}
		a, ok := st.eval(args[1])
		if !ok {
			return 0, false
		}
		return int64(strings.IndexRune(s, rune(a))), true
	case "unicode.Is":
		tab := unicodeTable(args[0])
		if tab == nil {
			return st.fail("unicode.Is with unresolved table %s", args[0])
		}
		a, ok := st.eval(args[1])
		if !ok {
			return 0, false
		}
		return b2i(unicode.Is(tab, rune(a))), true
	case "unicode.In", "unicode.IsOneOf":
		var rv ssa.Value
		var tv ssa.Value
		if name == "unicode.In" {
			rv, tv = args[0], args[1]
		} else {
			tv, rv = args[0], args[1]
		}
		tabs, ok := unicodeTableSlice(tv)
		if !ok {
			return st.fail("%s with unresolved table list", name)
		}
		a, ok := st.eval(rv)
		if !ok {
			return 0, false
		}
		return b2i(unicode.In(rune(a), tabs...)), true
	case "unicode.IsSpace":
		a, ok := st.eval(args[0])
		if !ok {
			return 0, false
		}
		return b2i(unicode.IsSpace(rune(a))), true
	case "unicode.IsPunct":
		a, ok := st.eval(args[0])
		if !ok {
			return 0, false
		}
		return b2i(unicode.IsPunct(rune(a))), true
	case "unicode.IsSymbol":
		a, ok := st.eval(args[0])
		if !ok {
			return 0, false
		}
		return b2i(unicode.IsSymbol(rune(a))), true
	case "unicode.IsLetter":
		a, ok := st.eval(args[0])
		if !ok {
			return 0, false
		}
		return b2i(unicode.IsLetter(rune(a))), true
	case "unicode.IsDigit":
		a, ok := st.eval(args[0])
		if !ok {
			return 0, false
		}
		return b2i(unicode.IsDigit(rune(a))), true
	case "unicode.IsUpper":
		a, ok := st.eval(args[0])
		if !ok {
			return 0, false
		}
		return b2i(unicode.IsUpper(rune(a))), true
	case "unicode.IsControl":
		a, ok := st.eval(args[0])
		if !ok {
			return 0, false
		}
		return b2i(unicode.IsControl(rune(a))), true
	}
	return st.fail("external callee %s not modelled", name)
}

// unicodeTable resolves a load of a package-level *unicode.RangeTable variable to the table itself
// (table contents are data of the standard library, read at analysis time).
func unicodeTable(v ssa.Value) *unicode.RangeTable {
	u, ok := v.(*ssa.UnOp)
	if !ok || u.Op != token.MUL {
		return nil
	}
	g, ok := u.X.(*ssa.Global)
	if !ok || g.Pkg == nil || g.Pkg.Pkg.Path() != "unicode" {
		return nil
	}
	n := g.Name()
	if t, ok := unicode.Categories[n]; ok {
		return t
	}
	if t, ok := unicode.Properties[n]; ok {
		return t
	}
	if t, ok := unicode.Scripts[n]; ok {
		return t
	}
	switch n {
	case "Letter":
		return unicode.Letter
	case "Mark":
		return unicode.Mark
	case "Number":
		return unicode.Number
	case "Punct":
		return unicode.Punct
	case "Symbol":
		return unicode.Symbol
	case "Space":
		return unicode.Space
	case "Other":
		return unicode.Other
	case "Digit":
		return unicode.Digit
	case "Upper":
		return unicode.Upper
	case "Lower":
		return unicode.Lower
	case "Title":
		return unicode.Title
	}
	return nil
}

func unicodeTableSlice(v ssa.Value) ([]*unicode.RangeTable, bool) {
	sl, ok := v.(*ssa.Slice)
	if !ok {
		return nil, false
	}
	al, ok := sl.X.(*ssa.Alloc)
	if !ok {
		return nil, false
	}
	arr, ok := deref(al.Type()).Underlying().(*types.Array)
	if !ok {
		return nil, false
	}
	out := make([]*unicode.RangeTable, arr.Len())
	for _, r := range refsOf(al) {
		ia, ok := r.(*ssa.IndexAddr)
		if !ok {
			continue
		}
		idx, ok := constInt(ia.Index)
		if !ok {
			return nil, false
		}
		for _, rr := range refsOf(ia) {
			if s, ok := rr.(*ssa.Store); ok && s.Addr == ia {
				out[idx] = unicodeTable(s.Val)
			}
		}
	}
	for _, t := range out {
		if t == nil {
			return nil, false
		}
	}
	return out, true
}

// describeSet renders a set of domain values compactly as ranges.
func describeSet(vals []int64, asChar bool) string {
	if len(vals) == 0 {
		return "{}"
	}
	var parts []string
	f := func(v int64) string {
		if asChar && v >= 0x21 && v < 0x7f {
			return fmt.Sprintf("%q", rune(v))
		}
		return fmt.Sprintf("U+%04X", v)
	}
	start, prev := vals[0], vals[0]
	flush := func() {
		if start == prev {
			parts = append(parts, f(start))
		} else {
			parts = append(parts, f(start)+".."+f(prev))
		}
	}
	for _, v := range vals[1:] {
		if v == prev+1 {
			prev = v
			continue
		}
		flush()
		start, prev = v, v
	}
	flush()
	if len(parts) > 12 {
		parts = append(parts[:12], fmt.Sprintf("… (%d values)", len(vals)))
	}
	return "{" + strings.Join(parts, ", ") + "}"
}

// addrIsLocalAlloc reports whether an address is (an element/field of) a function-local allocation.
func addrIsLocalAlloc(v ssa.Value) bool {
	for {
		switch x := v.(type) {
		case *ssa.Alloc:
			return true
		case *ssa.IndexAddr:
			v = x.X
		case *ssa.FieldAddr:
			v = x.X
		default:
			return false
		}
	}
}

// reachUnderSym: for each value d of dom, the set of blocks of fn reachable from the entry when every branch
// condition that is a function of the symbol alone is decided for sym=d and every other branch may go either way.
func (e *bsetEngine) reachUnderSym(fn *ssa.Function, isSym func(ssa.Value) bool, dom []int64) map[*ssa.BasicBlock]map[int64]bool {
	r, _ := e.reachEdgesUnderSym(fn, isSym, dom)
	return r
}

// reachEdgesUnderSym additionally reports, per CFG edge (from index, to index), the symbol values for which it can be taken.
func (e *bsetEngine) reachEdgesUnderSym(fn *ssa.Function, isSym func(ssa.Value) bool, dom []int64) (map[*ssa.BasicBlock]map[int64]bool, map[[2]int]map[int64]bool) {
	out := map[*ssa.BasicBlock]map[int64]bool{}
	edges := map[[2]int]map[int64]bool{}
	for _, d := range dom {
		st := &evalState{e: e, fn: fn, isSym: isSym, d: d, from: make([]int, len(fn.Blocks)), noLoopPhi: true}
		for i := range st.from {
			st.from[i] = -2
		}
		seen := map[*ssa.BasicBlock]bool{}
		var dfs func(b *ssa.BasicBlock)
		dfs = func(b *ssa.BasicBlock) {
			if seen[b] {
				return
			}
			seen[b] = true
			if out[b] == nil {
				out[b] = map[int64]bool{}
			}
			out[b][d] = true
			succs := b.Succs
			if iff := blockIf(b); iff != nil {
				st.why = ""
				if v, ok := st.eval(iff.Cond); ok {
					if v != 0 {
						succs = b.Succs[:1]
					} else {
						succs = b.Succs[1:]
					}
				}
			}
			for _, s := range succs {
				k := [2]int{b.Index, s.Index}
				if edges[k] == nil {
					edges[k] = map[int64]bool{}
				}
				edges[k][d] = true
				prev := st.from[s.Index]
				st.from[s.Index] = b.Index
				dfs(s)
				_ = prev
			}
		}
		st.from[0] = -1
		dfs(fn.Blocks[0])
	}
	return out, edges
}

// evalCalleeAt evaluates a loop-free module function with one scalar parameter for one argument value.
func (st *evalState) evalCalleeAt(callee *ssa.Function, a int64) (int64, bool) {
	if callee == nil || callee.Blocks == nil || len(callee.Params) != 1 || st.depth > 50 {
		return 0, false
	}
	param := callee.Params[0]
	sub := &evalState{e: st.e, fn: callee, d: a, isSym: func(v ssa.Value) bool { return v == ssa.Value(param) }, from: make([]int, len(callee.Blocks)), depth: st.depth + 1}
	for i := range sub.from {
		sub.from[i] = -2
	}
	o := sub.walk()
	if o.kind != oRet {
		return 0, false
	}
	return o.val, true
}

// constArrayOf: addr is a local array (Alloc) or a package-level array variable all of whose element stores are
// constants at constant indices (and, for a local, nothing else takes its address): returns index → value.
func constArrayOf(addr ssa.Value) (map[int64]int64, bool) {
	if g, ok := addr.(*ssa.Global); ok {
		return globalConstArray(g)
	}
	al, ok := addr.(*ssa.Alloc)
	if !ok {
		return nil, false
	}
	if _, isArr := deref(al.Type()).Underlying().(*types.Array); !isArr {
		return nil, false
	}
	tab := map[int64]int64{}
	for _, r := range refsOf(al) {
		switch x := r.(type) {
		case *ssa.IndexAddr:
			for _, rr := range refsOf(x) {
				switch y := rr.(type) {
				case *ssa.Store:
					if y.Addr != ssa.Value(x) {
						return nil, false
					}
					i, ok1 := constInt(x.Index)
					v, ok2 := constInt(y.Val)
					if !ok1 || !ok2 {
						return nil, false
					}
					tab[i] = v
				case *ssa.UnOp, *ssa.DebugRef:
				default:
					return nil, false
				}
			}
		case *ssa.DebugRef:
		case *ssa.Slice, *ssa.UnOp:
			// reading the whole array or slicing it for a read-only range is fine only if nothing writes through it;
			// be conservative: allow UnOp (copy), reject slices
			if _, isSl := x.(*ssa.Slice); isSl {
				return nil, false
			}
		case *ssa.Store:
			return nil, false
		default:
			return nil, false
		}
	}
	if len(tab) == 0 {
		return nil, false
	}
	return tab, true
}

// outcomeSig explores fn with the symbol fixed to d, taking both sides of every branch that does not depend on the
// symbol alone, and returns a canonical description of the branches decided by the symbol and of the values returned.
// Two symbol values with the same signature are treated alike by fn as far as this abstraction can tell.
func (e *bsetEngine) outcomeSig(fn *ssa.Function, isSym func(ssa.Value) bool, d int64) string {
	st := &evalState{e: e, fn: fn, isSym: isSym, d: d, from: make([]int, len(fn.Blocks)), noLoopPhi: true}
	for i := range st.from {
		st.from[i] = -2
	}
	set := map[string]bool{}
	visits := make([]int, len(fn.Blocks))
	var dfs func(b *ssa.BasicBlock)
	dfs = func(b *ssa.BasicBlock) {
		if visits[b.Index] >= 1 {
			return
		}
		visits[b.Index]++
		defer func() { visits[b.Index]-- }()
		switch t := b.Instrs[len(b.Instrs)-1].(type) {
		case *ssa.Return:
			for i, r := range t.Results {
				st.why = ""
				if v, ok := st.eval(r); ok {
					set[fmt.Sprintf("ret%d=%d", i, v)] = true
				}
			}
		case *ssa.If:
			succs := b.Succs
			st.why = ""
			if v, ok := st.eval(t.Cond); ok {
				if v != 0 {
					succs = b.Succs[:1]
				} else {
					succs = b.Succs[1:]
				}
				set[fmt.Sprintf("edge%d>%d", b.Index, succs[0].Index)] = true
			}
			for _, s := range succs {
				prev := st.from[s.Index]
				st.from[s.Index] = b.Index
				dfs(s)
				st.from[s.Index] = prev
			}
		case *ssa.Jump:
			s := b.Succs[0]
			prev := st.from[s.Index]
			st.from[s.Index] = b.Index
			dfs(s)
			st.from[s.Index] = prev
		}
	}
	st.from[0] = -1
	dfs(fn.Blocks[0])
	var ks []string
	for k := range set {
		ks = append(ks, k)
	}
	sort.Strings(ks)
	return strings.Join(ks, ",")
}

var globalConstArrayCache = map[*ssa.Global]map[int64]int64{}

// globalConstArray: a package-level array variable whose elements are written only by its package initialiser, with
// constants at constant indices, and which no other instruction of its package takes apart except to read an element
// (unset elements are the zero value): returns index → value.
func globalConstArray(g *ssa.Global) (map[int64]int64, bool) {
	if t, ok := globalConstArrayCache[g]; ok {
		return t, t != nil
	}
	globalConstArrayCache[g] = nil
	arr, ok := deref(g.Type()).Underlying().(*types.Array)
	if !ok || g.Pkg == nil {
		return nil, false
	}
	if g.Object() != nil && g.Object().Exported() {
		return nil, false // other packages could write it
	}
	tab := map[int64]int64{}
	for i := int64(0); i < arr.Len(); i++ {
		tab[i] = 0
	}
	good := true
	var visit func(fn *ssa.Function)
	seen := map[*ssa.Function]bool{}
	visit = func(fn *ssa.Function) {
		if fn == nil || seen[fn] || fn.Blocks == nil {
			return
		}
		seen[fn] = true
		isInit := fn.Name() == "init" && fn.Parent() == nil
		eachInstr(fn, func(in ssa.Instruction) {
			uses := false
			for _, op := range in.Operands(nil) {
				if op != nil && *op == ssa.Value(g) {
					uses = true
				}
			}
			if !uses {
				return
			}
			switch x := in.(type) {
			case *ssa.IndexAddr:
				for _, rr := range refsOf(x) {
					switch y := rr.(type) {
					case *ssa.UnOp, *ssa.DebugRef:
					case *ssa.Store:
						i, ok1 := constInt(x.Index)
						v, ok2 := constInt(y.Val)
						if !ok2 {
							if cb, isC := y.Val.(*ssa.Const); isC && cb.Value != nil && cb.Value.Kind() == constant.Bool {
								v, ok2 = b2i(constant.BoolVal(cb.Value)), true
							}
						}
						if y.Addr != ssa.Value(x) || !isInit || !ok1 || !ok2 {
							good = false
							return
						}
						tab[i] = v
					default:
						good = false
					}
				}
			case *ssa.UnOp, *ssa.DebugRef:
			default:
				good = false
			}
		})
		for _, a := range fn.AnonFuncs {
			visit(a)
		}
	}
	for _, m := range g.Pkg.Members {
		switch y := m.(type) {
		case *ssa.Function:
			visit(y)
		case *ssa.Type:
			for _, recv := range []types.Type{y.Type(), types.NewPointer(y.Type())} {
				ms := g.Pkg.Prog.MethodSets.MethodSet(recv)
				for i := 0; i < ms.Len(); i++ {
					visit(g.Pkg.Prog.MethodValue(ms.At(i)))
				}
			}
		}
	}
	if !good {
		return nil, false
	}
	globalConstArrayCache[g] = tab
	return tab, true
}
