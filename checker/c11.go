package main

// C11 — two necessary conditions on the opener-search cache of processEmphasis: EMPH-KX (c11x.go), EMPH-S.

import (
	"fmt"
	"go/constant"
	"go/token"
	"go/types"
	"sort"
	"strings"

	"golang.org/x/tools/go/ssa"
)

func init() { props["C11"] = checkC11 }

// spillOf returns the local alloc a by-value struct parameter is spilled into (or nil).
func spillOf(p *ssa.Parameter) *ssa.Alloc {
	for _, r := range refsOf(p) {
		if st, ok := r.(*ssa.Store); ok && st.Val == ssa.Value(p) {
			if al, ok := st.Addr.(*ssa.Alloc); ok {
				return al
			}
		}
	}
	return nil
}

// fieldOfLoad: v is a load of field f of the struct held in alloc/param `of`; returns f.
func fieldOfLoad(v ssa.Value, spill *ssa.Alloc, param *ssa.Parameter) (string, bool) {
	switch x := v.(type) {
	case *ssa.UnOp:
		if x.Op != token.MUL {
			return "", false
		}
		if fa, ok := x.X.(*ssa.FieldAddr); ok && spill != nil && fa.X == ssa.Value(spill) {
			_, f, _ := fieldAddrInfo(fa)
			return f, true
		}
	case *ssa.Field:
		if param != nil && x.X == ssa.Value(param) {
			_, f := fieldInfo(x)
			return f, true
		}
	}
	return "", false
}

func checkC11(c *Ctx) {
	c.Rule("EMPH-S", "Saved-index staleness: openersBottom holds indices into the delimiter stack. A forward dataflow over processEmphasis maintains the invariant \"every saved bound <= V\" for an SSA value V (established by a loop, or a helper, that stores V into every element; kept by storing V into one element, by V growing, and across loop-carried variables). A deleteDelimiterStack call whose low bound is not known to be >= V breaks it, and no element of openersBottom may be read before the bounds have been re-based.")
	c.Assume("the rule-of-3 predicate itself, matching order and tree surgery (the algorithm proper) are value-level and not decided")
	ruleEmphKX(c)
	ruleEmphS(c)
	ruleEmphFlank(c)
	ruleEmphEdge(c)
	ruleEdgeLine(c)
	ruleEmphClear(c)
	ruleEmphCurrent(c)
}

type emphState struct {
	kind  int // 0 none, 1 ok(V), 2 stale
	v     ssa.Value
	cause ssa.Instruction
}

func ruleEmphS(c *Ctx) {
	p := c.P
	fn := p.Method("InlineParser", "processEmphasis")
	del := p.Func("deleteDelimiterStack")
	if !c.NeedFunc("EMPH-S", fn, "(*InlineParser).processEmphasis") || !c.NeedFunc("EMPH-S", del, "deleteDelimiterStack") {
		return
	}
	// the bounds array
	var arr ssa.Value
	eachInstr(fn, func(in ssa.Instruction) {
		switch x := in.(type) {
		case *ssa.Alloc:
			if a, ok := deref(x.Type()).Underlying().(*types.Array); ok {
				if b, ok := a.Elem().Underlying().(*types.Basic); ok && b.Kind() == types.Int {
					arr = x
				}
			}
		case *ssa.MakeSlice:
			if s, ok := x.Type().Underlying().(*types.Slice); ok {
				if b, ok := s.Elem().Underlying().(*types.Basic); ok && b.Kind() == types.Int {
					arr = x
				}
			}
		}
	})
	if arr == nil {
		c.OK("EMPH-S", "processEmphasis.openersBottom", fn.Pos(), "no saved-index table in processEmphasis (no search-bound optimisation)")
		return
	}
	isArrElem := func(v ssa.Value) (*ssa.IndexAddr, bool) {
		ia, ok := v.(*ssa.IndexAddr)
		if !ok {
			return nil, false
		}
		return ia, ia.X == arr
	}
	// clamp loops: stores with a loop-index into arr
	clampAt := map[*ssa.BasicBlock]ssa.Value{}
	clampBlocks := map[*ssa.BasicBlock]bool{}
	eachInstr(fn, func(in ssa.Instruction) {
		st, ok := in.(*ssa.Store)
		if !ok {
			return
		}
		ia, ok := isArrElem(st.Addr)
		if !ok {
			return
		}
		// index derived from a phi (range index)
		var hdr *ssa.BasicBlock
		seen := map[ssa.Value]bool{}
		var w func(v ssa.Value)
		w = func(v ssa.Value) {
			if seen[v] {
				return
			}
			seen[v] = true
			switch x := v.(type) {
			case *ssa.Phi:
				// a self-incrementing phi is a loop index
				for _, e := range x.Edges {
					if bo, ok := e.(*ssa.BinOp); ok && (bo.X == ssa.Value(x) || bo.Y == ssa.Value(x)) {
						hdr = x.Block()
					}
				}
			case *ssa.BinOp:
				w(x.X)
				w(x.Y)
			}
		}
		w(ia.Index)
		if hdr == nil {
			return
		}
		// value must be defined outside the inner loop
		if vi, ok := st.Val.(ssa.Instruction); ok {
			if hdr.Dominates(vi.Block()) && vi.Block() != hdr && canReach(vi.Block(), hdr) {
				return
			}
		}
		clampAt[hdr] = st.Val
		// blocks of that inner loop
		for _, b := range fn.Blocks {
			if b != hdr && hdr.Dominates(b) && canReach(b, hdr) && !reachesOuter(b, hdr, fn) {
				clampBlocks[b] = true
			}
		}
		clampBlocks[hdr] = true
	})
	// dataflow
	in := map[*ssa.BasicBlock]emphState{}
	visited := map[*ssa.BasicBlock]bool{}
	transfer := func(b *ssa.BasicBlock, s emphState, report func(read ssa.Instruction, s emphState)) emphState {
		if v, ok := clampAt[b]; ok {
			s = emphState{kind: 1, v: v}
		}
		for _, ins := range b.Instrs {
			switch x := ins.(type) {
			case *ssa.Call:
				if g := x.Call.StaticCallee(); g != nil && g != del && p.InModule(g) {
					if pi, qi, ok := clampHelper(g); ok && pi < len(x.Call.Args) && qi < len(x.Call.Args) {
						a := x.Call.Args[pi]
						if sl, isSl := a.(*ssa.Slice); isSl {
							a = sl.X
						}
						if a == arr {
							s = emphState{kind: 1, v: x.Call.Args[qi]}
							continue
						}
					}
				}
				if x.Call.StaticCallee() == del {
					// entries from L on move down; a bound <= L still means what it meant
					L := x.Call.Args[1]
					if s.kind == 1 && geqValue(L, s.v) {
						continue
					}
					s = emphState{kind: 2, cause: x}
				}
			case *ssa.Store:
				// a single bound is set (outside the re-basing loops): the invariant "every bound <= V" survives
				// only if the stored value is V itself
				if _, ok := isArrElem(x.Addr); ok && !clampBlocks[b] && s.kind == 1 && !sameValueDeep(x.Val, s.v) {
					s = emphState{}
				}
			case *ssa.UnOp:
				if x.Op == token.MUL {
					if _, ok := isArrElem(x.X); ok && !clampBlocks[b] && s.kind == 2 && report != nil {
						report(x, s)
					}
				}
			}
		}
		return s
	}
	join := func(b *ssa.BasicBlock, outs map[*ssa.BasicBlock]emphState) emphState {
		var states []emphState
		var preds []*ssa.BasicBlock
		for _, pr := range b.Preds {
			if visited[pr] {
				states = append(states, outs[pr])
				preds = append(preds, pr)
			}
		}
		if len(states) == 0 {
			return emphState{}
		}
		for _, s := range states {
			if s.kind == 2 {
				return s
			}
		}
		allOK := true
		for _, s := range states {
			if s.kind != 1 {
				allOK = false
			}
		}
		if !allOK {
			return emphState{}
		}
		same := true
		for _, s := range states[1:] {
			if !sameValueDeep(s.v, states[0].v) {
				same = false
			}
		}
		// phi mapping first: a loop-carried variable must be named by its phi from the first visit on, otherwise the
		// value seen on the entry edge is carried round the loop and no longer matches the phi's back edge
		for _, ins := range b.Instrs {
			ph, ok := ins.(*ssa.Phi)
			if !ok {
				break
			}
			match := true
			for i, pr := range b.Preds {
				if !visited[pr] {
					continue
				}
				// "every bound <= V" implies "every bound <= V + c" for c >= 0
				if !geqValue(ph.Edges[i], outs[pr].v) {
					match = false
				}
			}
			if match {
				return emphState{kind: 1, v: ph}
			}
		}
		if same {
			return states[0]
		}
		return emphState{}
	}
	outs := map[*ssa.BasicBlock]emphState{}
	// reverse postorder: all forward predecessors of a block are processed before it
	var rpo []*ssa.BasicBlock
	{
		seenB := map[*ssa.BasicBlock]bool{}
		var post []*ssa.BasicBlock
		var dfs func(b *ssa.BasicBlock)
		dfs = func(b *ssa.BasicBlock) {
			seenB[b] = true
			for _, s := range b.Succs {
				if !seenB[s] {
					dfs(s)
				}
			}
			post = append(post, b)
		}
		dfs(fn.Blocks[0])
		for i := len(post) - 1; i >= 0; i-- {
			rpo = append(rpo, post[i])
		}
	}
	for iter := 0; iter < 50; iter++ {
		changed := false
		for _, b := range rpo {
			var s emphState
			if b.Index == 0 {
				s = emphState{}
				visited[b] = true
			} else {
				anyPred := false
				for _, pr := range b.Preds {
					if visited[pr] {
						anyPred = true
					}
				}
				if !anyPred {
					continue
				}
				s = join(b, outs)
				visited[b] = true
			}
			in[b] = s
			o := transfer(b, s, nil)
			if prev, ok := outs[b]; !ok || prev.kind != o.kind || prev.v != o.v {
				outs[b] = o
				changed = true
			}
		}
		if !changed {
			break
		}
	}
	var causes []string
	nReads := 0
	for _, b := range fn.Blocks {
		if !visited[b] {
			continue
		}
		transfer(b, in[b], func(read ssa.Instruction, s emphState) {
			nReads++
			causes = append(causes, fmt.Sprintf("read at %s after deletion at %s", p.Pos(read.Pos()), p.Pos(s.cause.Pos())))
		})
	}
	nDel := 0
	eachInstr(fn, func(ins ssa.Instruction) {
		if cl, ok := ins.(*ssa.Call); ok && cl.Call.StaticCallee() == del {
			nDel++
		}
	})
	c.Analysed["deleteDelimiterStack_calls_in_processEmphasis"] = nDel
	c.Analysed["rebasing_loops"] = len(clampAt)
	if nReads > 0 {
		sort.Strings(causes)
		c.Viol("EMPH-S", "processEmphasis.openersBottom", fn.Pos(), "saved search bounds are read after stack entries below them may have been deleted, without re-basing: "+strings.Join(dedupe(causes), "; "))
	} else {
		c.OK("EMPH-S", "processEmphasis.openersBottom", fn.Pos(), fmt.Sprintf("%d deletions, %d re-basing loops; no read of a possibly stale bound", nDel, len(clampAt)))
	}
}

func dedupe(s []string) []string {
	var out []string
	for i, x := range s {
		if i == 0 || x != s[i-1] {
			out = append(out, x)
		}
	}
	return out
}

// reachesOuter: b can reach hdr only... helper: returns true if b can leave the loop of hdr and come back through another header (not needed precisely).
func reachesOuter(b, hdr *ssa.BasicBlock, fn *ssa.Function) bool { return false }

// sameValueDeep extends sameValue to structurally equal arithmetic (go/ssa performs no CSE).
func sameValueDeep(a, b ssa.Value) bool {
	if sameValue(a, b) {
		return true
	}
	ba, ok1 := a.(*ssa.BinOp)
	bb, ok2 := b.(*ssa.BinOp)
	if ok1 && ok2 && ba.Op == bb.Op {
		return sameValueDeep(ba.X, bb.X) && sameValueDeep(ba.Y, bb.Y)
	}
	return false
}

func init() {
	clamp1 := "\t\t\tcurrentPosition = openerIndex + 1\n\t\t\t// The saved lower bounds are indices into the stack:\n\t\t\t// none of them may point past the entries that were just removed.\n\t\t\tfor i := range openersBottom {\n\t\t\t\tif openersBottom[i] > currentPosition {\n\t\t\t\t\topenersBottom[i] = currentPosition\n\t\t\t\t}\n\t\t\t}\n"
	clamp2 := "\t\t\t\tcurrentPosition--\n\t\t\t\t// Likewise after removing the opener itself.\n\t\t\t\tfor i := range openersBottom {\n\t\t\t\t\tif openersBottom[i] > currentPosition {\n\t\t\t\t\t\topenersBottom[i] = currentPosition\n\t\t\t\t\t}\n\t\t\t\t}\n"
	addControls(
		Control{Name: "underscore-key-constant", Props: []string{"C11"}, File: "inlines.go",
			Old: "\t\tif elem.flags&openerFlag == 0 {\n\t\t\treturn 6 + elem.n%3\n\t\t} else {\n\t\t\treturn 9 + elem.n%3\n\t\t}", New: "\t\treturn 6", Expect: "EMPH-KX/openersBottomIndex:slot[inlineDelimiterUnderscore]"},
		Control{Name: "no-rebase-after-match", Props: []string{"C11"}, File: "inlines.go",
			Old: clamp1, New: "\t\t\tcurrentPosition = openerIndex + 1\n", Expect: "EMPH-S"},
		Control{Name: "no-rebase-after-opener-removal", Props: []string{"C11"}, File: "inlines.go",
			Old: clamp2, New: "\t\t\t\tcurrentPosition--\n", Expect: "EMPH-S"},
		Control{Name: "neg-rebase-with-local", Props: []string{"C11"}, File: "inlines.go", Negative: true,
			Old: clamp2, New: "\t\t\t\tcurrentPosition--\n\t\t\t\tfor i := range openersBottom {\n\t\t\t\t\tif b := openersBottom[i]; b > currentPosition {\n\t\t\t\t\t\topenersBottom[i] = currentPosition\n\t\t\t\t\t}\n\t\t\t\t}\n"},
		Control{Name: "star-key-ignores-opener-flag", Props: []string{"C11"}, File: "inlines.go",
			Old: "\t\tif elem.flags&openerFlag == 0 {\n\t\t\treturn elem.n % 3\n\t\t} else {\n\t\t\treturn 3 + elem.n%3\n\t\t}\n\tcase inlineDelimiterUnderscore:", New: "\t\treturn elem.n % 3\n\tcase inlineDelimiterUnderscore:", Expect: "EMPH-KX/openersBottomIndex:slot[inlineDelimiterStar]"},
		Control{Name: "closer-only-star-key-ignores-length", Props: []string{"C11"}, File: "inlines.go",
			Old: "\t\tif elem.flags&openerFlag == 0 {\n\t\t\treturn elem.n % 3\n\t\t} else {\n\t\t\treturn 3 + elem.n%3\n\t\t}\n\tcase inlineDelimiterUnderscore:", New: "\t\tif elem.flags&openerFlag == 0 {\n\t\t\treturn 0\n\t\t} else {\n\t\t\treturn 3 + elem.n%3\n\t\t}\n\tcase inlineDelimiterUnderscore:", Expect: "EMPH-KX/openersBottomIndex:slot[inlineDelimiterStar]",
			Why: "a closer-only run is still subject to the multiple-of-3 rule when the opener can also close"},
		Control{Name: "neg-key-finer-than-needed", Props: []string{"C11"}, File: "inlines.go", Negative: true,
			Old: "const openersBottomCount = 14", New: "const openersBottomCount = 28",
			Edits: [][2]string{{"\tcase inlineDelimiterLink:\n\t\treturn 12\n\tcase inlineDelimiterImage:\n\t\treturn 13", "\tcase inlineDelimiterLink:\n\t\treturn 12 + int(elem.flags&activeFlag)*14\n\tcase inlineDelimiterImage:\n\t\treturn 13"}},
			Why:   "a key that separates more than the predicate distinguishes only costs array slots"},
		Control{Name: "neg-match-predicate-early-returns", Props: []string{"C11"}, File: "inlines.go", Negative: true,
			Old: "\treturn (open.typ == inlineDelimiterStar || open.typ == inlineDelimiterUnderscore) &&\n\t\topen.typ == close.typ &&\n\t\topen.flags&openerFlag != 0 &&\n\t\tclose.flags&closerFlag != 0 &&",
			New: "\tif open.typ != inlineDelimiterStar && open.typ != inlineDelimiterUnderscore || open.typ != close.typ {\n\t\treturn false\n\t}\n\tif open.flags&openerFlag == 0 || close.flags&closerFlag == 0 {\n\t\treturn false\n\t}\n\treturn true &&",
			Why: "same predicate written with early returns"},
		Control{Name: "star-key-ignores-length", Props: []string{"C11"}, File: "inlines.go",
			Old: "\t\tif elem.flags&openerFlag == 0 {\n\t\t\treturn elem.n % 3\n\t\t} else {\n\t\t\treturn 3 + elem.n%3\n\t\t}\n\tcase inlineDelimiterUnderscore:", New: "\t\tif elem.flags&openerFlag == 0 {\n\t\t\treturn 0\n\t\t} else {\n\t\t\treturn 3\n\t\t}\n\tcase inlineDelimiterUnderscore:", Expect: "EMPH-KX/openersBottomIndex:slot[inlineDelimiterStar]"},
	)
}

func constantInt(v int64) constant.Value { return constant.MakeInt64(v) }

// fieldMasks refines a field read into field&mask reads when every use of the loaded value is a bit test with a
// constant mask (flags&openerFlag); otherwise the whole field.
func fieldMasks(load ssa.Value, field string) []string {
	var out []string
	whole := false
	for _, r := range refsOf(load) {
		bo, ok := r.(*ssa.BinOp)
		if ok && bo.Op == token.AND {
			if k, ok := constInt(bo.Y); ok {
				out = append(out, fmt.Sprintf("%s&%d", field, k))
				continue
			}
			if k, ok := constInt(bo.X); ok {
				out = append(out, fmt.Sprintf("%s&%d", field, k))
				continue
			}
		}
		whole = true
	}
	if whole || len(out) == 0 {
		return []string{field}
	}
	return out
}

// maskRequiredForTrue: the predicate can return true only when (load & mask) != 0 — every phi edge / return that yields
// a non-false value lies behind the non-zero edge of that test.
func maskRequiredForTrue(pred *ssa.Function, load ssa.Value, fm string) bool {
	i := strings.Index(fm, "&")
	if i < 0 {
		return false
	}
	var mask int64
	fmt.Sscanf(fm[i+1:], "%d", &mask)
	// the test blocks
	type edge struct {
		b   *ssa.BasicBlock
		idx int
	}
	var tests []edge
	for _, b := range pred.Blocks {
		iff := blockIf(b)
		if iff == nil {
			continue
		}
		bo, ok := iff.Cond.(*ssa.BinOp)
		if !ok || (bo.Op != token.NEQ && bo.Op != token.EQL) || !isZero(bo.Y) {
			continue
		}
		and, ok := bo.X.(*ssa.BinOp)
		if !ok || and.Op != token.AND || and.X != load {
			continue
		}
		if k, ok := constInt(and.Y); !ok || k != mask {
			continue
		}
		idx := 0
		if bo.Op == token.EQL {
			idx = 1
		}
		tests = append(tests, edge{b, idx})
	}
	if len(tests) == 0 {
		return false
	}
	// sources of a possibly-true result
	okAll := true
	found := false
	for _, r := range returnsOf(pred) {
		var visit func(v ssa.Value, from *ssa.BasicBlock, seen map[ssa.Value]bool)
		visit = func(v ssa.Value, from *ssa.BasicBlock, seen map[ssa.Value]bool) {
			if seen[v] {
				return
			}
			seen[v] = true
			if ph, ok := v.(*ssa.Phi); ok {
				for i, e := range ph.Edges {
					visit(e, ph.Block().Preds[i], seen)
				}
				return
			}
			if cv, ok := v.(*ssa.Const); ok && cv.Value != nil && cv.Value.String() == "false" {
				return
			}
			found = true
			dom := false
			for _, t := range tests {
				if edgeDominates(t.b, t.idx, from) {
					dom = true
				}
			}
			if !dom {
				okAll = false
			}
		}
		visit(r.Results[0], r.Block(), map[ssa.Value]bool{})
	}
	return found && okAll
}

// clampHelper: g stores its int parameter q into every element of its array-pointer/slice parameter p inside a loop over
// a loop counter (a re-basing helper such as clampOpenersBottom(&bounds, limit)). Returns the parameter positions.
func clampHelper(g *ssa.Function) (pi, qi int, ok bool) {
	if g == nil || g.Blocks == nil {
		return 0, 0, false
	}
	paramIdx := func(v ssa.Value) int {
		for i, q := range g.Params {
			if ssa.Value(q) == v {
				return i
			}
		}
		return -1
	}
	found := false
	eachInstr(g, func(in ssa.Instruction) {
		st, isSt := in.(*ssa.Store)
		if !isSt || found {
			return
		}
		ia, isIA := st.Addr.(*ssa.IndexAddr)
		if !isIA {
			return
		}
		p0 := paramIdx(ia.X)
		q0 := paramIdx(st.Val)
		if p0 < 0 || q0 < 0 {
			return
		}
		// index is (derived from) a loop counter
		isCounter := false
		seen := map[ssa.Value]bool{}
		var w func(v ssa.Value)
		w = func(v ssa.Value) {
			if seen[v] {
				return
			}
			seen[v] = true
			switch x := v.(type) {
			case *ssa.Phi:
				for _, e := range x.Edges {
					if bo, ok := e.(*ssa.BinOp); ok && (bo.X == ssa.Value(x) || bo.Y == ssa.Value(x)) {
						isCounter = true
					}
				}
			case *ssa.BinOp:
				w(x.X)
				w(x.Y)
			}
		}
		w(ia.Index)
		if isCounter {
			pi, qi, found = p0, q0, true
		}
	})
	return pi, qi, found
}

// geqValue: a is structurally b, or b plus a non-negative constant.
func geqValue(a, b ssa.Value) bool {
	if sameValueDeep(a, b) {
		return true
	}
	if bo, ok := a.(*ssa.BinOp); ok && bo.Op == token.ADD {
		if k, isC := constInt(bo.Y); isC && k >= 0 && sameValueDeep(bo.X, b) {
			return true
		}
		if k, isC := constInt(bo.X); isC && k >= 0 && sameValueDeep(bo.Y, b) {
			return true
		}
	}
	return false
}
