package main

// core.go: loading /repo, obligation bookkeeping, evidence and known-findings plumbing.

import (
	"encoding/json"
	"fmt"
	"go/ast"
	"go/token"
	"go/types"
	"os"
	"path/filepath"
	"sort"
	"strings"
	"time"

	"golang.org/x/tools/go/callgraph"
	"golang.org/x/tools/go/callgraph/cha"
	"golang.org/x/tools/go/callgraph/vta"
	"golang.org/x/tools/go/packages"
	"golang.org/x/tools/go/ssa"
	"golang.org/x/tools/go/ssa/ssautil"
)

const (
	cmPath  = "zombiezen.com/go/commonmark"
	fmtPath = "zombiezen.com/go/commonmark/format"
)

// Program is the resolved view of /repo that every rule works on.
type Program struct {
	Repo   string
	Fset   *token.FileSet
	Pkgs   []*packages.Package
	CM     *packages.Package // package commonmark
	FMT    *packages.Package // package commonmark/format
	SSA    *ssa.Program
	CMs    *ssa.Package
	FMTs   *ssa.Package
	Funcs  []*ssa.Function // all functions (incl. anonymous, methods, init) of in-scope packages
	inMod  map[*ssa.Function]bool
	cg     *callgraph.Graph
	GOARCH string
	Tags   string
}

type LoadOpts struct {
	Repo    string
	Overlay map[string][]byte
	GOARCH  string
	Tags    string
	AllSyn  bool
}

// Load type-checks the module from source (with an optional overlay) and builds SSA
// for its packages. Any loader or type error is returned: undecidable == failure.
func Load(o LoadOpts) (*Program, error) {
	mode := packages.NeedName | packages.NeedFiles | packages.NeedCompiledGoFiles | packages.NeedImports |
		packages.NeedTypes | packages.NeedTypesSizes | packages.NeedSyntax | packages.NeedTypesInfo | packages.NeedModule
	if o.AllSyn {
		mode |= packages.NeedDeps
	}
	env := os.Environ()
	env = append(env, "GOFLAGS=-mod=mod", "GOPROXY=off", "GOSUMDB=off", "GOTOOLCHAIN=local", "GOWORK=off")
	if o.GOARCH != "" {
		env = append(env, "GOARCH="+o.GOARCH)
	}
	cfg := &packages.Config{Mode: mode, Dir: o.Repo, Env: env, Overlay: o.Overlay, Tests: false}
	if o.Tags != "" {
		cfg.BuildFlags = []string{"-tags=" + o.Tags}
	}
	pkgs, err := packages.Load(cfg, "./...")
	if err != nil {
		return nil, fmt.Errorf("packages.Load: %w", err)
	}
	if len(pkgs) == 0 {
		return nil, fmt.Errorf("no packages loaded from %s", o.Repo)
	}
	var errs []string
	packages.Visit(pkgs, nil, func(p *packages.Package) {
		for _, e := range p.Errors {
			errs = append(errs, e.Error())
		}
	})
	if len(errs) > 0 {
		return nil, fmt.Errorf("load/type errors: %s", strings.Join(errs, "; "))
	}
	p := &Program{Repo: o.Repo, Pkgs: pkgs, GOARCH: o.GOARCH, Tags: o.Tags, inMod: map[*ssa.Function]bool{}}
	for _, pk := range pkgs {
		switch pk.PkgPath {
		case cmPath:
			p.CM = pk
		case fmtPath:
			p.FMT = pk
		}
	}
	if p.CM == nil || p.FMT == nil {
		return nil, fmt.Errorf("anchor packages %s and %s not both found (got %d packages)", cmPath, fmtPath, len(pkgs))
	}
	p.Fset = p.CM.Fset
	var prog *ssa.Program
	var spkgs []*ssa.Package
	if o.AllSyn {
		prog, spkgs = ssautil.AllPackages(pkgs, ssa.InstantiateGenerics)
	} else {
		prog, spkgs = ssautil.Packages(pkgs, ssa.InstantiateGenerics)
	}
	prog.Build()
	p.SSA = prog
	for i, pk := range pkgs {
		if spkgs[i] == nil {
			return nil, fmt.Errorf("no SSA for %s", pk.PkgPath)
		}
		switch pk.PkgPath {
		case cmPath:
			p.CMs = spkgs[i]
		case fmtPath:
			p.FMTs = spkgs[i]
		}
	}
	// scope check: import closure of the public packages inside the module is exactly these two
	for _, pk := range []*packages.Package{p.CM, p.FMT} {
		for ip := range pk.Imports {
			if strings.HasPrefix(ip, cmPath) && ip != cmPath && ip != fmtPath {
				return nil, fmt.Errorf("scope changed: %s imports module package %s (outside the analysed scope)", pk.PkgPath, ip)
			}
		}
	}
	all := ssautil.AllFunctions(prog)
	for f := range all {
		if f.Pkg == p.CMs || f.Pkg == p.FMTs {
			if f.Synthetic != "" && f.Blocks == nil {
				continue
			}
			p.Funcs = append(p.Funcs, f)
			p.inMod[f] = true
		}
	}
	sort.Slice(p.Funcs, func(i, j int) bool { return p.Funcs[i].String() < p.Funcs[j].String() })
	return p, nil
}

func (p *Program) InModule(f *ssa.Function) bool { return f != nil && p.inMod[f] }

// CallGraph returns the VTA-over-CHA call graph (built once).
func (p *Program) CallGraph() *callgraph.Graph {
	if p.cg == nil {
		p.cg = vta.CallGraph(ssautil.AllFunctions(p.SSA), cha.CallGraph(p.SSA))
	}
	return p.cg
}

func (p *Program) Pos(pos token.Pos) string {
	if !pos.IsValid() {
		return ""
	}
	ps := p.Fset.Position(pos)
	rel, err := filepath.Rel(p.Repo, ps.Filename)
	if err != nil || strings.HasPrefix(rel, "..") {
		rel = ps.Filename
	}
	return fmt.Sprintf("%s:%d:%d", rel, ps.Line, ps.Column)
}

// Func returns the package-level function of package commonmark (or format if pkg==fmt).
func (p *Program) Func(name string) *ssa.Function    { return p.CMs.Func(name) }
func (p *Program) FmtFunc(name string) *ssa.Function { return p.FMTs.Func(name) }

// Method returns method `name` of named type `typ` (pointer or value receiver) in the given ssa package.
func (p *Program) MethodIn(sp *ssa.Package, typ, name string) *ssa.Function {
	m := sp.Members[typ]
	t, ok := m.(*ssa.Type)
	if !ok {
		return nil
	}
	for _, recv := range []types.Type{t.Type(), types.NewPointer(t.Type())} {
		ms := p.SSA.MethodSets.MethodSet(recv)
		for i := 0; i < ms.Len(); i++ {
			if ms.At(i).Obj().Name() == name {
				f := p.SSA.MethodValue(ms.At(i))
				if f != nil && f.Synthetic == "" {
					return f
				}
				// wrapper: find the declared one
				if f != nil {
					if fo, ok := ms.At(i).Obj().(*types.Func); ok {
						if df := p.SSA.FuncValue(fo); df != nil {
							return df
						}
					}
				}
			}
		}
	}
	return nil
}
func (p *Program) Method(typ, name string) *ssa.Function { return p.MethodIn(p.CMs, typ, name) }

// NamedType resolves a named type of package commonmark.
func (p *Program) NamedType(name string) *types.Named {
	o := p.CM.Types.Scope().Lookup(name)
	if o == nil {
		return nil
	}
	n, _ := o.Type().(*types.Named)
	return n
}

// ConstsOfType lists the declared constants of a named (enum) type in package pkg.
func ConstsOfType(pkg *types.Package, t types.Type) []*types.Const {
	var out []*types.Const
	sc := pkg.Scope()
	for _, n := range sc.Names() {
		if c, ok := sc.Lookup(n).(*types.Const); ok && types.Identical(c.Type(), t) {
			out = append(out, c)
		}
	}
	return out
}

// ---------------------------------------------------------------------------------------------
// Obligations

type Ob struct {
	Rule      string `json:"rule"`
	Construct string `json:"construct"`
	Status    string `json:"status"` // ok | violation | undecided | known
	Pos       string `json:"pos,omitempty"`
	Detail    string `json:"detail,omitempty"`
}

func (o Ob) Key() string { return o.Rule + "/" + o.Construct }

type Ctx struct {
	P           *Program
	Prop        string
	Tier        string
	Obs         []Ob
	Assumptions []string
	Analysed    map[string]int
	Lists       map[string][]string
	RuleTexts   map[string]string
	Only        string // restrict reporting to one obligation key prefix
	seen        map[string]int
}

func NewCtx(p *Program, prop, tier string) *Ctx {
	return &Ctx{P: p, Prop: prop, Tier: tier, Analysed: map[string]int{}, Lists: map[string][]string{}, RuleTexts: map[string]string{}, seen: map[string]int{}}
}

func (c *Ctx) add(o Ob) {
	// keep constructs unique per rule: same construct reported twice gets a numeric suffix
	k := o.Key()
	c.seen[k]++
	if n := c.seen[k]; n > 1 {
		o.Construct = fmt.Sprintf("%s#%d", o.Construct, n)
	}
	c.Obs = append(c.Obs, o)
}
func (c *Ctx) OK(rule, construct string, pos token.Pos, detail string) {
	c.add(Ob{Rule: rule, Construct: construct, Status: "ok", Pos: c.P.Pos(pos), Detail: detail})
}
func (c *Ctx) Viol(rule, construct string, pos token.Pos, detail string) {
	c.add(Ob{Rule: rule, Construct: construct, Status: "violation", Pos: c.P.Pos(pos), Detail: detail})
}
func (c *Ctx) Undecided(rule, construct string, pos token.Pos, detail string) {
	c.add(Ob{Rule: rule, Construct: construct, Status: "undecided", Pos: c.P.Pos(pos), Detail: detail})
}
func (c *Ctx) Check(ok bool, rule, construct string, pos token.Pos, detail string) {
	if ok {
		c.OK(rule, construct, pos, detail)
	} else {
		c.Viol(rule, construct, pos, detail)
	}
}
func (c *Ctx) Rule(id, text string) { c.RuleTexts[id] = text }
func (c *Ctx) Assume(s string)      { c.Assumptions = append(c.Assumptions, s) }
func (c *Ctx) Count(rule string) int {
	n := 0
	for _, o := range c.Obs {
		if o.Rule == rule {
			n++
		}
	}
	return n
}

// MinCount fails (undecided) when a rule matched fewer instances than were confirmed by hand.
func (c *Ctx) MinCount(rule string, min int) {
	n := c.Count(rule)
	if n < min {
		c.Undecided(rule, "instance-count", token.NoPos, fmt.Sprintf("rule matched %d instance(s), at least %d were confirmed by hand on the reference tree; the anchors moved or the idiom is no longer recognised", n, min))
	}
}

// NeedFunc reports a missing anchor as undecided and returns whether it exists.
func (c *Ctx) NeedFunc(rule string, f *ssa.Function, name string) bool {
	if f == nil || f.Blocks == nil {
		c.Undecided(rule, "anchor:"+name, token.NoPos, "anchor function "+name+" could not be resolved in the current tree")
		return false
	}
	return true
}

// ---------------------------------------------------------------------------------------------
// Known findings

type KnownFile struct {
	Known []KnownEntry `json:"known"`
	Fixed []string     `json:"fixed"`
}
type KnownEntry struct {
	Property string `json:"property"`
	Key      string `json:"key"` // rule/construct
	What     string `json:"what"`
}

func loadKnown(path string) (*KnownFile, error) {
	var kf KnownFile
	b, err := os.ReadFile(path)
	if err != nil {
		if os.IsNotExist(err) {
			return &kf, nil
		}
		return nil, err
	}
	if err := json.Unmarshal(b, &kf); err != nil {
		return nil, err
	}
	return &kf, nil
}

// ---------------------------------------------------------------------------------------------
// Evidence

type Evidence struct {
	PropertyID  string                 `json:"property_id"`
	Tier        string                 `json:"tier"`
	Seed        int                    `json:"seed"`
	Level       string                 `json:"level"`
	Coverage    map[string]interface{} `json:"coverage"`
	Assumptions []string               `json:"assumptions"`
	WallS       float64                `json:"wall_s"`
	Violations  int                    `json:"violations"`
}

func finish(c *Ctx, verifDir string, kf *KnownFile, start time.Time, seed int, extra map[string]interface{}) int {
	known := map[string]KnownEntry{}
	for _, k := range kf.Known {
		if k.Property == c.Prop {
			known[k.Key] = k
		}
	}
	// stable order of the report whatever order the rules' maps were walked in
	sort.SliceStable(c.Obs, func(i, j int) bool {
		if c.Obs[i].Rule != c.Obs[j].Rule {
			return c.Obs[i].Rule < c.Obs[j].Rule
		}
		return c.Obs[i].Construct < c.Obs[j].Construct
	})
	viol := 0
	discharged := 0
	var lines []string
	vdir := filepath.Join(verifDir, "evidence", "violations")
	for i := range c.Obs {
		o := &c.Obs[i]
		switch o.Status {
		case "ok":
			discharged++
		case "violation", "undecided":
			if k, ok := known[o.Key()]; ok {
				o.Status = "known"
				lines = append(lines, fmt.Sprintf("KNOWN-FINDING: property=%s %s — %s", c.Prop, o.Key(), k.What))
				continue
			}
			viol++
			os.MkdirAll(vdir, 0o755)
			name := sanitize(c.Prop + "-" + o.Key())
			rp := filepath.Join(vdir, name+".json")
			rb, _ := json.MarshalIndent(map[string]interface{}{
				"property": c.Prop, "rule": o.Rule, "construct": o.Construct, "status": o.Status, "pos": o.Pos, "detail": o.Detail,
				"rule_text": c.RuleTexts[o.Rule],
				"recheck":   fmt.Sprintf("./run.sh %s %s -only '%s'", c.Prop, c.Tier, o.Key()),
			}, "", " ")
			os.WriteFile(rp, rb, 0o644)
			fmt.Printf("%s: %s %s at %s: %s\n", strings.ToUpper(o.Status), o.Rule, o.Construct, o.Pos, o.Detail)
			lines = append(lines, fmt.Sprintf("VIOLATION property=%s replay=%s", c.Prop, rp))
		}
	}
	for _, l := range lines {
		fmt.Println(l)
	}
	// evidence
	distinct := map[string]bool{}
	perRule := map[string]map[string]int{}
	for _, o := range c.Obs {
		distinct[o.Key()] = true
		if perRule[o.Rule] == nil {
			perRule[o.Rule] = map[string]int{}
		}
		perRule[o.Rule][o.Status]++
	}
	var samples []interface{}
	// sample: up to 3 per rule, plus all non-ok
	cnt := map[string]int{}
	for _, o := range c.Obs {
		if o.Status != "ok" || cnt[o.Rule] < 4 {
			samples = append(samples, o)
			cnt[o.Rule]++
		}
	}
	cov := map[string]interface{}{
		"explanation":         fmt.Sprintf("Static analysis of the type-checked syntax and go/ssa form of /repo's working tree (%d module functions, packages %s and %s). Each obligation is one rule instance on one construct; status ok means the structural fact was established on every path/site the rule quantifies over. Only the structural clauses named in rule_texts are decided, not the behavioural property as a whole (see DESIGN.md section for %s).", len(c.P.Funcs), cmPath, fmtPath, c.Prop),
		"obligations":         len(c.Obs),
		"discharged":          discharged,
		"known_findings":      len(c.Obs) - discharged - viol,
		"evaluations":         len(c.Obs),
		"distinct_nontrivial": len(distinct),
		"rule":                "one evaluation = one rule instance (rule id + construct) decided on the current source; distinct = distinct rule/construct keys; all are non-trivial in that each names a concrete function, field, call site or kind constant found in the tree",
		"samples":             samples,
		"per_rule":            perRule,
		"rule_texts":          c.RuleTexts,
		"analysed":            c.Analysed,
		"lists":               c.Lists,
		"functions_analysed":  len(c.P.Funcs),
		"checker_cmd":         fmt.Sprintf("./run.sh %s %s", c.Prop, c.Tier),
		"trusted_base":        []string{"go/types and go/ssa (golang.org/x/tools v0.29.0)", "oracle tables transcribed in checker source", "external-callee table (DESIGN.md Appendix C)"},
		"exhaustive":          true,
		"goarch":              c.P.GOARCH,
	}
	for k, v := range extra {
		cov[k] = v
	}
	if c.Assumptions == nil {
		c.Assumptions = []string{}
	}
	ev := Evidence{PropertyID: c.Prop, Tier: c.Tier, Seed: seed, Level: "other", Coverage: cov, Assumptions: c.Assumptions, WallS: time.Since(start).Seconds(), Violations: viol}
	b, _ := json.MarshalIndent(ev, "", " ")
	os.MkdirAll(filepath.Join(verifDir, "evidence"), 0o755)
	if c.Only == "" {
		if err := os.WriteFile(filepath.Join(verifDir, "evidence", c.Prop+".json"), b, 0o644); err != nil {
			fmt.Println("cannot write evidence:", err)
			return 2
		}
	}
	fmt.Printf("property=%s tier=%s obligations=%d discharged=%d known=%d violations=%d wall=%.1fs\n", c.Prop, c.Tier, len(c.Obs), discharged, len(c.Obs)-discharged-viol, viol, time.Since(start).Seconds())
	if viol > 0 {
		return 1
	}
	return 0
}

func sanitize(s string) string {
	var b strings.Builder
	for _, r := range s {
		switch {
		case r >= 'a' && r <= 'z', r >= 'A' && r <= 'Z', r >= '0' && r <= '9', r == '-', r == '_', r == '.':
			b.WriteRune(r)
		default:
			b.WriteByte('_')
		}
	}
	out := b.String()
	if len(out) > 150 {
		out = out[:150]
	}
	return out
}

// ---------------------------------------------------------------------------------------------
// small AST helpers shared by rules

// FuncDecls returns all function declarations (non-test) of a package keyed by qualified name.
func FuncDecls(pk *packages.Package) map[string]*ast.FuncDecl {
	out := map[string]*ast.FuncDecl{}
	for _, f := range pk.Syntax {
		for _, d := range f.Decls {
			if fd, ok := d.(*ast.FuncDecl); ok {
				name := fd.Name.Name
				if fd.Recv != nil && len(fd.Recv.List) > 0 {
					name = recvTypeName(fd.Recv.List[0].Type) + "." + name
				}
				out[name] = fd
			}
		}
	}
	return out
}

func recvTypeName(e ast.Expr) string {
	switch t := e.(type) {
	case *ast.StarExpr:
		return recvTypeName(t.X)
	case *ast.Ident:
		return t.Name
	case *ast.IndexExpr:
		return recvTypeName(t.X)
	}
	return "?"
}
