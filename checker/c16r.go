package main

// C16 / C12 — RAW-VIEW-PHASE: code that runs while NUL bytes are still padding does not classify raw bytes.
// CLOSE-AT-LINE-START: a block that is closed because a sibling opens ends at the start of the line.

import (
	"fmt"
	"go/token"
	"go/types"
	"sort"

	"golang.org/x/tools/go/ssa"
)

func ruleRawViewPhase(c *Ctx) {
	c.Rule("RAW-VIEW-PHASE", "Link reference definitions are recognised when their paragraph is closed — before the zero bytes that stand for each NUL of the input are filled in with U+FFFD; the same text in the block's Source (and in a re-parse of it) has U+FFFD there. The two agree only because every scanner reads through inlineByteReader.current(), which presents the padding as U+FFFD. In every function reachable by static calls from the paragraph-close hook that is handed a reader (the reader's own methods aside), a raw view of the bytes — the result of a reader method that returns a byte slice, or the reader's source field — is therefore only measured with len, compared with a constant prefix, or handed as a whole to the character-reference recogniser (a reference contains no NUL either way); its bytes are not indexed, sliced or ranged over. A destination scanned on the raw bytes ends at the first padding byte (a control character), the same destination in the Source does not.")
	p := c.P
	hook := p.Func("onCloseParagraph")
	if !c.NeedFunc("RAW-VIEW-PHASE", hook, "onCloseParagraph") {
		return
	}
	reach := staticReach(p, []*ssa.Function{hook})
	var fns []*ssa.Function
	for f := range reach {
		if f.Pkg != p.CMs {
			continue
		}
		if rv := receiverOf(f); rv != nil && typeName(deref(rv.Type())) == "inlineByteReader" {
			continue
		}
		takes := false
		for _, q := range f.Params {
			if typeName(deref(q.Type())) == "inlineByteReader" {
				takes = true
			}
		}
		if !takes {
			// builds one itself?
			eachInstr(f, func(in ssa.Instruction) {
				if _, _, _, ok := readerCtor(p, in); ok {
					takes = true
				}
			})
		}
		if takes {
			fns = append(fns, f)
		}
	}
	sort.Slice(fns, func(i, j int) bool { return fns[i].String() < fns[j].String() })
	allowedCallee := map[string]bool{"parseCharacterEscape": true}
	n, views := 0, 0
	for _, f := range fns {
		n++
		var bad []string
		var pos token.Pos
		var checkUses func(v ssa.Value, what string, depth int)
		checkUses = func(v ssa.Value, what string, depth int) {
			for _, r := range refsOf(v) {
				switch x := r.(type) {
				case *ssa.DebugRef:
				case *ssa.Call:
					if _, ok := isBuiltinCall(x, "len"); ok {
						continue
					}
					g := x.Call.StaticCallee()
					if g != nil && p.InModule(g) && allowedCallee[g.Name()] {
						continue
					}
					// prefix test against a constant
					constOther := false
					for _, a := range x.Call.Args {
						if a == v {
							continue
						}
						if _, ok := constString(a); ok {
							constOther = true
						}
					}
					if g != nil && constOther && len(x.Call.Args) == 2 {
						continue
					}
					bad = append(bad, what+" handed to "+calleeName(&x.Call))
					pos = x.Pos()
				case *ssa.Phi:
					if depth < 3 {
						checkUses(x, what, depth+1)
					}
				case *ssa.Store:
					// kept in a local: follow the loads
					if al, ok := x.Addr.(*ssa.Alloc); ok && depth < 3 {
						for _, rr := range refsOf(al) {
							if ld, ok := rr.(*ssa.UnOp); ok && ld.Op == token.MUL {
								checkUses(ld, what, depth+1)
							}
						}
						continue
					}
					bad = append(bad, what+" stored")
					pos = x.Pos()
				default:
					if in, ok := r.(ssa.Instruction); ok {
						bad = append(bad, fmt.Sprintf("%s used by %T (bytes read directly)", what, in))
						pos = in.Pos()
					}
				}
			}
		}
		eachInstr(f, func(in ssa.Instruction) {
			switch x := in.(type) {
			case *ssa.Call:
				g := x.Call.StaticCallee()
				if g == nil || !p.InModule(g) || len(x.Call.Args) == 0 || typeName(deref(x.Call.Args[0].Type())) != "inlineByteReader" {
					return
				}
				if rv := receiverOf(g); rv == nil {
					return
				}
				res := g.Signature.Results()
				if res.Len() != 1 {
					return
				}
				if sl, ok := res.At(0).Type().Underlying().(*types.Slice); ok {
					if b, ok := sl.Elem().Underlying().(*types.Basic); ok && b.Kind() == types.Uint8 {
						views++
						checkUses(x, "the raw view "+g.Name()+"()", 0)
					}
				}
			case *ssa.FieldAddr:
				if tn, fld, _ := fieldAddrInfo(x); tn == "inlineByteReader" && fld == "source" {
					bad = append(bad, "the reader's source field is read directly")
					pos = x.Pos()
				}
			}
		})
		if !pos.IsValid() {
			pos = f.Pos()
		}
		sort.Strings(bad)
		c.Check(len(bad) == 0, "RAW-VIEW-PHASE", shortFuncName(f), pos, fmt.Sprintf("%v", bad))
	}
	c.Analysed["block_phase_reader_functions"] = n
	c.Analysed["raw_views_taken"] = views
	if n < 6 {
		c.Undecided("RAW-VIEW-PHASE", "instance-count", token.NoPos, fmt.Sprintf("%d functions that are handed a reader are reachable from the paragraph-close hook; at least 6 confirmed by hand (label, destination, title scanners, white-space and end-of-line scanners, text collection)", n))
	}
}

func ruleCloseAtLineStart(c *Ctx) {
	c.Rule("CLOSE-AT-LINE-START", "When a new block is opened, the blocks it ends (the containers that cannot hold it, and the previous sibling) are closed at the start of the current line (lineParser.lineStart), never at the cursor or at the new block's start: the indentation in front of the new block's marker belongs to the new line, not to the block that ended on the line before — a root block closed at the cursor gets a Source with the next line's indentation at its end, and parses differently on its own.")
	p := c.P
	fn := p.Method("lineParser", "openBlock")
	if !c.NeedFunc("CLOSE-AT-LINE-START", fn, "(*lineParser).openBlock") {
		return
	}
	n := 0
	eachInstr(fn, func(in ssa.Instruction) {
		call, ok := in.(*ssa.Call)
		if !ok {
			return
		}
		g := call.Call.StaticCallee()
		if g == nil || g.Name() != "close" || !p.InModule(g) || len(call.Call.Args) != 4 {
			return
		}
		n++
		_, isLS := isLoadOfField(call.Call.Args[3], "lineParser", "lineStart")
		c.Check(isLS, "CLOSE-AT-LINE-START", fmt.Sprintf("openBlock:close#%d", n), call.Pos(), "the end handed to close is "+describeValue(call.Call.Args[3])+", not the start of the current line")
	})
	if n < 1 {
		c.Undecided("CLOSE-AT-LINE-START", "instance-count", fn.Pos(), "no close call found in openBlock (2 on the reference tree)")
	}
}

func init() {
	addControls(
		Control{Name: "previous-sibling-closed-at-new-block-start", Props: []string{"C16", "C02"}, File: "blocks.go",
			Old: "\tp.container.lastChild().Block().close(p.source, p.container, p.lineStart)\n\tnewChild := &Block{\n\t\tkind: kind,\n\t\tspan: Span{\n\t\t\tStart: p.lineStart + p.i,\n\t\t\tEnd:   -1,\n\t\t},\n\t}\n",
			New: "\tnewChild := &Block{\n\t\tkind: kind,\n\t\tspan: Span{\n\t\t\tStart: p.lineStart + p.i,\n\t\t\tEnd:   -1,\n\t\t},\n\t}\n\tp.container.lastChild().Block().close(p.source, p.container, newChild.span.Start)\n", Expect: "CLOSE-AT-LINE-START/openBlock:close"},
		Control{Name: "destination-scanned-on-raw-node-bytes", Props: []string{"C16", "C12"}, File: "inlines.go",
			Old: "func parseLinkDestination(r *inlineByteReader) linkDestination {\n\tswitch c := r.current(); {", New: "func parseLinkDestination(r *inlineByteReader) linkDestination {\n\tif rest := r.remainingNodeBytes(); len(rest) > 0 && isASCIIControl(rest[0]) {\n\t\treturn linkDestination{span: NullSpan(), text: NullSpan()}\n\t}\n\tswitch c := r.current(); {", Expect: "RAW-VIEW-PHASE/parseLinkDestination"},
	)
}
