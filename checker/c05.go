package main

// C05 — parsed trees obey the documented node grammar: CONTAIN, OPENKIND, MARKER-FIRST, LISTATTR, CS, LEAFKIND.

import (
	"fmt"
	"go/ast"
	"go/constant"
	"go/token"
	"go/types"
	"regexp"
	"sort"
	"strings"

	"golang.org/x/tools/go/ssa"
)

func init() { props["C05"] = checkC05 }

type ruleEntry struct {
	match, onClose, canContain *ssa.Function
	acceptsLines               bool
	pos                        token.Pos
}

func funcValueOf(v ssa.Value) *ssa.Function {
	switch x := v.(type) {
	case *ssa.Function:
		return x
	case *ssa.MakeClosure:
		f, _ := x.Fn.(*ssa.Function)
		return f
	case *ssa.ChangeType:
		return funcValueOf(x.X)
	}
	return nil
}

// The two rule tables are recovered from the typed syntax of their composite literals, so that the representation (map,
// array or slice with constant keys; function literals or named functions) does not matter. Function literals are
// mapped to their SSA functions through Function.Syntax().

func pkgVarLiteral(p *Program, name string) *ast.CompositeLit {
	for _, f := range p.CM.Syntax {
		for _, d := range f.Decls {
			gd, ok := d.(*ast.GenDecl)
			if !ok || gd.Tok != token.VAR {
				continue
			}
			for _, sp := range gd.Specs {
				vs, ok := sp.(*ast.ValueSpec)
				if !ok {
					continue
				}
				for i, nm := range vs.Names {
					if nm.Name == name && i < len(vs.Values) {
						if cl, ok := vs.Values[i].(*ast.CompositeLit); ok {
							return cl
						}
					}
				}
			}
		}
	}
	return nil
}

// ssaFuncOfExpr resolves a function-valued expression of a package-level initialiser to its SSA function.
func ssaFuncOfExpr(p *Program, e ast.Expr) *ssa.Function {
	e = ast.Unparen(e)
	switch x := e.(type) {
	case *ast.FuncLit:
		var found *ssa.Function
		var walk func(f *ssa.Function)
		walk = func(f *ssa.Function) {
			if f == nil || found != nil {
				return
			}
			if f.Syntax() == ast.Node(x) {
				found = f
				return
			}
			for _, a := range f.AnonFuncs {
				walk(a)
			}
		}
		for _, m := range p.CMs.Members {
			if f, ok := m.(*ssa.Function); ok {
				walk(f)
			}
		}
		return found
	case *ast.Ident:
		if obj, ok := p.CM.TypesInfo.Uses[x].(*types.Func); ok {
			return p.CMs.Prog.FuncValue(obj)
		}
	}
	return nil
}

func constKeyOf(p *Program, e ast.Expr) (int64, bool) {
	tv, ok := p.CM.TypesInfo.Types[e]
	if !ok || tv.Value == nil {
		return 0, false
	}
	return constant.Int64Val(constant.ToInt(tv.Value))
}

// blockRulesTable reads the blockRules literal.
func blockRulesTable(p *Program) map[int64]ruleEntry {
	out := map[int64]ruleEntry{}
	cl := pkgVarLiteral(p, "blockRules")
	if cl == nil {
		return out
	}
	for _, el := range cl.Elts {
		kv, ok := el.(*ast.KeyValueExpr)
		if !ok {
			continue
		}
		k, ok := constKeyOf(p, kv.Key)
		if !ok {
			continue
		}
		inner, ok := kv.Value.(*ast.CompositeLit)
		if !ok {
			continue
		}
		e := ruleEntry{pos: kv.Pos()}
		for _, fe := range inner.Elts {
			fkv, ok := fe.(*ast.KeyValueExpr)
			if !ok {
				continue
			}
			id, ok := fkv.Key.(*ast.Ident)
			if !ok {
				continue
			}
			switch id.Name {
			case "match":
				e.match = ssaFuncOfExpr(p, fkv.Value)
			case "onClose":
				e.onClose = ssaFuncOfExpr(p, fkv.Value)
			case "canContain":
				e.canContain = ssaFuncOfExpr(p, fkv.Value)
			case "acceptsLines":
				if tv, ok := p.CM.TypesInfo.Types[fkv.Value]; ok && tv.Value != nil && tv.Value.Kind() == constant.Bool {
					e.acceptsLines = constant.BoolVal(tv.Value)
				}
			}
		}
		out[k] = e
	}
	return out
}

// blockStartFuncs reads the blockStarts literal (in order).
func blockStartFuncs(p *Program) []*ssa.Function {
	var out []*ssa.Function
	cl := pkgVarLiteral(p, "blockStarts")
	if cl == nil {
		return out
	}
	for _, el := range cl.Elts {
		if kv, ok := el.(*ast.KeyValueExpr); ok {
			el = kv.Value
		}
		if f := ssaFuncOfExpr(p, el); f != nil {
			out = append(out, f)
		}
	}
	return out
}

func blockKindName(p *Program, v int64) string {
	t := p.NamedType("BlockKind")
	if t == nil {
		return fmt.Sprint(v)
	}
	return kindName(p, t, v)
}

func inlineKindName(p *Program, v int64) string {
	t := p.NamedType("InlineKind")
	if t == nil {
		return fmt.Sprint(v)
	}
	return kindName(p, t, v)
}

func kindValue(p *Program, typ, name string) (int64, bool) {
	k, ok := p.CM.Types.Scope().Lookup(name).(*types.Const)
	if !ok {
		return 0, false
	}
	return constInt64Of(k)
}

// lineParser API call: method on *lineParser
func lpCall(in ssa.Instruction) (*ssa.Call, string) {
	call, ok := in.(*ssa.Call)
	if !ok {
		return nil, ""
	}
	f := call.Call.StaticCallee()
	if f == nil || f.Signature.Recv() == nil || typeName(f.Signature.Recv().Type()) != "lineParser" {
		return nil, ""
	}
	return call, f.Name()
}

func checkC05(c *Ctx) {
	ruleContain(c)
	ruleOpenKind(c)
	ruleMarkerFirst(c)
	ruleListAttr(c)
	ruleCS(c)
	ruleLeafKind(c)
	ruleLinkDeactivate(c)
	ruleDeactivateRange(c)
	ruleUnparsedReuse(c)
	ruleUnparsedScan(c)
	ruleLooseAgree(c)
	ruleEmphClear(c)
	ruleUnparsedReturn(c)
	c.Assume("delimiter-stack dependent clauses (no unparsed node remains, no link contains a link), numeric accessor ranges and wrap's slicing of existing children are not decided")
}

func ruleContain(c *Ctx) {
	c.Rule("CONTAIN", "From the exact accept sets of the canContain closures in blockRules (BSET): (a) a List accepts exactly {ListItem}; (b) list items occur only in lists: every other container's canContain rejects ListItem, or every OpenListBlock(ListItemKind, …) call is dominated by the container-is-a-List guard; (c) every other container accepts every block kind that is ever opened except ListItem.")
	p := c.P
	tab := blockRulesTable(p)
	if len(tab) < 8 {
		c.Undecided("CONTAIN", "blockRules", token.NoPos, fmt.Sprintf("only %d entries of blockRules recovered from the initialiser", len(tab)))
		return
	}
	bs := newBSET(p)
	listK, _ := kindValue(p, "BlockKind", "ListKind")
	itemK, _ := kindValue(p, "BlockKind", "ListItemKind")
	accept := map[int64]map[int64]bool{}
	var containers []int64
	for k, e := range tab {
		if e.canContain == nil {
			continue
		}
		t := bs.Table(e.canContain)
		if t.why != "" {
			c.Undecided("CONTAIN", "canContain["+blockKindName(p, k)+"]", e.canContain.Pos(), "not analysable: "+t.why)
			continue
		}
		containers = append(containers, k)
		accept[k] = map[int64]bool{}
		for i, d := range t.domain {
			if t.res[i].kind == oRet && t.res[i].val != 0 {
				accept[k][d] = true
			}
		}
	}
	sort.Slice(containers, func(i, j int) bool { return containers[i] < containers[j] })
	// (a)
	if acc, ok := accept[listK]; ok {
		var names []string
		for d := range acc {
			names = append(names, blockKindName(p, d))
		}
		sort.Strings(names)
		c.Check(len(acc) == 1 && acc[itemK], "CONTAIN", "canContain[ListKind]", tab[listK].canContain.Pos(), "a List must accept exactly ListItemKind; accepts {"+strings.Join(names, ", ")+"}")
	} else {
		c.Viol("CONTAIN", "canContain[ListKind]", tab[listK].pos, "ListKind has no canContain: it could not hold items")
	}
	// opened kinds
	opened := map[int64]bool{}
	for _, fn := range p.Funcs {
		eachInstr(fn, func(in ssa.Instruction) {
			if call, name := lpCall(in); call != nil {
				switch name {
				case "OpenBlock", "OpenListBlock", "OpenHeadingBlock":
					if k, ok := constInt(call.Call.Args[1]); ok {
						opened[k] = true
					}
				case "OpenFencedCodeBlock":
					if k, ok := kindValue(p, "BlockKind", "FencedCodeBlockKind"); ok {
						opened[k] = true
					}
				case "OpenHTMLBlock":
					if k, ok := kindValue(p, "BlockKind", "HTMLBlockKind"); ok {
						opened[k] = true
					}
				}
			}
		})
	}
	// (b) + (c)
	b1 := true
	for _, k := range containers {
		if k == listK {
			continue
		}
		if accept[k][itemK] {
			b1 = false
		}
		var missing []string
		for o := range opened {
			if o != itemK && !accept[k][o] {
				missing = append(missing, blockKindName(p, o))
			}
		}
		sort.Strings(missing)
		c.Check(len(missing) == 0, "CONTAIN", "canContain["+blockKindName(p, k)+"]:accepts-openable", tab[k].canContain.Pos(), "container rejects block kinds that block starts open inside it: "+strings.Join(missing, ", "))
	}
	b2 := true
	nItemOpens := 0
	for _, fn := range p.Funcs {
		eachInstr(fn, func(in ssa.Instruction) {
			call, name := lpCall(in)
			if call == nil || name != "OpenListBlock" {
				return
			}
			if k, ok := constInt(call.Call.Args[1]); !ok || k != itemK {
				return
			}
			nItemOpens++
			if !listGuardPrecedes(p, fn, call, listK) {
				b2 = false
			}
		})
	}
	c.Check(b1 || (b2 && nItemOpens > 0), "CONTAIN", "items-only-in-lists", token.NoPos, fmt.Sprintf("neither safeguard holds: other containers reject ListItem = %v; every item is opened right after ensuring the container is a List = %v", b1, b2))
	var leaves []string
	for k, e := range tab {
		if e.canContain == nil {
			leaves = append(leaves, blockKindName(p, k))
		}
	}
	sort.Strings(leaves)
	c.Lists["leaf_block_kinds"] = leaves
}

// listGuardPrecedes: on every path to `call` either the container was tested to be a List (ContainerKind() == ListKind edge)
// or OpenListBlock(ListKind, …) was just executed.
func listGuardPrecedes(p *Program, fn *ssa.Function, call *ssa.Call, listK int64) bool {
	// find an If whose condition (possibly an || chain) tests ContainerKind() != ListKind leading to OpenListBlock(ListKind)
	var listOpen *ssa.Call
	eachInstr(fn, func(in ssa.Instruction) {
		if cl, name := lpCall(in); cl != nil && name == "OpenListBlock" {
			if k, ok := constInt(cl.Call.Args[1]); ok && k == listK {
				listOpen = cl
			}
		}
	})
	if listOpen == nil {
		return false
	}
	// every path from entry to call must pass through listOpen, or through the "== ListKind" edge of a ContainerKind test
	isGuardEdge := func(b *ssa.BasicBlock, si int) bool {
		iff := blockIf(b)
		if iff == nil {
			return false
		}
		bo, ok := iff.Cond.(*ssa.BinOp)
		if !ok || (bo.Op != token.EQL && bo.Op != token.NEQ) {
			return false
		}
		k, ok := constInt(bo.Y)
		if !ok || k != listK {
			return false
		}
		cl, ok := bo.X.(*ssa.Call)
		if !ok || cl.Call.StaticCallee() == nil || cl.Call.StaticCallee().Name() != "ContainerKind" {
			return false
		}
		eqIdx := 0
		if bo.Op == token.NEQ {
			eqIdx = 1
		}
		return si == eqIdx
	}
	seen := map[*ssa.BasicBlock]bool{}
	ok := true
	var walk func(b *ssa.BasicBlock)
	walk = func(b *ssa.BasicBlock) {
		if seen[b] || !ok {
			return
		}
		seen[b] = true
		for _, in := range b.Instrs {
			if in == ssa.Instruction(listOpen) {
				return // guarded from here on
			}
			if in == ssa.Instruction(call) {
				ok = false
				return
			}
		}
		for si, s := range b.Succs {
			if isGuardEdge(b, si) {
				continue
			}
			walk(s)
		}
	}
	walk(fn.Blocks[0])
	return ok
}

func ruleOpenKind(c *Ctx) {
	c.Rule("OPENKIND", "All call sites of OpenBlock, OpenListBlock, OpenHeadingBlock pass constant kinds outside the callee's panic set (derived from the callee's own kind guard by BSET); openBlock is called only from the Open* wrappers.")
	p := c.P
	bs := newBSET(p)
	bs.lenient = true
	n := 0
	for _, fn := range p.Funcs {
		eachInstr(fn, func(in ssa.Instruction) {
			call, name := lpCall(in)
			if call == nil {
				return
			}
			switch name {
			case "OpenBlock", "OpenListBlock", "OpenHeadingBlock":
				n++
				key := fmt.Sprintf("%s→%s#%d", shortFuncName(fn), name, n)
				k, ok := constInt(call.Call.Args[1])
				if !ok {
					c.Viol("OPENKIND", key, in.Pos(), "kind argument is not a constant")
					return
				}
				callee := call.Call.StaticCallee()
				var kp *ssa.Parameter
				if len(callee.Params) > 1 {
					kp = callee.Params[1]
				}
				t := bs.TableParam(callee, kp)
				if t.why != "" {
					c.Undecided("OPENKIND", key, in.Pos(), "kind guard of "+name+" not analysable: "+t.why)
					return
				}
				o, found := t.lookup(k)
				c.Check(found && o.kind != oPanic, "OPENKIND", key, in.Pos(), fmt.Sprintf("%s(%s) panics: kind outside the callee's accepted set", name, blockKindName(p, k)))
			case "openBlock":
				caller := fn.Name()
				okCaller := strings.HasPrefix(caller, "Open") && fn.Signature.Recv() != nil && typeName(fn.Signature.Recv().Type()) == "lineParser"
				c.Check(okCaller, "OPENKIND", "openBlock←"+shortFuncName(fn), in.Pos(), "openBlock must be reached only through the kind-checking Open* wrappers")
			}
		})
	}
	if n < 1 {
		c.Undecided("OPENKIND", "instance-count", token.NoPos, fmt.Sprintf("%d Open* call sites found; every call of the block-opening API in the module is inspected", n))
	}
}

func ruleMarkerFirst(c *Ctx) {
	c.Rule("MARKER-FIRST", "The call OpenListBlock(ListItemKind, …) is followed on every path by OpenBlock(ListMarkerKind) … EndBlock() before any other block-opening, line-consuming or text-collecting call, and it is the only site that opens a ListItem or a ListMarker.")
	p := c.P
	itemK, _ := kindValue(p, "BlockKind", "ListItemKind")
	markK, _ := kindValue(p, "BlockKind", "ListMarkerKind")
	var itemOpens, markOpens []*ssa.Call
	for _, fn := range p.Funcs {
		eachInstr(fn, func(in ssa.Instruction) {
			call, name := lpCall(in)
			if call == nil {
				return
			}
			if name == "OpenListBlock" {
				if k, ok := constInt(call.Call.Args[1]); ok && k == itemK {
					itemOpens = append(itemOpens, call)
				}
			}
			if name == "OpenBlock" {
				if k, ok := constInt(call.Call.Args[1]); ok && k == markK {
					markOpens = append(markOpens, call)
				}
			}
		})
	}
	c.Check(len(itemOpens) == 1 && len(markOpens) == 1 && itemOpens[0].Parent() == markOpens[0].Parent(), "MARKER-FIRST", "single-site", token.NoPos, fmt.Sprintf("%d sites open a ListItem and %d open a ListMarker; exactly one of each, in the same block start, is expected", len(itemOpens), len(markOpens)))
	for i, io := range itemOpens {
		// state machine along all paths from io: 0 = expecting OpenBlock(marker); 1 = inside marker; 2 = done
		okAll := true
		why := ""
		type st struct {
			b *ssa.BasicBlock
			s int
		}
		seen := map[st]bool{}
		var walk func(b *ssa.BasicBlock, from int, s int)
		walk = func(b *ssa.BasicBlock, from int, s int) {
			if !okAll {
				return
			}
			for _, in := range b.Instrs[from:] {
				call, name := lpCall(in)
				if call == nil {
					if _, isRet := in.(*ssa.Return); isRet && s != 2 {
						okAll, why = false, "the block start can return before the marker block is opened and closed"
					}
					continue
				}
				switch s {
				case 0:
					k, isConst := int64(0), false
					if name == "OpenBlock" {
						k, isConst = constInt(call.Call.Args[1])
					}
					if name == "OpenBlock" && isConst && k == markK {
						s = 1
					} else if mutatingLP[name] {
						okAll, why = false, name+" is called on the new item before its marker block is opened"
						return
					}
				case 1:
					if name == "EndBlock" {
						s = 2
					} else if name != "Advance" && mutatingLP[name] {
						okAll, why = false, name+" is called while the marker block is open"
						return
					}
				}
				if s == 2 {
					return
				}
			}
			for _, sc := range b.Succs {
				k := st{sc, s}
				if !seen[k] {
					seen[k] = true
					walk(sc, 0, s)
				}
			}
		}
		walk(io.Block(), instrIndex(io)+1, 0)
		if why == "" {
			why = "marker block opened first and closed before anything else"
		}
		c.Check(okAll, "MARKER-FIRST", fmt.Sprintf("%s:item#%d", shortFuncName(io.Parent()), i+1), io.Pos(), why)
	}
}

var mutatingLP = map[string]bool{
	"OpenBlock": true, "OpenListBlock": true, "OpenHeadingBlock": true, "OpenFencedCodeBlock": true, "OpenHTMLBlock": true,
	"CollectInline": true, "ConsumeLine": true, "EndBlock": true, "SetContainerIndent": true, "MorphSetext": true, "Advance": true, "ConsumeIndent": true,
}

func ruleListAttr(c *Ctx) {
	c.Rule("LISTATTR", "The delimiter passed when a ListItem is opened is the same value that is passed when its List is opened and that is compared with the container's delimiter; Block.listLoose is written only inside blockRules[ListKind].onClose, where items are marked loose only under the list's own flag.")
	p := c.P
	itemK, _ := kindValue(p, "BlockKind", "ListItemKind")
	listK, _ := kindValue(p, "BlockKind", "ListKind")
	for _, fn := range p.Funcs {
		var item, list *ssa.Call
		eachInstr(fn, func(in ssa.Instruction) {
			if call, name := lpCall(in); call != nil && name == "OpenListBlock" {
				if k, ok := constInt(call.Call.Args[1]); ok {
					if k == itemK {
						item = call
					}
					if k == listK {
						list = call
					}
				}
			}
		})
		if item == nil {
			continue
		}
		d := item.Call.Args[2]
		okList := list != nil && sameValueDeep(list.Call.Args[2], d)
		c.Check(okList, "LISTATTR", shortFuncName(fn)+":list-delim", item.Pos(), "the List and its ListItem must be opened with the same delimiter value")
		cmp := false
		eachInstr(fn, func(in ssa.Instruction) {
			if bo, ok := in.(*ssa.BinOp); ok && (bo.Op == token.EQL || bo.Op == token.NEQ) {
				for _, pair := range [][2]ssa.Value{{bo.X, bo.Y}, {bo.Y, bo.X}} {
					if cl, ok := pair[0].(*ssa.Call); ok && cl.Call.StaticCallee() != nil && cl.Call.StaticCallee().Name() == "ContainerListDelim" && sameValueDeep(pair[1], d) {
						cmp = true
					}
				}
			}
		})
		c.Check(cmp, "LISTATTR", shortFuncName(fn)+":container-delim", item.Pos(), "an existing List is reused only after comparing its delimiter with the item's")
	}
	// listLoose writers
	tab := blockRulesTable(p)
	onClose := tab[listK].onClose
	n := 0
	for _, fn := range p.Funcs {
		eachInstr(fn, func(in ssa.Instruction) {
			st, ok := in.(*ssa.Store)
			if !ok {
				return
			}
			if _, ok := isFieldAddr(st.Addr, "Block", "listLoose"); !ok {
				return
			}
			n++
			inside := false
			for f := fn; f != nil; f = f.Parent() {
				if f == onClose {
					inside = true
				}
			}
			c.Check(inside && onClose != nil, "LISTATTR", fmt.Sprintf("listLoose-writer:%s#%d", shortFuncName(fn), n), st.Pos(), "listLoose may be written only by the List's onClose rule")
		})
	}
	if onClose != nil {
		// item.listLoose = true only under block.listLoose
		eachInstr(onClose, func(in ssa.Instruction) {
			st, ok := in.(*ssa.Store)
			if !ok {
				return
			}
			fa, ok := isFieldAddr(st.Addr, "Block", "listLoose")
			if !ok {
				return
			}
			if _, isParam := fa.X.(*ssa.Parameter); isParam {
				return // the list itself
			}
			guarded := false
			for _, b := range onClose.Blocks {
				if iff := blockIf(b); iff != nil {
					if fa2, ok := isLoadOfField(stripNot(iff.Cond), "Block", "listLoose"); ok {
						if _, isParam := fa2.X.(*ssa.Parameter); isParam {
							idx := 0
							if isNegated(iff.Cond) {
								idx = 1
							}
							if edgeDominates(b, idx, st.Block()) {
								guarded = true
							}
						}
					}
				}
			}
			c.Check(guarded, "LISTATTR", "items-loose-iff-list", st.Pos(), "an item is marked loose only when its list is")
		})
	}
}

// ---------------------------------------------------------------------------------------------
// CS: construction sequences

type csEvent struct {
	kind string
	in   ssa.Instruction
}

// childAppends: append events onto field `field` of node `node` (value identity), with the child's constant kinds.
func childAppendKinds(p *Program, in ssa.Instruction, node ssa.Value, fields ...string) ([]string, bool) {
	call, ok := in.(*ssa.Call)
	if !ok {
		return nil, false
	}
	if _, ok := isBuiltinCall(call, "append"); !ok {
		return nil, false
	}
	match := false
	for _, f := range fields {
		for _, typ := range []string{"Block", "Inline"} {
			if fa, ok := isLoadOfField(call.Call.Args[0], typ, f); ok && fa.X == node {
				match = true
			}
		}
	}
	if !match {
		return nil, false
	}
	var kinds []string
	for _, e := range varargElems(call) {
		al, ok := e.(*ssa.Alloc)
		if !ok {
			// a node built by a constructor helper: every result of the helper is one fresh allocation whose kind field
			// holds one of the helper's parameters; the kind is the constant passed at this call
			if k, ok := constructorCallKind(p, e); ok {
				kinds = append(kinds, strings.TrimSuffix(inlineKindName(p, k), "Kind"))
				continue
			}
			kinds = append(kinds, "?")
			continue
		}
		ks := allocKindValues(al)
		if len(ks) != 1 {
			kinds = append(kinds, "?")
			continue
		}
		if cv, ok := constInt(ks[0]); ok {
			kinds = append(kinds, strings.TrimSuffix(inlineKindName(p, cv), "Kind"))
		} else {
			kinds = append(kinds, "?")
		}
	}
	return kinds, true
}

// sequencesBetween enumerates the child-kind sequences appended to node on acyclic paths from `from` to any instruction in `to`.
func sequencesBetween(p *Program, from ssa.Instruction, to func(ssa.Instruction) bool, node ssa.Value, fields ...string) map[string]bool {
	out := map[string]bool{}
	fn := from.Parent()
	visits := make([]int, len(fn.Blocks))
	budget := 200000
	var walk func(b *ssa.BasicBlock, start int, seq []string)
	walk = func(b *ssa.BasicBlock, start int, seq []string) {
		if budget <= 0 {
			return
		}
		budget--
		for _, in := range b.Instrs[start:] {
			if in != from && to(in) {
				out[strings.Join(seq, " ")] = true
				return
			}
			if ks, ok := childAppendKinds(p, in, node, fields...); ok {
				seq = append(append([]string{}, seq...), ks...)
			}
		}
		for _, s := range b.Succs {
			if s == from.Block() || visits[s.Index] >= 1 {
				continue
			}
			visits[s.Index]++
			walk(s, 0, seq)
			visits[s.Index]--
		}
	}
	walk(from.Block(), instrIndex(from)+1, nil)
	if budget <= 0 {
		out["<budget exceeded>"] = true
	}
	return out
}

func ruleCS(c *Ctx) {
	c.Rule("CS", "Construction sequences: for every allocation of a node with constant kind K whose children are appended before the node is published, the sequence of child kinds on every acyclic path from allocation to publication matches K's documented grammar — LinkReferenceDefinition: LinkLabel LinkDestination LinkTitle?; Link/Image after wrap: (LinkDestination? LinkTitle?) | LinkLabel | ε; Autolink: exactly one Text.")
	p := c.P
	// 1. LinkReferenceDefinition
	lrdK, _ := kindValue(p, "BlockKind", "LinkReferenceDefinitionKind")
	nLRD := 0
	lrdRe := regexp.MustCompile(`^LinkLabel LinkDestination( LinkTitle)?$`)
	for _, fn := range p.Funcs {
		eachInstr(fn, func(in ssa.Instruction) {
			al, ok := in.(*ssa.Alloc)
			if !ok || typeName(deref(al.Type())) != "Block" {
				return
			}
			ks := allocKindValues(al)
			if len(ks) != 1 {
				return
			}
			if k, ok := constInt(ks[0]); !ok || k != lrdK {
				return
			}
			nLRD++
			// publication: append of the node pointer to a []*Block
			isPub := func(x ssa.Instruction) bool {
				call, ok := x.(*ssa.Call)
				if !ok {
					return false
				}
				if _, ok := isBuiltinCall(call, "append"); !ok {
					return false
				}
				for _, e := range varargElems(call) {
					if e == ssa.Value(al) {
						return true
					}
				}
				return false
			}
			// the first store into the node marks the start
			seqs := sequencesBetween(p, al, isPub, al, "inlineChildren", "blockChildren")
			var bad []string
			var all []string
			for s := range seqs {
				all = append(all, "["+s+"]")
				if !lrdRe.MatchString(s) {
					bad = append(bad, "["+s+"]")
				}
			}
			sort.Strings(all)
			sort.Strings(bad)
			if len(seqs) == 0 {
				c.Viol("CS", fmt.Sprintf("%s:LinkReferenceDefinition#%d", shortFuncName(fn), nLRD), al.Pos(), "definition node is never published")
				return
			}
			c.Check(len(bad) == 0, "CS", fmt.Sprintf("%s:LinkReferenceDefinition#%d", shortFuncName(fn), nLRD), al.Pos(), fmt.Sprintf("child sequences %s; not matching label destination title?: %s", strings.Join(all, " "), strings.Join(bad, " ")))
		})
	}
	if nLRD < 1 {
		c.Undecided("CS", "LinkReferenceDefinition", token.NoPos, "no allocation of a LinkReferenceDefinition block found")
	}
	// 2. Link / Image after wrap
	wrap := p.Method("inlineState", "wrap")
	linkK, _ := kindValue(p, "InlineKind", "LinkKind")
	imageK, _ := kindValue(p, "InlineKind", "ImageKind")
	linkRe := regexp.MustCompile(`^(|LinkDestination|LinkTitle|LinkDestination LinkTitle|LinkLabel)$`)
	nWrap := 0
	if wrap != nil {
		for _, fn := range p.Funcs {
			eachInstr(fn, func(in ssa.Instruction) {
				call, ok := in.(*ssa.Call)
				if !ok || call.Call.StaticCallee() != wrap {
					return
				}
				// kind argument: the constants it may hold (through phis and, for a helper's parameter, its call sites)
				kset, known := constSetOf(p, call.Call.Args[1])
				if !known {
					c.Undecided("CS", fmt.Sprintf("%s:wrap-kind", shortFuncName(fn)), call.Pos(), "the kind passed to wrap is not a compile-time constant on every path")
					return
				}
				if !kset[linkK] && !kset[imageK] {
					return
				}
				nWrap++
				isEnd := func(x ssa.Instruction) bool {
					switch y := x.(type) {
					case *ssa.Return:
						return true
					case *ssa.Call:
						return y.Call.StaticCallee() != nil && y.Call.StaticCallee().Name() == "finishLink"
					}
					return false
				}
				seqs := sequencesBetween(p, call, isEnd, call, "children")
				var bad, all []string
				for s := range seqs {
					all = append(all, "["+s+"]")
					if !linkRe.MatchString(s) {
						bad = append(bad, "["+s+"]")
					}
				}
				sort.Strings(all)
				sort.Strings(bad)
				c.Check(len(bad) == 0 && len(seqs) > 0, "CS", fmt.Sprintf("%s:Link/Image#%d", shortFuncName(fn), nWrap), call.Pos(), fmt.Sprintf("trailing child sequences %s; not matching [destination][title] | label | nothing: %s", strings.Join(all, " "), strings.Join(bad, " ")))
			})
		}
	}
	if nWrap < 1 {
		c.Undecided("CS", "Link/Image", token.NoPos, fmt.Sprintf("%d wrap(Link|Image) sites found; every call of wrap in the module is inspected, at least one must create a link or image", nWrap))
	}
	// 3. Autolink literal
	autoK, _ := kindValue(p, "InlineKind", "AutolinkKind")
	textK, _ := kindValue(p, "InlineKind", "TextKind")
	nAuto := 0
	for _, fn := range p.Funcs {
		eachInstr(fn, func(in ssa.Instruction) {
			al, ok := in.(*ssa.Alloc)
			if !ok || typeName(deref(al.Type())) != "Inline" {
				return
			}
			ks := allocKindValues(al)
			if len(ks) != 1 {
				return
			}
			if k, ok := constInt(ks[0]); !ok || k != autoK {
				return
			}
			nAuto++
			// children store
			var kids []string
			for _, r := range refsOf(al) {
				fa, ok := r.(*ssa.FieldAddr)
				if !ok {
					continue
				}
				if _, f, _ := fieldAddrInfo(fa); f != "children" {
					continue
				}
				for _, rr := range refsOf(fa) {
					st, ok := rr.(*ssa.Store)
					if !ok {
						continue
					}
					if sl, ok := st.Val.(*ssa.Slice); ok {
						if arr, ok := sl.X.(*ssa.Alloc); ok {
							for _, r3 := range refsOf(arr) {
								if ia, ok := r3.(*ssa.IndexAddr); ok {
									for _, r4 := range refsOf(ia) {
										if s4, ok := r4.(*ssa.Store); ok {
											if child, ok := s4.Val.(*ssa.Alloc); ok {
												for _, kv := range allocKindValues(child) {
													if k, ok := constInt(kv); ok {
														kids = append(kids, inlineKindName(p, k))
													}
												}
											}
										}
									}
								}
							}
						}
					}
				}
			}
			c.Check(len(kids) == 1 && kids[0] == inlineKindName(p, textK), "CS", fmt.Sprintf("%s:Autolink#%d", shortFuncName(fn), nAuto), al.Pos(), "an Autolink must be built with exactly one Text child; got ["+strings.Join(kids, " ")+"]")
		})
	}
	if nAuto < 1 {
		c.Undecided("CS", "Autolink", token.NoPos, "no Autolink literal found")
	}
}

func ruleLeafKind(c *Ctx) {
	c.Rule("LEAFKIND", "The inline kind addLineText gives a line is TextKind under IsCode(), RawHTMLKind under HTMLBlockKind and UnparsedKind otherwise; CollectInline call sites pass constant kinds compatible with the block they follow (ATX heading → Unparsed, fenced code → InfoString, HTML block → RawHTML); Inline literals in the inline parser never have UnparsedKind, and InfoStringKind only in parseInfoString.")
	p := c.P
	fn := p.Func("addLineText")
	if c.NeedFunc("LEAFKIND", fn, "addLineText") {
		bk := func(n string) int64 { v, _ := kindValue(p, "BlockKind", n); return v }
		ik := func(n string) int64 { v, _ := kindValue(p, "InlineKind", n); return v }
		// path-condition on ContainerKind(): for each block kind that accepts lines, the kind stored into the line's leaf
		isSym := func(v ssa.Value) bool {
			cl, ok := v.(*ssa.Call)
			return ok && cl.Call.StaticCallee() != nil && cl.Call.StaticCallee().Name() == "ContainerKind"
		}
		bs := newBSET(p)
		dom, _ := bs.domainFor(p.NamedType("BlockKind"))
		want := map[int64]int64{}
		for _, d := range dom {
			switch d {
			case bk("IndentedCodeBlockKind"), bk("FencedCodeBlockKind"):
				want[d] = ik("TextKind")
			case bk("HTMLBlockKind"):
				want[d] = ik("RawHTMLKind")
			case bk("ParagraphKind"), bk("ATXHeadingKind"), bk("SetextHeadingKind"):
				want[d] = ik("UnparsedKind")
			}
		}
		// find the leaf literal whose kind is a phi (the line's text node)
		var kindPhi ssa.Value
		eachInstr(fn, func(in ssa.Instruction) {
			if al, ok := in.(*ssa.Alloc); ok && typeName(deref(al.Type())) == "Inline" {
				for _, kv := range allocKindValues(al) {
					if _, isConst := kv.(*ssa.Const); !isConst {
						kindPhi = kv
					}
				}
			}
		})
		if kindPhi == nil {
			c.Undecided("LEAFKIND", "addLineText:kind", fn.Pos(), "the line's leaf kind is not selected by a phi of constants")
		} else {
			for _, d := range dom {
				w, ok := want[d]
				if !ok {
					continue
				}
				// evaluate kindPhi along every path feasible for ContainerKind()==d: enumerate values
				got := phiValuesUnder(bs, fn, isSym, d, kindPhi)
				var names []string
				okAll := len(got) > 0
				for v := range got {
					names = append(names, inlineKindName(p, v))
					if v != w {
						okAll = false
					}
				}
				sort.Strings(names)
				c.Check(okAll, "LEAFKIND", "addLineText["+blockKindName(p, d)+"]", fn.Pos(), fmt.Sprintf("line leaf kind(s) {%s}, documented %s", strings.Join(names, ","), inlineKindName(p, w)))
			}
		}
	}
	// every other leaf addLineText creates (constant kind): allowed under the container kinds for which it is reachable
	if fn != nil && fn.Blocks != nil {
		bk := func(n string) int64 { v, _ := kindValue(p, "BlockKind", n); return v }
		ik := func(n string) int64 { v, _ := kindValue(p, "InlineKind", n); return v }
		isSym := func(v ssa.Value) bool {
			cl, ok := v.(*ssa.Call)
			return ok && cl.Call.StaticCallee() != nil && cl.Call.StaticCallee().Name() == "ContainerKind"
		}
		allowed := map[int64]map[int64]bool{
			bk("IndentedCodeBlockKind"): {ik("TextKind"): true, ik("IndentKind"): true, ik("SoftLineBreakKind"): true},
			bk("FencedCodeBlockKind"):   {ik("TextKind"): true, ik("IndentKind"): true, ik("SoftLineBreakKind"): true},
			bk("HTMLBlockKind"):         {ik("RawHTMLKind"): true, ik("IndentKind"): true},
			bk("ParagraphKind"):         {ik("UnparsedKind"): true, ik("IndentKind"): true},
			bk("ATXHeadingKind"):        {ik("UnparsedKind"): true, ik("IndentKind"): true},
			bk("SetextHeadingKind"):     {ik("UnparsedKind"): true, ik("IndentKind"): true},
		}
		bs := newBSET(p)
		dom, _ := bs.domainFor(p.NamedType("BlockKind"))
		reach := bs.reachUnderSym(fn, isSym, dom)
		na := 0
		eachInstr(fn, func(in ssa.Instruction) {
			al, ok := in.(*ssa.Alloc)
			if !ok || typeName(deref(al.Type())) != "Inline" {
				return
			}
			ks := allocKindValues(al)
			if len(ks) != 1 {
				return
			}
			k, isC := constInt(ks[0])
			if !isC {
				return
			}
			na++
			var bad []string
			for d := range reach[al.Block()] {
				if set, ok := allowed[d]; ok && !set[k] {
					bad = append(bad, blockKindName(p, d))
				}
			}
			sort.Strings(bad)
			c.Check(len(bad) == 0, "LEAFKIND", fmt.Sprintf("addLineText:%s#%d", inlineKindName(p, k), na), al.Pos(),
				fmt.Sprintf("a %s leaf is added to blocks whose documented children do not include it: %s", inlineKindName(p, k), strings.Join(bad, ", ")))
		})
	}
	// CollectInline call sites
	compat := map[string]string{"OpenHeadingBlock": "UnparsedKind", "OpenFencedCodeBlock": "InfoStringKind", "OpenHTMLBlock": "RawHTMLKind"}
	n := 0
	tab := blockRulesTable(p)
	matchOwner := map[*ssa.Function]int64{}
	for k, e := range tab {
		if e.match != nil {
			matchOwner[e.match] = k
		}
	}
	for _, fn := range p.Funcs {
		eachInstr(fn, func(in ssa.Instruction) {
			call, name := lpCall(in)
			if call == nil || name != "CollectInline" {
				return
			}
			n++
			key := fmt.Sprintf("%s:CollectInline#%d", shortFuncName(fn), n)
			k, ok := constInt(call.Call.Args[1])
			if !ok {
				c.Viol("LEAFKIND", key, in.Pos(), "inline kind is not a constant")
				return
			}
			kname := inlineKindName(p, k)
			// most recent Open* call dominating this one in the same function
			var opener string
			eachInstr(fn, func(x ssa.Instruction) {
				if cl, nm := lpCall(x); cl != nil && strings.HasPrefix(nm, "Open") && x.Block().Dominates(in.Block()) && (x.Block() != in.Block() || instrBefore(x, in)) {
					opener = nm
				}
			})
			if opener != "" {
				want, known := compat[opener]
				c.Check(known && want == kname, "LEAFKIND", key, in.Pos(), fmt.Sprintf("%s collected right after %s; documented leaf kind %s", kname, opener, want))
				return
			}
			if owner, ok := matchOwner[fn]; ok {
				want := map[string]string{"HTMLBlockKind": "RawHTMLKind"}[blockKindName(p, owner)]
				c.Check(want == kname, "LEAFKIND", key, in.Pos(), fmt.Sprintf("%s collected while continuing a %s; documented leaf kind %s", kname, blockKindName(p, owner), want))
				return
			}
			c.Undecided("LEAFKIND", key, in.Pos(), "CollectInline outside a recognised block rule")
		})
	}
	if n < 1 {
		c.Undecided("LEAFKIND", "instance-count", token.NoPos, fmt.Sprintf("%d CollectInline sites found; every call in the module is inspected", n))
	}
	// Inline literals in the inline phase
	unp, _ := kindValue(p, "InlineKind", "UnparsedKind")
	info, _ := kindValue(p, "InlineKind", "InfoStringKind")
	for _, fn := range p.Funcs {
		inInlinePhase := false
		if fn.Signature.Recv() != nil {
			switch typeName(fn.Signature.Recv().Type()) {
			case "InlineParser", "inlineState":
				inInlinePhase = true
			}
		}
		switch fn.Name() {
		case "collectTextNodes", "parseInfoString":
			inInlinePhase = true
		}
		if !inInlinePhase {
			continue
		}
		eachInstr(fn, func(in ssa.Instruction) {
			al, ok := in.(*ssa.Alloc)
			if !ok || typeName(deref(al.Type())) != "Inline" {
				return
			}
			for _, kv := range allocKindValues(al) {
				vals := constValuesOf(kv)
				for _, k := range vals {
					if k == unp {
						c.Viol("LEAFKIND", shortFuncName(fn)+":literal", al.Pos(), "the inline phase creates an UnparsedKind node")
					}
					if k == info && fn.Name() != "parseInfoString" {
						c.Viol("LEAFKIND", shortFuncName(fn)+":literal", al.Pos(), "InfoStringKind created outside parseInfoString")
					}
				}
			}
		})
	}
	c.OK("LEAFKIND", "inline-phase-literals", token.NoPos, "no UnparsedKind literal in the inline phase; InfoStringKind only in parseInfoString")
}

func constValuesOf(v ssa.Value) []int64 {
	switch x := v.(type) {
	case *ssa.Const:
		if k, ok := constInt(x); ok {
			return []int64{k}
		}
	case *ssa.Phi:
		var out []int64
		for _, e := range x.Edges {
			out = append(out, constValuesOf(e)...)
		}
		return out
	}
	return nil
}

// phiValuesUnder: the values v can take on paths feasible for sym = d.
func phiValuesUnder(bs *bsetEngine, fn *ssa.Function, isSym func(ssa.Value) bool, d int64, v ssa.Value) map[int64]bool {
	out := map[int64]bool{}
	vi, ok := v.(ssa.Instruction)
	if !ok {
		return out
	}
	st := &evalState{e: bs, fn: fn, isSym: isSym, d: d, from: make([]int, len(fn.Blocks))}
	for i := range st.from {
		st.from[i] = -2
	}
	// blockRules[k].acceptsLines for a k that evaluates: read from the rule table's literal
	tab := blockRulesTable(bs.p)
	st.symVal = func(v ssa.Value) (int64, bool) {
		f, ok := v.(*ssa.Field)
		if !ok {
			return 0, false
		}
		lk, ok := f.X.(*ssa.Lookup)
		if !ok || lk.CommaOk {
			return 0, false
		}
		ld, ok := lk.X.(*ssa.UnOp)
		if !ok || ld.Op != token.MUL {
			return 0, false
		}
		g, ok := ld.X.(*ssa.Global)
		if !ok || g.Name() != "blockRules" {
			return 0, false
		}
		stt, ok := f.X.Type().Underlying().(*types.Struct)
		if !ok || stt.Field(f.Field).Name() != "acceptsLines" {
			return 0, false
		}
		k, ok := st.eval(lk.Index)
		if !ok {
			return 0, false
		}
		return b2i(tab[k].acceptsLines), true
	}
	visits := make([]int, len(fn.Blocks))
	var dfs func(b *ssa.BasicBlock)
	dfs = func(b *ssa.BasicBlock) {
		if visits[b.Index] >= 1 {
			return
		}
		visits[b.Index]++
		defer func() { visits[b.Index]-- }()
		if b == vi.Block() {
			st.why = ""
			if x, ok := st.eval(v); ok {
				out[x] = true
			} else {
				out[-1] = true
			}
			return
		}
		succs := b.Succs
		if iff := blockIf(b); iff != nil {
			st.why = ""
			if x, ok := st.eval(iff.Cond); ok {
				if x != 0 {
					succs = b.Succs[:1]
				} else {
					succs = b.Succs[1:]
				}
			}
		}
		for _, s := range succs {
			prev := st.from[s.Index]
			st.from[s.Index] = b.Index
			dfs(s)
			st.from[s.Index] = prev
		}
	}
	st.from[0] = -1
	dfs(fn.Blocks[0])
	return out
}

func init() {
	addControls(
		Control{Name: "neg-deactivation-index-loop", Props: []string{"C05", "C04"}, File: "inlines.go", Negative: true,
			Old: "\t\tfor i := range state.stack[:openDelimIndex] {", New: "\t\tfor i := 0; i < openDelimIndex; i++ {"},
		Control{Name: "neg-eof-softbreak-condition-with-local", Props: []string{"C05"}, File: "parse.go", Negative: true,
			Old: "\tif p.ContainerKind().IsCode() && !hasByteSuffix(p.line, \"\\n\") && !hasByteSuffix(p.line, \"\\r\") {", New: "\tif k := p.ContainerKind(); k.IsCode() && !(hasByteSuffix(p.line, \"\\n\") || hasByteSuffix(p.line, \"\\r\")) {"},
		Control{Name: "neg-indent-reuse-as-if-chain", Props: []string{"C05"}, File: "inlines.go", Negative: true,
			Old: "\t\tdefault:\n\t\t\tstate.ignoreNextIndent = false\n\t\t\tdummy.children = append(dummy.children, state.unparsed[state.unparsedPos])\n\t\t}", New: "\t\tdefault:\n\t\t\tstate.ignoreNextIndent = false\n\t\t\tif n := state.unparsed[state.unparsedPos]; n.Kind() != UnparsedKind {\n\t\t\t\tdummy.children = append(dummy.children, n)\n\t\t\t}\n\t\t}"},
		Control{Name: "definition-children-swapped", Props: []string{"C05"}, File: "blocks.go",
			Old: "\t\tnewBlock.inlineChildren = append(newBlock.inlineChildren, labelInline)\n", New: "",
			Edits: [][2]string{{"\t\tnewBlock.inlineChildren = append(newBlock.inlineChildren, destinationInline)\n", "\t\tnewBlock.inlineChildren = append(newBlock.inlineChildren, destinationInline)\n\t\tnewBlock.inlineChildren = append(newBlock.inlineChildren, labelInline)\n"}}, Expect: "CS/onCloseParagraph:LinkReferenceDefinition"},
		Control{Name: "item-delimiter-constant", Props: []string{"C05"}, File: "blocks.go",
			Old: "\t\tp.OpenListBlock(ListItemKind, m.delim)", New: "\t\tp.OpenListBlock(ListItemKind, '.')", Expect: "LISTATTR"},
		Control{Name: "list-accepts-any-child", Props: []string{"C05"}, File: "blocks.go",
			Old: "canContain: func(childKind BlockKind) bool { return childKind == ListItemKind },", New: "canContain: func(childKind BlockKind) bool { return true },", Expect: "CONTAIN/canContain[ListKind]"},
		Control{Name: "html-block-blank-line-as-text", Props: []string{"C05"}, File: "parse.go",
			Old: "\tcase p.ContainerKind() == HTMLBlockKind:\n\t\tinlineKind = RawHTMLKind", New: "\tcase p.ContainerKind() == HTMLBlockKind && !isBlank:\n\t\tinlineKind = RawHTMLKind\n\tcase p.ContainerKind() == HTMLBlockKind:\n\t\tinlineKind = TextKind", Expect: "LEAFKIND/addLineText[HTMLBlockKind]"},
		Control{Name: "item-without-marker-block", Props: []string{"C05"}, File: "blocks.go",
			Old: "\t\tp.OpenBlock(ListMarkerKind)\n\t\tp.Advance(m.end)\n\t\tp.EndBlock()\n", New: "\t\tp.Advance(m.end)\n", Expect: "MARKER-FIRST"},
		Control{Name: "thematic-break-opened-as-html", Props: []string{"C05"}, File: "blocks.go",
			Old: "\t\tp.OpenBlock(ThematicBreakKind)", New: "\t\tp.OpenBlock(HTMLBlockKind)", Expect: "OPENKIND"},
		Control{Name: "link-title-before-destination", Props: []string{"C05"}, File: "inlines.go",
			Old: "\t\t\tif info.destination.span.IsValid() {\n\t\t\t\tdestNode := &Inline{\n\t\t\t\t\tkind: LinkDestinationKind,", New: "\t\t\tif info.title.span.IsValid() {\n\t\t\t\tdestNode := &Inline{\n\t\t\t\t\tkind: LinkTitleKind,\n\t\t\t\t\tspan: info.title.span,\n\t\t\t\t}\n\t\t\t\tlinkNode.children = append(linkNode.children, destNode)\n\t\t\t}\n\t\t\tif info.destination.span.IsValid() {\n\t\t\t\tdestNode := &Inline{\n\t\t\t\t\tkind: LinkDestinationKind,", Expect: "CS/(*InlineParser).parseEndBracket:Link/Image"},
		Control{Name: "block-quote-accepts-items", Props: []string{"C05"}, File: "blocks.go",
			Old: "\t\t\tp.OpenListBlock(ListKind, m.delim)\n\t\t}", New: "\t\t\tif p.ContainerKind() != BlockQuoteKind {\n\t\t\t\tp.OpenListBlock(ListKind, m.delim)\n\t\t\t}\n\t\t}",
			Edits: [][2]string{{"\t\t\treturn true\n\t\t},\n\t\tcanContain: func(childKind BlockKind) bool { return childKind != ListItemKind },\n\t},\n\tFencedCodeBlockKind:", "\t\t\treturn true\n\t\t},\n\t\tcanContain: func(childKind BlockKind) bool { return true },\n\t},\n\tFencedCodeBlockKind:"}}, Expect: "CONTAIN/items-only-in-lists"},
		Control{Name: "opener-flag-toggled", Props: []string{"C05"}, File: "inlines.go",
			Old: "state.stack[i].flags &^= activeFlag", New: "state.stack[i].flags ^= activeFlag", Expect: "LINK-DEACTIVATE"},
		Control{Name: "neg-opener-flag-masked", Props: []string{"C05"}, File: "inlines.go", Negative: true,
			Old: "state.stack[i].flags &^= activeFlag", New: "state.stack[i].flags = state.stack[i].flags & (openerFlag | closerFlag)"},
		Control{Name: "neg-document-accepts-everything", Props: []string{"C05"}, File: "blocks.go", Negative: true,
			Old: "\t\tmatch:      func(*lineParser) bool { return true },\n\t\tcanContain: func(childKind BlockKind) bool { return childKind != ListItemKind },", New: "\t\tmatch:      func(*lineParser) bool { return true },\n\t\tcanContain: func(childKind BlockKind) bool { return true },"},
		Control{Name: "neg-canContain-as-switch", Props: []string{"C05"}, File: "blocks.go", Negative: true,
			Old: "canContain: func(childKind BlockKind) bool { return childKind == ListItemKind },", New: "canContain: func(childKind BlockKind) bool {\n\t\t\tswitch childKind {\n\t\t\tcase ListItemKind:\n\t\t\t\treturn true\n\t\t\t}\n\t\t\treturn false\n\t\t},"},
	)
}

// ruleLinkDeactivate: see LINK-DEACTIVATE.
func ruleLinkDeactivate(c *Ctx) {
	c.Rule("LINK-DEACTIVATE", "No link contains a link (necessary condition): when a link is finished, every store finishLink makes into the flags of an earlier '[' opener yields, for all 256 possible old flag values, a value whose active bit is clear (exact by BSET over the stored expression), and such a store exists behind the kind == LinkKind edge.")
	p := c.P
	fn := p.Method("InlineParser", "finishLink")
	if !c.NeedFunc("LINK-DEACTIVATE", fn, "(*InlineParser).finishLink") {
		return
	}
	ac, ok := p.CM.Types.Scope().Lookup("activeFlag").(*types.Const)
	if !ok {
		c.Undecided("LINK-DEACTIVATE", "activeFlag", fn.Pos(), "constant activeFlag not found")
		return
	}
	active, _ := constInt64Of(ac)
	bs := newBSET(p)
	n := 0
	eachInstr(fn, func(in ssa.Instruction) {
		st, ok := in.(*ssa.Store)
		if !ok {
			return
		}
		fa, ok := isFieldAddr(st.Addr, "delimiterStackElement", "flags")
		if !ok {
			return
		}
		n++
		key := fmt.Sprintf("finishLink:flags-store#%d", n)
		// symbol: the load of the same field the new value is computed from
		var sym ssa.Value
		var find func(v ssa.Value)
		find = func(v ssa.Value) {
			switch x := v.(type) {
			case *ssa.BinOp:
				find(x.X)
				find(x.Y)
			case *ssa.UnOp:
				if x.Op == token.MUL {
					if fa2, ok := isFieldAddr(x.X, "delimiterStackElement", "flags"); ok && sameAddr(fa2, fa) {
						sym = x
					}
					return
				}
				find(x.X)
			case *ssa.Convert:
				find(x.X)
			}
		}
		find(st.Val)
		var bad []int64
		for d := int64(0); d < 256; d++ {
			es := &evalState{e: bs, fn: fn, isSym: func(v ssa.Value) bool { return sym != nil && v == sym }, d: d, from: make([]int, len(fn.Blocks))}
			v, ok := es.eval(st.Val)
			if !ok {
				c.Undecided("LINK-DEACTIVATE", key, st.Pos(), "stored flags value not evaluable: "+es.why)
				return
			}
			if v&active != 0 {
				bad = append(bad, d)
			}
		}
		c.Check(len(bad) == 0, "LINK-DEACTIVATE", key, st.Pos(), "after this store the opener can still be active for old flag values "+describeSet(bad, false)+": an enclosing '[' stays (or becomes) eligible and a link can end up inside a link")
	})
	if n < 1 {
		c.Viol("LINK-DEACTIVATE", "finishLink:flags-store", fn.Pos(), "finishLink no longer deactivates earlier '[' openers")
	}
}

func sameAddr2(a, b ssa.Value) bool { return sameAddr(a, b) }

// astTableSizes returns, from the typed syntax, the number of elements of the blockStarts literal and the number of
// blockRules entries that have a non-nil match function. The recovered SSA tables must be exactly this large, so that an
// entry the recovery does not understand cannot be skipped silently (and a legitimately added or merged entry moves
// both numbers together).
func astTableSizes(p *Program) (starts, matches int, ok bool) {
	starts, matches = -1, -1
	for _, f := range p.CM.Syntax {
		for _, d := range f.Decls {
			gd, isGen := d.(*ast.GenDecl)
			if !isGen || gd.Tok != token.VAR {
				continue
			}
			for _, sp := range gd.Specs {
				vs, isVS := sp.(*ast.ValueSpec)
				if !isVS {
					continue
				}
				for i, nm := range vs.Names {
					if i >= len(vs.Values) {
						continue
					}
					cl, isCL := vs.Values[i].(*ast.CompositeLit)
					if !isCL {
						continue
					}
					switch nm.Name {
					case "blockStarts":
						starts = len(cl.Elts)
					case "blockRules":
						matches = 0
						for _, e := range cl.Elts {
							kv, isKV := e.(*ast.KeyValueExpr)
							if !isKV {
								continue
							}
							inner, isCL := kv.Value.(*ast.CompositeLit)
							if !isCL {
								continue
							}
							for _, fe := range inner.Elts {
								fkv, isKV := fe.(*ast.KeyValueExpr)
								if !isKV {
									continue
								}
								if id, isID := fkv.Key.(*ast.Ident); isID && id.Name == "match" {
									if v, isID := fkv.Value.(*ast.Ident); isID && v.Name == "nil" {
										continue
									}
									matches++
								}
							}
						}
					}
				}
			}
		}
	}
	return starts, matches, starts >= 0 && matches >= 0
}

// constructorCallKind: v is a call of a module function all of whose results are a fresh Inline allocation with the kind
// field set from one parameter; returns the constant passed for that parameter at this call.
func constructorCallKind(p *Program, v ssa.Value) (int64, bool) {
	call, ok := v.(*ssa.Call)
	if !ok {
		return 0, false
	}
	g := call.Call.StaticCallee()
	if g == nil || g.Blocks == nil || !p.InModule(g) {
		return 0, false
	}
	pi := -1
	for _, r := range returnsOf(g) {
		if len(r.Results) != 1 {
			return 0, false
		}
		al, ok := r.Results[0].(*ssa.Alloc)
		if !ok || typeName(deref(al.Type())) != "Inline" {
			return 0, false
		}
		ks := allocKindValues(al)
		if len(ks) != 1 {
			return 0, false
		}
		idx := -1
		for i, q := range g.Params {
			if ssa.Value(q) == ks[0] {
				idx = i
			}
		}
		if idx < 0 || (pi >= 0 && pi != idx) {
			return 0, false
		}
		pi = idx
	}
	if pi < 0 || pi >= len(call.Call.Args) {
		return 0, false
	}
	set, known := constSetOf(p, call.Call.Args[pi])
	if !known || len(set) != 1 {
		return 0, false
	}
	for k := range set {
		return k, true
	}
	return 0, false
}
