package main

// C17 — tag filtering, emitter-side clauses: HTX-EMIT, FR-PROV, LOWER, GFMSET, NILFILTER.

import (
	"fmt"
	"go/token"
	"go/types"
	"sort"
	"strings"

	"golang.org/x/tools/go/ssa"
)

func init() { props["C17"] = checkC17 }

func isFilterTagLoad(v ssa.Value) bool {
	_, ok := isLoadOfField(v, "HTMLRenderer", "FilterTag")
	return ok
}

// filterNonNilDominates: blk is behind the non-nil edge of a FilterTag nil test in its function.
func filterNonNilDominates(fn *ssa.Function, blk *ssa.BasicBlock) bool {
	for _, b := range fn.Blocks {
		iff := blockIf(b)
		if iff == nil {
			continue
		}
		x, ni, ok := nilTest(iff.Cond)
		if !ok || !isFilterTagLoad(x) {
			continue
		}
		if edgeDominates(b, 1-ni, blk) {
			return true
		}
	}
	return false
}

func checkC17(c *Ctx) {
	htxRules(c)
	c.Rule("FR-PROV", "Inside filterRaw everything appended to the output is a sub-slice of the raw-HTML parameter or the constant &lt; (necessary for 'differs only by < → &lt;').")
	c.Rule("LOWER", "The argument of every FilterTag call in filterRaw is the result of maybeLower, whose per-byte mapping is exactly ASCII lower-casing (A–Z → a–z, identity elsewhere); in the tag emitters the argument is the slice of the buffer holding the atom name just written.")
	c.Rule("GFMSET", "FilterTagGFM returns true at least for the atoms title, textarea, style, xmp, iframe, noembed, noframes, script, plaintext (a superset still satisfies the property).")
	c.Rule("NILFILTER", "With FilterTag == nil no emitter takes a filtering branch: every FilterTag call, every roll-back and every &lt; substitution is dominated by the FilterTag != nil edge (in its function, or at every call site of its function).")
	p := c.P
	r := runHTX(c)
	h := r.h
	ruleHTXEmit(c, h)
	// FR-PROV
	fr := p.Method("renderState", "filterRaw")
	if c.NeedFunc("FR-PROV", fr, "(*renderState).filterRaw") {
		family := exclusiveCallees(p, fr)
		// raw parameters: the []byte parameter of filterRaw, and every []byte parameter of a family member that receives
		// (a sub-slice of) a raw parameter at each call
		rawParams := map[ssa.Value]bool{}
		for _, prm := range fr.Params[1:] {
			if _, ok := prm.Type().Underlying().(*types.Slice); ok {
				rawParams[prm] = true
			}
		}
		isRawSlice := func(v ssa.Value) bool {
			for {
				if rawParams[v] {
					return true
				}
				sl, isSl := v.(*ssa.Slice)
				if !isSl {
					return false
				}
				v = sl.X
			}
		}
		for round := 0; round < 4; round++ {
			for g := range family {
				if g == fr {
					continue
				}
				for i, q := range g.Params {
					if rawParams[q] {
						continue
					}
					if _, ok := q.Type().Underlying().(*types.Slice); !ok {
						continue
					}
					all, any := true, false
					for f := range family {
						eachInstr(f, func(in ssa.Instruction) {
							if call, ok := in.(*ssa.Call); ok && call.Call.StaticCallee() == g && i < len(call.Call.Args) {
								any = true
								if !isRawSlice(call.Call.Args[i]) {
									all = false
								}
							}
						})
					}
					if any && all {
						rawParams[q] = true
					}
				}
			}
		}
		n := 0
		var fams []*ssa.Function
		for g := range family {
			fams = append(fams, g)
		}
		sort.Slice(fams, func(i, j int) bool { return fams[i].Pos() < fams[j].Pos() })
		for _, g := range fams {
			var ins []ssa.Instruction
			for in := range h.events[g] {
				ins = append(ins, in)
			}
			sort.Slice(ins, func(i, j int) bool { return ins[i].Pos() < ins[j].Pos() })
			for _, in := range ins {
				ev := h.events[g][in]
				if ev.kind == evMarkLen {
					continue
				}
				if ev.kind == evCall && family[ev.callee] {
					continue // the helper's own appends are inspected
				}
				n++
				key := fmt.Sprintf("%s:append#%d", g.Name(), n)
				switch ev.kind {
				case evConst:
					c.Check(ev.s == "&lt;", "FR-PROV", key, in.Pos(), fmt.Sprintf("constant %q: only &lt; may be inserted", ev.s))
				case evRaw:
					call := in.(*ssa.Call)
					_, isSl := call.Call.Args[1].(*ssa.Slice)
					c.Check(isSl && isRawSlice(call.Call.Args[1]), "FR-PROV", key, in.Pos(), "appended bytes must be a sub-slice of the raw-HTML parameter, got "+ev.desc)
				default:
					c.Viol("FR-PROV", key, in.Pos(), "filterRaw appends something that is neither a sub-slice of its input nor &lt;")
				}
			}
		}
		if n < 1 {
			c.Undecided("FR-PROV", "instance-count", token.NoPos, fmt.Sprintf("%d appends found in filterRaw; it must append its input somewhere", n))
		}
	}
	// LOWER + NILFILTER over all FilterTag calls. The lowering function is whatever module function produces the name
	// handed to the predicate (today maybeLower); its per-byte mapping is checked below, whatever it is called.
	lowerFns := map[*ssa.Function]bool{}
	nCalls := 0
	for _, fn := range p.Funcs {
		eachInstr(fn, func(in ssa.Instruction) {
			call, ok := in.(*ssa.Call)
			if !ok || !isFilterTagLoad(call.Call.Value) || len(call.Call.Args) != 1 {
				return
			}
			nCalls++
			key := fmt.Sprintf("%s:FilterTag#%d", shortFuncName(fn), nCalls)
			arg := call.Call.Args[0]
			// the name may reach the predicate through parameters of helpers: follow each to every call site
			var lowered func(v ssa.Value, f *ssa.Function, depth int) (bool, string)
			lowered = func(v ssa.Value, f *ssa.Function, depth int) (bool, string) {
				switch a := v.(type) {
				case *ssa.Call:
					if g := a.Call.StaticCallee(); g != nil && g.Blocks != nil && p.InModule(g) {
						lowerFns[g] = true // its mapping is checked below
						return true, ""
					}
					return false, "argument must be a lower-cased name produced by a module function, got " + describeValue(v)
				case *ssa.Slice:
					if h.buf(a.X) {
						return true, ""
					}
					return false, "argument must be the just-written atom name in the output buffer"
				case *ssa.Parameter:
					if depth > 3 {
						return false, "name passed through too many helpers"
					}
					idx := -1
					for i, q := range f.Params {
						if q == a {
							idx = i
						}
					}
					n := 0
					for _, g := range p.Funcs {
						okAll, why := true, ""
						eachInstr(g, func(x ssa.Instruction) {
							if cl, ok := x.(*ssa.Call); ok && cl.Call.StaticCallee() == f && idx >= 0 && idx < len(cl.Call.Args) {
								n++
								if ok2, w := lowered(cl.Call.Args[idx], g, depth+1); !ok2 {
									okAll, why = false, w
								}
							}
						})
						if !okAll {
							return false, why
						}
					}
					if n == 0 {
						return false, "helper without call sites"
					}
					return true, ""
				}
				return false, "FilterTag argument is neither a lower-cased name nor an atom name: " + describeValue(v)
			}
			okL, whyL := lowered(arg, fn, 0)
			c.Check(okL, "LOWER", key, in.Pos(), whyL)
			guarded := filterNonNilDominates(fn, call.Block()) || allCallSitesFiltered(p, fn)
			c.Check(guarded, "NILFILTER", key, in.Pos(), "FilterTag must be called only where it is known to be non-nil")
		})
	}
	if nCalls < 1 {
		c.Undecided("LOWER", "instance-count", token.NoPos, fmt.Sprintf("%d FilterTag calls found; every call of the predicate in the module is inspected", nCalls))
	}
	// NILFILTER: roll-backs and &lt; substitutions
	for fn, evs := range h.events {
		for in, ev := range evs {
			if ev.kind == evRollback || (ev.kind == evConst && strings.HasPrefix(ev.s, "&lt;") && fn.Name() != "escapeHTML") {
				key := fmt.Sprintf("%s:%s", shortFuncName(fn), map[bool]string{true: "rollback", false: "&lt;"}[ev.kind == evRollback])
				guarded := filterNonNilDominates(fn, in.Block()) || allCallSitesFiltered(p, fn)
				c.Check(guarded, "NILFILTER", key, in.Pos(), "filtering branch must be unreachable when FilterTag is nil")
			}
		}
	}
	// mapping of the lowering function(s)
	if len(lowerFns) == 0 {
		c.Undecided("LOWER", "lowering-function", token.NoPos, "no module function produces the name handed to FilterTag in filterRaw")
	}
	var lfs []*ssa.Function
	for g := range lowerFns {
		lfs = append(lfs, g)
	}
	sort.Slice(lfs, func(i, j int) bool { return lfs[i].Name() < lfs[j].Name() })
	for _, g := range lfs {
		checkLowerMap(c, g)
	}
	theLowerFns = lowerFns
	ruleGFMSet(c)
	ruleFRAutomaton(c)
	ruleFRTagSkip(c)
	ruleTagNameSet(c)
	ruleLowerTransient(c)
	c.Assume("FR-AUTOMATON, FR-TAGSKIP and TAGNAME-SET decide that the scanner never skips further than an HTML tokenizer would and never measures a longer tag name; equality of the two languages (e.g. names with characters outside letters, digits and hyphen) is not decided")
}

// allCallSitesFiltered: every static call of fn lies behind a FilterTag != nil edge in its caller.
var theLowerFns map[*ssa.Function]bool // lowering functions found by the LOWER rule (used by LOWER-TRANSIENT)

func allCallSitesFiltered(p *Program, fn *ssa.Function) bool {
	return allCallSitesFilteredIn(p, fn, map[*ssa.Function]bool{})
}

// allCallSitesFilteredIn: every static call of fn is dominated by FilterTag != nil in its caller, or the caller is itself
// only ever called where the filter is known to be set.
func allCallSitesFilteredIn(p *Program, fn *ssa.Function, busy map[*ssa.Function]bool) bool {
	if busy[fn] {
		return false
	}
	busy[fn] = true
	defer delete(busy, fn)
	n := 0
	ok := true
	for _, caller := range p.Funcs {
		eachInstr(caller, func(in ssa.Instruction) {
			if call, isC := in.(*ssa.Call); isC && call.Call.StaticCallee() == fn {
				n++
				if !filterNonNilDominates(caller, call.Block()) && !allCallSitesFilteredIn(p, caller, busy) {
					ok = false
				}
			}
		})
	}
	return n > 0 && ok
}

// checkLowerMap: every computed byte maybeLower appends equals the ASCII lower-casing of the source byte, and source bytes
// copied unchanged are never upper-case letters. The output is a sequence of pieces: per-byte appends inside a unit-stride
// loop over the name (or over its tail x[k:]), and verbatim bulk copies of a head x[:k] where k is the first index at which
// a search loop saw an upper-case byte.
func checkLowerMap(c *Ctx, fn *ssa.Function) {
	bs := newBSET(c.P)
	n := 0
	// the name parameter: the (first) byte-slice parameter, wherever it stands (function or method)
	var nameParam ssa.Value
	for _, q := range fn.Params {
		if sl, ok := q.Type().Underlying().(*types.Slice); ok {
			if b, ok := sl.Elem().Underlying().(*types.Basic); ok && b.Kind() == types.Uint8 {
				nameParam = q
				break
			}
		}
	}
	if nameParam == nil {
		c.Undecided("LOWER", "maybeLower:signature", fn.Pos(), "the lowering function has no byte-slice parameter")
		return
	}
	loops := naturalLoops(fn)
	loopOf := func(h *ssa.BasicBlock) *natLoop {
		for i := range loops {
			if loops[i].header == h {
				return &loops[i]
			}
		}
		return nil
	}
	isUpper := func(d int64) bool { return d >= 'A' && d <= 'Z' }
	// firstMatch: k is the index at which a unit-stride search over the name first met a byte for which the loop was left;
	// the loop goes on only for bytes that are not upper-case letters. Then x[:k] holds no upper-case letter.
	firstMatch := func(k ssa.Value) (bool, string) {
		// bytes.IndexFunc(name, pred): before the index it returns pred is false; enough if pred holds for every
		// upper-case letter (an ASCII letter is always a rune of its own)
		if cl, ok := k.(*ssa.Call); ok {
			f := cl.Call.StaticCallee()
			if f == nil || f.String() != "bytes.IndexFunc" || len(cl.Call.Args) != 2 || cl.Call.Args[0] != nameParam {
				return false, "the length of the head copied verbatim is not the result of a search over the name"
			}
			var pred *ssa.Function
			switch y := cl.Call.Args[1].(type) {
			case *ssa.Function:
				pred = y
			case *ssa.MakeClosure:
				if len(y.Bindings) == 0 {
					pred, _ = y.Fn.(*ssa.Function)
				}
			}
			if pred == nil || pred.Blocks == nil {
				return false, "the predicate handed to IndexFunc is not a function of the module"
			}
			t := bs.Table(pred)
			if t.why != "" {
				return false, "the predicate handed to IndexFunc is not analysable: " + t.why
			}
			for d := int64('A'); d <= 'Z'; d++ {
				o, ok := t.lookup(d)
				if !ok || o.kind != oRet || o.val == 0 {
					return false, fmt.Sprintf("the search does not stop at the upper-case letter %q: the head copied verbatim may contain it", rune(d))
				}
			}
			return true, ""
		}
		ph, ok := k.(*ssa.Phi)
		if !ok {
			return false, "the length of the head copied verbatim is not the result of a search loop"
		}
		counters := 0
		for _, e := range ph.Edges {
			if v, isC := constInt(e); isC {
				if v > 0 {
					return false, "the head copied verbatim may have a fixed positive length"
				}
				continue
			}
			cnt, ok := e.(*ssa.Phi)
			if !ok {
				return false, "the length of the head copied verbatim is not a loop counter"
			}
			if ok, why := unitStrideOver(cnt, nameParam); !ok {
				return false, "search loop: " + why
			}
			l := loopOf(cnt.Block())
			if l == nil {
				return false, "search loop not found"
			}
			counters++
			// every load x[cnt] in the loop: the edges that stay in the loop are not taken for upper-case bytes
			loads := 0
			for b := range l.body {
				for _, in := range b.Instrs {
					ld, ok := in.(*ssa.UnOp)
					if !ok || ld.Op != token.MUL {
						continue
					}
					ia, ok := ld.X.(*ssa.IndexAddr)
					if !ok || ia.X != nameParam || ia.Index != ssa.Value(cnt) {
						continue
					}
					loads++
					isSym := func(x ssa.Value) bool { return sameElemLoad(x, ld) }
					_, edges := bs.reachEdgesUnderSym(fn, isSym, byteDomain())
					// latches reached under an upper-case byte?
					for _, latch := range l.latches {
						for e, ds := range edges {
							if e[1] != l.header.Index || e[0] != latch.Index {
								continue
							}
							for d := range ds {
								if isUpper(d) {
									return false, fmt.Sprintf("the search loop goes on after the upper-case byte %q: the head copied verbatim may contain it", rune(d))
								}
							}
						}
					}
				}
			}
			if loads == 0 {
				return false, "the search loop does not read the name at its counter"
			}
		}
		if counters == 0 {
			return false, "the length of the head copied verbatim is never a search position"
		}
		return true, ""
	}
	type bulk struct {
		high ssa.Value
		blk  *ssa.BasicBlock
	}
	var bulks []bulk
	var perByteBlocks []*ssa.BasicBlock
	var perByteLoops []*ssa.BasicBlock
	eachInstr(fn, func(in ssa.Instruction) {
		call, ok := in.(*ssa.Call)
		if !ok {
			return
		}
		if _, ok := isBuiltinCall(call, "append"); !ok || len(call.Call.Args) < 2 {
			return
		}
		// bulk copy of a head of the name: append(dst, x[:k]...)
		if sl, ok := call.Call.Args[1].(*ssa.Slice); ok && sl.X == nameParam {
			n++
			key := fmt.Sprintf("maybeLower:bulk#%d", n)
			if sl.Low != nil {
				if lo, isC := constInt(sl.Low); !isC || lo != 0 {
					c.Viol("LOWER", key, in.Pos(), "a part of the name that does not start at its first byte is copied verbatim")
					return
				}
			}
			if sl.High == nil {
				c.Viol("LOWER", key, in.Pos(), "the whole name is copied verbatim into the lowered buffer")
				return
			}
			okFM, why := firstMatch(sl.High)
			if okFM {
				bulks = append(bulks, bulk{sl.High, call.Block()})
				why = "the head copied verbatim ends where a search over the name first left its loop, and the loop goes on only for bytes that are not upper-case letters"
			}
			c.Check(okFM, "LOWER", key, in.Pos(), why)
			return
		}
		elems := varargElems(call)
		if len(elems) != 1 {
			return
		}
		v := elems[0]
		// the source byte: a load of x[i]
		var src ssa.Value
		hasPhi := false
		seen := map[ssa.Value]bool{}
		var find func(v ssa.Value)
		find = func(v ssa.Value) {
			if v == nil || seen[v] {
				return
			}
			seen[v] = true
			switch x := v.(type) {
			case *ssa.UnOp:
				if x.Op == token.MUL {
					if _, ok := x.X.(*ssa.IndexAddr); ok {
						src = x
						return
					}
				}
				find(x.X)
			case *ssa.BinOp:
				find(x.X)
				find(x.Y)
			case *ssa.Convert:
				find(x.X)
			case *ssa.Phi:
				hasPhi = true
				for _, e := range x.Edges {
					find(e)
				}
			}
		}
		find(v)
		if src == nil {
			return
		}
		n++
		key := fmt.Sprintf("maybeLower:byte#%d", n)
		if ia, ok := src.(*ssa.UnOp).X.(*ssa.IndexAddr); ok {
			okCov, why := ia.X == nameParam, "the bytes copied are not elements of the whole name parameter (a prefix or suffix is dropped)"
			if okCov {
				okCov, why = unitStrideOver(ia.Index, nameParam)
			} else if tail, isSl := ia.X.(*ssa.Slice); isSl && tail.X == nameParam && tail.High == nil && tail.Low != nil {
				// the tail x[k:], after a verbatim copy of the head x[:k]
				okCov, why = unitStrideOver(ia.Index, tail)
				if okCov {
					okCov, why = false, "the bytes in front of the tail that is lowered are not copied"
					for _, bk := range bulks {
						if (bk.high == tail.Low || sameTerm(bk.high, tail.Low)) && bk.blk.Dominates(call.Block()) {
							okCov, why = true, "the head is copied verbatim and every byte of the tail is copied"
						}
					}
				}
			}
			if why == "" {
				why = "every byte of the name is copied"
			}
			c.Check(okCov, "LOWER", key+":coverage", in.Pos(), why)
			// the loop this append belongs to
			var idxPhi *ssa.Phi
			switch y := ia.Index.(type) {
			case *ssa.Phi:
				idxPhi = y
			case *ssa.BinOp:
				idxPhi, _ = y.X.(*ssa.Phi)
			}
			if idxPhi != nil {
				perByteLoops = append(perByteLoops, idxPhi.Block())
			}
			perByteBlocks = append(perByteBlocks, call.Block())
		}
		isSym := func(x ssa.Value) bool { return sameElemLoad(x, src) }
		reach := bs.reachUnderSym(fn, isSym, byteDomain())
		var bad []int64
		for d := range reach[call.Block()] {
			want := d
			if isUpper(d) {
				want = d - 'A' + 'a'
			}
			if hasPhi {
				got := phiValuesUnder(bs, fn, isSym, d, v)
				okAll := len(got) > 0
				for g := range got {
					if g != want {
						okAll = false
					}
				}
				if !okAll {
					bad = append(bad, d)
				}
				continue
			}
			st := &evalState{e: bs, fn: fn, isSym: isSym, d: d, from: make([]int, len(fn.Blocks))}
			got, ok := st.eval(v)
			if !ok || got != want {
				bad = append(bad, d)
			}
		}
		sort.Slice(bad, func(i, j int) bool { return bad[i] < bad[j] })
		c.Check(len(bad) == 0, "LOWER", key, in.Pos(), "appended byte must be the ASCII lower-casing of the source byte; deviating source bytes: "+describeSet(bad, true))
	})
	// every iteration of a lowering loop appends: the header cannot be reached again around the appends
	doneLoop := map[*ssa.BasicBlock]bool{}
	nl := 0
	for _, h := range perByteLoops {
		if doneLoop[h] {
			continue
		}
		doneLoop[h] = true
		nl++
		l := loopOf(h)
		if l == nil {
			continue
		}
		isAppend := map[*ssa.BasicBlock]bool{}
		for _, b := range perByteBlocks {
			isAppend[b] = true
		}
		seen := map[*ssa.BasicBlock]bool{}
		var stack []*ssa.BasicBlock
		for _, s := range h.Succs {
			if l.body[s] && s != h {
				stack = append(stack, s)
			}
		}
		skips := false
		for len(stack) > 0 {
			b := stack[len(stack)-1]
			stack = stack[:len(stack)-1]
			if seen[b] || isAppend[b] {
				continue
			}
			seen[b] = true
			for _, s := range b.Succs {
				if s == h {
					skips = true
				} else if l.body[s] {
					stack = append(stack, s)
				}
			}
		}
		c.Check(!skips, "LOWER", fmt.Sprintf("maybeLower:every-iteration-appends#%d", nl), fn.Pos(), "an iteration of the lowering loop can end without appending a byte (a byte of the name is dropped)")
	}
	if len(perByteBlocks) < 1 {
		c.Undecided("LOWER", "maybeLower:shape", fn.Pos(), "per-byte appends of maybeLower not recognised")
	}
}

// sameElemLoad: v is a load of the same slice element as ref (go/ssa has no CSE: x[i] written twice is two loads).
func sameElemLoad(v, ref ssa.Value) bool {
	if v == ref {
		return true
	}
	a, ok1 := v.(*ssa.UnOp)
	b, ok2 := ref.(*ssa.UnOp)
	if !ok1 || !ok2 || a.Op != token.MUL || b.Op != token.MUL {
		return false
	}
	ia, ok1 := a.X.(*ssa.IndexAddr)
	ib, ok2 := b.X.(*ssa.IndexAddr)
	return ok1 && ok2 && ia.X == ib.X && ia.Index == ib.Index
}

var gfmRequired = []string{"Title", "Textarea", "Style", "Xmp", "Iframe", "Noembed", "Noframes", "Script", "Plaintext"}

func ruleGFMSet(c *Ctx) {
	fn := c.P.Func("FilterTagGFM")
	if !c.NeedFunc("GFMSET", fn, "FilterTagGFM") {
		return
	}
	// atom constants of the repository's own atom package
	var atomPkg *types.Package
	for _, imp := range c.P.CM.Types.Imports() {
		if imp.Path() == "golang.org/x/net/html/atom" {
			atomPkg = imp
		}
	}
	if atomPkg == nil {
		c.Undecided("GFMSET", "atom-package", fn.Pos(), "package commonmark no longer imports x/net/html/atom")
		return
	}
	vals := map[string]int64{}
	var dom []int64
	for _, n := range gfmRequired {
		k, ok := atomPkg.Scope().Lookup(n).(*types.Const)
		if !ok {
			c.Undecided("GFMSET", "atom:"+n, fn.Pos(), "atom constant not found")
			return
		}
		v, _ := constInt64Of(k)
		vals[n] = v
		dom = append(dom, v)
	}
	// symbol: the result of atom.Lookup on the parameter
	isSym := func(v ssa.Value) bool {
		call, ok := v.(*ssa.Call)
		if !ok {
			return false
		}
		f := call.Call.StaticCallee()
		return f != nil && f.String() == "golang.org/x/net/html/atom.Lookup" && len(call.Call.Args) == 1 && call.Call.Args[0] == ssa.Value(fn.Params[0])
	}
	e := newBSET(c.P)
	t := e.TableSym(fn, dom, isSym)
	if t.why != "" {
		c.Undecided("GFMSET", "FilterTagGFM", fn.Pos(), "predicate not analysable as a function of atom.Lookup(tag): "+t.why)
		return
	}
	for i, n := range gfmRequired {
		r := t.res[i]
		c.Check(r.kind == oRet && r.val != 0, "GFMSET", "FilterTagGFM:"+strings.ToLower(n), fn.Pos(), "must reject (return true for) <"+strings.ToLower(n)+">")
	}
}

func init() {
	addControls(
		Control{Name: "tag-jump-without-open-test", Props: []string{"C17"}, File: "html_renderer.go",
			Old: "\t\t\t\t\tif tagNameStart >= len(rawHTML) || !opensHTMLMarkup(rawHTML[tagNameStart]) {", New: "\t\t\t\t\tif tagNameStart >= len(rawHTML) {", Expect: "FR-TAGSKIP/filterRaw:jump#1:open",
			Why: "`<3 <script>`: a '<' that opens no markup must not start a jump to the next '>'"},
		Control{Name: "tag-open-set-includes-digits", Props: []string{"C17"}, File: "html_renderer.go",
			Old: "\treturn isASCIILetter(c) || c == '/' || c == '!' || c == '?'", New: "\treturn isASCIILetter(c) || isASCIIDigit(c) || c == '/' || c == '!' || c == '?'", Expect: "FR-TAGSKIP/filterRaw:jump#1:open"},
		Control{Name: "tag-end-at-last-gt", Props: []string{"C17"}, File: "html_renderer.go",
			Old: "if j := bytes.IndexByte(rawHTML[tagNameStart:], '>'); j >= 0 {", New: "if j := bytes.LastIndexByte(rawHTML[tagNameStart:], '>'); j >= 0 {", Expect: "FR-TAGSKIP/filterRaw:jump#1:end"},
		Control{Name: "tag-name-runs-over-form-feed", Props: []string{"C17"}, File: "parse_html.go",
			Old: "\t\tif !isASCIILetter(b[i]) && !isASCIIDigit(b[i]) && b[i] != '-' {\n\t\t\treturn i\n\t\t}\n\t}\n\treturn len(b)\n}\n\nfunc parseHTMLAttribute", New: "\t\tif isSpaceTabOrLineEnding(b[i]) || b[i] == '/' || b[i] == '>' {\n\t\t\treturn i\n\t\t}\n\t}\n\treturn len(b)\n}\n\nfunc parseHTMLAttribute", Expect: "TAGNAME-SET/htmlTagNameEnd"},
		Control{Name: "neg-tag-end-search-in-helper", Props: []string{"C17", "C04"}, File: "html_renderer.go", Negative: true,
			Old:   "\t\t\t\t\ttagEnd := len(rawHTML)\n\t\t\t\t\tif j := bytes.IndexByte(rawHTML[tagNameStart:], '>'); j >= 0 {\n\t\t\t\t\t\ttagEnd = tagNameStart + j + len(\">\")\n\t\t\t\t\t}\n",
			New:   "\t\t\t\t\ttagEnd := tagNameStart + rawTagLen(rawHTML[tagNameStart:])\n",
			Edits: [][2]string{{"func appendAltText(", "func rawTagLen(b []byte) int {\n\tif j := bytes.IndexByte(b, '>'); j >= 0 {\n\t\treturn j + 1\n\t}\n\treturn len(b)\n}\n\nfunc appendAltText("}}},
		Control{Name: "neg-tag-open-test-as-switch", Props: []string{"C17", "C04"}, File: "html_renderer.go", Negative: true,
			Old: "\treturn isASCIILetter(c) || c == '/' || c == '!' || c == '?'", New: "\tswitch {\n\tcase 'a' <= c && c <= 'z', 'A' <= c && c <= 'Z':\n\t\treturn true\n\tcase c == '/', c == '!', c == '?':\n\t\treturn true\n\t}\n\treturn false"},
		Control{Name: "neg-tag-name-end-tokenizer-style", Props: []string{"C17"}, File: "parse_html.go", Negative: true,
			Old: "\t\tif !isASCIILetter(b[i]) && !isASCIIDigit(b[i]) && b[i] != '-' {\n\t\t\treturn i\n\t\t}\n\t}\n\treturn len(b)\n}\n\nfunc parseHTMLAttribute", New: "\t\tswitch c := b[i]; {\n\t\tcase isASCIILetter(c), isASCIIDigit(c), c == '-':\n\t\tdefault:\n\t\t\treturn i\n\t\t}\n\t}\n\treturn len(b)\n}\n\nfunc parseHTMLAttribute"},
		Control{Name: "GFM-forgets-noembed", Props: []string{"C17"}, File: "html_renderer.go",
			Old: "\t\ttagAtom == atom.Noembed ||\n", New: "", Expect: "GFMSET/FilterTagGFM:noembed"},
		Control{Name: "br-emitted-as-constant", Props: []string{"C17"}, File: "html_renderer.go",
			Old: "\tcase HardLineBreakKind:\n\t\tr.openTag(atom.Br)\n\t\tr.dst = append(r.dst, '\\n')", New: "\tcase HardLineBreakKind:\n\t\tr.dst = append(r.dst, \"<br>\\n\"...)", Expect: "HTX-EMIT"},
		Control{Name: "filterRaw-writes-lowercased-name", Props: []string{"C17"}, File: "html_renderer.go",
			Old: "\t\t\t\t\t\tr.dst = append(r.dst, rawHTML[tagNameStart:tagEnd]...)", New: "\t\t\t\t\t\tr.dst = append(r.dst, tagName...)\n\t\t\t\t\t\tr.dst = append(r.dst, rawHTML[tagNameEnd:tagEnd]...)", Expect: "FR-PROV"},
		Control{Name: "FilterTag-gets-raw-case", Props: []string{"C17"}, File: "html_renderer.go",
			Old: "\t\t\t\t\tif r.FilterTag(tagName) {", New: "\t\t\t\t\t_ = tagName\n\t\t\t\t\tif r.FilterTag(rawHTML[tagNameStart:tagNameEnd]) {", Expect: "LOWER"},
		Control{Name: "maybeLower-off-by-one-range", Props: []string{"C17"}, File: "html_renderer.go",
			Old: "\t\tif 'A' <= b && b <= 'Z' {\n\t\t\t*buf = append(*buf, b-'A'+'a')", New: "\t\tif 'A' <= b && b < 'Z' {\n\t\t\t*buf = append(*buf, b-'A'+'a')", Expect: "LOWER/maybeLower"},
		Control{Name: "closeTag-filter-without-nil-check", Props: []string{"C17"}, File: "html_renderer.go",
			Old: "\tif r.FilterTag != nil && r.FilterTag(r.dst[start+1:]) {\n\t\tr.dst = r.dst[:start]\n\t\tr.dst = append(r.dst, \"&lt;/\"...)", New: "\tif r.FilterTag(r.dst[start+1:]) {\n\t\tr.dst = r.dst[:start]\n\t\tr.dst = append(r.dst, \"&lt;/\"...)", Expect: "NILFILTER"},
		Control{Name: "closeTag-skips-filter", Props: []string{"C17"}, File: "html_renderer.go",
			Old: "\tif r.FilterTag != nil && r.FilterTag(r.dst[start+1:]) {\n\t\tr.dst = r.dst[:start]\n\t\tr.dst = append(r.dst, \"&lt;/\"...)\n\t\tr.dst = append(r.dst, name.String()...)\n\t}\n\tr.dst = append(r.dst, '>')", New: "\t_ = start\n\tr.dst = append(r.dst, '>')", Expect: "HTX-EMIT"},
		Control{Name: "pi-state-wired-up", Props: []string{"C17"}, File: "html_renderer.go",
			Old: "\t\t\t\tcase hasHTMLDeclarationPrefix(rawHTML[i:]):", New: "\t\t\t\tcase hasBytePrefix(rawHTML[i:], processingInstructionPrefix):\n\t\t\t\t\tstate = piState\n\t\t\t\t\ti += len(processingInstructionPrefix)\n\t\t\t\tcase hasHTMLDeclarationPrefix(rawHTML[i:]):", Expect: "FR-AUTOMATON/filterRaw:state[\"<?\"]"},
		Control{Name: "comment-bang-terminator-dropped", Props: []string{"C17"}, File: "html_renderer.go",
			Old: "\t\t\tcase hasBytePrefix(rawHTML[i:], \"--!>\"):\n\t\t\t\t// HTML tokenizers also end a comment here.\n\t\t\t\tstate = copyState\n\t\t\t\ti += len(\"--!>\")\n", New: "", Expect: "FR-AUTOMATON/filterRaw:state[\"<!--\"]"},
		Control{Name: "comment-entry-skips-dashes", Props: []string{"C17"}, File: "html_renderer.go",
			Old: "\t\t\t\t\ti += len(\"<!\")", New: "\t\t\t\t\ti += len(htmlCommentPrefix)", Expect: "FR-AUTOMATON/filterRaw:state[\"<!--\"]:entry"},
		Control{Name: "neg-decl-state-exits-via-prefix-test", Props: []string{"C17"}, File: "html_renderer.go", Negative: true,
			Old: "\t\t\tif rawHTML[i] == '>' {\n\t\t\t\tstate = copyState\n\t\t\t}\n\t\t\ti++", New: "\t\t\tif hasBytePrefix(rawHTML[i:], \">\") {\n\t\t\t\tstate = copyState\n\t\t\t}\n\t\t\ti++"},
		Control{Name: "neg-GFM-as-switch", Props: []string{"C17"}, File: "html_renderer.go", Negative: true,
			Old: "\treturn tagAtom == atom.Title ||\n\t\ttagAtom == atom.Textarea ||\n\t\ttagAtom == atom.Style ||\n\t\ttagAtom == atom.Xmp ||\n\t\ttagAtom == atom.Iframe ||\n\t\ttagAtom == atom.Noembed ||\n\t\ttagAtom == atom.Noframes ||\n\t\ttagAtom == atom.Script ||\n\t\ttagAtom == atom.Plaintext",
			New: "\tswitch tagAtom {\n\tcase atom.Title, atom.Textarea, atom.Style, atom.Xmp, atom.Iframe, atom.Noembed, atom.Noframes, atom.Script, atom.Plaintext, atom.Object:\n\t\treturn true\n\t}\n\treturn false"},
	)
}

// ---------------------------------------------------------------------------------------------
// FR-AUTOMATON: the skip states of filterRaw end no later than the construct ends for an HTML tokenizer.

type frTransition struct {
	from    map[int64]bool
	to      int64
	trigger string
	advance int64
	pos     token.Pos
}

func ruleFRAutomaton(c *Ctx) {
	c.Rule("FR-AUTOMATON", "filterRaw skips over comments, declarations and similar constructs without looking for tags. Each skip state, identified by the constant prefix that enters it, must be left no later than an HTML tokenizer (WHATWG) leaves the construct: a comment entered at `<!--` ends at `-->` and at `--!>`, and the entry may consume at most `<!` so that the abrupt forms `<!-->` and `<!--->` are found; `<![CDATA[` outside foreign content, `<!x…` and `<?` are bogus comments that end at the first `>`. The transition table (entry prefix, state, exit strings, entry advance) is extracted from the state variable's phi edges and the dominating prefix tests; a state entered by an unknown prefix is undecided.")
	p := c.P
	fn := p.Method("renderState", "filterRaw")
	if !c.NeedFunc("FR-AUTOMATON", fn, "(*renderState).filterRaw") {
		return
	}
	// header, state phi, index phi
	var header *ssa.BasicBlock
	var idx *ssa.Phi
	for _, l := range naturalLoops(fn) {
		iff := blockIf(l.header)
		if iff == nil {
			continue
		}
		if bo, ok := iff.Cond.(*ssa.BinOp); ok && bo.Op == token.LSS {
			if ph, ok := bo.X.(*ssa.Phi); ok && ph.Block() == l.header {
				if _, ok := isBuiltinCall(bo.Y, "len"); ok {
					header, idx = l.header, ph
				}
			}
		}
	}
	if header == nil {
		c.Undecided("FR-AUTOMATON", "filterRaw:loop", fn.Pos(), "scanning loop `for i < len(rawHTML)` not recognised")
		return
	}
	var state *ssa.Phi
	for _, in := range header.Instrs {
		ph, ok := in.(*ssa.Phi)
		if !ok {
			break
		}
		if ph == idx {
			continue
		}
		// the state variable: compared with constants by an EQL whose other side is constant, and fed by constants
		cmp := false
		for _, r := range refsOf(ph) {
			if bo, ok := r.(*ssa.BinOp); ok && bo.Op == token.EQL {
				if _, ok := constInt(bo.Y); ok {
					cmp = true
				}
			}
		}
		nConst := 0
		for _, e := range ph.Edges {
			if _, ok := constInt(e); ok {
				nConst++
			}
		}
		if cmp && nConst >= 2 {
			state = ph
		}
	}
	if state == nil {
		c.OK("FR-AUTOMATON", "filterRaw:stateless", fn.Pos(), "filterRaw has no skip states: every `<` is examined")
		return
	}
	var copyState int64
	for i, pr := range header.Preds {
		if !header.Dominates(pr) {
			copyState, _ = constInt(state.Edges[i])
		}
	}
	bs := newBSET(p)
	var dom []int64
	seenV := map[int64]bool{}
	var collect func(v ssa.Value, seen map[ssa.Value]bool)
	collect = func(v ssa.Value, seen map[ssa.Value]bool) {
		if seen[v] {
			return
		}
		seen[v] = true
		if k, ok := constInt(v); ok {
			if !seenV[k] {
				seenV[k] = true
				dom = append(dom, k)
			}
			return
		}
		if ph, ok := v.(*ssa.Phi); ok {
			for _, e := range ph.Edges {
				collect(e, seen)
			}
		}
	}
	collect(state, map[ssa.Value]bool{})
	reach := bs.reachUnderSym(fn, func(v ssa.Value) bool { return v == ssa.Value(state) }, dom)
	// trigger of a block: nearest dominating true edge of an input test at the cursor
	isCursorSlice := func(v ssa.Value) bool {
		if _, ok := v.(*ssa.Slice); !ok {
			return false
		}
		_, base, k, ok := sliceRoot(v)
		return ok && base == ssa.Value(idx) && k == 0
	}
	triggerOf := func(b *ssa.BasicBlock) string {
		best := ""
		var bestBlk *ssa.BasicBlock
		for _, g := range fn.Blocks {
			iff := blockIf(g)
			if iff == nil || !edgeDominates(g, 0, b) {
				continue
			}
			t := ""
			switch x := iff.Cond.(type) {
			case *ssa.Call:
				f := x.Call.StaticCallee()
				if f == nil {
					continue
				}
				switch {
				case f.Name() == "hasBytePrefix" && len(x.Call.Args) == 2 && isCursorSlice(x.Call.Args[0]):
					if s, ok := constString(x.Call.Args[1]); ok {
						t = s
					}
				case f.Name() == "hasHTMLDeclarationPrefix" && isCursorSlice(x.Call.Args[0]):
					t = "<!x"
				}
			case *ssa.BinOp:
				if x.Op == token.EQL {
					if ld, ok := x.X.(*ssa.UnOp); ok && ld.Op == token.MUL {
						if ia, ok := ld.X.(*ssa.IndexAddr); ok {
							if _, base, off, ok := elementPos(ia); ok && base == ssa.Value(idx) && off == 0 {
								if k, ok := constInt(x.Y); ok {
									t = string(rune(k))
								}
							}
						}
					}
				}
			}
			if t == "" {
				continue
			}
			// nearest = dominated by the previous best
			if bestBlk == nil || bestBlk.Dominates(g) {
				best, bestBlk = t, g
			}
		}
		return best
	}
	var trans []frTransition
	var expand func(v ssa.Value, src *ssa.BasicBlock, hdrEdge int, seen map[ssa.Value]bool)
	expand = func(v ssa.Value, src *ssa.BasicBlock, hdrEdge int, seen map[ssa.Value]bool) {
		if seen[v] {
			return
		}
		seen[v] = true
		if k, ok := constInt(v); ok {
			adv := int64(-1)
			if bo, ok := idx.Edges[hdrEdge].(*ssa.BinOp); ok && bo.Op == token.ADD && bo.X == ssa.Value(idx) {
				adv, _ = constInt(bo.Y)
			}
			trans = append(trans, frTransition{from: reach[src], to: k, trigger: triggerOf(src), advance: adv, pos: firstPos([]*ssa.BasicBlock{src})})
			return
		}
		if ph, ok := v.(*ssa.Phi); ok && ph != state {
			for i, e := range ph.Edges {
				expand(e, ph.Block().Preds[i], hdrEdge, seen)
			}
		}
	}
	for i, pr := range header.Preds {
		if header.Dominates(pr) {
			expand(state.Edges[i], pr, i, map[ssa.Value]bool{})
		}
	}
	entry := map[int64][]frTransition{}
	exits := map[int64]map[string]bool{}
	for _, t := range trans {
		if t.to != copyState && t.from[copyState] {
			entry[t.to] = append(entry[t.to], t)
		}
		if t.to == copyState {
			for k := range t.from {
				if k != copyState {
					if exits[k] == nil {
						exits[k] = map[string]bool{}
					}
					exits[k][t.trigger] = true
				}
			}
		}
	}
	required := map[string][]string{"<!--": {"-->", "--!>"}, "<![CDATA[": {">"}, "<!x": {">"}, "<?": {">"}}
	var states []int64
	for k := range entry {
		states = append(states, k)
	}
	sort.Slice(states, func(i, j int) bool { return states[i] < states[j] })
	var table []string
	for _, k := range states {
		var ex []string
		for e := range exits[k] {
			ex = append(ex, fmt.Sprintf("%q", e))
		}
		sort.Strings(ex)
		for _, en := range entry[k] {
			table = append(table, fmt.Sprintf("prefix %q (advance %d) → state %d → exits on %s", en.trigger, en.advance, k, strings.Join(ex, ",")))
			key := fmt.Sprintf("filterRaw:state[%q]", en.trigger)
			req, known := required[en.trigger]
			if !known {
				c.Undecided("FR-AUTOMATON", key, en.pos, fmt.Sprintf("a skip state is entered on the prefix %q, for which no tokenizer rule is recorded", en.trigger))
				continue
			}
			var missing []string
			for _, t := range req {
				if !exits[k][t] {
					missing = append(missing, fmt.Sprintf("%q", t))
				}
			}
			why := fmt.Sprintf("exits on %s", strings.Join(ex, ","))
			if len(missing) > 0 {
				why = fmt.Sprintf("the state entered at %q is left only on %s, but an HTML tokenizer ends the construct at %s as well: a tag after that point is live for the browser and never shown to the predicate", en.trigger, strings.Join(ex, ","), strings.Join(missing, ","))
			}
			c.Check(len(missing) == 0, "FR-AUTOMATON", key, en.pos, why)
			if en.trigger == "<!--" {
				c.Check(en.advance >= 0 && en.advance <= 2, "FR-AUTOMATON", key+":entry", en.pos, fmt.Sprintf("entering the comment state consumes %d bytes; more than 2 (`<!`) hides the abruptly closed comments `<!-->` and `<!--->`, after which tags are live", en.advance))
			}
		}
	}
	sort.Strings(table)
	c.Lists["filterRaw_skip_states"] = table
}

const maybeLowerOriginal = "\thasUpper := false\n\tfor _, b := range x {\n\t\tif 'A' <= b && b <= 'Z' {\n\t\t\thasUpper = true\n\t\t\tbreak\n\t\t}\n\t}\n\tif !hasUpper {\n\t\treturn x\n\t}\n\n\t*buf = (*buf)[:0]\n\tfor _, b := range x {\n\t\tif 'A' <= b && b <= 'Z' {\n\t\t\t*buf = append(*buf, b-'A'+'a')\n\t\t} else {\n\t\t\t*buf = append(*buf, b)\n\t\t}\n\t}\n\treturn *buf\n"

func maybeLowerHeadTail(searchPred, tailFrom string) string {
	return "\tfirstUpper := -1\n\tfor i := 0; i < len(x); i++ {\n\t\tif " + searchPred + " {\n\t\t\tfirstUpper = i\n\t\t\tbreak\n\t\t}\n\t}\n\tif firstUpper < 0 {\n\t\treturn x\n\t}\n\t*buf = append((*buf)[:0], x[:firstUpper]...)\n\tfor _, b := range x[" + tailFrom + ":] {\n\t\tif 'A' <= b && b <= 'Z' {\n\t\t\tb += 'a' - 'A'\n\t\t}\n\t\t*buf = append(*buf, b)\n\t}\n\treturn *buf\n"
}

func init() {
	addControls(
		Control{Name: "neg-maybeLower-verbatim-head-then-tail", Props: []string{"C17"}, File: "html_renderer.go", Negative: true,
			Old: maybeLowerOriginal, New: maybeLowerHeadTail("'A' <= x[i] && x[i] <= 'Z'", "firstUpper")},
		Control{Name: "maybeLower-head-search-misses-Z", Props: []string{"C17"}, File: "html_renderer.go",
			Old: maybeLowerOriginal, New: maybeLowerHeadTail("'A' <= x[i] && x[i] < 'Z'", "firstUpper"), Expect: "LOWER/maybeLower:bulk#",
			Why: "a head that is copied verbatim because a search found no upper-case letter in it: the search has to know all of them ('Zap' keeps its Z and the filter misses <Zap>... spelled titlE)"},
		Control{Name: "maybeLower-tail-skips-first-upper", Props: []string{"C17"}, File: "html_renderer.go",
			Old: maybeLowerOriginal, New: maybeLowerHeadTail("'A' <= x[i] && x[i] <= 'Z'", "firstUpper+1"), Expect: "LOWER/maybeLower:byte#",
			Why: "the byte at the first upper-case position is neither in the head nor in the tail"},
	)
}

// sliceRoot peels re-slices without an upper bound: v = root[l1:][l2:]... ; the start is base + k with at most one
// non-constant term (base nil: a constant start).
func sliceRoot(v ssa.Value) (root, base ssa.Value, k int64, ok bool) {
	root = v
	for {
		sl, isSl := root.(*ssa.Slice)
		if !isSl {
			return root, base, k, true
		}
		if sl.High != nil || sl.Max != nil {
			return nil, nil, 0, false
		}
		if sl.Low != nil {
			if cst, isC := constInt(sl.Low); isC {
				k += cst
			} else {
				lb, lk := linTerm(sl.Low)
				if base != nil {
					return nil, nil, 0, false
				}
				base, k = lb, k+lk
			}
		}
		root = sl.X
	}
}

// elementPos: the position in the root slice that ia addresses: root[base+k].
func elementPos(ia *ssa.IndexAddr) (root, base ssa.Value, k int64, ok bool) {
	root, base, k, ok = sliceRoot(ia.X)
	if !ok {
		return
	}
	if cst, isC := constInt(ia.Index); isC {
		return root, base, k + cst, true
	}
	ib, ik := linTerm(ia.Index)
	if base != nil {
		return nil, nil, 0, false
	}
	return root, ib, k + ik, true
}
