package main

// C17 — tag filtering, emitter-side clauses: HTX-EMIT, FR-PROV, LOWER, GFMSET, NILFILTER.

import (
	"fmt"
	"go/token"
	"go/types"
	"sort"
	"strings"

	"golang.org/x/tools/go/ssa"
)

func init() { props["C17"] = checkC17 }

func isFilterTagLoad(v ssa.Value) bool {
	_, ok := isLoadOfField(v, "HTMLRenderer", "FilterTag")
	return ok
}

// filterNonNilDominates: blk is behind the non-nil edge of a FilterTag nil test in its function.
func filterNonNilDominates(fn *ssa.Function, blk *ssa.BasicBlock) bool {
	for _, b := range fn.Blocks {
		iff := blockIf(b)
		if iff == nil {
			continue
		}
		x, ni, ok := nilTest(iff.Cond)
		if !ok || !isFilterTagLoad(x) {
			continue
		}
		if edgeDominates(b, 1-ni, blk) {
			return true
		}
	}
	return false
}

func checkC17(c *Ctx) {
	htxRules(c)
	c.Rule("FR-PROV", "Inside filterRaw everything appended to the output is a sub-slice of the raw-HTML parameter or the constant &lt; (necessary for 'differs only by < → &lt;').")
	c.Rule("LOWER", "The argument of every FilterTag call in filterRaw is the result of maybeLower, whose per-byte mapping is exactly ASCII lower-casing (A–Z → a–z, identity elsewhere); in the tag emitters the argument is the slice of the buffer holding the atom name just written.")
	c.Rule("GFMSET", "FilterTagGFM returns true at least for the atoms title, textarea, style, xmp, iframe, noembed, noframes, script, plaintext (a superset still satisfies the property).")
	c.Rule("NILFILTER", "With FilterTag == nil no emitter takes a filtering branch: every FilterTag call, every roll-back and every &lt; substitution is dominated by the FilterTag != nil edge (in its function, or at every call site of its function).")
	p := c.P
	r := runHTX(c)
	h := r.h
	ruleHTXEmit(c, h)
	// FR-PROV
	fr := p.Method("renderState", "filterRaw")
	if c.NeedFunc("FR-PROV", fr, "(*renderState).filterRaw") {
		var raw *ssa.Parameter
		for _, prm := range fr.Params[1:] {
			if _, ok := prm.Type().Underlying().(*types.Slice); ok {
				raw = prm
			}
		}
		n := 0
		var ins []ssa.Instruction
		for in := range h.events[fr] {
			ins = append(ins, in)
		}
		sort.Slice(ins, func(i, j int) bool { return ins[i].Pos() < ins[j].Pos() })
		for _, in := range ins {
			ev := h.events[fr][in]
			if ev.kind == evMarkLen {
				continue
			}
			n++
			key := fmt.Sprintf("filterRaw:append#%d", n)
			switch ev.kind {
			case evConst:
				c.Check(ev.s == "&lt;", "FR-PROV", key, in.Pos(), fmt.Sprintf("constant %q: only &lt; may be inserted", ev.s))
			case evRaw:
				call := in.(*ssa.Call)
				v := call.Call.Args[1]
				ok := false
				for {
					sl, isSl := v.(*ssa.Slice)
					if !isSl {
						break
					}
					v = sl.X
					if v == ssa.Value(raw) {
						ok = true
					}
				}
				c.Check(ok, "FR-PROV", key, in.Pos(), "appended bytes must be a sub-slice of the raw-HTML parameter, got "+ev.desc)
			default:
				c.Viol("FR-PROV", key, in.Pos(), "filterRaw appends something that is neither a sub-slice of its input nor &lt;")
			}
		}
		if n < 4 {
			c.Undecided("FR-PROV", "instance-count", token.NoPos, fmt.Sprintf("%d appends found in filterRaw, 4 confirmed by hand", n))
		}
	}
	// LOWER + NILFILTER over all FilterTag calls
	ml := p.Func("maybeLower")
	nCalls := 0
	for _, fn := range p.Funcs {
		eachInstr(fn, func(in ssa.Instruction) {
			call, ok := in.(*ssa.Call)
			if !ok || !isFilterTagLoad(call.Call.Value) || len(call.Call.Args) != 1 {
				return
			}
			nCalls++
			key := fmt.Sprintf("%s:FilterTag#%d", shortFuncName(fn), nCalls)
			arg := call.Call.Args[0]
			switch a := arg.(type) {
			case *ssa.Call:
				c.Check(a.Call.StaticCallee() == ml && ml != nil, "LOWER", key, in.Pos(), "argument must be maybeLower(name), got "+describeValue(arg))
			case *ssa.Slice:
				c.Check(h.buf(a.X), "LOWER", key, in.Pos(), "argument must be the just-written atom name in the output buffer")
			default:
				c.Viol("LOWER", key, in.Pos(), "FilterTag argument is neither a lower-cased name nor an atom name: "+describeValue(arg))
			}
			guarded := filterNonNilDominates(fn, call.Block()) || allCallSitesFiltered(p, fn)
			c.Check(guarded, "NILFILTER", key, in.Pos(), "FilterTag must be called only where it is known to be non-nil")
		})
	}
	if nCalls < 3 {
		c.Undecided("LOWER", "instance-count", token.NoPos, fmt.Sprintf("%d FilterTag calls found, 3 confirmed by hand", nCalls))
	}
	// NILFILTER: roll-backs and &lt; substitutions
	for fn, evs := range h.events {
		for in, ev := range evs {
			if ev.kind == evRollback || (ev.kind == evConst && strings.HasPrefix(ev.s, "&lt;") && fn.Name() != "escapeHTML") {
				key := fmt.Sprintf("%s:%s", shortFuncName(fn), map[bool]string{true: "rollback", false: "&lt;"}[ev.kind == evRollback])
				guarded := filterNonNilDominates(fn, in.Block()) || allCallSitesFiltered(p, fn)
				c.Check(guarded, "NILFILTER", key, in.Pos(), "filtering branch must be unreachable when FilterTag is nil")
			}
		}
	}
	// maybeLower mapping
	if c.NeedFunc("LOWER", ml, "maybeLower") {
		checkLowerMap(c, ml)
	}
	ruleGFMSet(c)
	c.Assume("agreement of filterRaw's comment/CDATA/declaration scanner with the WHATWG tokenizer is a language-equivalence question and is not decided")
}

// allCallSitesFiltered: every static call of fn lies behind a FilterTag != nil edge in its caller.
func allCallSitesFiltered(p *Program, fn *ssa.Function) bool {
	n := 0
	ok := true
	for _, caller := range p.Funcs {
		eachInstr(caller, func(in ssa.Instruction) {
			if call, isC := in.(*ssa.Call); isC && call.Call.StaticCallee() == fn {
				n++
				if !filterNonNilDominates(caller, call.Block()) {
					ok = false
				}
			}
		})
	}
	return n > 0 && ok
}

// checkLowerMap: every computed byte maybeLower appends equals the ASCII lower-casing of the source byte, and source bytes
// copied unchanged are never upper-case letters.
func checkLowerMap(c *Ctx, fn *ssa.Function) {
	bs := newBSET(c.P)
	n := 0
	eachInstr(fn, func(in ssa.Instruction) {
		call, ok := in.(*ssa.Call)
		if !ok {
			return
		}
		if _, ok := isBuiltinCall(call, "append"); !ok || len(call.Call.Args) < 2 {
			return
		}
		elems := varargElems(call)
		if len(elems) != 1 {
			return
		}
		v := elems[0]
		// the source byte: a load of x[i]
		var src ssa.Value
		seen := map[ssa.Value]bool{}
		var find func(v ssa.Value)
		find = func(v ssa.Value) {
			if v == nil || seen[v] {
				return
			}
			seen[v] = true
			switch x := v.(type) {
			case *ssa.UnOp:
				if x.Op == token.MUL {
					if _, ok := x.X.(*ssa.IndexAddr); ok {
						src = x
						return
					}
				}
				find(x.X)
			case *ssa.BinOp:
				find(x.X)
				find(x.Y)
			case *ssa.Convert:
				find(x.X)
			}
		}
		find(v)
		if src == nil {
			return
		}
		n++
		key := fmt.Sprintf("maybeLower:byte#%d", n)
		if ia, ok := src.(*ssa.UnOp).X.(*ssa.IndexAddr); ok {
			okCov, why := ia.X == ssa.Value(fn.Params[0]), "the bytes copied are not elements of the whole name parameter (a prefix or suffix is dropped)"
			if okCov {
				okCov, why = unitStrideOver(ia.Index, fn.Params[0])
			}
			if why == "" {
				why = "every byte of the name is copied"
			}
			c.Check(okCov, "LOWER", key+":coverage", in.Pos(), why)
		}
		isSym := func(x ssa.Value) bool { return x == src }
		reach := bs.reachUnderSym(fn, isSym, byteDomain())
		var bad []int64
		for d := range reach[call.Block()] {
			st := &evalState{e: bs, fn: fn, isSym: isSym, d: d, from: make([]int, len(fn.Blocks))}
			got, ok := st.eval(v)
			want := d
			if d >= 'A' && d <= 'Z' {
				want = d - 'A' + 'a'
			}
			if !ok || got != want {
				bad = append(bad, d)
			}
		}
		sort.Slice(bad, func(i, j int) bool { return bad[i] < bad[j] })
		c.Check(len(bad) == 0, "LOWER", key, in.Pos(), "appended byte must be the ASCII lower-casing of the source byte; deviating source bytes: "+describeSet(bad, true))
	})
	if n < 2 {
		c.Undecided("LOWER", "maybeLower:shape", fn.Pos(), "per-byte appends of maybeLower not recognised")
	}
}

var gfmRequired = []string{"Title", "Textarea", "Style", "Xmp", "Iframe", "Noembed", "Noframes", "Script", "Plaintext"}

func ruleGFMSet(c *Ctx) {
	fn := c.P.Func("FilterTagGFM")
	if !c.NeedFunc("GFMSET", fn, "FilterTagGFM") {
		return
	}
	// atom constants of the repository's own atom package
	var atomPkg *types.Package
	for _, imp := range c.P.CM.Types.Imports() {
		if imp.Path() == "golang.org/x/net/html/atom" {
			atomPkg = imp
		}
	}
	if atomPkg == nil {
		c.Undecided("GFMSET", "atom-package", fn.Pos(), "package commonmark no longer imports x/net/html/atom")
		return
	}
	vals := map[string]int64{}
	var dom []int64
	for _, n := range gfmRequired {
		k, ok := atomPkg.Scope().Lookup(n).(*types.Const)
		if !ok {
			c.Undecided("GFMSET", "atom:"+n, fn.Pos(), "atom constant not found")
			return
		}
		v, _ := constInt64Of(k)
		vals[n] = v
		dom = append(dom, v)
	}
	// symbol: the result of atom.Lookup on the parameter
	isSym := func(v ssa.Value) bool {
		call, ok := v.(*ssa.Call)
		if !ok {
			return false
		}
		f := call.Call.StaticCallee()
		return f != nil && f.String() == "golang.org/x/net/html/atom.Lookup" && len(call.Call.Args) == 1 && call.Call.Args[0] == ssa.Value(fn.Params[0])
	}
	e := newBSET(c.P)
	t := e.TableSym(fn, dom, isSym)
	if t.why != "" {
		c.Undecided("GFMSET", "FilterTagGFM", fn.Pos(), "predicate not analysable as a function of atom.Lookup(tag): "+t.why)
		return
	}
	for i, n := range gfmRequired {
		r := t.res[i]
		c.Check(r.kind == oRet && r.val != 0, "GFMSET", "FilterTagGFM:"+strings.ToLower(n), fn.Pos(), "must reject (return true for) <"+strings.ToLower(n)+">")
	}
}

func init() {
	addControls(
		Control{Name: "GFM-forgets-noembed", Props: []string{"C17"}, File: "html_renderer.go",
			Old: "\t\ttagAtom == atom.Noembed ||\n", New: "", Expect: "GFMSET/FilterTagGFM:noembed"},
		Control{Name: "br-emitted-as-constant", Props: []string{"C17"}, File: "html_renderer.go",
			Old: "\tcase HardLineBreakKind:\n\t\tr.openTag(atom.Br)\n\t\tr.dst = append(r.dst, '\\n')", New: "\tcase HardLineBreakKind:\n\t\tr.dst = append(r.dst, \"<br>\\n\"...)", Expect: "HTX-EMIT"},
		Control{Name: "filterRaw-writes-lowercased-name", Props: []string{"C17"}, File: "html_renderer.go",
			Old: "\t\t\t\t\t\tr.dst = append(r.dst, rawHTML[tagNameStart:tagEnd]...)", New: "\t\t\t\t\t\tr.dst = append(r.dst, tagName...)\n\t\t\t\t\t\tr.dst = append(r.dst, rawHTML[tagNameEnd:tagEnd]...)", Expect: "FR-PROV"},
		Control{Name: "FilterTag-gets-raw-case", Props: []string{"C17"}, File: "html_renderer.go",
			Old: "\t\t\t\t\tif r.FilterTag(tagName) {", New: "\t\t\t\t\t_ = tagName\n\t\t\t\t\tif r.FilterTag(rawHTML[tagNameStart:tagNameEnd]) {", Expect: "LOWER"},
		Control{Name: "maybeLower-off-by-one-range", Props: []string{"C17"}, File: "html_renderer.go",
			Old: "\t\tif 'A' <= b && b <= 'Z' {\n\t\t\t*buf = append(*buf, b-'A'+'a')", New: "\t\tif 'A' <= b && b < 'Z' {\n\t\t\t*buf = append(*buf, b-'A'+'a')", Expect: "LOWER/maybeLower"},
		Control{Name: "closeTag-filter-without-nil-check", Props: []string{"C17"}, File: "html_renderer.go",
			Old: "\tif r.FilterTag != nil && r.FilterTag(r.dst[start+1:]) {\n\t\tr.dst = r.dst[:start]\n\t\tr.dst = append(r.dst, \"&lt;/\"...)", New: "\tif r.FilterTag(r.dst[start+1:]) {\n\t\tr.dst = r.dst[:start]\n\t\tr.dst = append(r.dst, \"&lt;/\"...)", Expect: "NILFILTER"},
		Control{Name: "closeTag-skips-filter", Props: []string{"C17"}, File: "html_renderer.go",
			Old: "\tif r.FilterTag != nil && r.FilterTag(r.dst[start+1:]) {\n\t\tr.dst = r.dst[:start]\n\t\tr.dst = append(r.dst, \"&lt;/\"...)\n\t\tr.dst = append(r.dst, name.String()...)\n\t}\n\tr.dst = append(r.dst, '>')", New: "\t_ = start\n\tr.dst = append(r.dst, '>')", Expect: "HTX-EMIT"},
		Control{Name: "neg-GFM-as-switch", Props: []string{"C17"}, File: "html_renderer.go", Negative: true,
			Old: "\treturn tagAtom == atom.Title ||\n\t\ttagAtom == atom.Textarea ||\n\t\ttagAtom == atom.Style ||\n\t\ttagAtom == atom.Xmp ||\n\t\ttagAtom == atom.Iframe ||\n\t\ttagAtom == atom.Noembed ||\n\t\ttagAtom == atom.Noframes ||\n\t\ttagAtom == atom.Script ||\n\t\ttagAtom == atom.Plaintext",
			New: "\tswitch tagAtom {\n\tcase atom.Title, atom.Textarea, atom.Style, atom.Xmp, atom.Iframe, atom.Noembed, atom.Noframes, atom.Script, atom.Plaintext, atom.Object:\n\t\treturn true\n\t}\n\treturn false"},
	)
}
