package main

// parser_rules.go — rules on the block parser's reader loop and bookkeeping (C01, C08, parts of C04).

import (
	"fmt"
	"go/token"
	"go/types"
	"sort"
	"strings"

	"golang.org/x/tools/go/ssa"
)

// sameValue: identical SSA value, or two loads of the same field of the same base (no CSE in go/ssa).
func sameValue(a, b ssa.Value) bool {
	if a == b {
		return true
	}
	ua, ok1 := a.(*ssa.UnOp)
	ub, ok2 := b.(*ssa.UnOp)
	if ok1 && ok2 && ua.Op == token.MUL && ub.Op == token.MUL {
		fa, ok1 := ua.X.(*ssa.FieldAddr)
		fb, ok2 := ub.X.(*ssa.FieldAddr)
		if ok1 && ok2 && fa.Field == fb.Field && sameValue(fa.X, fb.X) {
			return true
		}
	}
	ca, ok1 := a.(*ssa.Const)
	cb, ok2 := b.(*ssa.Const)
	if ok1 && ok2 && ca.Value != nil && cb.Value != nil && ca.Value.ExactString() == cb.Value.ExactString() {
		return true
	}
	return false
}

// ---------------------------------------------------------------------------------------------
// LATCH / NOREAD / STICKY / READ-N-USED on BlockParser

func ruleParserLatch(c *Ctx) {
	c.Rule("LATCH", "Every store to BlockParser.err outside a constructor literal happens in a state where the same parser's err field is known to be nil (forward must-analysis over the CFG), so a stored error or end-of-input is never replaced.")
	c.Rule("NOREAD", "Every call of io.Reader.Read in the module is made only while the owning BlockParser's err field is known to be nil: the reader is never consulted again after it reported an error or end of input.")
	p := c.P
	storeSet := mayStoreFieldSet(p, "BlockParser", "err")
	n := 0
	for _, fn := range p.Funcs {
		if fn.Pkg != p.CMs {
			continue
		}
		eachInstr(fn, func(in ssa.Instruction) {
			if st, ok := in.(*ssa.Store); ok {
				fa, ok := isFieldAddr(st.Addr, "BlockParser", "err")
				if !ok {
					return
				}
				n++
				key := fmt.Sprintf("%s:store#%d", shortFuncName(fn), n)
				if _, isAlloc := fa.X.(*ssa.Alloc); isAlloc {
					c.OK("LATCH", key, st.Pos(), "constructor literal")
					return
				}
				ff := newFieldFlow(p, fn, fa.X, "BlockParser", "err", storeSet)
				s := ff.before(st)
				c.Check(s == nsNil, "LATCH", key, st.Pos(), "err state before the store: "+s.String())
			}
		})
	}
	if n < 1 {
		c.Undecided("LATCH", "instance-count", token.NoPos, fmt.Sprintf("%d stores to BlockParser.err found; every store to the field is inspected and the reader's error must be kept somewhere", n))
	}
	reads := 0
	for _, fn := range p.Funcs {
		eachInstr(fn, func(in ssa.Instruction) {
			ci, ok := isInvokeOf(in, "Read")
			if !ok {
				return
			}
			reads++
			key := fmt.Sprintf("%s:Read#%d", shortFuncName(fn), reads)
			fa, ok := isLoadOfField(ci.Common().Value, "BlockParser", "r")
			if !ok {
				c.Undecided("NOREAD", key, in.Pos(), "Read on a reader that is not a BlockParser's r field: "+ci.Common().Value.String())
				return
			}
			ff := newFieldFlow(p, fn, fa.X, "BlockParser", "err", storeSet)
			s := ff.before(in)
			c.Check(s == nsNil, "NOREAD", key, in.Pos(), "err state before Read: "+s.String())
		})
	}
	if reads < 1 {
		c.Undecided("NOREAD", "instance-count", token.NoPos, "no io.Reader.Read call found in the module")
	}
}

func ruleSticky(c *Ctx) {
	c.Rule("STICKY", "Every error value NextBlock returns is nil or a load of the receiver's err field (never a fresh value), so the stored error is what the caller sees on every further call.")
	fn := c.P.Method("BlockParser", "NextBlock")
	if !c.NeedFunc("STICKY", fn, "(*BlockParser).NextBlock") {
		return
	}
	recv := receiverOf(fn)
	for i, r := range returnsOf(fn) {
		key := fmt.Sprintf("NextBlock:return#%d", i)
		if len(r.Results) != 2 {
			c.Undecided("STICKY", key, r.Pos(), "unexpected result arity")
			continue
		}
		ev := r.Results[1]
		if isNilConst(ev) {
			c.OK("STICKY", key, r.Pos(), "returns nil error")
			continue
		}
		fa, ok := isLoadOfField(ev, "BlockParser", "err")
		c.Check(ok && fa.X == recv, "STICKY", key, r.Pos(), "returned error must be a load of the receiver's err field, got "+ev.String())
	}
}

func ruleReadNUsed(c *Ctx) {
	c.Rule("READ-N-USED", "The byte count returned by Read extends the parser's buffer on every path from the call (the store of the extended buffer is not control-dependent on the error returned with it): data delivered together with end-of-input or an error is kept.")
	n := 0
	for _, fn := range c.P.Funcs {
		eachInstr(fn, func(in ssa.Instruction) {
			ci, ok := isInvokeOf(in, "Read")
			if !ok {
				return
			}
			n++
			key := fmt.Sprintf("%s:Read#%d", shortFuncName(fn), n)
			var nval ssa.Value
			for _, r := range refsOf(ci.(ssa.Value)) {
				if ex, ok := r.(*ssa.Extract); ok && ex.Index == 0 {
					nval = ex
				}
			}
			if nval == nil {
				c.Viol("READ-N-USED", key, in.Pos(), "the byte count returned by Read is discarded")
				return
			}
			// stores to BlockParser.buf whose value depends on nval
			var uses []ssa.Instruction
			eachInstr(fn, func(in2 ssa.Instruction) {
				st, ok := in2.(*ssa.Store)
				if !ok {
					return
				}
				if _, ok := isFieldAddr(st.Addr, "BlockParser", "buf"); !ok {
					return
				}
				if dependsOn(st.Val, nval) {
					uses = append(uses, st)
				}
			})
			if len(uses) == 0 {
				c.Viol("READ-N-USED", key, in.Pos(), "no store to the parser's buffer depends on the byte count returned by Read")
				return
			}
			isUse := func(x ssa.Instruction) bool {
				for _, u := range uses {
					if u == x {
						return true
					}
				}
				return false
			}
			// every path from the Read to a function exit or back to the Read passes through such a store
			escapes := pathToExitAvoiding(in, isUse) || pathAvoiding(in, in, isUse)
			c.Check(!escapes, "READ-N-USED", key, in.Pos(), "there must be no path from Read that skips extending the buffer by n")
		})
	}
	if n < 1 {
		c.Undecided("READ-N-USED", "instance-count", token.NoPos, "no io.Reader.Read call found")
	}
}

// dependsOn: v's backward data slice (through arithmetic, slices, conversions, phis and call arguments) contains src.
func dependsOn(v, src ssa.Value) bool {
	seen := map[ssa.Value]bool{}
	var w func(v ssa.Value) bool
	w = func(v ssa.Value) bool {
		if v == src {
			return true
		}
		if v == nil || seen[v] {
			return false
		}
		seen[v] = true
		switch x := v.(type) {
		case *ssa.BinOp:
			return w(x.X) || w(x.Y)
		case *ssa.UnOp:
			if x.Op == token.MUL {
				return false
			}
			return w(x.X)
		case *ssa.Convert:
			return w(x.X)
		case *ssa.ChangeType:
			return w(x.X)
		case *ssa.Slice:
			return w(x.X) || (x.Low != nil && w(x.Low)) || (x.High != nil && w(x.High)) || (x.Max != nil && w(x.Max))
		case *ssa.Phi:
			for _, e := range x.Edges {
				if w(e) {
					return true
				}
			}
		case *ssa.Call:
			for _, a := range x.Call.Args {
				if w(a) {
					return true
				}
			}
		case *ssa.Extract:
			return w(x.Tuple)
		}
		return false
	}
	return w(v)
}

// ---------------------------------------------------------------------------------------------
// SAMEMACHINE / TWOPASS / CTOR on Parse

func ruleCtor(c *Ctx) {
	c.Rule("CTOR", "Every allocation of a BlockParser gives the line counter the same non-zero constant the canonical constructor NewBlockParser gives it (sibling constructors must agree): StartLine is documented as 1-based and is copied verbatim from it.")
	p := c.P
	ctor := p.Func("NewBlockParser")
	if !c.NeedFunc("CTOR", ctor, "NewBlockParser") {
		return
	}
	ctorConst := func(fn *ssa.Function, al *ssa.Alloc) (int64, bool) {
		var val int64
		found := false
		for _, r := range refsOf(al) {
			fa, ok := r.(*ssa.FieldAddr)
			if !ok {
				continue
			}
			_, f, _ := fieldAddrInfo(fa)
			if f != "lineno" {
				continue
			}
			for _, rr := range refsOf(fa) {
				if st, ok := rr.(*ssa.Store); ok && st.Addr == fa {
					if v, ok := constInt(st.Val); ok {
						val, found = v, true
					} else {
						return 0, false
					}
				}
			}
		}
		return val, found
	}
	var want int64
	haveWant := false
	eachInstr(ctor, func(in ssa.Instruction) {
		if al, ok := in.(*ssa.Alloc); ok && typeName(deref(al.Type())) == "BlockParser" {
			if v, ok := ctorConst(ctor, al); ok {
				want, haveWant = v, true
			}
		}
	})
	if !haveWant || want == 0 {
		c.Undecided("CTOR", "NewBlockParser.lineno", ctor.Pos(), "the canonical constructor no longer sets lineno to a non-zero constant")
		return
	}
	n := 0
	for _, fn := range p.Funcs {
		eachInstr(fn, func(in ssa.Instruction) {
			al, ok := in.(*ssa.Alloc)
			if !ok || typeName(deref(al.Type())) != "BlockParser" {
				return
			}
			if _, isStruct := deref(al.Type()).Underlying().(*types.Struct); !isStruct {
				return
			}
			n++
			key := "BlockParser.lineno@" + shortFuncName(fn)
			got, ok := ctorConst(fn, al)
			if !ok {
				got = 0
			}
			c.Check(got == want, "CTOR", key, al.Pos(), fmt.Sprintf("line counter initialised to %d here, %d in NewBlockParser", got, want))
		})
	}
	if n < 2 {
		c.Undecided("CTOR", "instance-count", token.NoPos, "fewer than 2 BlockParser allocation sites found")
	}
}

func ruleSameMachine(c *Ctx) {
	c.Rule("SAMEMACHINE", "Every *RootBlock in Parse's result is a result of (*BlockParser).NextBlock on the parser Parse constructed (no second block splitter).")
	c.Rule("TWOPASS", "In Parse every InlineParser.Rewrite call is dominated by the end-of-input edge of the NextBlock loop, every block is passed through ReferenceMap.Extract before the loop continues, and the map extracted into is the one handed to the inline parser and returned: definitions after a use are visible.")
	p := c.P
	fn := p.Func("Parse")
	if !c.NeedFunc("SAMEMACHINE", fn, "Parse") {
		return
	}
	nextBlock := p.Method("BlockParser", "NextBlock")
	rewrite := p.Method("InlineParser", "Rewrite")
	extract := p.Method("ReferenceMap", "Extract")
	if nextBlock == nil || rewrite == nil || extract == nil {
		c.Undecided("SAMEMACHINE", "anchors", fn.Pos(), "NextBlock/Rewrite/Extract not resolved")
		return
	}
	// elements of the returned slice
	var elems []ssa.Value
	okShape := true
	seen := map[ssa.Value]bool{}
	var walk func(v ssa.Value)
	walk = func(v ssa.Value) {
		if seen[v] {
			return
		}
		seen[v] = true
		switch x := v.(type) {
		case *ssa.Phi:
			for _, e := range x.Edges {
				walk(e)
			}
		case *ssa.Const:
		case *ssa.Call:
			if _, ok := isBuiltinCall(x, "append"); ok {
				walk(x.Call.Args[0])
				if len(x.Call.Args) > 1 {
					if sl, ok := x.Call.Args[1].(*ssa.Slice); ok {
						if al, ok := sl.X.(*ssa.Alloc); ok {
							for _, r := range refsOf(al) {
								if ia, ok := r.(*ssa.IndexAddr); ok {
									for _, rr := range refsOf(ia) {
										if st, ok := rr.(*ssa.Store); ok {
											elems = append(elems, st.Val)
										}
									}
								}
							}
							return
						}
					}
					okShape = false
				}
				return
			}
			okShape = false
		case *ssa.Slice:
			walk(x.X)
		default:
			okShape = false
		}
	}
	for _, r := range returnsOf(fn) {
		if len(r.Results) > 0 {
			walk(r.Results[0])
		}
	}
	if !okShape || len(elems) == 0 {
		c.Undecided("SAMEMACHINE", "Parse:result", fn.Pos(), "the construction of Parse's result slice is not an append chain of single elements")
	}
	var nbCalls []*ssa.Call
	for i, e := range elems {
		ex, ok := e.(*ssa.Extract)
		good := false
		if ok && ex.Index == 0 {
			if call, ok := ex.Tuple.(*ssa.Call); ok && call.Call.StaticCallee() == nextBlock {
				good = true
				nbCalls = append(nbCalls, call)
			}
		}
		c.Check(good, "SAMEMACHINE", fmt.Sprintf("Parse:element#%d", i), e.Pos(), "appended block must be the first result of (*BlockParser).NextBlock, got "+e.String())
	}
	// TWOPASS (a): Rewrite dominated by the EOF edge
	nRewrite := 0
	eachInstr(fn, func(in ssa.Instruction) {
		call, ok := in.(*ssa.Call)
		if !ok || call.Call.StaticCallee() != rewrite {
			return
		}
		nRewrite++
		dominated := false
		for _, b := range fn.Blocks {
			iff := blockIf(b)
			if iff == nil {
				continue
			}
			bo, ok := iff.Cond.(*ssa.BinOp)
			if !ok || (bo.Op != token.EQL && bo.Op != token.NEQ) {
				continue
			}
			isErrOfNB := func(v ssa.Value) bool {
				ex, ok := v.(*ssa.Extract)
				if !ok || ex.Index != 1 {
					return false
				}
				cl, ok := ex.Tuple.(*ssa.Call)
				return ok && cl.Call.StaticCallee() == nextBlock
			}
			isEOF := func(v ssa.Value) bool {
				u, ok := v.(*ssa.UnOp)
				if !ok || u.Op != token.MUL {
					return false
				}
				g, ok := u.X.(*ssa.Global)
				return ok && g.Name() == "EOF" && g.Pkg.Pkg.Path() == "io"
			}
			if (isErrOfNB(bo.X) && isEOF(bo.Y)) || (isErrOfNB(bo.Y) && isEOF(bo.X)) {
				idx := 0
				if bo.Op == token.NEQ {
					idx = 1
				}
				if edgeDominates(b, idx, call.Block()) {
					dominated = true
				}
			}
		}
		c.Check(dominated, "TWOPASS", fmt.Sprintf("Parse:Rewrite#%d", nRewrite), call.Pos(), "Rewrite must run only after NextBlock reported end of input")
	})
	if nRewrite == 0 {
		c.Undecided("TWOPASS", "Parse:Rewrite", fn.Pos(), "no Rewrite call in Parse")
	}
	// TWOPASS (b): each appended block is extracted on every path back to the loop / to exit
	var refMaps []ssa.Value
	for _, nb := range nbCalls {
		var blk ssa.Value
		for _, r := range refsOf(nb) {
			if ex, ok := r.(*ssa.Extract); ok && ex.Index == 0 {
				blk = ex
			}
		}
		var exCalls []ssa.Instruction
		eachInstr(fn, func(in ssa.Instruction) {
			call, ok := in.(*ssa.Call)
			if !ok || call.Call.StaticCallee() != extract {
				return
			}
			// arguments must derive from this block: &blk.Source load and (&blk.Block).AsNode()
			okArgs := 0
			for _, a := range call.Call.Args[1:] {
				if derivesFromBlock(a, blk) {
					okArgs++
				}
			}
			if okArgs == 2 {
				exCalls = append(exCalls, in)
				refMaps = append(refMaps, call.Call.Args[0])
			}
		})
		if len(exCalls) == 0 {
			c.Viol("TWOPASS", "Parse:Extract", nb.Pos(), "no ReferenceMap.Extract call on the block returned by NextBlock (its Source and node)")
			continue
		}
		// from the append of this block, every path to the next NextBlock call or exit passes an Extract
		var appendInstr ssa.Instruction
		eachInstr(fn, func(in ssa.Instruction) {
			if call, ok := in.(*ssa.Call); ok {
				if _, ok := isBuiltinCall(call, "append"); ok && appendInstr == nil {
					if dependsOnVarargs(call, blk) {
						appendInstr = in
					}
				}
			}
		})
		if appendInstr == nil {
			continue
		}
		isEx := func(x ssa.Instruction) bool {
			for _, e := range exCalls {
				if e == x {
					return true
				}
			}
			return false
		}
		skip := pathAvoiding(appendInstr, nb, isEx) || pathToExitAvoiding(appendInstr, isEx)
		// extraction before the append is equally fine
		if skip {
			before := false
			for _, e := range exCalls {
				if e.Block().Dominates(appendInstr.Block()) && (e.Block() != appendInstr.Block() || instrBefore(e, appendInstr)) {
					before = true
				}
			}
			skip = !before
		}
		c.Check(!skip, "TWOPASS", "Parse:Extract-every-block", appendInstr.Pos(), "every block collected must pass through Extract before the next block is read or Parse returns")
	}
	// TWOPASS (c): one map
	var retMap ssa.Value
	for _, r := range returnsOf(fn) {
		if len(r.Results) == 2 {
			retMap = r.Results[1]
		}
	}
	var matcherMap ssa.Value
	eachInstr(fn, func(in ssa.Instruction) {
		if st, ok := in.(*ssa.Store); ok {
			if _, ok := isFieldAddr(st.Addr, "InlineParser", "ReferenceMatcher"); ok {
				matcherMap = stripConv(st.Val)
			}
		}
	})
	same := retMap != nil && matcherMap != nil && retMap == matcherMap
	for _, m := range refMaps {
		if m != retMap {
			same = false
		}
	}
	c.Check(same && len(refMaps) > 0, "TWOPASS", "Parse:one-map", fn.Pos(), "the map definitions are extracted into, the inline parser's matcher and the returned map must be the same value")
}

func derivesFromBlock(a, blk ssa.Value) bool {
	switch x := a.(type) {
	case *ssa.UnOp:
		if fa, ok := x.X.(*ssa.FieldAddr); ok && x.Op == token.MUL {
			return fa.X == blk
		}
	case *ssa.Call:
		for _, arg := range x.Call.Args {
			if fa, ok := arg.(*ssa.FieldAddr); ok && fa.X == blk {
				return true
			}
			if arg == blk {
				return true
			}
		}
	}
	return false
}

func dependsOnVarargs(call *ssa.Call, v ssa.Value) bool {
	if len(call.Call.Args) < 2 {
		return false
	}
	sl, ok := call.Call.Args[1].(*ssa.Slice)
	if !ok {
		return false
	}
	al, ok := sl.X.(*ssa.Alloc)
	if !ok {
		return false
	}
	for _, r := range refsOf(al) {
		if ia, ok := r.(*ssa.IndexAddr); ok {
			for _, rr := range refsOf(ia) {
				if st, ok := rr.(*ssa.Store); ok && st.Val == v {
					return true
				}
			}
		}
	}
	return false
}

// ---------------------------------------------------------------------------------------------
// C01: CLAMP, RET-SELF, ALIAS, CURSOR-PAIR, PROV

func ruleClamp(c *Ctx) {
	c.Rule("CLAMP", "The slice Parse hands to padNulls is a full-slice expression over its source parameter with max = len(source): NUL padding can then never be written into spare capacity of the caller's buffer.")
	c.Rule("RET-SELF", "On padNulls' no-NUL path the returned slice is its parameter itself (no copy), so Source aliases the caller's buffer.")
	p := c.P
	fn := p.Func("Parse")
	pad := p.Func("padNulls")
	if !c.NeedFunc("CLAMP", fn, "Parse") || !c.NeedFunc("CLAMP", pad, "padNulls") {
		return
	}
	var src *ssa.Parameter
	if len(fn.Params) > 0 {
		src = fn.Params[0]
	}
	n := 0
	eachInstr(fn, func(in ssa.Instruction) {
		call, ok := in.(*ssa.Call)
		if !ok || call.Call.StaticCallee() != pad {
			return
		}
		n++
		sl, ok := call.Call.Args[0].(*ssa.Slice)
		good := false
		why := "argument is not a slice expression of the source parameter: " + call.Call.Args[0].String()
		if ok && sl.X == src {
			isLenSrc := func(v ssa.Value) bool {
				cl, ok := isBuiltinCall(v, "len")
				return ok && cl.Call.Args[0] == src
			}
			switch {
			case sl.Max == nil:
				why = "no capacity bound: padNulls may expand NULs in place into the caller's spare capacity"
			case !isLenSrc(sl.Max):
				why = "capacity bound is not len(source)"
			case sl.High != nil && !isLenSrc(sl.High):
				why = "high bound is not len(source)"
			case sl.Low != nil && !isZero(sl.Low):
				why = "low bound is not 0"
			default:
				good, why = true, "source[:len(source):len(source)]"
			}
		}
		c.Check(good, "CLAMP", fmt.Sprintf("Parse:padNulls#%d", n), call.Pos(), why)
	})
	if n == 0 {
		c.Undecided("CLAMP", "Parse:padNulls", fn.Pos(), "Parse no longer calls padNulls; NUL handling moved")
	}
	// also: the parser's buffer in Parse derives from the source parameter (through padNulls), not from a copy
	eachInstr(fn, func(in ssa.Instruction) {
		if st, ok := in.(*ssa.Store); ok {
			if _, ok := isFieldAddr(st.Addr, "BlockParser", "buf"); ok {
				good := false
				switch x := st.Val.(type) {
				case *ssa.Call:
					good = x.Call.StaticCallee() == pad
				case *ssa.Slice:
					good = x.X == src
				case *ssa.Parameter:
					good = x == src
				}
				c.Check(good, "CLAMP", "Parse:buf-origin", st.Pos(), "the parser's buffer must be the (clamped, NUL-padded) source parameter, not a copy: "+st.Val.String())
			}
		}
	})
	// RET-SELF
	var b *ssa.Parameter
	if len(pad.Params) > 0 {
		b = pad.Params[0]
	}
	self := false
	for _, r := range returnsOf(pad) {
		if len(r.Results) == 1 && r.Results[0] == b {
			// must be guarded by n == 0 where n = nullCount(...)
			for _, blk := range pad.Blocks {
				iff := blockIf(blk)
				if iff == nil {
					continue
				}
				if bo, ok := iff.Cond.(*ssa.BinOp); ok && (bo.Op == token.EQL || bo.Op == token.NEQ) && isZero(bo.Y) {
					if cl, ok := bo.X.(*ssa.Call); ok && cl.Call.StaticCallee() == p.Func("nullCount") {
						idx := 0
						if bo.Op == token.NEQ {
							idx = 1
						}
						if edgeDominates(blk, idx, r.Block()) {
							self = true
						}
					}
				}
			}
		}
	}
	c.Check(self, "RET-SELF", "padNulls", pad.Pos(), "a return of the parameter itself guarded by nullCount(...) == 0")
}

func isZero(v ssa.Value) bool {
	n, ok := constInt(v)
	return ok && n == 0
}

func ruleAlias(c *Ctx) {
	c.Rule("ALIAS", "The Source stored in a RootBlock is a sub-slice of the parser's buffer (slice expressions over a load of BlockParser.buf only; no copy, append or conversion).")
	n := 0
	for _, fn := range c.P.Funcs {
		eachInstr(fn, func(in ssa.Instruction) {
			st, ok := in.(*ssa.Store)
			if !ok {
				return
			}
			if _, ok := isFieldAddr(st.Addr, "RootBlock", "Source"); !ok {
				return
			}
			n++
			v := st.Val
			good := false
			for {
				sl, ok := v.(*ssa.Slice)
				if !ok {
					break
				}
				v = sl.X
				if _, ok := isLoadOfField(v, "BlockParser", "buf"); ok {
					good = true
					break
				}
			}
			if _, ok := isLoadOfField(st.Val, "BlockParser", "buf"); ok {
				good = true
			}
			c.Check(good, "ALIAS", fmt.Sprintf("%s:Source#%d", shortFuncName(fn), n), st.Pos(), "Source must be a slice of the parser's buffer, got "+st.Val.String())
		})
	}
	if n == 0 {
		c.Undecided("ALIAS", "instance-count", token.NoPos, "no store to RootBlock.Source found")
	}
}

func ruleCursorPair(c *Ctx) {
	c.Rule("CURSOR-PAIR", "Every store to BlockParser.buf that drops a prefix (a slice of the same field with a non-zero low bound) is accompanied, on every path through the function that executes it, by a store to offset, to lineno and to i of the same parser.")
	n := 0
	for _, fn := range c.P.Funcs {
		eachInstr(fn, func(in ssa.Instruction) {
			st, ok := in.(*ssa.Store)
			if !ok {
				return
			}
			fa, ok := isFieldAddr(st.Addr, "BlockParser", "buf")
			if !ok {
				return
			}
			sl, ok := st.Val.(*ssa.Slice)
			if !ok || sl.Low == nil || isZero(sl.Low) {
				return
			}
			if _, ok := isLoadOfField(sl.X, "BlockParser", "buf"); !ok {
				return
			}
			n++
			for _, f := range []string{"offset", "lineno", "i"} {
				isSt := func(x ssa.Instruction) bool {
					s2, ok := x.(*ssa.Store)
					if !ok {
						return false
					}
					fa2, ok := isFieldAddr(s2.Addr, "BlockParser", f)
					return ok && fa2.X == fa.X
				}
				dom := false
				eachInstr(fn, func(x ssa.Instruction) {
					if isSt(x) && x.Block().Dominates(st.Block()) && (x.Block() != st.Block() || instrBefore(x, st)) {
						// a dominating store counts only if no other prefix cut lies between it and this one: approximated by same block
						if x.Block() == st.Block() {
							dom = true
						}
					}
				})
				after := !pathToExitAvoiding(st, isSt)
				c.Check(dom || after, "CURSOR-PAIR", fmt.Sprintf("%s:cut#%d:%s", shortFuncName(fn), n, f), st.Pos(), "prefix cut of the buffer without a paired update of "+f)
			}
		})
	}
	if n < 1 {
		c.Undecided("CURSOR-PAIR", "instance-count", token.NoPos, fmt.Sprintf("%d prefix cuts found; every store to BlockParser.buf is inspected and the parser must cut consumed input somewhere", n))
	}
}

func ruleProvOffsets(c *Ctx) {
	c.Rule("PROV(offset)", "Every addend of BlockParser.offset and the extent in RootBlock.EndOffset is unpaddedNullLength(buf[:k]) for the same k by which the buffer is cut (never a raw length or index, which is wrong exactly when NUL padding is present).")
	c.Rule("PROV(lineno)", "Every addend of BlockParser.lineno is lineCount(buf[:k]) for the same k by which the buffer is cut, or the constant 1 in the blank-line skipping loop.")
	p := c.P
	unp := p.Func("unpaddedNullLength")
	lc := p.Func("lineCount")
	if !c.NeedFunc("PROV(offset)", unp, "unpaddedNullLength") || !c.NeedFunc("PROV(lineno)", lc, "lineCount") {
		return
	}
	nOff, nLine := 0, 0
	paramIndex := func(fn *ssa.Function, v ssa.Value) int {
		for i, q := range fn.Params {
			if ssa.Value(q) == v {
				return i
			}
		}
		return -1
	}
	callSites := func(fn *ssa.Function) []*ssa.Call {
		var out []*ssa.Call
		for _, g := range p.Funcs {
			eachInstr(g, func(in ssa.Instruction) {
				if call, ok := in.(*ssa.Call); ok && call.Call.StaticCallee() == fn {
					out = append(out, call)
				}
			})
		}
		return out
	}
	// the cut bound(s) of a function: low bounds of `buf = buf[k:]`
	cutsOf := func(fn *ssa.Function) []ssa.Value {
		var cuts []ssa.Value
		eachInstr(fn, func(in ssa.Instruction) {
			if st, ok := in.(*ssa.Store); ok {
				if _, ok := isFieldAddr(st.Addr, "BlockParser", "buf"); ok {
					if sl, ok := st.Val.(*ssa.Slice); ok && sl.Low != nil && !isZero(sl.Low) {
						cuts = append(cuts, sl.Low)
					}
				}
			}
		})
		return cuts
	}
	// isBufPrefix: v is buf[:h] (possibly through a named local or a three-index slice) of the parser's buffer
	isBufPrefix := func(v ssa.Value) (ssa.Value, bool) {
		sl, ok := v.(*ssa.Slice)
		if !ok || sl.Low != nil && !isZero(sl.Low) || sl.High == nil {
			return nil, false
		}
		if _, ok := isLoadOfField(sl.X, "BlockParser", "buf"); !ok {
			return nil, false
		}
		return sl.High, true
	}
	// checkAddendIn decides one addend in the context of fn; cutOK says whether a measured prefix bound is the bound cut
	// off in that context. A parameter is followed to the corresponding argument at every call site of fn.
	var checkAddendIn func(fn *ssa.Function, add ssa.Value, helper *ssa.Function, allowOne bool, cutOK func(ssa.Value) bool, depth int) (bool, string)
	checkAddendIn = func(fn *ssa.Function, add ssa.Value, helper *ssa.Function, allowOne bool, cutOK func(ssa.Value) bool, depth int) (bool, string) {
		if allowOne {
			if v, ok := constInt(add); ok && v == 1 {
				return true, "constant 1 (one blank line)"
			}
		}
		v := add
		for {
			if cv, ok := v.(*ssa.Convert); ok {
				v = cv.X
				continue
			}
			break
		}
		if j := paramIndex(fn, v); j >= 0 && depth < 3 {
			sites := callSites(fn)
			if len(sites) == 0 {
				return false, "addend is a parameter of a function without call sites"
			}
			fnCuts := cutsOf(fn)
			for _, call := range sites {
				caller := call.Parent()
				if j >= len(call.Call.Args) {
					return false, "call with too few arguments"
				}
				callerCuts := cutsOf(caller)
				ok, why := checkAddendIn(caller, call.Call.Args[j], helper, allowOne, func(h ssa.Value) bool {
					// the bound cut in fn, seen from the caller: an argument feeding fn's cut, or the caller's own cut
					for _, k := range fnCuts {
						if pi := paramIndex(fn, k); pi >= 0 && pi < len(call.Call.Args) && sameValue(h, call.Call.Args[pi]) {
							return true
						}
					}
					for _, k := range callerCuts {
						if sameValue(h, k) {
							return true
						}
					}
					return len(fnCuts) == 0 && len(callerCuts) == 0
				}, depth+1)
				if !ok {
					return false, fmt.Sprintf("at the call in %s: %s", shortFuncName(caller), why)
				}
			}
			return true, fmt.Sprintf("parameter; at each of the %d call site(s) %s(buf[:k]) with k the cut bound%s", len(sites), helper.Name(), map[bool]string{true: " or 1", false: ""}[allowOne])
		}
		call, ok := v.(*ssa.Call)
		if !ok || call.Call.StaticCallee() != helper {
			return false, "addend does not come from " + helper.Name() + ": " + add.String()
		}
		h, ok := isBufPrefix(call.Call.Args[0])
		if !ok {
			return false, helper.Name() + " is not applied to a prefix buf[:k] of the parser's buffer"
		}
		if !cutOK(h) {
			return false, "the prefix measured is not the prefix that is cut off the buffer"
		}
		return true, helper.Name() + "(buf[:k]) with k the cut bound"
	}
	// advancers: functions that add a valid addend to BlockParser.offset (directly)
	advancers := map[*ssa.Function]bool{}
	for _, fn := range p.Funcs {
		cuts := cutsOf(fn)
		matchesCut := func(h ssa.Value) bool {
			if len(cuts) == 0 {
				return true
			}
			for _, k := range cuts {
				if sameValue(h, k) {
					return true
				}
			}
			return false
		}
		checkAddend := func(rule, key string, st *ssa.Store, field string, helper *ssa.Function, allowOne bool) bool {
			bo, ok := st.Val.(*ssa.BinOp)
			if !ok || bo.Op != token.ADD {
				c.Viol(rule, key, st.Pos(), "value stored is not `old + addend`: "+st.Val.String())
				return false
			}
			var add ssa.Value
			if _, ok := isLoadOfField(bo.X, "BlockParser", field); ok {
				add = bo.Y
			} else if _, ok := isLoadOfField(bo.Y, "BlockParser", field); ok {
				add = bo.X
			} else {
				c.Viol(rule, key, st.Pos(), "neither operand is the previous value of the field")
				return false
			}
			good, why := checkAddendIn(fn, add, helper, allowOne, matchesCut, 0)
			c.Check(good, rule, key, st.Pos(), why)
			return good
		}
		eachInstr(fn, func(in ssa.Instruction) {
			st, ok := in.(*ssa.Store)
			if !ok {
				return
			}
			if fa, ok := isFieldAddr(st.Addr, "BlockParser", "offset"); ok {
				if _, isAlloc := fa.X.(*ssa.Alloc); isAlloc {
					return
				}
				nOff++
				if checkAddend("PROV(offset)", fmt.Sprintf("%s:offset#%d", shortFuncName(fn), nOff), st, "offset", unp, false) {
					advancers[fn] = true
				}
			}
			if fa, ok := isFieldAddr(st.Addr, "BlockParser", "lineno"); ok {
				if _, isAlloc := fa.X.(*ssa.Alloc); isAlloc {
					return
				}
				nLine++
				checkAddend("PROV(lineno)", fmt.Sprintf("%s:lineno#%d", shortFuncName(fn), nLine), st, "lineno", lc, true)
			}
		})
	}
	for _, fn := range p.Funcs {
		cuts := cutsOf(fn)
		matchesCut := func(h ssa.Value) bool {
			if len(cuts) == 0 {
				return true
			}
			for _, k := range cuts {
				if sameValue(h, k) {
					return true
				}
			}
			return false
		}
		var startLoad ssa.Instruction
		eachInstr(fn, func(in ssa.Instruction) {
			if st, ok := in.(*ssa.Store); ok {
				if _, ok := isFieldAddr(st.Addr, "RootBlock", "StartOffset"); ok {
					if ld, ok := st.Val.(ssa.Instruction); ok {
						startLoad = ld
					}
				}
			}
		})
		eachInstr(fn, func(in ssa.Instruction) {
			st, ok := in.(*ssa.Store)
			if !ok {
				return
			}
			if _, ok := isFieldAddr(st.Addr, "RootBlock", "EndOffset"); ok {
				nOff++
				key := fmt.Sprintf("%s:EndOffset#%d", shortFuncName(fn), nOff)
				bo, ok := st.Val.(*ssa.BinOp)
				good := false
				why := "EndOffset must be offset + unpaddedNullLength(buf[:k]) with k the cut bound, or the offset after it was advanced by exactly that"
				if ok && bo.Op == token.ADD {
					for _, pair := range [][2]ssa.Value{{bo.X, bo.Y}, {bo.Y, bo.X}} {
						if _, ok := isLoadOfField(pair[0], "BlockParser", "offset"); ok {
							v := pair[1]
							for {
								if cv, ok := v.(*ssa.Convert); ok {
									v = cv.X
									continue
								}
								break
							}
							if call, ok := v.(*ssa.Call); ok && call.Call.StaticCallee() == unp {
								if h, ok := isBufPrefix(call.Call.Args[0]); ok && matchesCut(h) {
									good = true
								}
							}
						}
					}
				} else if _, isLd := isLoadOfField(st.Val, "BlockParser", "offset"); isLd && startLoad != nil {
					// the parser's offset read again after exactly one advance that follows the read used for StartOffset
					ld := st.Val.(ssa.Instruction)
					nAdv := 0
					eachInstr(fn, func(x ssa.Instruction) {
						isAdv := false
						if call, ok := x.(*ssa.Call); ok && advancers[call.Call.StaticCallee()] {
							isAdv = true
						}
						if st2, ok := x.(*ssa.Store); ok {
							if fa, ok := isFieldAddr(st2.Addr, "BlockParser", "offset"); ok {
								if _, isAlloc := fa.X.(*ssa.Alloc); !isAlloc {
									isAdv = true
								}
							}
						}
						if !isAdv {
							return
						}
						after := x.Block() == startLoad.Block() && instrBefore(startLoad, x) || x.Block() != startLoad.Block() && startLoad.Block().Dominates(x.Block())
						before := x.Block() == ld.Block() && instrBefore(x, ld) || x.Block() != ld.Block() && x.Block().Dominates(ld.Block())
						if after && before {
							nAdv++
						}
					})
					good = nAdv == 1
					if !good {
						why = fmt.Sprintf("EndOffset is the parser's offset read again, but %d advances lie between the read for StartOffset and this one (exactly one is needed)", nAdv)
					}
				}
				c.Check(good, "PROV(offset)", key, st.Pos(), why)
			}
			if _, ok := isFieldAddr(st.Addr, "RootBlock", "StartOffset"); ok {
				_, good := isLoadOfField(st.Val, "BlockParser", "offset")
				c.Check(good, "PROV(offset)", shortFuncName(fn)+":StartOffset", st.Pos(), "StartOffset must be the parser's offset")
			}
			if _, ok := isFieldAddr(st.Addr, "RootBlock", "StartLine"); ok {
				_, good := isLoadOfField(st.Val, "BlockParser", "lineno")
				c.Check(good, "PROV(lineno)", shortFuncName(fn)+":StartLine", st.Pos(), "StartLine must be the parser's line counter")
			}
		})
	}
	if nOff < 1 {
		c.Undecided("PROV(offset)", "instance-count", token.NoPos, fmt.Sprintf("%d offset updates found; every store to BlockParser.offset is inspected", nOff))
	}
	if nLine < 1 {
		c.Undecided("PROV(lineno)", "instance-count", token.NoPos, fmt.Sprintf("%d line-counter updates found; every store to BlockParser.lineno is inspected", nLine))
	}
}

// ---------------------------------------------------------------------------------------------
// C04 part 1/2: Parse's panic unreachable; error provenance

func ruleParsePanic(c *Ctx) {
	c.Rule("PARSE-NOPANIC", "Parse cannot reach its panic(err): the parser it builds starts with err = io.EOF (non-nil), err is a latch (LATCH), and every error NextBlock returns is nil or a load of that field (STICKY); hence the only error Parse sees is io.EOF, which it handles before the panic.")
	p := c.P
	fn := p.Func("Parse")
	if !c.NeedFunc("PARSE-NOPANIC", fn, "Parse") {
		return
	}
	var panics []*ssa.Panic
	eachInstr(fn, func(in ssa.Instruction) {
		if pn, ok := in.(*ssa.Panic); ok {
			panics = append(panics, pn)
		}
	})
	if len(panics) == 0 {
		c.OK("PARSE-NOPANIC", "Parse", fn.Pos(), "Parse contains no explicit panic")
		return
	}
	// (a) constructor stores io.EOF
	eofInit := false
	eachInstr(fn, func(in ssa.Instruction) {
		if st, ok := in.(*ssa.Store); ok {
			if fa, ok := isFieldAddr(st.Addr, "BlockParser", "err"); ok {
				if _, isAlloc := fa.X.(*ssa.Alloc); isAlloc {
					if u, ok := st.Val.(*ssa.UnOp); ok && u.Op == token.MUL {
						if g, ok := u.X.(*ssa.Global); ok && g.Name() == "EOF" && g.Pkg.Pkg.Path() == "io" {
							eofInit = true
						}
					}
				}
			}
		}
	})
	c.Check(eofInit, "PARSE-NOPANIC", "Parse:err=io.EOF", fn.Pos(), "the in-memory parser must start with err = io.EOF")
	// (b) each panic is dominated by the not-EOF edge of a comparison of NextBlock's error with io.EOF
	nextBlock := p.Method("BlockParser", "NextBlock")
	for i, pn := range panics {
		guarded := false
		for _, b := range fn.Blocks {
			iff := blockIf(b)
			if iff == nil {
				continue
			}
			bo, ok := iff.Cond.(*ssa.BinOp)
			if !ok || (bo.Op != token.EQL && bo.Op != token.NEQ) {
				continue
			}
			hasEOF, hasErr := false, false
			for _, v := range []ssa.Value{bo.X, bo.Y} {
				if u, ok := v.(*ssa.UnOp); ok && u.Op == token.MUL {
					if g, ok := u.X.(*ssa.Global); ok && g.Name() == "EOF" {
						hasEOF = true
					}
				}
				if ex, ok := v.(*ssa.Extract); ok && ex.Index == 1 {
					if cl, ok := ex.Tuple.(*ssa.Call); ok && cl.Call.StaticCallee() == nextBlock {
						hasErr = true
					}
				}
			}
			if hasEOF && hasErr {
				idx := 1
				if bo.Op == token.NEQ {
					idx = 0
				}
				if edgeDominates(b, idx, pn.Block()) {
					guarded = true
				}
			}
		}
		c.Check(guarded, "PARSE-NOPANIC", fmt.Sprintf("Parse:panic#%d", i), pn.Pos(), "the panic must lie behind the `err == io.EOF` test of NextBlock's error (with LATCH and STICKY it is then unreachable)")
	}
}

func ruleErrProv(c *Ctx) {
	c.Rule("ERRPROV", "Every non-nil error returned by Render, RenderHTML and Format has a Write/WriteString result in its backward slice and no other error source; every value stored to BlockParser.err is the reader's Read result or an error synthesised under the block-size-limit branch. A healthy reader/writer therefore yields no error (other than end of input).")
	p := c.P
	// sources of an error value
	var errSources func(v ssa.Value, seen map[ssa.Value]bool) (writer int, other []string)
	errSources = func(v ssa.Value, seen map[ssa.Value]bool) (int, []string) {
		if v == nil || seen[v] {
			return 0, nil
		}
		seen[v] = true
		switch x := v.(type) {
		case *ssa.Const:
			if x.Value == nil {
				return 0, nil
			}
			return 0, []string{"constant " + x.String()}
		case *ssa.Phi:
			w := 0
			var o []string
			for _, e := range x.Edges {
				w2, o2 := errSources(e, seen)
				w += w2
				o = append(o, o2...)
			}
			return w, o
		case *ssa.Extract:
			if ci, ok := x.Tuple.(ssa.CallInstruction); ok {
				com := ci.Common()
				if com.IsInvoke() && (com.Method.Name() == "Write" || com.Method.Name() == "WriteString") {
					return 1, nil
				}
				if f := com.StaticCallee(); f != nil && p.InModule(f) {
					w := 0
					var o []string
					for _, r := range returnsOf(f) {
						if x.Index < len(r.Results) {
							w2, o2 := errSources(r.Results[x.Index], seen)
							w += w2
							o = append(o, o2...)
						}
					}
					return w, o
				}
			}
			return 0, []string{"tuple element of " + x.Tuple.String()}
		case *ssa.Call:
			com := x.Common()
			if f := com.StaticCallee(); f != nil {
				if p.InModule(f) {
					w := 0
					var o []string
					for _, r := range returnsOf(f) {
						for _, res := range r.Results {
							if isErrorType(res.Type()) {
								w2, o2 := errSources(res, seen)
								w += w2
								o = append(o, o2...)
							}
						}
					}
					return w, o
				}
				if f.String() == "fmt.Errorf" {
					// wrapped errors among the variadic arguments
					w := 0
					var o []string
					nErrArgs := 0
					if len(com.Args) == 2 {
						if sl, ok := com.Args[1].(*ssa.Slice); ok {
							if al, ok := sl.X.(*ssa.Alloc); ok {
								for _, r := range refsOf(al) {
									if ia, ok := r.(*ssa.IndexAddr); ok {
										for _, rr := range refsOf(ia) {
											if st, ok := rr.(*ssa.Store); ok {
												inner := stripConv(st.Val)
												if isErrorType(inner.Type()) {
													nErrArgs++
													w2, o2 := errSources(inner, seen)
													w += w2
													o = append(o, o2...)
												}
											}
										}
									}
								}
							}
						}
					}
					if nErrArgs == 0 {
						o = append(o, "error synthesised by fmt.Errorf at "+p.Pos(x.Pos()))
					}
					return w, o
				}
			}
			if com.IsInvoke() && (com.Method.Name() == "Write" || com.Method.Name() == "WriteString") {
				return 1, nil
			}
			return 0, []string{"result of " + calleeName(com)}
		case *ssa.UnOp:
			if x.Op == token.MUL {
				if fa, ok := x.X.(*ssa.FieldAddr); ok {
					t, f, _ := fieldAddrInfo(fa)
					// all stores to that field module-wide
					w := 0
					var o []string
					for _, fn := range p.Funcs {
						eachInstr(fn, func(in ssa.Instruction) {
							if st, ok := in.(*ssa.Store); ok {
								if _, ok := isFieldAddr(st.Addr, t, f); ok {
									w2, o2 := errSources(st.Val, seen)
									w += w2
									o = append(o, o2...)
								}
							}
						})
					}
					return w, o
				}
				if al, ok := x.X.(*ssa.Alloc); ok {
					w := 0
					var o []string
					for _, r := range refsOf(al) {
						if st, ok := r.(*ssa.Store); ok && st.Addr == al {
							w2, o2 := errSources(st.Val, seen)
							w += w2
							o = append(o, o2...)
						}
					}
					return w, o
				}
			}
			return 0, []string{"load " + x.String()}
		case *ssa.MakeInterface:
			return errSources(x.X, seen)
		case *ssa.ChangeInterface:
			return errSources(x.X, seen)
		}
		return 0, []string{v.String()}
	}
	for _, ent := range []struct {
		name string
		fn   *ssa.Function
	}{{"(*HTMLRenderer).Render", p.Method("HTMLRenderer", "Render")}, {"RenderHTML", p.Func("RenderHTML")}, {"format.Format", p.FmtFunc("Format")}} {
		if !c.NeedFunc("ERRPROV", ent.fn, ent.name) {
			continue
		}
		for i, r := range returnsOf(ent.fn) {
			for _, res := range r.Results {
				if !isErrorType(res.Type()) {
					continue
				}
				key := fmt.Sprintf("%s:return#%d", ent.name, i)
				w, o := errSources(res, map[ssa.Value]bool{})
				if len(o) > 0 {
					c.Viol("ERRPROV", key, r.Pos(), "error not caused by the writer can be returned: "+strings.Join(o, "; "))
				} else {
					c.OK("ERRPROV", key, r.Pos(), fmt.Sprintf("nil or derived from %d writer result(s)", w))
				}
			}
		}
	}
	// stores to BlockParser.err
	n := 0
	for _, fn := range p.Funcs {
		eachInstr(fn, func(in ssa.Instruction) {
			st, ok := in.(*ssa.Store)
			if !ok {
				return
			}
			fa, ok := isFieldAddr(st.Addr, "BlockParser", "err")
			if !ok {
				return
			}
			if _, isAlloc := fa.X.(*ssa.Alloc); isAlloc {
				return
			}
			n++
			key := fmt.Sprintf("%s:err-store#%d", shortFuncName(fn), n)
			if ex, ok := st.Val.(*ssa.Extract); ok {
				if ci, ok := ex.Tuple.(ssa.CallInstruction); ok && ci.Common().IsInvoke() && ci.Common().Method.Name() == "Read" {
					c.OK("ERRPROV", key, st.Pos(), "the reader's own error")
					return
				}
			}
			if call, ok := st.Val.(*ssa.Call); ok && call.Call.StaticCallee() != nil && call.Call.StaticCallee().String() == "fmt.Errorf" {
				// must be under a branch that compares a size against len(p.buf)
				ok2 := false
				for _, b := range fn.Blocks {
					iff := blockIf(b)
					if iff == nil {
						continue
					}
					bo, isBo := iff.Cond.(*ssa.BinOp)
					if !isBo {
						continue
					}
					switch bo.Op {
					case token.LEQ, token.LSS, token.GEQ, token.GTR:
					default:
						continue
					}
					involvesLen := false
					for _, v := range []ssa.Value{bo.X, bo.Y} {
						if cl, ok := isBuiltinCall(v, "len"); ok {
							if _, ok := isLoadOfField(cl.Call.Args[0], "BlockParser", "buf"); ok {
								involvesLen = true
							}
						}
					}
					if involvesLen && (edgeDominates(b, 0, st.Block()) || edgeDominates(b, 1, st.Block())) {
						ok2 = true
					}
				}
				c.Check(ok2, "ERRPROV", key, st.Pos(), "a synthesised parser error must be confined to the block-size-limit branch")
				return
			}
			c.Viol("ERRPROV", key, st.Pos(), "value stored to the parser's err is neither the reader's error nor the size-limit error: "+st.Val.String())
		})
	}
}

// ruleLineComplete: see LINE-COMPLETE.
func ruleLineComplete(c *Ctx) {
	c.Rule("LINE-COMPLETE", "The line-search loop of the reader function (the function that calls io.Reader.Read) is left towards 'a line is available' only behind one of: the edge on which the byte found is a line feed, the edge on which a look-ahead byte after the carriage return is present in the buffer (k+1 < len(buf)), or the non-nil edge of the parser's err field (no more input). Otherwise a carriage return that happens to be the last byte read so far is taken for a complete line ending and a CRLF split across two reads becomes two line endings.")
	p := c.P
	for _, fn := range p.Funcs {
		var read ssa.Instruction
		eachInstr(fn, func(in ssa.Instruction) {
			if _, ok := isInvokeOf(in, "Read"); ok {
				read = in
			}
		})
		if read == nil {
			continue
		}
		// the loop containing the Read
		var loop *natLoop
		for _, l := range naturalLoops(fn) {
			l := l
			if l.body[read.Block()] && (loop == nil || len(l.body) < len(loop.body)) {
				loop = &l
			}
		}
		if loop == nil {
			c.Undecided("LINE-COMPLETE", shortFuncName(fn), read.Pos(), "Read is not inside a loop")
			continue
		}
		n := 0
		for b := range loop.body {
			for si, s := range b.Succs {
				if loop.body[s] {
					continue
				}
				// exit edge b→s; ignore exits that end in a return of a constant false (giving up)
				if r, ok := s.Instrs[len(s.Instrs)-1].(*ssa.Return); ok && len(s.Preds) == 1 && len(r.Results) == 1 {
					if cv, ok := r.Results[0].(*ssa.Const); ok && cv.Value != nil && cv.Value.String() == "false" {
						continue
					}
				}
				// the exit is decided by the sign of a helper's result (`end := lineEnd(buf, i, err != nil); if end >= 0 { break }`):
				// the helper's non-negative returns are the exits to classify, in the helper's own terms
				if hn, handled := lineCompleteThroughHelper(c, fn, b, si, &n); handled {
					_ = hn
					continue
				}
				n++
				key := fmt.Sprintf("%s:exit#%d", shortFuncName(fn), n)
				ok, why := false, "loop exit not behind an LF test, a look-ahead-available test or the end-of-input test"
				for _, g := range fn.Blocks {
					iff := blockIf(g)
					if iff == nil {
						continue
					}
					for gi := 0; gi < 2; gi++ {
						dom := edgeDominates(g, gi, b) || (g == b && gi == si)
						if !dom {
							continue
						}
						// (c) err != nil
						if x, ni, isNil := nilTest(iff.Cond); isNil {
							if _, isErr := isLoadOfField(x, "BlockParser", "err"); isErr && gi == 1-ni {
								ok, why = true, "behind the end-of-input edge"
							}
							continue
						}
						bo, isBo := iff.Cond.(*ssa.BinOp)
						if !isBo {
							continue
						}
						// (a) byte == '\n'
						if bo.Op == token.EQL && gi == 0 {
							if k, isC := constInt(bo.Y); isC && k == '\n' {
								ok, why = true, "behind a line-feed edge"
							}
						}
						// (b) k+1 < len(buf), in any spelling: k < len(buf)-1, len(buf) > k+1, the false edge of k+1 >= len(buf), ...
						if m, isLA := strictlyBelowLen(iff, gi, func(v ssa.Value) bool {
							cl, isLen := isBuiltinCall(v, "len")
							if !isLen {
								return false
							}
							_, isBuf := isLoadOfField(cl.Call.Args[0], "BlockParser", "buf")
							return isBuf
						}); isLA && m >= 1 {
							ok, why = true, "behind the look-ahead-available edge"
						}
					}
				}
				pos := b.Instrs[len(b.Instrs)-1].Pos()
				if !pos.IsValid() {
					pos = firstPos([]*ssa.BasicBlock{b})
				}
				c.Check(ok, "LINE-COMPLETE", key, pos, why)
			}
		}
		if n < 2 {
			c.Undecided("LINE-COMPLETE", shortFuncName(fn)+":exits", read.Pos(), fmt.Sprintf("%d loop exits recognised; a reader loop has at least a line-feed exit and an end-of-input exit", n))
		}
	}
}

// ruleWSSpec: see WS-SPEC.
// staticReach: module functions reachable from the entries through static calls and directly called closures only
// (no calls through function-valued table entries or interfaces).
func staticReach(p *Program, entries []*ssa.Function) map[*ssa.Function]bool {
	seen := map[*ssa.Function]bool{}
	var visit func(f *ssa.Function)
	visit = func(f *ssa.Function) {
		if f == nil || seen[f] || f.Blocks == nil || !p.InModule(f) {
			return
		}
		seen[f] = true
		for _, g := range withAnons(f) {
			if g != f {
				seen[g] = true
			}
			eachInstr(g, func(in ssa.Instruction) {
				if ci, ok := in.(ssa.CallInstruction); ok {
					if cal := ci.Common().StaticCallee(); cal != nil {
						visit(cal)
					}
				}
			})
		}
	}
	for _, f := range entries {
		visit(f)
	}
	return seen
}

// ruleWSSpec for C01: the functions that decide lines, blank lines and the gaps between root blocks.
func ruleWSSpec(c *Ctx) {
	p := c.P
	var entries []*ssa.Function
	for _, f := range []*ssa.Function{p.Method("BlockParser", "NextBlock")} {
		if f != nil {
			entries = append(entries, f)
		}
	}
	ruleWSSpecOver(c, "No function that splits the input into lines, blank lines and root blocks (reachable from NextBlock through static calls: the block rules, which are called through their tables, are C15's) applies a Unicode-white-space function (strings/bytes TrimSpace, Fields, unicode.IsSpace, …) to document text: blank lines and the gaps between root blocks are defined by space, tab, LF and CR only.", staticReach(p, entries), 8)
}

// ruleWSSpecRecognisers for C15: the block rules and the line recognisers they call.
func ruleWSSpecRecognisers(c *Ctx) {
	p := c.P
	var entries []*ssa.Function
	entries = append(entries, blockStartFuncs(p)...)
	for _, e := range blockRulesTable(p) {
		// the start and continuation rules; what happens when a block is closed (reference definitions) is C12's
		if e.match != nil {
			entries = append(entries, e.match)
		}
	}
	ruleWSSpecOver(c, "No block start or continuation rule and no line recogniser it calls (static call closure of the blockStarts entries and the blockRules match functions) applies a Unicode-white-space function to the line: CommonMark's line-level white space is space and tab (and the line ending), so form feed, NBSP, NEL … are content — `bytes.TrimSpace` on a fence's info string, for instance, changes which lines open or close a code block.", staticReach(p, entries), 8)
}

func ruleWSSpecOver(c *Ctx, text string, reach map[*ssa.Function]bool, minFuncs int) {
	c.Rule("WS-SPEC", text)
	p := c.P
	n, bad := 0, 0
	var fns []*ssa.Function
	for fn := range reach {
		fns = append(fns, fn)
	}
	sort.Slice(fns, func(i, j int) bool { return fns[i].String() < fns[j].String() })
	for _, fn := range fns {
		if !p.InModule(fn) {
			continue
		}
		n++
		eachInstr(fn, func(in ssa.Instruction) {
			// an ordered comparison of an input byte with a constant that puts the space and every byte below it on
			// the same side (c <= ' ', c < '!', c > ' ' …) treats NUL, VT, FF and the other control bytes as white space
			if bo, ok := in.(*ssa.BinOp); ok {
				var v ssa.Value
				var k int64
				op := bo.Op
				if kk, ok := constInt(bo.Y); ok {
					v, k = bo.X, kk
				} else if kk, ok := constInt(bo.X); ok {
					v, k = bo.Y, kk
					switch op {
					case token.LSS:
						op = token.GTR
					case token.LEQ:
						op = token.GEQ
					case token.GTR:
						op = token.LSS
					case token.GEQ:
						op = token.LEQ
					}
				}
				if v != nil {
					if bt, ok := v.Type().Underlying().(*types.Basic); ok && (bt.Kind() == types.Uint8 || bt.Kind() == types.Int32) {
						cmp := func(d int64) bool {
							switch op {
							case token.LSS:
								return d < k
							case token.LEQ:
								return d <= k
							case token.GTR:
								return d > k
							case token.GEQ:
								return d >= k
							}
							return false
						}
						if op == token.LSS || op == token.LEQ || op == token.GTR || op == token.GEQ {
							side := cmp(' ')
							max, wide := int64(-1), false
							for d := int64(0); d < 256; d++ {
								if cmp(d) == side {
									if d > max {
										max = d
									}
									if d != ' ' && d != '\t' && d != '\n' && d != '\r' {
										wide = true
									}
								}
							}
							if _, isParam := v.(*ssa.Parameter); isParam {
								// a classifier's own parameter: its whole accept set is judged (wideWhitespaceClassifier, BSET)
								wide = false
							}
							if max == ' ' && wide {
								// confirm on the whole function: the bytes that take exactly the same branches as the space
								// must all lie at or below it (a punctuation range '!' <= c && c <= '/' sends letters the same way)
								eng := newBSET(p)
								sig := func(d int64) string {
									return eng.outcomeSig(fn, func(x ssa.Value) bool { return x == v }, d)
								}
								sp := sig(' ')
								for d := int64(0x21); d < 256 && wide; d++ {
									if sig(d) == sp {
										wide = false
									}
								}
							}
							if max == ' ' && wide {
								bad++
								c.Viol("WS-SPEC", shortFuncName(fn)+":range-compare", in.Pos(), "an ordered comparison puts the space and every control byte (NUL, VT, FF, …) on the same side; at line level only space, tab, LF and CR are white space")
							}
						}
					}
				}
				return
			}
			call, ok := in.(*ssa.Call)
			if !ok {
				return
			}
			f := call.Call.StaticCallee()
			if f != nil && unicodeWSFuncs[f.String()] {
				bad++
				c.Viol("WS-SPEC", shortFuncName(fn)+"→"+f.String(), in.Pos(), f.String()+" treats NBSP, NEL, form feed, vertical tab … as white space; the block structure knows only space, tab, LF and CR")
			}
			// a module classifier that accepts the space and also wider white space (form feed, NBSP, EM SPACE, …)
			if f != nil && p.InModule(f) && f.Blocks != nil && len(f.Params) == 1 && wideWhitespaceClassifier(p, f) {
				bad++
				c.Viol("WS-SPEC", shortFuncName(fn)+"→"+f.Name(), in.Pos(), f.Name()+" accepts white space beyond space, tab, LF and CR (form feed, NBSP, …); at line level those are content")
			}
		})
	}
	if bad == 0 {
		c.OK("WS-SPEC", "scope", token.NoPos, fmt.Sprintf("%d functions in scope, none applies a Unicode-white-space function", n))
	}
	if n < minFuncs {
		c.Undecided("WS-SPEC", "instance-count", token.NoPos, fmt.Sprintf("only %d functions in scope", n))
	}
}

// ruleReadErrKept: see READ-ERR-KEPT.
func ruleReadErrKept(c *Ctx) {
	c.Rule("READ-ERR-KEPT", "The error returned by Read is stored into the parser's err field itself (not a filtered or substituted value) on every path from the call: an error that arrives together with data is not dropped in the hope that the reader repeats it.")
	n := 0
	for _, fn := range c.P.Funcs {
		eachInstr(fn, func(in ssa.Instruction) {
			ci, ok := isInvokeOf(in, "Read")
			if !ok {
				return
			}
			n++
			key := fmt.Sprintf("%s:Read#%d", shortFuncName(fn), n)
			var ev ssa.Value
			for _, r := range refsOf(ci.(ssa.Value)) {
				if ex, ok := r.(*ssa.Extract); ok && ex.Index == 1 {
					ev = ex
				}
			}
			if ev == nil {
				c.Viol("READ-ERR-KEPT", key, in.Pos(), "the error returned by Read is discarded")
				return
			}
			var stores []ssa.Instruction
			eachInstr(fn, func(x ssa.Instruction) {
				if st, ok := x.(*ssa.Store); ok && st.Val == ev {
					if _, ok := isFieldAddr(st.Addr, "BlockParser", "err"); ok {
						stores = append(stores, st)
					}
				}
			})
			if len(stores) == 0 {
				c.Viol("READ-ERR-KEPT", key, in.Pos(), "the error returned by Read is not stored into the parser's err field as it is")
				return
			}
			isSt := func(x ssa.Instruction) bool {
				for _, s := range stores {
					if s == x {
						return true
					}
				}
				return false
			}
			skip := pathToExitAvoiding(in, isSt) || pathAvoiding(in, in, isSt)
			c.Check(!skip, "READ-ERR-KEPT", key, in.Pos(), "there must be no path from Read that skips storing its error")
		})
	}
	if n < 1 {
		c.Undecided("READ-ERR-KEPT", "instance-count", token.NoPos, "no Read call found")
	}
}

// ruleLineCountStep: see LINECOUNT-STEP.
func ruleLineCountStep(c *Ctx) {
	c.Rule("LINECOUNT-STEP", "lineCount's per-byte decision is the documented one: path-conditioning its loop body on the current byte, on whether a next byte exists and on the next byte, the counter is incremented exactly for LF, and for CR when there is no next byte or the next byte is not LF (LF, CR and CRLF count as one line ending each).")
	p := c.P
	fn := p.Func("lineCount")
	if !c.NeedFunc("LINECOUNT-STEP", fn, "lineCount") {
		return
	}
	text := ssa.Value(fn.Params[0])
	loops := naturalLoops(fn)
	if len(loops) == 0 {
		// closed form: (#LF) + (#CR) - (#CRLF) over the whole parameter, in any order of the terms
		ok, why := lineCountClosedForm(fn, text)
		c.Check(ok, "LINECOUNT-STEP", "lineCount:closed-form", fn.Pos(), why)
		return
	}
	if len(loops) != 1 {
		c.Undecided("LINECOUNT-STEP", "lineCount:loop", fn.Pos(), "expected exactly one loop")
		return
	}
	l := loops[0]
	// current index: the index of the element load that is compared first; next = load at index+1
	var cur, next *ssa.UnOp
	var curIdx ssa.Value
	for b := range l.body {
		for _, in := range b.Instrs {
			ld, ok := in.(*ssa.UnOp)
			if !ok || ld.Op != token.MUL {
				continue
			}
			ia, ok := ld.X.(*ssa.IndexAddr)
			if !ok || ia.X != text {
				continue
			}
			if ok2, _ := unitStrideOver(ia.Index, text); ok2 {
				cur, curIdx = ld, ia.Index
			}
		}
	}
	if cur == nil {
		// third form: walking from line ending to line ending with bytes.IndexAny
		if ok, why, decided := lineCountSearchWalk(p, fn, text, &l); decided {
			c.Check(ok, "LINECOUNT-STEP", "lineCount:search-walk", fn.Pos(), why)
			return
		}
		c.Undecided("LINECOUNT-STEP", "lineCount:shape", fn.Pos(), "per-byte loop over the whole text not recognised")
		return
	}
	isIdxPlus1 := func(v ssa.Value) bool {
		bo, ok := v.(*ssa.BinOp)
		if !ok || bo.Op != token.ADD || bo.X != curIdx {
			return false
		}
		one, ok := constInt(bo.Y)
		return ok && one == 1
	}
	for b := range l.body {
		for _, in := range b.Instrs {
			if ld, ok := in.(*ssa.UnOp); ok && ld.Op == token.MUL {
				if ia, ok := ld.X.(*ssa.IndexAddr); ok && ia.X == text && isIdxPlus1(ia.Index) {
					next = ld
				}
			}
		}
	}
	// increments of the counter: BinOp ADD(phi at header, 1) feeding the header phi that is returned
	incBlocks := map[*ssa.BasicBlock]bool{}
	for b := range l.body {
		for _, in := range b.Instrs {
			if bo, ok := in.(*ssa.BinOp); ok && bo.Op == token.ADD {
				if ph, ok := bo.X.(*ssa.Phi); ok && ph.Block() == l.header && ph != curIdx {
					if one, ok := constInt(bo.Y); ok && one == 1 {
						if bo != curIdx {
							incBlocks[b] = true
						}
					}
				}
			}
		}
	}
	if len(incBlocks) == 0 {
		c.Undecided("LINECOUNT-STEP", "lineCount:increment", fn.Pos(), "counter increment not recognised")
		return
	}
	bs := newBSET(p)
	body := l.header.Succs[0]
	var bad []string
	n := 0
	for _, bv := range []int64{'\n', '\r', 'x', ' '} {
		for _, atEnd := range []int64{0, 1} {
			for _, nv := range []int64{'\n', 'x', '\r'} {
				if atEnd == 1 && nv != 'x' {
					continue
				}
				n++
				symVal := func(v ssa.Value) (int64, bool) {
					if v == ssa.Value(cur) {
						return bv, true
					}
					if next != nil && v == ssa.Value(next) {
						return nv, true
					}
					// "a next byte exists" tests: (idx+1) cmp len(text)
					if bo, ok := v.(*ssa.BinOp); ok {
						if cl, ok := isBuiltinCall(bo.Y, "len"); ok && cl.Call.Args[0] == text && isIdxPlus1(bo.X) {
							switch bo.Op {
							case token.GEQ:
								return atEnd, true
							case token.LSS:
								return 1 - atEnd, true
							}
						}
					}
					return 0, false
				}
				st := &evalState{e: bs, fn: fn, symVal: symVal, from: make([]int, len(fn.Blocks)), noLoopPhi: true}
				for i := range st.from {
					st.from[i] = -2
				}
				incs, undecided := false, false
				seen := map[*ssa.BasicBlock]bool{}
				var dfs func(b *ssa.BasicBlock)
				dfs = func(b *ssa.BasicBlock) {
					if b == l.header || seen[b] || !l.body[b] {
						return
					}
					seen[b] = true
					if incBlocks[b] {
						incs = true
					}
					succs := b.Succs
					if iff := blockIf(b); iff != nil {
						st.why = ""
						if v, ok := st.eval(iff.Cond); ok {
							if v != 0 {
								succs = b.Succs[:1]
							} else {
								succs = b.Succs[1:]
							}
						} else {
							undecided = true
						}
					}
					for _, s := range succs {
						st.from[s.Index] = b.Index
						dfs(s)
					}
				}
				st.from[body.Index] = l.header.Index
				dfs(body)
				want := bv == '\n' || (bv == '\r' && (atEnd == 1 || nv != '\n'))
				if undecided {
					bad = append(bad, fmt.Sprintf("byte %q atEnd=%d next=%q: decision depends on something else", rune(bv), atEnd, rune(nv)))
				} else if incs != want {
					bad = append(bad, fmt.Sprintf("byte %q, next byte %s: counted=%v, documented=%v", rune(bv), map[int64]string{1: "absent", 0: fmt.Sprintf("%q", rune(nv))}[atEnd], incs, want))
				}
			}
		}
	}
	c.Check(len(bad) == 0, "LINECOUNT-STEP", "lineCount", fn.Pos(), fmt.Sprintf("%d (byte, look-ahead) cases; deviations: %s", n, strings.Join(bad, "; ")))
}

// lineCountClosedForm: every returned value is a sum/difference of bytes.Count(text, sep) terms with total coefficients
// +1 for "\n", +1 for "\r", -1 for "\r\n" (CRLF was counted once as LF and once as CR).
func lineCountClosedForm(fn *ssa.Function, text ssa.Value) (bool, string) {
	rets := returnsOf(fn)
	if len(rets) == 0 {
		return false, "no return"
	}
	for _, r := range rets {
		if len(r.Results) != 1 {
			return false, "unexpected result arity"
		}
		coef := map[string]int{}
		okAll := true
		why := ""
		var w func(v ssa.Value, sign int)
		w = func(v ssa.Value, sign int) {
			switch x := v.(type) {
			case *ssa.BinOp:
				switch x.Op {
				case token.ADD:
					w(x.X, sign)
					w(x.Y, sign)
					return
				case token.SUB:
					w(x.X, sign)
					w(x.Y, -sign)
					return
				}
			case *ssa.Call:
				if f := x.Call.StaticCallee(); f != nil && f.Pkg != nil && f.Pkg.Pkg.Path() == "bytes" && f.Name() == "Count" && x.Call.Args[0] == text {
					if sep, ok := byteSliceLit(x.Call.Args[1]); ok {
						coef[string(sep)] += sign
						return
					}
					if cv, ok := x.Call.Args[1].(*ssa.Convert); ok {
						if str, ok := constString(cv.X); ok {
							coef[str] += sign
							return
						}
					}
				}
			}
			okAll = false
			why = "term that is not bytes.Count(text, constant): " + v.String()
		}
		w(r.Results[0], 1)
		if !okAll {
			return false, why
		}
		for sep, k := range coef {
			want := map[string]int{"\n": 1, "\r": 1, "\r\n": -1}[sep]
			if k != want {
				return false, fmt.Sprintf("separator %q is counted with coefficient %d", sep, k)
			}
		}
		for _, sep := range []string{"\n", "\r", "\r\n"} {
			if _, ok := coef[sep]; !ok {
				return false, fmt.Sprintf("separator %q is not counted", sep)
			}
		}
	}
	return true, "#LF + #CR - #CRLF over the whole text: LF, CR and CRLF count as one line ending each"
}

// ---------------------------------------------------------------------------------------------
// BUF-FORWARD: the parser's buffer only moves forward within its allocation, or to a fresh one.

func ruleBufForward(c *Ctx) {
	c.Rule("BUF-FORWARD", "Every RootBlock.Source the streaming parser has handed out is a window into the parser's buffer, so memory in front of the current window still belongs to earlier blocks. Every value stored into BlockParser.buf (outside the constructors) is therefore a re-slice of the current buffer, a fresh allocation made in that function, or padNulls applied to one of these (it returns its argument or a fresh slice) — never a slice of another field or of a remembered allocation: sliding unparsed data back to the front of an old allocation, or rewinding an empty window to its start, lets later reads overwrite the Source of blocks already returned.")
	p := c.P
	pad := p.Func("padNulls")
	n := 0
	for _, fn := range p.Funcs {
		if fn.Pkg != p.CMs {
			continue
		}
		eachInstr(fn, func(in ssa.Instruction) {
			st, ok := in.(*ssa.Store)
			if !ok {
				return
			}
			fa, ok := isFieldAddr(st.Addr, "BlockParser", "buf")
			if !ok {
				return
			}
			if _, isAlloc := fa.X.(*ssa.Alloc); isAlloc {
				return // constructor literal
			}
			n++
			key := fmt.Sprintf("%s:buf-store#%d", shortFuncName(fn), n)
			seen := map[ssa.Value]bool{}
			var okv func(v ssa.Value, d int) (bool, string)
			okv = func(v ssa.Value, d int) (bool, string) {
				if seen[v] || d > 8 {
					return true, ""
				}
				seen[v] = true
				switch x := v.(type) {
				case *ssa.Slice:
					return okv(x.X, d+1)
				case *ssa.MakeSlice:
					return true, ""
				case *ssa.Phi:
					for _, e := range x.Edges {
						if ok, why := okv(e, d+1); !ok {
							return false, why
						}
					}
					return true, ""
				case *ssa.UnOp:
					if fa2, ok := isLoadOfField(x, "BlockParser", "buf"); ok && fa2.X == fa.X {
						return true, ""
					}
					return false, "a load of " + describeValue(x)
				case *ssa.Call:
					if x.Call.StaticCallee() == pad && pad != nil {
						return okv(x.Call.Args[0], d+1)
					}
					if _, isApp := isBuiltinCall(x, "append"); isApp {
						// append lands in its first argument's array or in a fresh one
						return okv(x.Call.Args[0], d+1)
					}
					return false, "the result of " + calleeName(&x.Call)
				case *ssa.Const:
					if x.IsNil() {
						return true, ""
					}
				}
				return false, describeValue(v)
			}
			good, why := okv(st.Val, 0)
			c.Check(good, "BUF-FORWARD", key, st.Pos(), "the buffer is replaced by something that is neither a re-slice of itself nor a fresh allocation: "+why)
		})
	}
	if n < 1 {
		c.Undecided("BUF-FORWARD", "instance-count", token.NoPos, "no store to BlockParser.buf found")
	}
}

// ---------------------------------------------------------------------------------------------
// SCAN-START: the search for the next line ending never starts behind a carriage return that is still waiting for
// its look-ahead byte.

func ruleScanStart(c *Ctx) {
	c.Rule("SCAN-START", "In the reader function (the one that calls io.Reader.Read), the search for the next line ending (bytes.IndexAny over a cut-set containing CR and LF) starts at a position that is either fixed for the whole refill loop (a parser field the loop does not store, such as the parse cursor) or, if it is carried round the loop, is only ever advanced to the position of the line-ending byte just found, or past the searched bytes on the edge on which nothing was found. Advancing it unconditionally to the end of the buffer before a refill skips a carriage return that is still waiting for its look-ahead byte: with a lone CR as the last byte of a read, the line ending is never seen again.")
	p := c.P
	n := 0
	for _, fn := range p.Funcs {
		var read ssa.Instruction
		eachInstr(fn, func(in ssa.Instruction) {
			if _, ok := isInvokeOf(in, "Read"); ok {
				read = in
			}
		})
		if read == nil {
			continue
		}
		var loop *natLoop
		for _, l := range naturalLoops(fn) {
			l := l
			if l.body[read.Block()] && (loop == nil || len(l.body) < len(loop.body)) {
				loop = &l
			}
		}
		if loop == nil {
			continue
		}
		eachInstr(fn, func(in ssa.Instruction) {
			call, ok := in.(*ssa.Call)
			if !ok || !loop.body[call.Block()] {
				return
			}
			f := call.Call.StaticCallee()
			if f == nil || f.Pkg == nil || f.Pkg.Pkg.Path() != "bytes" || f.Name() != "IndexAny" {
				return
			}
			set, ok := constString(call.Call.Args[1])
			if !ok || !strings.Contains(set, "\r") || !strings.Contains(set, "\n") {
				return
			}
			sl, ok := call.Call.Args[0].(*ssa.Slice)
			if !ok {
				return
			}
			n++
			key := fmt.Sprintf("%s:search#%d", shortFuncName(fn), n)
			L := sl.Low
			if L == nil {
				c.OK("SCAN-START", key, call.Pos(), "the whole buffer is searched")
				return
			}
			// fixed for the loop: a field load with no store to that field inside the loop
			if ld, isLd := L.(*ssa.UnOp); isLd && ld.Op == token.MUL {
				if fa, isFA := ld.X.(*ssa.FieldAddr); isFA {
					stored := false
					for b := range loop.body {
						for _, x := range b.Instrs {
							if st, ok := x.(*ssa.Store); ok {
								if fa2, ok := st.Addr.(*ssa.FieldAddr); ok && fa2.Field == fa.Field && sameValue(fa2.X, fa.X) {
									stored = true
								}
							}
						}
					}
					c.Check(!stored, "SCAN-START", key, call.Pos(), "the search starts at a parser field that the refill loop itself moves")
					return
				}
			}
			ph, isPhi := L.(*ssa.Phi)
			if !isPhi || !loop.body[ph.Block()] {
				// defined outside the loop: fixed
				if li, ok := L.(ssa.Instruction); ok && loop.body[li.Block()] {
					c.Undecided("SCAN-START", key, call.Pos(), "search start is computed inside the loop in an unrecognised way: "+L.String())
					return
				}
				c.OK("SCAN-START", key, call.Pos(), "search start is fixed for the refill loop")
				return
			}
			// loop-carried: every value flowing in from inside the loop
			notFoundEdge := func(blk *ssa.BasicBlock) bool {
				for _, g := range fn.Blocks {
					iff := blockIf(g)
					if iff == nil {
						continue
					}
					bo, ok := iff.Cond.(*ssa.BinOp)
					if !ok || bo.X != ssa.Value(call) {
						continue
					}
					k, isC := constInt(bo.Y)
					if !isC {
						continue
					}
					// which edge means "result < 0"
					idx := -1
					switch {
					case bo.Op == token.GEQ && k == 0, bo.Op == token.GTR && k == -1, bo.Op == token.NEQ && k == -1:
						idx = 1
					case bo.Op == token.LSS && k == 0, bo.Op == token.EQL && k == -1, bo.Op == token.LEQ && k == -1:
						idx = 0
					}
					if idx >= 0 && (edgeDominates(g, idx, blk)) {
						return true
					}
				}
				return false
			}
			isFound := func(v ssa.Value) bool {
				// L + result (the position of the byte found), possibly with the operands swapped
				bo, ok := v.(*ssa.BinOp)
				if !ok || bo.Op != token.ADD {
					return false
				}
				return (bo.X == L && bo.Y == ssa.Value(call)) || (bo.Y == L && bo.X == ssa.Value(call))
			}
			var bad []string
			seen := map[[2]interface{}]bool{}
			var chk func(v ssa.Value, from *ssa.BasicBlock, d int)
			chk = func(v ssa.Value, from *ssa.BasicBlock, d int) {
				k := [2]interface{}{v, from}
				if seen[k] || d > 8 {
					return
				}
				seen[k] = true
				if v == ssa.Value(ph) || isFound(v) {
					return
				}
				if inner, ok := v.(*ssa.Phi); ok && loop.body[inner.Block()] && inner != ph {
					for i, e := range inner.Edges {
						chk(e, inner.Block().Preds[i], d+1)
					}
					return
				}
				if notFoundEdge(from) {
					return
				}
				bad = append(bad, describeValue(v))
			}
			for i, pr := range ph.Block().Preds {
				if loop.body[pr] {
					chk(ph.Edges[i], pr, 0)
				}
			}
			sort.Strings(bad)
			c.Check(len(bad) == 0, "SCAN-START", key, call.Pos(), "the search start is advanced, on a path that may hold a carriage return still waiting for its look-ahead byte, to "+strings.Join(bad, ", "))
		})
	}
	if n < 1 {
		// the search may live in a helper called from the refill loop with the start position as an argument
		for _, fn := range p.Funcs {
			var read ssa.Instruction
			eachInstr(fn, func(in ssa.Instruction) {
				if _, ok := isInvokeOf(in, "Read"); ok {
					read = in
				}
			})
			if read == nil {
				continue
			}
			var loop *natLoop
			for _, l := range naturalLoops(fn) {
				l := l
				if l.body[read.Block()] && (loop == nil || len(l.body) < len(loop.body)) {
					loop = &l
				}
			}
			if loop == nil {
				continue
			}
			eachInstr(fn, func(in ssa.Instruction) {
				call, ok := in.(*ssa.Call)
				if !ok || !loop.body[call.Block()] {
					return
				}
				g := call.Call.StaticCallee()
				if g == nil || g.Blocks == nil || !p.InModule(g) {
					return
				}
				eachInstr(g, func(gin ssa.Instruction) {
					gc, ok := gin.(*ssa.Call)
					if !ok {
						return
					}
					f := gc.Call.StaticCallee()
					if f == nil || f.Pkg == nil || f.Pkg.Pkg.Path() != "bytes" || f.Name() != "IndexAny" {
						return
					}
					set, ok := constString(gc.Call.Args[1])
					if !ok || !strings.Contains(set, "\r") || !strings.Contains(set, "\n") {
						return
					}
					sl, ok := gc.Call.Args[0].(*ssa.Slice)
					if !ok {
						return
					}
					n++
					key := fmt.Sprintf("%s→%s:search#%d", shortFuncName(fn), g.Name(), n)
					if sl.Low == nil {
						c.OK("SCAN-START", key, gc.Pos(), "the whole buffer is searched")
						return
					}
					pi := -1
					for i, q := range g.Params {
						if ssa.Value(q) == sl.Low {
							pi = i
						}
					}
					if pi < 0 || pi >= len(call.Call.Args) {
						c.Undecided("SCAN-START", key, gc.Pos(), "the helper computes the search start itself: "+sl.Low.String())
						return
					}
					arg := call.Call.Args[pi]
					fixed := false
					if ld, isLd := arg.(*ssa.UnOp); isLd && ld.Op == token.MUL {
						if fa, isFA := ld.X.(*ssa.FieldAddr); isFA {
							fixed = true
							for b := range loop.body {
								for _, x := range b.Instrs {
									if st, ok := x.(*ssa.Store); ok {
										if fa2, ok := st.Addr.(*ssa.FieldAddr); ok && fa2.Field == fa.Field && sameValue(fa2.X, fa.X) {
											fixed = false
										}
									}
								}
							}
						}
					}
					c.Check(fixed, "SCAN-START", key, call.Pos(), "the search start handed to the helper is not a parser field that stays fixed during the refill loop")
				})
			})
		}
	}
	if n < 1 {
		c.Undecided("SCAN-START", "instance-count", token.NoPos, "no search for line endings found in the reader function")
	}
}

// ---------------------------------------------------------------------------------------------
// PAD-START: padNulls looks only at the bytes from `start` on.

func rulePadStart(c *Ctx) {
	c.Rule("PAD-START", "padNulls(b, start) is called again on a buffer whose bytes before start were padded by earlier calls (one call per read): zero bytes in front of start are padding, not input. Inside padNulls every examination of b's content — a call that reads a slice of b (nullCount, bytes.IndexByte, bytes.Count, …) and every loop that tests b[i] against zero — is therefore confined to indices from start on: the slice passed has start as its low bound, and the loop's guard compares its index with start. Looking at the whole buffer counts or re-expands padding of an earlier read (two NUL bytes arriving in different reads corrupt the text between them).")
	p := c.P
	fn := p.Func("padNulls")
	if !c.NeedFunc("PAD-START", fn, "padNulls") {
		return
	}
	if len(fn.Params) != 2 {
		c.Undecided("PAD-START", "padNulls:signature", fn.Pos(), "expected padNulls(b, start)")
		return
	}
	b, start := ssa.Value(fn.Params[0]), ssa.Value(fn.Params[1])
	// values that alias b: b itself, re-slices with a nil or zero low bound, phis thereof, append(b[:cap]...)
	aliasLow := map[ssa.Value]bool{} // alias whose index 0 is b's index 0
	var isAlias func(v ssa.Value, d int) bool
	isAlias = func(v ssa.Value, d int) bool {
		if v == b {
			return true
		}
		if d > 6 {
			return false
		}
		switch x := v.(type) {
		case *ssa.Slice:
			return (x.Low == nil || isZero(x.Low)) && isAlias(x.X, d+1)
		case *ssa.Phi:
			for _, e := range x.Edges {
				if !isAlias(e, d+1) {
					return false
				}
			}
			return true
		case *ssa.Call:
			if _, ok := isBuiltinCall(x, "append"); ok {
				return isAlias(x.Call.Args[0], d+1)
			}
		case *ssa.MakeSlice:
			// a fresh buffer that b was copied into from index 0 holds b's bytes at b's indices
			copied := false
			eachInstr(fn, func(in ssa.Instruction) {
				call, ok := in.(*ssa.Call)
				if !ok {
					return
				}
				if cc, ok := isBuiltinCall(call, "copy"); ok {
					dst := cc.Call.Args[0]
					if sl, ok := dst.(*ssa.Slice); ok && (sl.Low == nil || isZero(sl.Low)) {
						dst = sl.X
					}
					if dst == ssa.Value(x) && isAlias(cc.Call.Args[1], d+1) {
						copied = true
					}
				}
			})
			return copied
		}
		return false
	}
	_ = aliasLow
	fromStart := func(v ssa.Value) bool {
		sl, ok := v.(*ssa.Slice)
		if !ok || !isAlias(sl.X, 0) || sl.Low == nil {
			return false
		}
		base, k := splitAdd(sl.Low)
		return base == start && k >= 0
	}
	n := 0
	// (a) reading calls
	eachInstr(fn, func(in ssa.Instruction) {
		call, ok := in.(*ssa.Call)
		if !ok {
			return
		}
		if _, isB := call.Call.Value.(*ssa.Builtin); isB {
			return
		}
		for i, a := range call.Call.Args {
			whole := isAlias(a, 0)
			sl, isSl := a.(*ssa.Slice)
			part := isSl && isAlias(sl.X, 0) && sl.Low != nil && !isZero(sl.Low)
			if !whole && !part {
				continue
			}
			n++
			key := fmt.Sprintf("padNulls:%s#%d", calleeName(&call.Call), i)
			c.Check(fromStart(a), "PAD-START", key, call.Pos(), "a function that reads the buffer is given bytes in front of start (already padded by an earlier call)")
		}
	})
	// (b) loops that test b[i] against zero
	for li, l := range naturalLoops(fn) {
		tests := false
		var idx ssa.Value
		for blk := range l.body {
			for _, in := range blk.Instrs {
				bo, ok := in.(*ssa.BinOp)
				if !ok || (bo.Op != token.EQL && bo.Op != token.NEQ) || !isZero(bo.Y) {
					continue
				}
				if ld, ok := bo.X.(*ssa.UnOp); ok && ld.Op == token.MUL {
					if ia, ok := ld.X.(*ssa.IndexAddr); ok && isAlias(ia.X, 0) {
						tests = true
						idx = ia.Index
					}
				}
			}
		}
		if !tests {
			continue
		}
		n++
		key := fmt.Sprintf("padNulls:loop#%d", li+1)
		// the loop guard (any If in the body with an exit edge) compares idx with start
		guarded := false
		inexact := ""
		for blk := range l.body {
			iff := blockIf(blk)
			if iff == nil {
				continue
			}
			exits := !l.body[blk.Succs[0]] || !l.body[blk.Succs[1]]
			if !exits {
				continue
			}
			if bo, ok := iff.Cond.(*ssa.BinOp); ok {
				strip := func(v ssa.Value) ssa.Value {
					for d := 0; d < 4; d++ {
						x, ok := v.(*ssa.BinOp)
						if !ok || (x.Op != token.ADD && x.Op != token.SUB) {
							break
						}
						if _, isC := constInt(x.Y); isC {
							v = x.X
							continue
						}
						if _, isC := constInt(x.X); isC && x.Op == token.ADD {
							v = x.Y
							continue
						}
						break
					}
					return v
				}
				if (strip(bo.X) == idx && strip(bo.Y) == start) || (strip(bo.Y) == idx && strip(bo.X) == start) {
					guarded = true
					// exactly the indices from start on: with d = index - start the loop goes on iff d >= 0
					off := func(v ssa.Value) int64 {
						k := int64(0)
						for d := 0; d < 4; d++ {
							x, ok := v.(*ssa.BinOp)
							if !ok {
								break
							}
							if c, isC := constInt(x.Y); isC && x.Op == token.ADD {
								k += c
								v = x.X
							} else if c, isC := constInt(x.Y); isC && x.Op == token.SUB {
								k -= c
								v = x.X
							} else if c, isC := constInt(x.X); isC && x.Op == token.ADD {
								k += c
								v = x.Y
							} else {
								break
							}
						}
						return k
					}
					kx, ky := off(bo.X), off(bo.Y)
					idxLeft := strip(bo.X) == idx
					contEdge := 0
					if !l.body[blk.Succs[0]] {
						contEdge = 1
					}
					for d := int64(-2); d <= 2; d++ {
						var lhs, rhs int64
						if idxLeft {
							lhs, rhs = d+kx, ky
						} else {
							lhs, rhs = kx, d+ky
						}
						var t bool
						switch bo.Op {
						case token.LSS:
							t = lhs < rhs
						case token.LEQ:
							t = lhs <= rhs
						case token.GTR:
							t = lhs > rhs
						case token.GEQ:
							t = lhs >= rhs
						case token.EQL:
							t = lhs == rhs
						case token.NEQ:
							t = lhs != rhs
						}
						cont := t == (contEdge == 0)
						if cont != (d >= 0) {
							inexact = fmt.Sprintf("with index = start%+d the loop %s", d, map[bool]string{true: "continues", false: "stops"}[cont])
						}
					}
				}
			}
		}
		c.Check(guarded, "PAD-START", key, l.header.Instrs[0].Pos(), "the loop that expands zero bytes is not bounded below by start: it re-expands padding of earlier calls")
		if guarded {
			c.Check(inexact == "", "PAD-START", key+":exact", l.header.Instrs[0].Pos(), "the expansion loop does not cover exactly the indices from start on (the range the zero bytes were counted over): "+inexact)
		}
	}
	if n < 2 {
		c.Undecided("PAD-START", "instance-count", fn.Pos(), fmt.Sprintf("%d examinations of the buffer found in padNulls (a count and an expansion loop are expected)", n))
	}
}

// lineCountSearchWalk recognises `for { i := bytes.IndexAny(text, "\r\n"); if i < 0 { return count }; count++; …;
// text = text[i+k:] }` and decides, for every (byte found, next byte present?, next byte), that the counter goes up by
// one and that k is 2 exactly for CR immediately followed by LF and 1 otherwise.
func lineCountSearchWalk(p *Program, fn *ssa.Function, text ssa.Value, l *natLoop) (ok bool, why string, decided bool) {
	// the walking text variable: a header phi fed by the parameter
	var tphi, cphi *ssa.Phi
	for _, in := range l.header.Instrs {
		ph, isPhi := in.(*ssa.Phi)
		if !isPhi {
			break
		}
		for i, pr := range l.header.Preds {
			if !l.body[pr] && ph.Edges[i] == text {
				tphi = ph
			}
		}
		if b, isB := ph.Type().Underlying().(*types.Basic); isB && b.Info()&types.IsInteger != 0 {
			for i, pr := range l.header.Preds {
				if !l.body[pr] {
					if k, isC := constInt(ph.Edges[i]); isC && k == 0 {
						cphi = ph
					}
				}
			}
		}
	}
	if tphi == nil || cphi == nil {
		return false, "", false
	}
	var search *ssa.Call
	for b := range l.body {
		for _, in := range b.Instrs {
			if call, isCall := in.(*ssa.Call); isCall {
				if f := call.Call.StaticCallee(); f != nil && f.Pkg != nil && f.Pkg.Pkg.Path() == "bytes" && f.Name() == "IndexAny" && call.Call.Args[0] == ssa.Value(tphi) {
					search = call
				}
			}
		}
	}
	if search == nil {
		return false, "", false
	}
	decided = true
	set, isC := constString(search.Call.Args[1])
	if !isC || !(set == "\r\n" || set == "\n\r") {
		return false, fmt.Sprintf("the search set is %q, not exactly CR and LF", set), true
	}
	// counter: every value flowing back is counter+1
	for i, pr := range l.header.Preds {
		if !l.body[pr] {
			continue
		}
		bo, isBo := cphi.Edges[i].(*ssa.BinOp)
		one := int64(0)
		if isBo {
			one, _ = constInt(bo.Y)
		}
		if !isBo || bo.Op != token.ADD || bo.X != ssa.Value(cphi) || one != 1 {
			return false, "the counter is not incremented by exactly one per line ending found", true
		}
	}
	// every return yields the counter
	for _, r := range returnsOf(fn) {
		if len(r.Results) != 1 || r.Results[0] != ssa.Value(cphi) {
			return false, "a return value other than the counter", true
		}
	}
	// the new text on the back edge: tphi[low:]
	var low ssa.Value
	var latch *ssa.BasicBlock
	for i, pr := range l.header.Preds {
		if !l.body[pr] {
			continue
		}
		sl, isSl := tphi.Edges[i].(*ssa.Slice)
		if !isSl || sl.X != ssa.Value(tphi) || sl.Low == nil || sl.High != nil {
			return false, "the text is not advanced by re-slicing from a position after the line ending", true
		}
		low, latch = sl.Low, pr
	}
	if low == nil {
		return false, "no advance of the text found", true
	}
	bs := newBSET(p)
	const pos = 100
	var bad []string
	n := 0
	for _, bv := range []int64{'\n', '\r'} {
		for _, atEnd := range []int64{0, 1} {
			for _, nv := range []int64{'\n', 'x', '\r'} {
				if atEnd == 1 && nv != 'x' {
					continue
				}
				n++
				symVal := func(v ssa.Value) (int64, bool) {
					if v == ssa.Value(search) {
						return pos, true
					}
					if cl, isLen := isBuiltinCall(v, "len"); isLen && cl.Call.Args[0] == ssa.Value(tphi) {
						if atEnd == 1 {
							return pos + 1, true
						}
						return pos + 50, true
					}
					if ld, isLd := v.(*ssa.UnOp); isLd && ld.Op == token.MUL {
						if ia, isIA := ld.X.(*ssa.IndexAddr); isIA && ia.X == ssa.Value(tphi) {
							if ia.Index == ssa.Value(search) {
								return bv, true
							}
							if bo, isBo := ia.Index.(*ssa.BinOp); isBo && bo.Op == token.ADD && bo.X == ssa.Value(search) {
								if k, isK := constInt(bo.Y); isK && k == 1 {
									return nv, true
								}
							}
						}
					}
					return 0, false
				}
				st := &evalState{e: bs, fn: fn, symVal: symVal, from: make([]int, len(fn.Blocks))}
				for i := range st.from {
					st.from[i] = -2
				}
				// walk from the search block to the latch, deciding every branch
				b := search.Block()
				reached := false
				for steps := 0; steps < len(fn.Blocks)+2; steps++ {
					if b == latch {
						reached = true
					}
					var nb *ssa.BasicBlock
					if iff := blockIf(b); iff != nil {
						st.why = ""
						v, okE := st.eval(iff.Cond)
						if !okE {
							return false, "a branch in the loop depends on something other than the byte found and its successor: " + st.why, true
						}
						if v != 0 {
							nb = b.Succs[0]
						} else {
							nb = b.Succs[1]
						}
					} else if len(b.Succs) == 1 {
						nb = b.Succs[0]
					} else {
						break
					}
					if reached && nb == l.header {
						st.from[nb.Index] = b.Index
						break
					}
					if !l.body[nb] {
						return false, "the loop is left although a line ending was found", true
					}
					st.from[nb.Index] = b.Index
					b = nb
				}
				if !reached {
					return false, "no path from the search to the advance of the text", true
				}
				st.why = ""
				lv, okE := st.eval(low)
				if !okE {
					return false, "the advance is not a function of the position found: " + st.why, true
				}
				want := int64(1)
				if bv == '\r' && atEnd == 0 && nv == '\n' {
					want = 2
				}
				if lv-pos != want {
					bad = append(bad, fmt.Sprintf("byte %q, next byte %s: advances by %d, documented %d", rune(bv), map[int64]string{1: "absent", 0: fmt.Sprintf("%q", rune(nv))}[atEnd], lv-pos, want))
				}
			}
		}
	}
	if len(bad) > 0 {
		return false, fmt.Sprintf("%d (byte, look-ahead) cases; deviations: %s", n, strings.Join(bad, "; ")), true
	}
	return true, fmt.Sprintf("search-walk form: %d (byte, look-ahead) cases, one count per line ending, CRLF consumed as one", n), true
}

// ---------------------------------------------------------------------------------------------
// FILL-LAST: NUL padding is measured before it is filled in.

func ruleFillLast(c *Ctx) {
	c.Rule("FILL-LAST", "unpaddedNullLength recovers the original length of a prefix from the zero bytes padNulls left in it; fillNulls overwrites those zero bytes with U+FFFD. In every function that calls fillNulls, no path leads from that call to a measurement of the buffer (a call of unpaddedNullLength or nullCount, directly or inside a module function called afterwards): a measurement taken after the fill counts no padding and advances the stream offset by the padded length, two bytes too far per NUL.")
	p := c.P
	fill := p.Func("fillNulls")
	if !c.NeedFunc("FILL-LAST", fill, "fillNulls") {
		return
	}
	measures := map[*ssa.Function]bool{}
	for _, n := range []string{"unpaddedNullLength", "nullCount"} {
		if f := p.Func(n); f != nil {
			measures[f] = true
		}
	}
	if len(measures) == 0 {
		c.Undecided("FILL-LAST", "anchors", token.NoPos, "no padding-measuring function found")
		return
	}
	// module functions that (transitively, statically) measure
	measuring := map[*ssa.Function]bool{}
	for f := range measures {
		measuring[f] = true
	}
	for changed := true; changed; {
		changed = false
		for _, f := range p.Funcs {
			if measuring[f] {
				continue
			}
			eachInstr(f, func(in ssa.Instruction) {
				if ci, ok := in.(ssa.CallInstruction); ok {
					if g := ci.Common().StaticCallee(); g != nil && measuring[g] && !measuring[f] {
						measuring[f] = true
						changed = true
					}
				}
			})
		}
	}
	n := 0
	for _, fn := range p.Funcs {
		eachInstr(fn, func(in ssa.Instruction) {
			call, ok := in.(*ssa.Call)
			if !ok || call.Call.StaticCallee() != fill {
				return
			}
			n++
			key := fmt.Sprintf("%s:fillNulls#%d", shortFuncName(fn), n)
			// instructions reachable after the call
			var later []string
			seen := map[*ssa.BasicBlock]bool{}
			var scan func(b *ssa.BasicBlock, start int)
			scan = func(b *ssa.BasicBlock, start int) {
				for _, x := range b.Instrs[start:] {
					if ci, ok := x.(ssa.CallInstruction); ok {
						if g := ci.Common().StaticCallee(); g != nil && measuring[g] && g != fill {
							later = append(later, fmt.Sprintf("%s at %s", g.Name(), p.Pos(x.Pos())))
						}
					}
				}
				for _, s := range b.Succs {
					if !seen[s] {
						seen[s] = true
						scan(s, 0)
					}
				}
			}
			scan(call.Block(), instrIndex(call)+1)
			sort.Strings(later)
			c.Check(len(later) == 0, "FILL-LAST", key, call.Pos(), "the padding is measured after it has been filled in: "+strings.Join(later, ", "))
		})
	}
	if n < 1 {
		c.Undecided("FILL-LAST", "instance-count", fill.Pos(), "fillNulls is never called")
	}
}

// lineCompleteThroughHelper: the exit edge b→succ[si] of the reader loop is the "result >= 0" edge of a test of a module
// helper's integer result. Every return of the helper whose value is not a negative constant is then classified like a
// loop exit: behind a line-feed edge, behind a look-ahead-available edge (k+1 < len of the parameter that receives the
// buffer), or behind the true edge of a bool parameter that the call binds to `err != nil`.
func lineCompleteThroughHelper(c *Ctx, fn *ssa.Function, b *ssa.BasicBlock, si int, n *int) (int, bool) {
	iff := blockIf(b)
	if iff == nil {
		return 0, false
	}
	bo, ok := iff.Cond.(*ssa.BinOp)
	if !ok {
		return 0, false
	}
	k, isC := constInt(bo.Y)
	if !isC {
		return 0, false
	}
	nonNegEdge := -1
	switch {
	case bo.Op == token.GEQ && k == 0, bo.Op == token.GTR && k == -1:
		nonNegEdge = 0
	case bo.Op == token.LSS && k == 0, bo.Op == token.LEQ && k == -1:
		nonNegEdge = 1
	}
	if nonNegEdge != si {
		return 0, false
	}
	call, ok := bo.X.(*ssa.Call)
	if !ok {
		// `n := f(...); for n < 0 { ...; n = f(...) }`: a phi of calls of one helper with the same kinds of argument
		ph, isPhi := bo.X.(*ssa.Phi)
		if !isPhi || len(ph.Edges) == 0 {
			return 0, false
		}
		for _, e := range ph.Edges {
			ce, isCall := e.(*ssa.Call)
			if !isCall {
				return 0, false
			}
			if call == nil {
				call = ce
				continue
			}
			if ce.Call.StaticCallee() != call.Call.StaticCallee() || len(ce.Call.Args) != len(call.Call.Args) {
				return 0, false
			}
			b1, e1, t1 := lineHelperBindings(call)
			b2, e2, t2 := lineHelperBindings(ce)
			if b1 != b2 || e1 != e2 || t1 != t2 {
				return 0, false
			}
		}
	}
	g := call.Call.StaticCallee()
	if g == nil || g.Blocks == nil || !c.P.InModule(g) {
		return 0, false
	}
	// parameter bindings
	bufParam, eofParam, eofTrueMeansEOF := lineHelperBindings(call)
	count := 0
	for ri, r := range returnsOf(g) {
		if len(r.Results) != 1 {
			continue
		}
		if kv, isK := constInt(r.Results[0]); isK && kv < 0 {
			continue
		}
		count++
		*n++
		key := fmt.Sprintf("%s→%s:return#%d", shortFuncName(fn), g.Name(), ri+1)
		ok, why := false, "the helper reports a complete line on a path that is not behind an LF test, a look-ahead-available test or the end-of-input parameter"
		for _, gb := range g.Blocks {
			gif := blockIf(gb)
			if gif == nil {
				continue
			}
			for gi := 0; gi < 2; gi++ {
				if !edgeDominates(gb, gi, r.Block()) {
					continue
				}
				cond := gif.Cond
				// (c) end-of-input parameter
				if eofParam >= 0 && eofParam < len(g.Params) {
					neg := isNegated(cond)
					if stripNot(cond) == ssa.Value(g.Params[eofParam]) {
						paramTrueEdge := 0
						if neg {
							paramTrueEdge = 1
						}
						if (gi == paramTrueEdge) == eofTrueMeansEOF {
							ok, why = true, "behind the end-of-input parameter"
						}
						continue
					}
				}
				gbo, isBo := cond.(*ssa.BinOp)
				if !isBo {
					continue
				}
				// (a) byte == '\n'
				if gbo.Op == token.EQL && gi == 0 {
					if kk, isK := constInt(gbo.Y); isK && kk == '\n' {
						ok, why = true, "behind a line-feed edge"
					}
				}
				// (b) k+1 < len(buffer parameter)
				if bufParam >= 0 && bufParam < len(g.Params) {
					if m, isLA := strictlyBelowLen(gif, gi, func(v ssa.Value) bool {
						cl, isLen := isBuiltinCall(v, "len")
						return isLen && cl.Call.Args[0] == ssa.Value(g.Params[bufParam])
					}); isLA && m >= 1 {
						ok, why = true, "behind the look-ahead-available edge"
					}
				}
			}
		}
		c.Check(ok, "LINE-COMPLETE", key, r.Pos(), why)
	}
	if count == 0 {
		return 0, false
	}
	return count, true
}

var wideWSMemo = map[*ssa.Function]int{}

// wideWhitespaceClassifier: f is a one-parameter predicate over bytes/runes whose exact accept set (BSET) contains the
// space and at least one of form feed, vertical tab, NEL, NBSP, EM SPACE, IDEOGRAPHIC SPACE.
func wideWhitespaceClassifier(p *Program, f *ssa.Function) bool {
	if v, ok := wideWSMemo[f]; ok {
		return v == 1
	}
	wideWSMemo[f] = 0
	res := f.Signature.Results()
	if res.Len() != 1 {
		return false
	}
	if b, ok := res.At(0).Type().Underlying().(*types.Basic); !ok || b.Kind() != types.Bool {
		return false
	}
	bs := newBSET(p)
	t := bs.Table(f)
	if t.why != "" {
		return false
	}
	acc := func(v int64) bool {
		o, ok := t.lookup(v)
		return ok && o.kind == oRet && o.val != 0
	}
	if !acc(' ') {
		return false
	}
	for _, w := range []int64{'\f', '\v', 0x85, 0xa0, 0x2003, 0x3000} {
		if acc(w) {
			wideWSMemo[f] = 1
			return true
		}
	}
	return false
}

// strictlyBelowLen: the edge gi of iff establishes V + m < L for a term L accepted by isLen (constants on either side
// folded into m); returns m. Any spelling: V+1 < L, V < L-1, L > V+1, L-1 > V, the false edges of V+1 >= L / L <= V+1, and
// the non-strict forms with m one less.
func strictlyBelowLen(iff *ssa.If, gi int, isLen func(ssa.Value) bool) (int64, bool) {
	neg := isNegated(iff.Cond)
	bo, ok := stripNot(iff.Cond).(*ssa.BinOp)
	if !ok {
		return 0, false
	}
	op := bo.Op
	taken := gi == 0
	if neg {
		taken = !taken
	}
	if !taken {
		switch op {
		case token.LSS:
			op = token.GEQ
		case token.LEQ:
			op = token.GTR
		case token.GTR:
			op = token.LEQ
		case token.GEQ:
			op = token.LSS
		default:
			return 0, false
		}
	}
	x, y := bo.X, bo.Y
	switch op {
	case token.GTR: // x > y  ==  y < x
		x, y, op = y, x, token.LSS
	case token.GEQ:
		x, y, op = y, x, token.LEQ
	}
	if op != token.LSS && op != token.LEQ {
		return 0, false
	}
	xb, xk := linTerm(x)
	yb, yk := linTerm(y)
	if !isLen(yb) {
		return 0, false
	}
	if _, isC := xb.(*ssa.Const); isC {
		return 0, false
	}
	m := xk - yk
	if op == token.LEQ {
		m--
	}
	return m, true
}

// lineHelperBindings: which argument of a line-end helper is the parser's buffer and which is `p.err != nil` (or == nil).
func lineHelperBindings(call *ssa.Call) (bufParam, eofParam int, eofTrueMeansEOF bool) {
	bufParam, eofParam, eofTrueMeansEOF = -1, -1, true
	for ai, a := range call.Call.Args {
		if _, isBuf := isLoadOfField(a, "BlockParser", "buf"); isBuf {
			bufParam = ai
		}
		if x, nilIdx, isNil := nilTest(a); isNil {
			if _, isErr := isLoadOfField(x, "BlockParser", "err"); isErr {
				eofParam = ai
				eofTrueMeansEOF = nilIdx == 1 // argument true when err is non-nil
			}
		}
	}
	return
}
