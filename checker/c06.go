package main

// C06 — conformance: only necessary conditions, namely the places where the CommonMark 0.30 text dictates a finite
// table, set, number or per-kind mapping that the code must reproduce. Every rule here is also a rule of the property
// whose statement names that table (C05, C07, C10, C11, C12, C15); C06 adds no rule of its own. What makes a rule
// eligible: the specification fixes the fact for every document (a classifier's set, a numeric limit, the flanking
// truth table, which block may contain which, the element a node kind maps to), so a deviation is a conformance bug
// for some canonical document, whatever else is right.

import "golang.org/x/tools/go/ssa"

func init() { props["C06"] = checkC06 }

func checkC06(c *Ctx) {
	c.Assume("Only the specification's finite tables are decided (classifier sets, recogniser limits, the flanking and rule-of-three tables, the containment matrix, the kind→element mapping, text escaping, first-definition-wins). The block and inline algorithms that connect them — container matching, lazy continuation, tab/column arithmetic, list looseness propagation, delimiter matching order, link bracket matching — are value-level and not decided: a change there is not reported.")
	// 1. byte/rune classes the spec defines (ASCII punctuation = what a backslash may escape; Unicode whitespace and
	//    punctuation for flanking; white space of the line-level rules)
	c.Rule("BSET", "For each byte/rune classifier the exact accept set, obtained by propagating every element of the parameter's domain through the function's loop-free SSA control-flow graph, equals the set transcribed from CommonMark 0.30. (For C06: 'backslash-escaping every punctuation character of a text yields that text literally' needs exactly the ASCII punctuation set; flanking needs the Unicode classes.)")
	e := newBSET(c.P)
	for _, o := range classifierOracles {
		checkClassifierOracle(c, e, o, "BSET")
	}
	c.MinCount("BSET", len(classifierOracles))
	// 2. numeric limits and shortest instances of the line-level constructs; no Unicode white space at line level
	ruleSpecBoundsFor(c, "C15")
	ruleSpecBoundsFor(c, "C07")
	ruleSpecBoundsFor(c, "C12")
	ruleMinLen(c, "C06")
	ruleSpanScan(c)
	ruleWSSpecRecognisers(c)
	ruleStartNonBlank(c)
	ruleFenceIndent(c)
	ruleTabPartial(c)
	ruleHTMLBlockTable(c)
	rulePrefilter(c)
	ruleWindowSearch(c)
	// 3. emphasis: flanking truth table, match predicate (rules 9/10), search-bound cache soundness
	checkC11(c)
	// 4. which block may contain which; list/ item agreement; tightness
	ruleContain(c)
	ruleListAttr(c)
	ruleLooseAgree(c)
	// 5. node kind → HTML element mapping and text escaping
	htxRules(c)
	r := runHTX(c)
	reportHTX(c, r, map[string]bool{"HTX-T": true})
	ruleHTXKind(c, r)
	ruleEscSet(c, r.h)
	ruleTextKinds(c)
	// 6. references: first definition wins, label matching is by the one normaliser with the spec's white space
	ruleFirstWins(c)
	ruleNormProv(c)
	ruleNormWS(c)
	if fn := c.P.Method("ReferenceMap", "Extract"); c.NeedFunc("TRAV", fn, "(ReferenceMap).Extract") {
		c.Rule("TRAV", "Explicit-stack traversals whose visiting order is observable pop from the end and push children by descending index: containers are visited in document order, so 'first definition' means first in source.")
		ok, why := travOrder(fn)
		c.Check(ok, "TRAV", "(ReferenceMap).Extract", fn.Pos(), why)
	}
	_ = ssa.Value(nil)
}
