package main

// walkwiring.go — WALK-WIRING: the closures through which the HTML renderer hands its emitters to Walk pass the
// emitters' verdicts on unchanged. HTX-PAIR decides that pre/post emitters open and close matching tags *given* that
// Post runs iff Pre's emitter said "descend"; this rule decides the given.

import (
	"fmt"
	"go/constant"
	"sort"
	"strings"

	"golang.org/x/tools/go/ssa"
)

func ruleWalkWiring(c *Ctx) {
	c.Rule("WALK-WIRING", "Wherever package commonmark calls Walk with Pre/Post callbacks that invoke renderState's emitters: every value the Pre callback returns is the result of a pre-emitter call (or the constant true for a node that is neither block nor inline), so descent is refused only when the emitter said so and has therefore closed what it opened; every value the Post callback returns is the result of a post-emitter call or the constant true (the renderer never aborts a walk half way); Pre calls only pre-emitters and Post only post-emitters, one for blocks and one for inlines each. A callback that can return false after its emitter opened an element (a depth limit, a budget) leaves the element unclosed.")
	p := c.P
	n := 0
	for _, fn := range p.Funcs {
		if fn.Pkg != p.CMs {
			continue
		}
		eachInstr(fn, func(in ssa.Instruction) {
			st, ok := in.(*ssa.Store)
			if !ok {
				return
			}
			fa, ok := st.Addr.(*ssa.FieldAddr)
			if !ok {
				return
			}
			typ, fld, _ := fieldAddrInfo(fa)
			if typ != "WalkOptions" || (fld != "Pre" && fld != "Post") {
				return
			}
			mc, ok := st.Val.(*ssa.MakeClosure)
			if !ok {
				if isNilConst(st.Val) {
					return
				}
				if f, isF := st.Val.(*ssa.Function); isF {
					checkWalkCallback(c, fn, f, fld, &n)
					return
				}
				// a callback that is not a literal: only a problem if it could be an emitter wrapper; undecided
				c.Undecided("WALK-WIRING", shortFuncName(fn)+":"+fld, st.Pos(), "callback is not a function literal")
				return
			}
			checkWalkCallback(c, fn, mc.Fn.(*ssa.Function), fld, &n)
		})
	}
	if n < 1 {
		c.Undecided("WALK-WIRING", "instance-count", 0, "no Walk callback calling a renderState emitter was found (AppendBlock is expected to have two)")
	}
}

// resolveTrampoline: a bound-method wrapper or a function whose body is one static call whose result it returns
// stands for the function it calls (callbacks written as methods on the per-call state).
func resolveTrampoline(f *ssa.Function, depth int) *ssa.Function {
	if f == nil || f.Blocks == nil || depth > 3 {
		return f
	}
	if len(f.Blocks) != 1 {
		return f
	}
	var only *ssa.Call
	for _, in := range f.Blocks[0].Instrs {
		switch x := in.(type) {
		case *ssa.Call:
			if only != nil {
				return f
			}
			only = x
		case *ssa.Return:
			if only == nil || len(x.Results) != 1 || x.Results[0] != ssa.Value(only) {
				return f
			}
		case *ssa.DebugRef:
		default:
			if _, isVal := in.(ssa.Value); isVal {
				// loads of free variables / field reads feeding the call are fine
				continue
			}
			return f
		}
	}
	if only == nil || only.Call.StaticCallee() == nil {
		return f
	}
	return resolveTrampoline(only.Call.StaticCallee(), depth+1)
}

func checkWalkCallback(c *Ctx, owner, cb *ssa.Function, fld string, n *int) {
	cb = resolveTrampoline(cb, 0)
	want := strings.ToLower(fld) // "pre" | "post"
	emitters := map[string]bool{}
	var foreign []string
	isEmitterCall := func(v ssa.Value) (string, bool) {
		call, ok := v.(*ssa.Call)
		if !ok {
			return "", false
		}
		f := call.Call.StaticCallee()
		if f == nil || f.Signature.Recv() == nil || typeName(f.Signature.Recv().Type()) != "renderState" {
			return "", false
		}
		return f.Name(), true
	}
	eachInstr(cb, func(in ssa.Instruction) {
		if v, ok := in.(ssa.Value); ok {
			if name, ok := isEmitterCall(v); ok {
				emitters[name] = true
				if !strings.HasPrefix(name, want) {
					foreign = append(foreign, name)
				}
			}
		}
	})
	if len(emitters) == 0 {
		return // not a renderer callback
	}
	*n++
	key := fmt.Sprintf("%s:%s", shortFuncName(owner), fld)
	sort.Strings(foreign)
	c.Check(len(foreign) == 0, "WALK-WIRING", key+":emitters", cb.Pos(), fmt.Sprintf("the %s callback calls emitters of the other phase: %s", fld, strings.Join(foreign, ", ")))
	hasBlock, hasInline := false, false
	for e := range emitters {
		if strings.HasSuffix(e, "Block") {
			hasBlock = true
		}
		if strings.HasSuffix(e, "Inline") {
			hasInline = true
		}
	}
	c.Check(hasBlock && hasInline, "WALK-WIRING", key+":both-node-classes", cb.Pos(), "the callback must dispatch to an emitter for blocks and one for inlines")
	// provenance of returned values
	var bad []string
	for _, r := range returnsOf(cb) {
		if len(r.Results) != 1 {
			continue
		}
		seen := map[ssa.Value]bool{}
		var w func(v ssa.Value)
		w = func(v ssa.Value) {
			if seen[v] {
				return
			}
			seen[v] = true
			if _, ok := isEmitterCall(v); ok {
				return
			}
			switch x := v.(type) {
			case *ssa.Const:
				if x.Value == nil || x.Value.Kind() != constant.Bool || !constant.BoolVal(x.Value) {
					bad = append(bad, "constant "+x.String())
				}
			case *ssa.Phi:
				for _, e := range x.Edges {
					w(e)
				}
			default:
				bad = append(bad, v.String())
			}
		}
		w(r.Results[0])
	}
	sort.Strings(bad)
	c.Check(len(bad) == 0, "WALK-WIRING", key+":returns", cb.Pos(), fmt.Sprintf("the %s callback can return something other than its emitter's verdict: %s", fld, strings.Join(bad, "; ")))
}
