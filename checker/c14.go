package main

// C14 — SYM: LF/CR symmetry of classification decisions (typed AST; go/ssa has no CSE so decisions are read off the syntax).

import (
	"fmt"
	"go/ast"
	"go/constant"
	"go/token"
	"go/types"
	"strings"

	"golang.org/x/tools/go/ssa"
)

func init() { props["C14"] = checkC14 }

type symLeaf struct {
	operand string
	lf, cr  bool
	crlf    bool // a two-byte "\r\n" needle: neither a bare-LF nor a bare-CR test
	node    ast.Node
}

type symDecision struct {
	kind   string
	leaves []symLeaf
	pos    token.Pos
}

type symCtx struct {
	c       *Ctx
	info    *types.Info
	bset    *bsetEngine
	parents map[ast.Node]ast.Node
}

// charConst returns the value of a constant byte/rune expression.
func (s *symCtx) charConst(e ast.Expr) (int64, bool) {
	tv, ok := s.info.Types[e]
	if !ok || tv.Value == nil || tv.Value.Kind() != constant.Int {
		return 0, false
	}
	v, ok := constant.Int64Val(tv.Value)
	return v, ok
}

func (s *symCtx) stringConst(e ast.Expr) (string, bool) {
	// []byte("...") of a constant
	if call, ok := e.(*ast.CallExpr); ok && len(call.Args) == 1 {
		if tv, ok := s.info.Types[call.Fun]; ok && tv.IsType() {
			if _, isSlice := tv.Type.Underlying().(*types.Slice); isSlice {
				return s.stringConst(call.Args[0])
			}
		}
	}
	tv, ok := s.info.Types[e]
	if !ok || tv.Value == nil || tv.Value.Kind() != constant.String {
		return "", false
	}
	return constant.StringVal(tv.Value), true
}

func (s *symCtx) isByteOrRune(e ast.Expr) bool {
	tv, ok := s.info.Types[e]
	if !ok {
		return false
	}
	b, ok := tv.Type.Underlying().(*types.Basic)
	return ok && (b.Kind() == types.Uint8 || b.Kind() == types.Int32 || b.Kind() == types.UntypedRune)
}

// setFuncs: functions whose constant string argument is a set of bytes/runes to look for.
var setFuncs = map[string]int{
	"bytes.IndexAny": 1, "strings.IndexAny": 1, "bytes.ContainsAny": 1, "strings.ContainsAny": 1, "bytes.LastIndexAny": 1, "strings.LastIndexAny": 1,
	"bytes.Trim": 1, "bytes.TrimLeft": 1, "bytes.TrimRight": 1, "strings.Trim": 1, "strings.TrimLeft": 1, "strings.TrimRight": 1,
}

func (s *symCtx) calleeOf(call *ast.CallExpr) *types.Func {
	var id *ast.Ident
	switch f := call.Fun.(type) {
	case *ast.Ident:
		id = f
	case *ast.SelectorExpr:
		id = f.Sel
	}
	if id == nil {
		return nil
	}
	fn, _ := s.info.Uses[id].(*types.Func)
	return fn
}

// leavesOf collects classification leaves of a boolean expression tree.
func (s *symCtx) leavesOf(e ast.Expr, out *[]symLeaf) {
	switch x := e.(type) {
	case *ast.ParenExpr:
		s.leavesOf(x.X, out)
	case *ast.UnaryExpr:
		if x.Op == token.NOT {
			s.leavesOf(x.X, out)
		}
	case *ast.BinaryExpr:
		switch x.Op {
		case token.LOR, token.LAND:
			s.leavesOf(x.X, out)
			s.leavesOf(x.Y, out)
		case token.EQL, token.NEQ:
			for _, pair := range [][2]ast.Expr{{x.X, x.Y}, {x.Y, x.X}} {
				if v, ok := s.charConst(pair[1]); ok && (v == '\n' || v == '\r') {
					if _, isConst := s.charConst(pair[0]); !isConst && s.isByteOrRune(pair[0]) {
						*out = append(*out, symLeaf{operand: types.ExprString(pair[0]), lf: v == '\n', cr: v == '\r', node: x})
					}
				}
			}
		}
	case *ast.CallExpr:
		fn := s.calleeOf(x)
		if fn == nil || fn.Pkg() == nil {
			return
		}
		full := fn.Pkg().Path() + "." + fn.Name()
		if fn.Pkg().Path() == cmPath {
			// module predicate on a byte: BSET accept set
			if sf := s.c.P.SSA.FuncValue(fn); sf != nil && len(x.Args) == 1 && s.isByteOrRune(x.Args[0]) {
				t := s.bset.Table(sf)
				if t.why == "" {
					lfO, ok1 := t.lookup('\n')
					crO, ok2 := t.lookup('\r')
					lf := ok1 && lfO.kind == oRet && lfO.val != 0
					cr := ok2 && crO.kind == oRet && crO.val != 0
					if lf || cr {
						*out = append(*out, symLeaf{operand: types.ExprString(x.Args[0]), lf: lf, cr: cr, node: x})
					}
				}
				return
			}
			// module helper with a constant string needle: hasByteSuffix(x, "\n"), contains(x, "\n") ...
			for i, a := range x.Args {
				if str, ok := s.stringConst(a); ok && (str == "\n" || str == "\r" || str == "\r\n") {
					var ops []string
					for j, b := range x.Args {
						if j != i {
							ops = append(ops, types.ExprString(b))
						}
					}
					*out = append(*out, symLeaf{operand: fn.Name() + "(" + strings.Join(ops, ",") + ")", lf: str == "\n", cr: str == "\r", crlf: str == "\r\n", node: x})
				}
			}
			return
		}
		if ai, ok := setFuncs[strings.TrimPrefix(full, "")]; ok && ai < len(x.Args) {
			if str, ok := s.stringConst(x.Args[ai]); ok {
				lf, cr := strings.ContainsRune(str, '\n'), strings.ContainsRune(str, '\r')
				if lf || cr {
					*out = append(*out, symLeaf{operand: fn.Name() + "(" + types.ExprString(x.Args[0]) + ")", lf: lf, cr: cr, node: x})
				}
			}
			return
		}
		// bytes/strings single-needle functions with a constant "\n"
		if fn.Pkg().Path() == "bytes" || fn.Pkg().Path() == "strings" {
			for i, a := range x.Args {
				if i == 0 {
					continue
				}
				if v, ok := s.charConst(a); ok && (v == '\n' || v == '\r') {
					*out = append(*out, symLeaf{operand: fn.Name() + "(" + types.ExprString(x.Args[0]) + ")", lf: v == '\n', cr: v == '\r', node: x})
				}
				if str, ok := s.stringConst(a); ok && (str == "\n" || str == "\r" || str == "\r\n") {
					*out = append(*out, symLeaf{operand: fn.Name() + "(" + types.ExprString(x.Args[0]) + ")", lf: str == "\n", cr: str == "\r", crlf: str == "\r\n", node: x})
				}
			}
		}
	}
}

func (s *symCtx) buildParents(root ast.Node) {
	var stack []ast.Node
	ast.Inspect(root, func(n ast.Node) bool {
		if n == nil {
			stack = stack[:len(stack)-1]
			return true
		}
		if len(stack) > 0 {
			s.parents[n] = stack[len(stack)-1]
		}
		stack = append(stack, n)
		return true
	})
}

// decisionsOf enumerates the decisions of a function body.
func (s *symCtx) decisionsOf(body ast.Node) []symDecision {
	var out []symDecision
	isBoolOp := func(n ast.Node) bool {
		switch x := n.(type) {
		case *ast.BinaryExpr:
			return x.Op == token.LOR || x.Op == token.LAND
		case *ast.ParenExpr:
			return true
		case *ast.UnaryExpr:
			return x.Op == token.NOT
		}
		return false
	}
	inTaglessCase := func(n ast.Node) *ast.SwitchStmt {
		// is n (a case expression root) directly in the case list of a tagless switch?
		p := s.parents[n]
		cc, ok := p.(*ast.CaseClause)
		if !ok {
			return nil
		}
		blk, ok := s.parents[cc].(*ast.BlockStmt)
		if !ok {
			return nil
		}
		sw, ok := s.parents[blk].(*ast.SwitchStmt)
		if !ok || sw.Tag != nil {
			return nil
		}
		for _, e := range cc.List {
			if e == n {
				return sw
			}
		}
		return nil
	}
	tagless := map[*ast.SwitchStmt]*symDecision{}
	var order []*ast.SwitchStmt
	ast.Inspect(body, func(n ast.Node) bool {
		switch x := n.(type) {
		case *ast.SwitchStmt:
			if x.Tag != nil {
				d := symDecision{kind: "switch", pos: x.Pos()}
				tagStr := types.ExprString(x.Tag)
				if !s.isByteOrRune(x.Tag) {
					return true
				}
				for _, st := range x.Body.List {
					cc := st.(*ast.CaseClause)
					for _, e := range cc.List {
						if v, ok := s.charConst(e); ok && (v == '\n' || v == '\r') {
							d.leaves = append(d.leaves, symLeaf{operand: tagStr, lf: v == '\n', cr: v == '\r', node: e})
						}
					}
				}
				if len(d.leaves) > 0 {
					out = append(out, d)
				}
			}
		case ast.Expr:
			// maximal boolean trees and lone comparisons/calls
			if p := s.parents[n]; p != nil && isBoolOp(p) {
				return true // not maximal
			}
			tv, ok := s.info.Types[x]
			if !ok || tv.Type == nil {
				return true
			}
			if b, ok := tv.Type.Underlying().(*types.Basic); !ok || b.Info()&types.IsBoolean == 0 {
				// calls to set functions returning int/slices: IndexAny, TrimLeft ...
				if call, ok := x.(*ast.CallExpr); ok {
					var lv []symLeaf
					s.leavesOf(call, &lv)
					if len(lv) > 0 {
						// value-returning searches and counts over the same operand with the same function in one body
						// form one decision: Count(text, "\n") + Count(text, "\r") - Count(text, "\r\n")
						merged := false
						for i := range out {
							if out[i].kind == "cut-set" && len(out[i].leaves) > 0 && out[i].leaves[0].operand == lv[0].operand {
								out[i].leaves = append(out[i].leaves, lv...)
								merged = true
								break
							}
						}
						if !merged {
							out = append(out, symDecision{kind: "cut-set", leaves: lv, pos: call.Pos()})
						}
					}
				}
				return true
			}
			var lv []symLeaf
			s.leavesOf(x, &lv)
			if len(lv) == 0 {
				return true
			}
			if sw := inTaglessCase(n); sw != nil {
				if tagless[sw] == nil {
					tagless[sw] = &symDecision{kind: "tagless switch", pos: sw.Pos()}
					order = append(order, sw)
				}
				tagless[sw].leaves = append(tagless[sw].leaves, lv...)
				return true
			}
			out = append(out, symDecision{kind: "condition", leaves: lv, pos: x.Pos()})
		}
		return true
	})
	for _, sw := range order {
		out = append(out, *tagless[sw])
	}
	return out
}

// e1 recognises the CRLF look-ahead idiom for an LF-only leaf.
func (s *symCtx) e1(leaf symLeaf, d symDecision) (bool, string) {
	// (c) conjoined with a '\r' test on another operand in the same decision
	for _, o := range d.leaves {
		if o.cr && !o.lf && o.operand != leaf.operand && sameBase(o.operand, leaf.operand) {
			return true, "E1: conjoined with a CR test on the neighbouring index"
		}
	}
	// (a)/(b): enclosing case '\r' clause or body of an if that tested == '\r'
	for n := s.parents[leaf.node]; n != nil; n = s.parents[n] {
		switch x := n.(type) {
		case *ast.CaseClause:
			for _, e := range x.List {
				if v, ok := s.charConst(e); ok && v == '\r' {
					return true, "E1: inside a `case '\\r'` clause"
				}
				var lv []symLeaf
				s.leavesOf(e, &lv)
				for _, l := range lv {
					if l.cr && !l.lf {
						return true, "E1: inside a case that established a CR"
					}
				}
			}
		case *ast.IfStmt:
			// only the body, not the else branch
			inBody := false
			for m := leaf.node; m != nil && m != ast.Node(x); m = s.parents[m] {
				if m == ast.Node(x.Body) {
					inBody = true
				}
			}
			if inBody {
				var lv []symLeaf
				s.leavesOf(x.Cond, &lv)
				for _, l := range lv {
					if l.cr && !l.lf {
						return true, "E1: inside the body of an if that established a CR"
					}
				}
			}
		case *ast.FuncDecl, *ast.FuncLit:
			return false, ""
		}
	}
	return false, ""
}

func sameBase(a, b string) bool {
	ia, ib := strings.Index(a, "["), strings.Index(b, "[")
	return ia > 0 && ib > 0 && a[:ia] == b[:ib]
}

// e2: the operand is indexed by a value derived from an IndexAny result whose cut-set has both LF and CR.
func (s *symCtx) e2(leaf symLeaf, fnBody ast.Node) (bool, string) {
	bin, ok := leaf.node.(*ast.BinaryExpr)
	if !ok {
		return false, ""
	}
	var idx *ast.IndexExpr
	for _, e := range []ast.Expr{bin.X, bin.Y} {
		if ie, ok := e.(*ast.IndexExpr); ok {
			idx = ie
		}
	}
	if idx == nil {
		return false, ""
	}
	tainted := map[types.Object]bool{}
	mentions := func(e ast.Expr) bool {
		found := false
		ast.Inspect(e, func(n ast.Node) bool {
			switch x := n.(type) {
			case *ast.Ident:
				if o := s.info.Uses[x]; o != nil && tainted[o] {
					found = true
				}
			case *ast.CallExpr:
				if fn := s.calleeOf(x); fn != nil && fn.Pkg() != nil && strings.HasSuffix(fn.Name(), "IndexAny") && len(x.Args) == 2 {
					if str, ok := s.stringConst(x.Args[1]); ok && strings.ContainsRune(str, '\n') && strings.ContainsRune(str, '\r') {
						found = true
					}
				}
			}
			return true
		})
		return found
	}
	for changed := true; changed; {
		changed = false
		ast.Inspect(fnBody, func(n ast.Node) bool {
			as, ok := n.(*ast.AssignStmt)
			if !ok || len(as.Lhs) != len(as.Rhs) {
				return true
			}
			for i, l := range as.Lhs {
				id, ok := l.(*ast.Ident)
				if !ok {
					continue
				}
				o := s.info.Defs[id]
				if o == nil {
					o = s.info.Uses[id]
				}
				if o != nil && !tainted[o] && mentions(as.Rhs[i]) {
					tainted[o] = true
					changed = true
				}
			}
			return true
		})
	}
	if mentions(idx.Index) {
		return true, "E2: indexed by a position obtained from IndexAny over both line-ending bytes"
	}
	return false, ""
}

func checkC14(c *Ctx) {
	c.Rule("SYM", "In package commonmark every decision (a maximal ||/&& tree, the case list of one switch, or a constant cut-set) that classifies an input byte/rune against LF classifies the same operand against CR too (directly or via a module predicate whose BSET accept set contains both 10 and 13). Exempt, each recognised structurally: E1 CRLF look-ahead (inside a `case '\\r'` clause, inside the body of an if that established a CR, or conjoined with a CR test on the neighbouring index); E2 operand indexed by a position obtained from IndexAny over both bytes. Output constants are not classification sites.")
	c.Assume("that the LF and CR arms of a symmetric decision do equivalent things is not decided; the padding and final-newline clauses of the property are not decided")
	s := &symCtx{c: c, info: c.P.CM.TypesInfo, bset: newBSET(c.P), parents: map[ast.Node]ast.Node{}}
	nDec, nFn := 0, 0
	kinds := map[string]int{}
	for _, file := range c.P.CM.Syntax {
		name := c.P.Fset.Position(file.Pos()).Filename
		if strings.HasSuffix(name, "_test.go") {
			continue
		}
		s.buildParents(file)
		for _, decl := range file.Decls {
			var body ast.Node
			var fname string
			switch d := decl.(type) {
			case *ast.FuncDecl:
				if d.Body == nil {
					continue
				}
				body = d.Body
				fname = d.Name.Name
				if d.Recv != nil && len(d.Recv.List) > 0 {
					fname = recvTypeName(d.Recv.List[0].Type) + "." + fname
				}
			case *ast.GenDecl:
				body = d
				fname = "var:" + c.P.Pos(d.Pos())
				if d.Tok != token.VAR {
					continue
				}
				if len(d.Specs) > 0 {
					if vs, ok := d.Specs[0].(*ast.ValueSpec); ok && len(vs.Names) > 0 {
						fname = "var " + vs.Names[0].Name
					}
				}
			default:
				continue
			}
			decs := s.decisionsOf(body)
			if len(decs) > 0 {
				nFn++
			}
			// decisions that are the conditions of one if / else-if chain classify together (like the case list of a switch)
			chainRoot := func(d symDecision) *ast.IfStmt {
				if len(d.leaves) == 0 {
					return nil
				}
				var ifs *ast.IfStmt
				for n := s.parents[d.leaves[0].node]; n != nil; n = s.parents[n] {
					if x, ok := n.(*ast.IfStmt); ok {
						inCond := false
						for m := d.leaves[0].node; m != nil && m != ast.Node(x); m = s.parents[m] {
							if m == ast.Node(x.Cond) {
								inCond = true
							}
						}
						if inCond {
							ifs = x
						}
						break
					}
					if _, ok := n.(*ast.BlockStmt); ok {
						break
					}
				}
				for ifs != nil {
					up, ok := s.parents[ifs].(*ast.IfStmt)
					if !ok || up.Else != ast.Stmt(ifs) {
						break
					}
					ifs = up
				}
				return ifs
			}
			chainLeaves := map[*ast.IfStmt][]symLeaf{}
			for _, d := range decs {
				if r := chainRoot(d); r != nil {
					chainLeaves[r] = append(chainLeaves[r], d.leaves...)
				}
			}
			for i, d := range decs {
				nDec++
				// group by operand
				ops := map[string]*[2]bool{}
				var order []string
				classify := d.leaves
				if r := chainRoot(d); r != nil {
					classify = chainLeaves[r]
					own := map[string]bool{}
					for _, l := range d.leaves {
						own[l.operand] = true
					}
					var kept []symLeaf
					for _, l := range classify {
						if own[l.operand] {
							kept = append(kept, l)
						}
					}
					classify = kept
				}
				for _, l := range classify {
					if ops[l.operand] == nil {
						ops[l.operand] = &[2]bool{}
						order = append(order, l.operand)
					}
					if l.lf {
						ops[l.operand][0] = true
					}
					if l.cr {
						ops[l.operand][1] = true
					}
				}
				for _, op := range order {
					key := fmt.Sprintf("%s:decision#%d:%s", fname, i+1, op)
					lf, cr := ops[op][0], ops[op][1]
					switch {
					case !lf && !cr:
						// only the two-byte ending is looked for here; the single-byte tests are separate decisions
						kinds["crlf-only"]++
						c.OK("SYM", key, d.pos, d.kind+" looks for the two-byte line ending only")
					case lf && cr:
						kinds["symmetric"]++
						c.OK("SYM", key, d.pos, d.kind+" tests both LF and CR")
					case lf && !cr:
						// exemptions
						var leaf symLeaf
						for _, l := range d.leaves {
							if l.operand == op && l.lf {
								leaf = l
							}
						}
						if ok, why := s.e1(leaf, d); ok {
							kinds["E1"]++
							c.OK("SYM", key, d.pos, why)
						} else if ok, why := s.e2(leaf, body); ok {
							kinds["E2"]++
							c.OK("SYM", key, d.pos, why)
						} else {
							c.Viol("SYM", key, d.pos, d.kind+" classifies "+op+" against LF but not against CR: a CR-only or CRLF document takes a different path here")
						}
					case cr && !lf:
						// a CR-only test is the look-ahead side of E1 or a genuine asymmetry the other way round
						var leaf symLeaf
						for _, l := range d.leaves {
							if l.operand == op && l.cr {
								leaf = l
							}
						}
						hasLFNeighbour := false
						for _, l := range d.leaves {
							if l.lf && l.operand != op && sameBase(l.operand, op) {
								hasLFNeighbour = true
							}
						}
						if !hasLFNeighbour {
							// the CR half of a CRLF pair, looked for inside the body of an if that established the LF
							for n := s.parents[leaf.node]; n != nil && !hasLFNeighbour; n = s.parents[n] {
								if cc, isCase := n.(*ast.CaseClause); isCase {
									for _, e := range cc.List {
										if v, ok := s.charConst(e); ok && v == '\n' {
											hasLFNeighbour = true
										}
									}
									continue
								}
								x, ok := n.(*ast.IfStmt)
								if !ok {
									continue
								}
								inBody := false
								for m := leaf.node; m != nil && m != ast.Node(x); m = s.parents[m] {
									if m == ast.Node(x.Body) {
										inBody = true
									}
								}
								if inBody {
									var lv []symLeaf
									s.leavesOf(x.Cond, &lv)
									for _, l := range lv {
										if l.lf && !l.cr {
											hasLFNeighbour = true
										}
									}
								}
							}
						}
						if hasLFNeighbour {
							kinds["E1"]++
							c.OK("SYM", key, d.pos, "E1: CR half of a CRLF look-ahead")
						} else {
							c.Viol("SYM", key, d.pos, d.kind+" classifies "+op+" against CR but not against LF")
						}
					}
				}
			}
		}
	}
	c.Analysed["decisions"] = nDec
	c.Analysed["functions_with_decisions"] = nFn
	for k, v := range kinds {
		c.Analysed["decisions_"+k] = v
	}
	c.MinCount("SYM", 6)
	ruleSymDead(c, s)
	ruleMinLen(c, "C14")
	ruleLECount(c)
	ruleWindowSearch(c)
	ruleEOFBreak(c)
	_ = ssa.Function{}
}

func init() {
	addControls(
		Control{Name: "ATX-empty-heading-LF-only", Props: []string{"C14"}, File: "blocks.go",
			Old: "if i >= len(line) || line[i] == '\\n' || line[i] == '\\r' {", New: "if i >= len(line) || line[i] == '\\n' {", Expect: "SYM/parseATXHeading"},
		Control{Name: "backslash-break-LF-only", Props: []string{"C14"}, File: "inlines.go",
			Old: "state.source[start+1] == '\\n' || state.source[start+1] == '\\r' {", New: "state.source[start+1] == '\\n' {", Expect: "SYM/InlineParser.parseBackslash"},
		Control{Name: "thematic-break-ignores-LF-only", Props: []string{"C14"}, File: "blocks.go",
			Old: "\t\tcase ' ', '\\t', '\\r', '\\n':\n\t\t\t// Ignore", New: "\t\tcase ' ', '\\t', '\\n':\n\t\t\t// Ignore", Expect: "SYM/parseThematicBreak"},
		Control{Name: "code-eof-break-LF-only", Props: []string{"C14"}, File: "parse.go",
			Old: "!hasByteSuffix(p.line, \"\\n\") && !hasByteSuffix(p.line, \"\\r\") {", New: "!hasByteSuffix(p.line, \"\\n\") {", Expect: "SYM/addLineText"},
		Control{Name: "hard-break-space-LF-only", Props: []string{"C14"}, File: "inlines.go",
			Old: "c != ' ' && c != '\\n' && c != '\\r' {", New: "c != ' ' && c != '\\n' {", Expect: "SYM/parseHardLineBreakSpace"},
		Control{Name: "isSpaceTabOrLineEnding-drops-CR", Props: []string{"C14"}, File: "parse.go",
			Old: "return c == ' ' || c == '\\t' || c == '\\n' || c == '\\r'", New: "return c == ' ' || c == '\\t' || c == '\\n'", Expect: "SYM"},
		Control{Name: "crlf-arm-after-single-byte-arm", Props: []string{"C14"}, File: "inlines.go",
			Old: "\t\tcase len(spanText) >= 2 && spanText[len(spanText)-2] == '\\r' && spanText[len(spanText)-1] == '\\n':\n\t\t\ttrim = 2\n\t\tcase len(spanText) >= 1 && (spanText[len(spanText)-1] == '\\n' || spanText[len(spanText)-1] == '\\r'):\n\t\t\ttrim = 1\n",
			New: "\t\tcase len(spanText) >= 1 && (spanText[len(spanText)-1] == '\\n' || spanText[len(spanText)-1] == '\\r'):\n\t\t\ttrim = 1\n\t\tcase len(spanText) >= 2 && spanText[len(spanText)-2] == '\\r' && spanText[len(spanText)-1] == '\\n':\n\t\t\ttrim = 2\n", Expect: "SYM-DEAD"},
		Control{Name: "neg-ATX-switch-form", Props: []string{"C14"}, File: "blocks.go", Negative: true,
			Old: "\tif i >= len(line) || line[i] == '\\n' || line[i] == '\\r' {\n\t\th.content = Span{Start: i, End: i}\n\t\treturn h\n\t}",
			New: "\tif i >= len(line) {\n\t\th.content = Span{Start: i, End: i}\n\t\treturn h\n\t}\n\tswitch line[i] {\n\tcase '\\n', '\\r':\n\t\th.content = Span{Start: i, End: i}\n\t\treturn h\n\t}"},
		Control{Name: "neg-helper-isLineEnding", Props: []string{"C14"}, File: "inlines.go", Negative: true,
			Old: "c != ' ' && c != '\\n' && c != '\\r' {", New: "c != ' ' && !(c != ' ' && c != '\\t' && isSpaceTabOrLineEnding(c)) {"},
	)
}

// ---------------------------------------------------------------------------------------------
// SYM-DEAD: an arm of a tagless switch / if-else chain that classifies line endings must not be shadowed by earlier arms.

type deadAtom struct {
	kind    string // "eq" operand==const, "len" len(x) cmp k, "opaque"
	operand string
	konst   int64
	op      token.Token
	expr    ast.Expr
}

type deadEnv struct {
	vals   map[string]int64 // operand -> value (or -1 for OTHER); "len:"+x -> length
	opaque map[string]bool
}

func (s *symCtx) evalCond(e ast.Expr, env *deadEnv) bool {
	switch x := e.(type) {
	case *ast.ParenExpr:
		return s.evalCond(x.X, env)
	case *ast.UnaryExpr:
		if x.Op == token.NOT {
			return !s.evalCond(x.X, env)
		}
	case *ast.BinaryExpr:
		switch x.Op {
		case token.LAND:
			return s.evalCond(x.X, env) && s.evalCond(x.Y, env)
		case token.LOR:
			return s.evalCond(x.X, env) || s.evalCond(x.Y, env)
		case token.EQL, token.NEQ:
			for _, pair := range [][2]ast.Expr{{x.X, x.Y}, {x.Y, x.X}} {
				if k, ok := s.charConst(pair[1]); ok {
					if _, isC := s.charConst(pair[0]); !isC {
						v, known := env.vals[types.ExprString(pair[0])]
						if known {
							return (v == k) == (x.Op == token.EQL)
						}
					}
				}
			}
		case token.GEQ, token.GTR, token.LSS, token.LEQ:
			if l, k, op, ok := s.lenCmp(x); ok {
				v := env.vals["len:"+l]
				switch op {
				case token.GEQ:
					return v >= k
				case token.GTR:
					return v > k
				case token.LSS:
					return v < k
				case token.LEQ:
					return v <= k
				}
			}
		}
	}
	return env.opaque[types.ExprString(e)]
}

// lenCmp normalises len(x) OP k / k OP len(x).
func (s *symCtx) lenCmp(x *ast.BinaryExpr) (string, int64, token.Token, bool) {
	isLen := func(e ast.Expr) (string, bool) {
		if call, ok := e.(*ast.CallExpr); ok {
			if id, ok := call.Fun.(*ast.Ident); ok && id.Name == "len" && len(call.Args) == 1 {
				return types.ExprString(call.Args[0]), true
			}
		}
		return "", false
	}
	if l, ok := isLen(x.X); ok {
		if k, ok := s.charConst(x.Y); ok {
			return l, k, x.Op, true
		}
	}
	if l, ok := isLen(x.Y); ok {
		if k, ok := s.charConst(x.X); ok {
			flip := map[token.Token]token.Token{token.GEQ: token.LEQ, token.GTR: token.LSS, token.LSS: token.GTR, token.LEQ: token.GEQ}
			return l, k, flip[x.Op], true
		}
	}
	return "", 0, 0, false
}

// collectAtoms gathers the variables of a set of conditions.
func (s *symCtx) collectAtoms(conds []ast.Expr) (operands map[string]map[int64]bool, lens map[string]int64, opaques map[string]bool) {
	operands = map[string]map[int64]bool{}
	lens = map[string]int64{}
	opaques = map[string]bool{}
	var walk func(e ast.Expr)
	walk = func(e ast.Expr) {
		switch x := e.(type) {
		case *ast.ParenExpr:
			walk(x.X)
			return
		case *ast.UnaryExpr:
			if x.Op == token.NOT {
				walk(x.X)
				return
			}
		case *ast.BinaryExpr:
			switch x.Op {
			case token.LAND, token.LOR:
				walk(x.X)
				walk(x.Y)
				return
			case token.EQL, token.NEQ:
				for _, pair := range [][2]ast.Expr{{x.X, x.Y}, {x.Y, x.X}} {
					if k, ok := s.charConst(pair[1]); ok {
						if _, isC := s.charConst(pair[0]); !isC {
							op := types.ExprString(pair[0])
							if operands[op] == nil {
								operands[op] = map[int64]bool{}
							}
							operands[op][k] = true
							return
						}
					}
				}
			case token.GEQ, token.GTR, token.LSS, token.LEQ:
				if l, k, _, ok := s.lenCmp(x); ok {
					if k+1 > lens[l] {
						lens[l] = k + 1
					}
					return
				}
			}
		}
		opaques[types.ExprString(e)] = true
	}
	for _, c := range conds {
		walk(c)
	}
	return
}

// deadArms returns the indices of conditions that can never be the first true one.
func (s *symCtx) deadArms(conds []ast.Expr) ([]int, bool) {
	operands, lens, opaques := s.collectAtoms(conds)
	type variable struct {
		name string
		vals []int64
		kind int
	}
	var vars []variable
	total := 1
	for op, ks := range operands {
		v := variable{name: op, kind: 0, vals: []int64{-1}}
		for k := range ks {
			v.vals = append(v.vals, k)
		}
		vars = append(vars, v)
		total *= len(v.vals)
	}
	for l, mx := range lens {
		v := variable{name: "len:" + l, kind: 0}
		for i := int64(0); i <= mx; i++ {
			v.vals = append(v.vals, i)
		}
		vars = append(vars, v)
		total *= len(v.vals)
	}
	for o := range opaques {
		vars = append(vars, variable{name: o, kind: 1, vals: []int64{0, 1}})
		total *= 2
	}
	if total > 200000 || total <= 0 {
		return nil, false
	}
	live := make([]bool, len(conds))
	idx := make([]int, len(vars))
	env := &deadEnv{vals: map[string]int64{}, opaque: map[string]bool{}}
	for {
		for i, v := range vars {
			if v.kind == 1 {
				env.opaque[v.name] = v.vals[idx[i]] == 1
			} else {
				env.vals[v.name] = v.vals[idx[i]]
			}
		}
		for j, cnd := range conds {
			if s.evalCond(cnd, env) {
				live[j] = true
				break
			}
		}
		k := len(vars) - 1
		for ; k >= 0; k-- {
			idx[k]++
			if idx[k] < len(vars[k].vals) {
				break
			}
			idx[k] = 0
		}
		if k < 0 {
			break
		}
	}
	var dead []int
	for j, l := range live {
		if !l {
			dead = append(dead, j)
		}
	}
	return dead, true
}

func (s *symCtx) hasLineEndingLeaf(e ast.Expr) bool {
	var lv []symLeaf
	s.leavesOf(e, &lv)
	return len(lv) > 0
}

// ruleSymDead: see SYM-DEAD.
func ruleSymDead(c *Ctx, s *symCtx) {
	c.Rule("SYM-DEAD", "In package commonmark no arm of a tagless switch or if/else-if chain that classifies line-ending bytes is shadowed by earlier arms: for every arm there is an assignment to the compared operands, lengths and opaque sub-conditions under which it is the first true one (decided by enumerating that finite abstraction). A CRLF arm placed after a single-byte LF/CR arm is unreachable, so CRLF input is handled as a lone line ending plus a stray byte.")
	n := 0
	for _, file := range c.P.CM.Syntax {
		if strings.HasSuffix(c.P.Fset.Position(file.Pos()).Filename, "_test.go") {
			continue
		}
		var fname string
		ast.Inspect(file, func(nd ast.Node) bool {
			switch x := nd.(type) {
			case *ast.FuncDecl:
				fname = x.Name.Name
				if x.Recv != nil && len(x.Recv.List) > 0 {
					fname = recvTypeName(x.Recv.List[0].Type) + "." + fname
				}
			case *ast.SwitchStmt:
				if x.Tag != nil {
					return true
				}
				var conds []ast.Expr
				relevant := false
				for _, st := range x.Body.List {
					cc := st.(*ast.CaseClause)
					if len(cc.List) == 0 {
						continue // default
					}
					// several expressions in one case are alternatives
					var e ast.Expr = cc.List[0]
					for _, more := range cc.List[1:] {
						e = &ast.BinaryExpr{X: e, Op: token.LOR, Y: more}
					}
					conds = append(conds, e)
					for _, ce := range cc.List {
						if s.hasLineEndingLeaf(ce) {
							relevant = true
						}
					}
				}
				if !relevant || len(conds) < 2 {
					return true
				}
				n++
				key := fmt.Sprintf("%s:switch#%d", fname, n)
				dead, ok := s.deadArms(conds)
				if !ok {
					c.OK("SYM-DEAD", key, x.Pos(), "too many sub-conditions to enumerate; not decided (no claim)")
					return true
				}
				var names []string
				for _, d := range dead {
					names = append(names, fmt.Sprintf("arm %d (%s)", d+1, types.ExprString(conds[d])))
				}
				c.Check(len(dead) == 0, "SYM-DEAD", key, x.Pos(), "unreachable arm(s), shadowed by earlier arms: "+strings.Join(names, "; "))
			case *ast.IfStmt:
				// only chain heads
				if p, ok := s.parents[x].(*ast.IfStmt); ok && p.Else == ast.Stmt(x) {
					return true
				}
				var conds []ast.Expr
				relevant := false
				for cur := x; cur != nil; {
					conds = append(conds, cur.Cond)
					if s.hasLineEndingLeaf(cur.Cond) {
						relevant = true
					}
					next, _ := cur.Else.(*ast.IfStmt)
					cur = next
				}
				if !relevant || len(conds) < 2 {
					return true
				}
				n++
				key := fmt.Sprintf("%s:if-chain#%d", fname, n)
				dead, ok := s.deadArms(conds)
				if !ok {
					c.OK("SYM-DEAD", key, x.Pos(), "too many sub-conditions to enumerate; not decided (no claim)")
					return true
				}
				var names []string
				for _, d := range dead {
					names = append(names, fmt.Sprintf("arm %d (%s)", d+1, types.ExprString(conds[d])))
				}
				c.Check(len(dead) == 0, "SYM-DEAD", key, x.Pos(), "unreachable arm(s), shadowed by earlier arms: "+strings.Join(names, "; "))
			}
			return true
		})
	}
	if n < 1 {
		c.Undecided("SYM-DEAD", "instance-count", token.NoPos, "no tagless switch or if-chain with line-ending tests found (1 confirmed by hand in collectCodeSpan)")
	}
}
