package main

// ssah.go: small reusable SSA/CFG queries (the PATH helpers of DESIGN.md §2).

import (
	"fmt"
	"go/constant"
	"go/token"
	"go/types"
	"strings"

	"golang.org/x/tools/go/ssa"
)

func eachInstr(f *ssa.Function, fn func(ssa.Instruction)) {
	for _, b := range f.Blocks {
		for _, in := range b.Instrs {
			fn(in)
		}
	}
}

// withAnons returns f and all (transitively) nested anonymous functions.
func withAnons(f *ssa.Function) []*ssa.Function {
	out := []*ssa.Function{f}
	for _, a := range f.AnonFuncs {
		out = append(out, withAnons(a)...)
	}
	return out
}

func deref(t types.Type) types.Type {
	if p, ok := t.Underlying().(*types.Pointer); ok {
		return p.Elem()
	}
	return t
}

func namedOf(t types.Type) *types.Named {
	t = deref(t)
	if a, ok := t.(*types.Alias); ok {
		t = types.Unalias(a)
	}
	n, _ := t.(*types.Named)
	return n
}

func typeName(t types.Type) string {
	if n := namedOf(t); n != nil {
		return n.Obj().Name()
	}
	return t.String()
}

// fieldAddrInfo returns the struct type name and field name addressed by a FieldAddr.
func fieldAddrInfo(fa *ssa.FieldAddr) (typ string, field string, named *types.Named) {
	st := deref(fa.X.Type())
	named = namedOf(fa.X.Type())
	s, ok := st.Underlying().(*types.Struct)
	if !ok {
		return "?", "?", named
	}
	typ = "?"
	if named != nil {
		typ = named.Obj().Name()
	} else {
		typ = st.String()
	}
	return typ, s.Field(fa.Field).Name(), named
}

func fieldInfo(f *ssa.Field) (typ string, field string) {
	st := f.X.Type()
	named := namedOf(st)
	s, ok := st.Underlying().(*types.Struct)
	if !ok {
		return "?", "?"
	}
	typ = st.String()
	if named != nil {
		typ = named.Obj().Name()
	}
	return typ, s.Field(f.Field).Name()
}

// isFieldAddr reports whether v is &X.field of struct type typ.
func isFieldAddr(v ssa.Value, typ, field string) (*ssa.FieldAddr, bool) {
	fa, ok := v.(*ssa.FieldAddr)
	if !ok {
		return nil, false
	}
	t, f, _ := fieldAddrInfo(fa)
	return fa, t == typ && f == field
}

// isLoadOfField reports whether v is a load *(&X.field).
func isLoadOfField(v ssa.Value, typ, field string) (*ssa.FieldAddr, bool) {
	u, ok := v.(*ssa.UnOp)
	if !ok || u.Op != token.MUL {
		return nil, false
	}
	return isFieldAddr(u.X, typ, field)
}

// staticCallee returns the statically resolved callee of a call instruction, if any.
func staticCallee(in ssa.Instruction) *ssa.Function {
	c, ok := in.(ssa.CallInstruction)
	if !ok {
		return nil
	}
	return c.Common().StaticCallee()
}

// calleeName gives "pkgpath.Func" or "(pkgpath.T).Method" for a static callee or an interface method.
func calleeName(c *ssa.CallCommon) string {
	if c.IsInvoke() {
		return "(" + c.Value.Type().String() + ")." + c.Method.Name()
	}
	if f := c.StaticCallee(); f != nil {
		return funcName(f)
	}
	if b, ok := c.Value.(*ssa.Builtin); ok {
		return "builtin." + b.Name()
	}
	return ""
}

func funcName(f *ssa.Function) string {
	if f == nil {
		return "<nil>"
	}
	s := f.String()
	return s
}

// shortFuncName strips the module path for readability: "(*renderState).preBlock", "format.preBlock", "Parse", "Parse$1".
func shortFuncName(f *ssa.Function) string {
	s := f.String()
	s = strings.ReplaceAll(s, fmtPath+".", "format.")
	s = strings.ReplaceAll(s, cmPath+".", "")
	return s
}

func isBuiltinCall(v ssa.Value, name string) (*ssa.Call, bool) {
	c, ok := v.(*ssa.Call)
	if !ok {
		return nil, false
	}
	b, ok := c.Call.Value.(*ssa.Builtin)
	if !ok || b.Name() != name {
		return nil, false
	}
	return c, true
}

func constInt(v ssa.Value) (int64, bool) {
	c, ok := v.(*ssa.Const)
	if !ok || c.Value == nil {
		return 0, false
	}
	if c.Value.Kind() != constant.Int {
		return 0, false
	}
	i, ok := constant.Int64Val(c.Value)
	return i, ok
}

func constString(v ssa.Value) (string, bool) {
	switch c := v.(type) {
	case *ssa.Const:
		if c.Value != nil && c.Value.Kind() == constant.String {
			return constant.StringVal(c.Value), true
		}
	case *ssa.Convert:
		// []byte("const") / string conversions of constants
		return constString(c.X)
	case *ssa.ChangeType:
		return constString(c.X)
	}
	return "", false
}

func isNilConst(v ssa.Value) bool {
	c, ok := v.(*ssa.Const)
	return ok && c.Value == nil
}

// edgeDominates reports whether every path to blk passes through the edge from.Succs[idx].
func edgeDominates(from *ssa.BasicBlock, idx int, blk *ssa.BasicBlock) bool {
	if idx >= len(from.Succs) {
		return false
	}
	t := from.Succs[idx]
	if len(from.Succs) == 2 && from.Succs[0] == from.Succs[1] {
		return false
	}
	if !t.Dominates(blk) {
		return false
	}
	for _, p := range t.Preds {
		if p == from {
			continue
		}
		if !t.Dominates(p) {
			return false
		}
	}
	return true
}

// nilTest decomposes an If condition of the form `x != nil` / `x == nil` (possibly negated).
// nilIdx is the successor index taken when x is nil.
func nilTest(cond ssa.Value) (x ssa.Value, nilIdx int, ok bool) {
	neg := false
	for {
		if u, isU := cond.(*ssa.UnOp); isU && u.Op == token.NOT {
			neg = !neg
			cond = u.X
			continue
		}
		break
	}
	b, isB := cond.(*ssa.BinOp)
	if !isB || (b.Op != token.EQL && b.Op != token.NEQ) {
		return nil, 0, false
	}
	var v ssa.Value
	switch {
	case isNilConst(b.Y):
		v = b.X
	case isNilConst(b.X):
		v = b.Y
	default:
		return nil, 0, false
	}
	isEq := b.Op == token.EQL
	if neg {
		isEq = !isEq
	}
	if isEq {
		return v, 0, true
	}
	return v, 1, true
}

// blockIf returns the If terminating b, if any.
func blockIf(b *ssa.BasicBlock) *ssa.If {
	if len(b.Instrs) == 0 {
		return nil
	}
	i, _ := b.Instrs[len(b.Instrs)-1].(*ssa.If)
	return i
}

func instrIndex(in ssa.Instruction) int {
	for i, x := range in.Block().Instrs {
		if x == in {
			return i
		}
	}
	return -1
}

// instrBefore reports whether a executes before b when both are in the same block.
func instrBefore(a, b ssa.Instruction) bool {
	return a.Block() == b.Block() && instrIndex(a) < instrIndex(b)
}

// reachableBlocks returns blocks reachable from start (inclusive) without passing through any block in stop.
func reachableBlocks(start *ssa.BasicBlock, stop map[*ssa.BasicBlock]bool) map[*ssa.BasicBlock]bool {
	seen := map[*ssa.BasicBlock]bool{}
	var walk func(b *ssa.BasicBlock)
	walk = func(b *ssa.BasicBlock) {
		if seen[b] || stop[b] {
			return
		}
		seen[b] = true
		for _, s := range b.Succs {
			walk(s)
		}
	}
	walk(start)
	return seen
}

// stripConv walks through value-preserving conversions.
func stripConv(v ssa.Value) ssa.Value {
	for {
		switch x := v.(type) {
		case *ssa.ChangeType:
			v = x.X
		case *ssa.Convert:
			v = x.X
		case *ssa.MakeInterface:
			v = x.X
		case *ssa.ChangeInterface:
			v = x.X
		default:
			return v
		}
	}
}

// refsOf returns the referrers slice safely.
func refsOf(v ssa.Value) []ssa.Instruction {
	r := v.Referrers()
	if r == nil {
		return nil
	}
	return *r
}

// isPointerLike reports whether values of t can alias mutable memory (pointer, slice, map, chan, func, interface, or aggregates containing them).
func isPointerLike(t types.Type) bool {
	switch u := t.Underlying().(type) {
	case *types.Pointer, *types.Slice, *types.Map, *types.Chan, *types.Signature, *types.Interface:
		return true
	case *types.Basic:
		return u.Kind() == types.UnsafePointer
	case *types.Struct:
		for i := 0; i < u.NumFields(); i++ {
			if isPointerLike(u.Field(i).Type()) {
				return true
			}
		}
	case *types.Array:
		return isPointerLike(u.Elem())
	case *types.Tuple:
		for i := 0; i < u.Len(); i++ {
			if isPointerLike(u.At(i).Type()) {
				return true
			}
		}
	}
	return false
}

// byteSliceLit recognises the SSA form of `append(x, 'c')` / `append(x, a, b)`: a slice of a fresh array
// whose elements are stored constants; returns the constant bytes.
func byteSliceLit(v ssa.Value) ([]byte, bool) {
	sl, ok := v.(*ssa.Slice)
	if !ok || sl.Low != nil || sl.High != nil {
		return nil, false
	}
	al, ok := sl.X.(*ssa.Alloc)
	if !ok {
		return nil, false
	}
	arr, ok := deref(al.Type()).Underlying().(*types.Array)
	if !ok {
		return nil, false
	}
	out := make([]byte, arr.Len())
	set := make([]bool, arr.Len())
	for _, r := range refsOf(al) {
		switch x := r.(type) {
		case *ssa.IndexAddr:
			idx, ok := constInt(x.Index)
			if !ok {
				return nil, false
			}
			for _, rr := range refsOf(x) {
				st, ok := rr.(*ssa.Store)
				if !ok || st.Addr != x {
					return nil, false
				}
				cv, ok := constInt(st.Val)
				if !ok {
					return nil, false
				}
				out[idx] = byte(cv)
				set[idx] = true
			}
		case *ssa.Slice:
		default:
			return nil, false
		}
	}
	for _, s := range set {
		if !s {
			return nil, false
		}
	}
	return out, true
}

// unitStrideOver reports whether idx is the index of a loop that visits every element of slice parameter `param`
// exactly once in order: a range-style index (phi from -1, +1 each iteration) or a for-style index (phi from 0, +1),
// with no other way of advancing it.
func unitStrideOver(idx ssa.Value, param ssa.Value) (bool, string) {
	isPlusOne := func(v ssa.Value, ph *ssa.Phi) bool {
		bo, ok := v.(*ssa.BinOp)
		if !ok || bo.Op != token.ADD || bo.X != ssa.Value(ph) {
			return false
		}
		one, ok := constInt(bo.Y)
		return ok && one == 1
	}
	var ph *ssa.Phi
	var start int64
	if bo, ok := idx.(*ssa.BinOp); ok {
		p2, ok := bo.X.(*ssa.Phi)
		if !ok || !isPlusOne(idx, p2) {
			return false, "index is not a loop counter"
		}
		ph, start = p2, -1
	} else if p2, ok := idx.(*ssa.Phi); ok {
		ph, start = p2, 0
	} else {
		return false, "index is not a loop counter"
	}
	sawInit := false
	for _, e := range ph.Edges {
		if k, ok := constInt(e); ok {
			if k != start {
				return false, fmt.Sprintf("loop counter starts at %d", k)
			}
			sawInit = true
			continue
		}
		if !isPlusOne(e, ph) {
			return false, "the loop counter is advanced by something other than +1 (elements can be skipped)"
		}
	}
	if !sawInit {
		return false, "loop counter has no constant start"
	}
	// bound: some comparison counter < len(param) controls the loop
	bounded := false
	var cmpVal ssa.Value = ph
	if start == -1 {
		cmpVal = idx
	}
	for _, r := range refsOf(cmpVal) {
		bo, ok := r.(*ssa.BinOp)
		if !ok || bo.Op != token.LSS || bo.X != cmpVal {
			continue
		}
		if cl, ok := isBuiltinCall(bo.Y, "len"); ok && cl.Call.Args[0] == param {
			bounded = true
		}
	}
	if !bounded {
		return false, "loop is not bounded by len of the whole parameter"
	}
	return true, ""
}

// constSetOf returns the set of integer constants v may hold, following phis and — for parameters of module functions
// whose address is never taken — the corresponding argument at every static call site in the module (depth-limited).
// known=false means some source is not a constant (the set is then only a lower bound).
func constSetOf(p *Program, v ssa.Value) (set map[int64]bool, known bool) {
	set = map[int64]bool{}
	known = true
	seen := map[ssa.Value]bool{}
	var w func(v ssa.Value, d int)
	w = func(v ssa.Value, d int) {
		if seen[v] {
			return
		}
		seen[v] = true
		if d > 6 {
			known = false
			return
		}
		switch x := v.(type) {
		case *ssa.Const:
			if k, ok := constInt(x); ok {
				set[k] = true
			} else {
				known = false
			}
		case *ssa.Phi:
			for _, e := range x.Edges {
				w(e, d+1)
			}
		case *ssa.ChangeType:
			w(x.X, d)
		case *ssa.Convert:
			w(x.X, d)
		case *ssa.Parameter:
			fn := x.Parent()
			idx := -1
			for i, q := range fn.Params {
				if q == x {
					idx = i
				}
			}
			if idx < 0 || !p.InModule(fn) || fn.Parent() != nil {
				known = false
				return
			}
			sites := 0
			for _, g := range p.Funcs {
				eachInstr(g, func(in ssa.Instruction) {
					// address taken?
					if ci, ok := in.(ssa.CallInstruction); ok {
						cc := ci.Common()
						if cc.StaticCallee() == fn {
							sites++
							args := cc.Args
							if idx < len(args) {
								w(args[idx], d+1)
							} else {
								known = false
							}
							return
						}
					}
					var ops []*ssa.Value
					for _, op := range in.Operands(ops) {
						if op != nil && *op == ssa.Value(fn) {
							if ci, ok := in.(ssa.CallInstruction); ok && ci.Common().Value == ssa.Value(fn) {
								continue
							}
							known = false
						}
					}
				})
			}
			if sites == 0 {
				known = false
			}
		default:
			known = false
		}
	}
	w(v, 0)
	return set, known
}

// callEnv maps the parameters of a module callee to the argument values of one call, so that a value-shape rule can
// follow a result of the callee back into the caller (one env per inlined call; outer is the caller's own env).
type callEnv struct {
	m     map[ssa.Value]ssa.Value
	outer *callEnv
}

// resolve replaces a callee parameter by the caller's argument (repeatedly); it also returns the env in which the
// resulting value lives.
func (e *callEnv) resolve(v ssa.Value) (ssa.Value, *callEnv) {
	for e != nil {
		a, ok := e.m[v]
		if !ok {
			return v, e
		}
		v, e = a, e.outer
	}
	return v, nil
}

// calleeResults: if v is a result of a static call of a module function with a body (the call value itself, or an
// Extract of its tuple), returns the corresponding result operand of every return statement and the env for them.
func calleeResults(p *Program, v ssa.Value, outer *callEnv) ([]ssa.Value, *callEnv, bool) {
	var call *ssa.Call
	idx := 0
	switch x := v.(type) {
	case *ssa.Extract:
		c, ok := x.Tuple.(*ssa.Call)
		if !ok {
			return nil, nil, false
		}
		call, idx = c, x.Index
	case *ssa.Call:
		call = x
	default:
		return nil, nil, false
	}
	g := call.Call.StaticCallee()
	if g == nil || g.Blocks == nil || !p.InModule(g) || call.Call.IsInvoke() {
		return nil, nil, false
	}
	depth := 0
	for e := outer; e != nil; e = e.outer {
		depth++
	}
	if depth > 3 {
		return nil, nil, false
	}
	env := &callEnv{m: map[ssa.Value]ssa.Value{}, outer: outer}
	for i, q := range g.Params {
		if i < len(call.Call.Args) {
			env.m[q] = call.Call.Args[i]
		}
	}
	var out []ssa.Value
	for _, r := range returnsOf(g) {
		if idx >= len(r.Results) {
			return nil, nil, false
		}
		out = append(out, r.Results[idx])
	}
	if len(out) == 0 {
		return nil, nil, false
	}
	return out, env, true
}

// exclusiveCallees returns root together with every module function all of whose static call sites lie inside the
// set and whose address is never taken: private helpers that exist only as pieces of root.
func exclusiveCallees(p *Program, root *ssa.Function) map[*ssa.Function]bool {
	set := map[*ssa.Function]bool{}
	if root == nil {
		return set
	}
	set[root] = true
	type site struct{ caller *ssa.Function }
	callers := map[*ssa.Function][]*ssa.Function{}
	taken := map[*ssa.Function]bool{}
	for _, top := range p.Funcs {
		for _, f := range withAnons(top) {
			eachInstr(f, func(in ssa.Instruction) {
				if ci, ok := in.(ssa.CallInstruction); ok {
					if g := ci.Common().StaticCallee(); g != nil {
						owner := f
						for owner.Parent() != nil {
							owner = owner.Parent()
						}
						callers[g] = append(callers[g], owner)
					}
				}
				var ops []*ssa.Value
				for _, op := range in.Operands(ops) {
					if op == nil || *op == nil {
						continue
					}
					if g, ok := (*op).(*ssa.Function); ok {
						if ci, isCall := in.(ssa.CallInstruction); isCall && ci.Common().Value == ssa.Value(g) {
							continue
						}
						taken[g] = true
					}
				}
			})
		}
	}
	for changed := true; changed; {
		changed = false
		for g, cs := range callers {
			if set[g] || taken[g] || !p.InModule(g) || g.Parent() != nil || len(cs) == 0 {
				continue
			}
			if g.Object() != nil && g.Object().Exported() {
				continue
			}
			all := true
			for _, c := range cs {
				if !set[c] {
					all = false
				}
			}
			if all {
				set[g] = true
				changed = true
			}
		}
	}
	return set
}

// nonNegAt: v is provably >= 0 where it is used in block `at` of its function: a non-negative constant, len/cap, a
// value already used as a slice bound or index in a block dominating `at` (it would have panicked otherwise), a value
// behind a dominating `v >= 0` / `!(v < 0)` edge, a sum of such values, or a phi of such values.
func nonNegAt(v ssa.Value, at *ssa.BasicBlock, depth int) bool {
	if depth > 6 || v == nil {
		return false
	}
	if k, ok := constInt(v); ok {
		return k >= 0
	}
	if call, ok := v.(*ssa.Call); ok {
		if _, isLen := isBuiltinCall(call, "len"); isLen {
			return true
		}
		if _, isCap := isBuiltinCall(call, "cap"); isCap {
			return true
		}
	}
	fn := at.Parent()
	// used as a bound/index in a dominating block
	for _, r := range refsOf(v) {
		switch x := r.(type) {
		case *ssa.Slice:
			if (x.Low == v || x.High == v || x.Max == v) && x.Block().Dominates(at) {
				return true
			}
		case *ssa.IndexAddr:
			if x.Index == v && x.Block().Dominates(at) {
				return true
			}
		}
	}
	// dominating sign test
	for _, b := range fn.Blocks {
		iff := blockIf(b)
		if iff == nil {
			continue
		}
		bo, ok := iff.Cond.(*ssa.BinOp)
		if !ok || bo.X != v {
			continue
		}
		k, isC := constInt(bo.Y)
		if !isC {
			continue
		}
		edge := -1
		switch {
		case bo.Op == token.GEQ && k >= 0, bo.Op == token.GTR && k >= -1:
			edge = 0
		case bo.Op == token.LSS && k <= 0, bo.Op == token.LEQ && k <= -1:
			edge = 1
		case bo.Op == token.EQL && k < 0:
			// v == -1 false edge says nothing about other negatives, except for search results (IndexX returns >= -1)
			if call, ok := v.(*ssa.Call); ok {
				if f := call.Call.StaticCallee(); f != nil && f.Pkg != nil && (f.Pkg.Pkg.Path() == "bytes" || f.Pkg.Pkg.Path() == "strings") && strings.HasPrefix(f.Name(), "Index") && k == -1 {
					edge = 1
				}
			}
		}
		if edge >= 0 && edgeDominates(b, edge, at) {
			return true
		}
	}
	switch x := v.(type) {
	case *ssa.BinOp:
		if x.Op == token.ADD {
			return nonNegAt(x.X, at, depth+1) && nonNegAt(x.Y, at, depth+1)
		}
	case *ssa.Phi:
		for i, e := range x.Edges {
			if e == v {
				continue
			}
			if !nonNegAt(e, x.Block().Preds[i], depth+1) {
				return false
			}
		}
		return true
	case *ssa.Convert:
		return nonNegAt(x.X, at, depth+1)
	}
	return false
}

// negativeImpliesParam: for module function g with a bool parameter at index pi, reports whether every return reachable
// when that parameter is `val` yields a provably non-negative result — i.e. a negative result implies the parameter
// was !val (the "−1 means: need more input" convention).
func negativeImpliesParam(p *Program, g *ssa.Function, pi int, val bool) bool {
	if g == nil || g.Blocks == nil || pi >= len(g.Params) {
		return false
	}
	prm := g.Params[pi]
	if b, ok := prm.Type().Underlying().(*types.Basic); !ok || b.Kind() != types.Bool {
		return false
	}
	bs := newBSET(p)
	d := int64(0)
	if val {
		d = 1
	}
	reach := bs.reachUnderSym(g, func(v ssa.Value) bool { return v == ssa.Value(prm) }, []int64{d})
	for _, r := range returnsOf(g) {
		if !reach[r.Block()][d] {
			continue
		}
		if len(r.Results) != 1 || !nonNegAt(r.Results[0], r.Block(), 0) {
			return false
		}
	}
	return true
}

// asValue returns the instruction as a value, or nil if it defines none.
func asValue(in ssa.Instruction) ssa.Value {
	v, _ := in.(ssa.Value)
	return v
}
