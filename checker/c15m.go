package main

// C15 / C14 — MINLEN: a length pre-filter never rejects the shortest instance of a construct.

import (
	"fmt"
	"go/token"
	"go/types"
	"sort"
	"strings"

	"golang.org/x/tools/go/ssa"
)

// shortest line (without line ending: the last line of the input need not have one) that starts each block
// construct, CommonMark 0.30: ">" (5.1), "#" (4.2, empty heading), "```" (4.5), "<a" / "<?" (4.6 start conditions 3, 6),
// "=" (4.3 underline), "***" (4.1), "-" (5.2, empty list item).
var minStartLen = map[string]int64{
	"BlockQuoteKind":      1,
	"ATXHeadingKind":      1,
	"FencedCodeBlockKind": 3,
	"HTMLBlockKind":       2,
	"SetextHeadingKind":   1,
	"ThematicBreakKind":   3,
	"ListKind":            1,
	"ListItemKind":        1,
	"ListMarkerKind":      1,
}

// blockKindConstsIn: names of BlockKind constants used as call arguments or stored in fn, and (depth 1) in module
// methods fn calls that take no BlockKind parameter themselves (OpenFencedCodeBlock, OpenHTMLBlock, MorphSetext ...).
func blockKindConstsIn(p *Program, fn *ssa.Function, depth int) map[string]bool {
	out := map[string]bool{}
	bk := p.NamedType("BlockKind")
	if bk == nil || fn == nil {
		return out
	}
	isBK := func(v ssa.Value) (string, bool) {
		k, ok := v.(*ssa.Const)
		if !ok || !types.Identical(k.Type(), bk) {
			return "", false
		}
		iv, ok := constInt(k)
		if !ok {
			return "", false
		}
		return kindName(p, bk, iv), true
	}
	eachInstr(fn, func(in ssa.Instruction) {
		switch x := in.(type) {
		case *ssa.Call:
			hasBKParam := false
			for _, a := range x.Call.Args {
				if n, ok := isBK(a); ok {
					out[n] = true
				}
				if types.Identical(a.Type(), bk) {
					hasBKParam = true
				}
			}
			if g := x.Call.StaticCallee(); g != nil && p.InModule(g) && !hasBKParam && depth > 0 {
				for n := range blockKindConstsIn(p, g, depth-1) {
					out[n] = true
				}
			}
		case *ssa.Store:
			if n, ok := isBK(x.Val); ok {
				out[n] = true
			}
		}
	})
	return out
}

func ruleMinLen(c *Ctx, prop string) {
	c.Rule("MINLEN", "In the block-start rules and in the recognisers they hand the rest of the line to, a test of the line's length against a constant that rejects short lines (its short side leads straight to a return) has a threshold no larger than the shortest line that starts the construct (\">\" 1, \"#\" 1, \"```\" 3, \"<a\" 2, \"=\" 1, \"***\" 3, \"-\" 1; the last line of the input need not end in a line ending, so the line ending is not part of that minimum). A fast path `len(line) < 2` in front of the ATX or list-marker recogniser drops a lone \"#\" or \"-\" on the last line.")
	p := c.P
	type site struct {
		fn     *ssa.Function
		val    ssa.Value
		min    int64
		constr string
	}
	var sites []site
	isLineAccessor := func(g *ssa.Function) bool {
		// a lineParser method without parameters returning []byte
		if g == nil || !p.InModule(g) || g.Signature.Recv() == nil || g.Signature.Params().Len() != 0 || g.Signature.Results().Len() != 1 {
			return false
		}
		if typeName(deref(g.Signature.Recv().Type())) != "lineParser" {
			return false
		}
		sl, ok := g.Signature.Results().At(0).Type().Underlying().(*types.Slice)
		if !ok {
			return false
		}
		bt, ok := sl.Elem().Underlying().(*types.Basic)
		return ok && bt.Kind() == types.Uint8
	}
	starts := blockStartFuncs(p)
	for _, s := range starts {
		kinds := blockKindConstsIn(p, s, 1)
		min := int64(-1)
		var names []string
		for k := range kinds {
			if m, ok := minStartLen[k]; ok {
				names = append(names, k)
				if min < 0 || m < min {
					min = m
				}
			}
		}
		if min < 0 {
			continue
		}
		sort.Strings(names)
		constr := strings.Join(names, "/")
		eachInstr(s, func(in ssa.Instruction) {
			call, ok := in.(*ssa.Call)
			if !ok {
				return
			}
			if isLineAccessor(call.Call.StaticCallee()) {
				sites = append(sites, site{s, call, min, constr})
				// recognisers that receive this very value
				for _, r := range refsOf(call) {
					if c2, ok := r.(*ssa.Call); ok {
						if g := c2.Call.StaticCallee(); g != nil && p.InModule(g) && g.Blocks != nil {
							for i, a := range c2.Call.Args {
								if a == ssa.Value(call) && i < len(g.Params) {
									sites = append(sites, site{g, g.Params[i], min, constr})
								}
							}
						}
					}
				}
				return
			}
			// recognisers called directly on a fresh accessor result: parseX(p.BytesAfterIndent())
			if g := call.Call.StaticCallee(); g != nil && p.InModule(g) && g.Blocks != nil {
				for i, a := range call.Call.Args {
					if ac, ok := a.(*ssa.Call); ok && isLineAccessor(ac.Call.StaticCallee()) && i < len(g.Params) {
						sites = append(sites, site{g, g.Params[i], min, constr})
					}
				}
			}
		})
	}
	// a recogniser shared by several constructs takes the smallest minimum
	best := map[ssa.Value]site{}
	for _, s := range sites {
		if b, ok := best[s.val]; !ok || s.min < b.min {
			best[s.val] = s
		}
	}
	var vals []site
	for _, s := range best {
		vals = append(vals, s)
	}
	sort.Slice(vals, func(i, j int) bool {
		if vals[i].fn.String() != vals[j].fn.String() {
			return vals[i].fn.String() < vals[j].fn.String()
		}
		return vals[i].val.Pos() < vals[j].val.Pos()
	})
	nTests := 0
	perFn := map[*ssa.Function]int{}
	for _, s := range vals {
		for _, r := range refsOf(s.val) {
			lc, ok := isBuiltinCall(valueOf(r), "len")
			if !ok {
				continue
			}
			for _, rr := range refsOf(lc) {
				bo, ok := rr.(*ssa.BinOp)
				if !ok {
					continue
				}
				var k int64
				var lenLeft bool
				if kk, ok := constInt(bo.Y); ok && bo.X == ssa.Value(lc) {
					k, lenLeft = kk, true
				} else if kk, ok := constInt(bo.X); ok && bo.Y == ssa.Value(lc) {
					k, lenLeft = kk, false
				} else {
					continue
				}
				op := bo.Op
				if !lenLeft {
					// k op len  ==  len op' k
					switch op {
					case token.LSS:
						op = token.GTR
					case token.LEQ:
						op = token.GEQ
					case token.GTR:
						op = token.LSS
					case token.GEQ:
						op = token.LEQ
					}
				}
				// threshold T: the lengths >= T take the "long" side; shortEdge: successor index taken by shorter lines
				var T int64
				shortEdge := -1
				switch op {
				case token.LSS: // len < k
					T, shortEdge = k, 0
				case token.LEQ: // len <= k
					T, shortEdge = k+1, 0
				case token.GTR: // len > k
					T, shortEdge = k+1, 1
				case token.GEQ: // len >= k
					T, shortEdge = k, 1
				case token.EQL: // len == 0
					if k != 0 {
						continue
					}
					T, shortEdge = 1, 0
				case token.NEQ:
					if k != 0 {
						continue
					}
					T, shortEdge = 1, 1
				default:
					continue
				}
				// the comparison must decide a branch whose short side returns at once
				for _, u := range refsOf(bo) {
					iff, ok := u.(*ssa.If)
					if !ok {
						continue
					}
					tgt := iff.Block().Succs[shortEdge]
					for len(tgt.Instrs) == 1 {
						if _, isJ := tgt.Instrs[0].(*ssa.Jump); !isJ {
							break
						}
						tgt = tgt.Succs[0]
					}
					if _, isRet := tgt.Instrs[len(tgt.Instrs)-1].(*ssa.Return); !isRet {
						continue
					}
					calls := false
					for _, in := range tgt.Instrs {
						if cc, ok := in.(*ssa.Call); ok {
							if g := cc.Call.StaticCallee(); g == nil || p.InModule(g) {
								calls = true
							}
						}
					}
					if calls {
						continue
					}
					nTests++
					perFn[s.fn]++
					label := shortFuncName(s.fn)
					if strings.HasPrefix(label, "init$") {
						label = "blockStart[" + s.constr + "]"
					}
					key := fmt.Sprintf("%s:len-test#%d", label, perFn[s.fn])
					c.Check(T <= s.min, "MINLEN", key, bo.Pos(), fmt.Sprintf("lines shorter than %d bytes are rejected, but the shortest line that starts %s has %d", T, s.constr, s.min))
				}
			}
		}
	}
	c.Analysed["minlen_line_values"] = len(vals)
	c.Analysed["minlen_length_tests"] = nTests
	_ = prop
}

func valueOf(in ssa.Instruction) ssa.Value {
	v, _ := in.(ssa.Value)
	return v
}
