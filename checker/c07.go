package main

// C07 (safe-mode output), C17 emitter-side clauses, parts of C10: instantiation of the HTX engine.

import (
	"fmt"
	"go/token"
	"go/types"
	"sort"
	"strings"

	"golang.org/x/tools/go/ssa"
)

func init() {
	props["C07"] = checkC07
}

// kindSymOf returns the predicate selecting the Kind() results in fn and the domain of that kind type.
func kindSymOf(p *Program, fn *ssa.Function) (func(ssa.Value) bool, []int64, types.Type) {
	var kt types.Type
	isKindRead := func(v ssa.Value) (types.Type, bool) {
		switch x := v.(type) {
		case *ssa.Call:
			if f := x.Call.StaticCallee(); f != nil && f.Name() == "Kind" && p.InModule(f) && f.Signature.Recv() != nil {
				return x.Type(), true
			}
		case *ssa.UnOp:
			// a direct read of the kind field (code inside the package may skip the accessor)
			if x.Op == token.MUL {
				if fa, ok := x.X.(*ssa.FieldAddr); ok {
					if tn, f, _ := fieldAddrInfo(fa); f == "kind" && (tn == "Block" || tn == "Inline") {
						return x.Type(), true
					}
				}
			}
		}
		return nil, false
	}
	eachInstr(fn, func(in ssa.Instruction) {
		if v, ok := in.(ssa.Value); ok {
			if t, ok := isKindRead(v); ok {
				kt = t
			}
		}
	})
	if kt == nil {
		return nil, nil, nil
	}
	isSym := func(v ssa.Value) bool {
		t, ok := isKindRead(v)
		return ok && types.Identical(t, kt)
	}
	e := newBSET(p)
	dom, _ := e.domainFor(kt)
	return isSym, dom, kt
}

func kindName(p *Program, kt types.Type, v int64) string {
	for _, k := range ConstsOfType(p.CM.Types, kt) {
		if kv, ok := constInt64Of(k); ok && kv == v {
			return k.Name()
		}
	}
	return fmt.Sprint(v)
}

// ignoreRawFalseDominates: blk lies behind the false edge of a test of HTMLRenderer.IgnoreRaw.
func ignoreRawFalseDominates(fn *ssa.Function, blk *ssa.BasicBlock) bool {
	for _, b := range fn.Blocks {
		iff := blockIf(b)
		if iff == nil {
			continue
		}
		cond := stripNot(iff.Cond)
		if _, ok := isLoadOfField(cond, "HTMLRenderer", "IgnoreRaw"); !ok {
			continue
		}
		idx := 1
		if isNegated(iff.Cond) {
			idx = 0
		}
		if edgeDominates(b, idx, blk) {
			return true
		}
	}
	return false
}

type htxRun struct {
	h       *htxEngine
	exits   map[*ssa.Function][]lex
	entries []*ssa.Function
}

func runHTX(c *Ctx) *htxRun {
	p := c.P
	h := newHTX(p)
	bs := newBSET(p)
	reachCache := map[*ssa.Function]map[*ssa.BasicBlock]map[int64]bool{}
	kinds := func(fn *ssa.Function, b *ssa.BasicBlock) ([]string, bool) {
		isSym, dom, kt := kindSymOf(p, fn)
		if isSym == nil {
			return nil, false
		}
		if reachCache[fn] == nil {
			reachCache[fn] = bs.reachUnderSym(fn, isSym, dom)
		}
		var out []string
		for d := range reachCache[fn][b] {
			out = append(out, kindName(p, kt, d))
		}
		sort.Strings(out)
		return out, true
	}
	frFamily := exclusiveCallees(p, p.Method("renderState", "filterRaw"))
	h.rawAllow = func(ev htxEvent) (bool, string) {
		fn := ev.instr.Parent()
		ks, ok := kinds(fn, ev.instr.Block())
		if !ok {
			// inside the filter (filterRaw and helpers that exist only as pieces of it): raw HTML passes through by
			// design; its call site is checked
			if frFamily[fn] {
				return true, ""
			}
			return false, "not inside a per-kind outcome of a renderer callback"
		}
		for _, k := range ks {
			switch k {
			case "RawHTMLKind":
				if !ignoreRawFalseDominates(fn, ev.instr.Block()) {
					return false, "raw HTML is copied without being behind the IgnoreRaw == false edge"
				}
			case "CharacterReferenceKind", "SoftLineBreakKind":
				// parser-restricted leaf kinds (assumptions HTX-RAW b, c)
			default:
				return false, "reachable for node kind " + k + ", whose text must be escaped"
			}
		}
		return true, ""
	}
	var entries []*ssa.Function
	for _, n := range []string{"preBlock", "postBlock", "preInline", "postInline"} {
		if f := p.Method("renderState", n); f != nil {
			entries = append(entries, f)
		}
	}
	ex := h.run(entries)
	return &htxRun{h: h, exits: ex, entries: entries}
}

func htxRules(c *Ctx) {
	c.Rule("HTX-L", "Lexical well-formedness of the constant skeleton: interpreting every emitter over the states of an HTML tokenizer (TEXT, TAG_OPEN, TAG_NAME, TAG, ATTR_NAME, ATTR_EQ, ATTR_DQ, AFTER_VALUE, …) with roll-back modelled, every appended constant is legal in every state that can reach it (attributes start with white space, values are double-quoted, quotes and tags are closed), element names come only from atom names, and every Walk callback returns with the buffer in TEXT.")
	c.Rule("HTX-T", "Escape taint: no unescaped (RAW) value and no dynamic text at all is appended while the lexer is inside a tag or attribute name; inside a double-quoted value and in text only values that passed html.EscapeString or escapeHTML, integers and constants are appended.")
	c.Rule("HTX-RAW", "A RAW append in text is legal only in the RawHTMLKind outcome behind the IgnoreRaw == false edge, or in the CharacterReferenceKind / SoftLineBreakKind outcomes (parser-restricted leaf kinds, assumed).")
	c.Rule("HTX-EMIT", "Who may emit markup: a constant containing '<' followed by a letter or '/' (or ending in '<') is appended only inside an emitter that records the buffer length before, consults FilterTag afterwards on every path, and can roll back to write &lt; instead.")
	c.Rule("ESC-SET", "escapeHTML classifies every byte of its source (unit-stride loop over the whole parameter, no skipping) and replaces at least the bytes each lexical context its output lands in requires (text: & and <; double-quoted attribute: & and \"), each by the matching entity.")
	c.Rule("VOCAB", "Element names are compile-time atom constants at every emitter call site; the element and attribute vocabulary found is listed in the evidence.")
}

func reportHTX(c *Ctx, r *htxRun, rules map[string]bool) {
	h := r.h
	// group violations by site
	bySite := map[string][]htxViolation{}
	for _, v := range h.viol {
		if !rules[v.rule] {
			continue
		}
		k := v.fn + "@" + c.P.Pos(v.pos)
		bySite[k] = append(bySite[k], v)
	}
	// obligations: one per event site
	var fns []*ssa.Function
	for fn := range h.emitter {
		fns = append(fns, fn)
	}
	sort.Slice(fns, func(i, j int) bool { return fns[i].String() < fns[j].String() })
	nEv := 0
	for _, fn := range fns {
		var ins []ssa.Instruction
		for in := range h.events[fn] {
			ins = append(ins, in)
		}
		sort.Slice(ins, func(i, j int) bool {
			if ins[i].Block().Index != ins[j].Block().Index {
				return ins[i].Block().Index < ins[j].Block().Index
			}
			return instrIndex(ins[i]) < instrIndex(ins[j])
		})
		counter := map[string]int{}
		for _, in := range ins {
			ev := h.events[fn][in]
			if ev.kind == evMarkLen {
				continue
			}
			nEv++
			cls := [...]string{"CONST", "NAME", "ESC", "INT", "RAW", "CALL", "LEN", "ROLLBACK"}[ev.kind]
			label := cls
			switch ev.kind {
			case evConst:
				label = fmt.Sprintf("CONST %q", ev.s)
			case evCall:
				label = "CALL " + ev.callee.Name()
			case evEsc:
				label = "ESC " + ev.san
			}
			counter[label]++
			key := fmt.Sprintf("%s:%s#%d", shortFuncName(fn), label, counter[label])
			site := shortFuncName(fn) + "@" + c.P.Pos(in.Pos())
			if vs, bad := bySite[site]; bad {
				sort.Slice(vs, func(i, j int) bool { return vs[i].rule+vs[i].what < vs[j].rule+vs[j].what })
				var msgs []string
				for _, v := range vs {
					msgs = append(msgs, "["+v.rule+"] "+v.what)
				}
				c.Viol(vs[0].rule, key, vs[0].pos, strings.Join(msgs, "; "))
				delete(bySite, site)
			} else if rules["HTX-L"] {
				c.OK("HTX", key, in.Pos(), "legal in every lexer state that reaches it"+descSuffix(ev))
			}
		}
	}
	for _, vs := range bySite {
		for _, v := range vs {
			c.Viol(v.rule, v.fn+":"+c.P.Pos(v.pos), v.pos, v.what)
		}
	}
	c.Analysed["emit_events"] = nEv
	c.Analysed["emitter_functions"] = len(fns)
	if rules["HTX-L"] {
		for _, e := range r.entries {
			ex := r.exits[e]
			ok := len(ex) > 0
			var names []string
			for _, l := range ex {
				names = append(names, l.String())
				if l != lxText {
					ok = false
				}
			}
			c.Check(ok, "HTX-L", shortFuncName(e)+":exit", e.Pos(), "callback must return with the buffer in TEXT on every path; exit states: "+strings.Join(names, ","))
		}
		if len(r.entries) != 4 {
			c.Undecided("HTX-L", "callbacks", token.NoPos, "the four renderer callbacks preBlock/postBlock/preInline/postInline were not all resolved")
		}
	}
}

func descSuffix(ev htxEvent) string {
	if ev.desc != "" {
		return " (" + ev.desc + ")"
	}
	return ""
}

// ruleHTXEmit: see HTX-EMIT.
func ruleHTXEmit(c *Ctx, h *htxEngine) {
	n := 0
	for fn, evs := range h.events {
		for in, ev := range evs {
			if ev.kind != evConst {
				continue
			}
			opens := false
			for i := 0; i < len(ev.s); i++ {
				if ev.s[i] == '<' && (i+1 == len(ev.s) || isLetter(ev.s[i+1]) || ev.s[i+1] == '/' || ev.s[i+1] == '!' || ev.s[i+1] == '?') {
					opens = true
				}
			}
			if !opens {
				continue
			}
			n++
			key := fmt.Sprintf("%s:%q", shortFuncName(fn), ev.s)
			ok, why := filterConsulted(h, fn, in)
			c.Check(ok, "HTX-EMIT", key, in.Pos(), why)
		}
	}
	if n < 2 {
		c.Undecided("HTX-EMIT", "instance-count", token.NoPos, fmt.Sprintf("%d tag-opening constants found; 2 confirmed by hand ('<' in openTagAttr, '</' in closeTag)", n))
	}
}

func filterConsulted(h *htxEngine, fn *ssa.Function, at ssa.Instruction) (bool, string) {
	evs := h.events[fn]
	// (1) a dominating len(buffer)
	var lenKeys []ssa.Value
	for in, ev := range evs {
		if ev.kind == evMarkLen && in.Block().Dominates(at.Block()) && (in.Block() != at.Block() || instrBefore(in, at)) {
			lenKeys = append(lenKeys, ev.lenKey)
		}
	}
	if len(lenKeys) == 0 {
		return false, "markup constant emitted outside a FilterTag-consulting emitter (no recorded buffer length to roll back to): a predicate that rejects this element still sees the tag in the output"
	}
	// (2) every path to exit tests FilterTag != nil
	isFilterTest := func(in ssa.Instruction) bool {
		iff, ok := in.(*ssa.If)
		if !ok {
			return false
		}
		x, _, ok := nilTest(iff.Cond)
		if !ok {
			return false
		}
		_, ok = isLoadOfField(x, "HTMLRenderer", "FilterTag")
		return ok
	}
	if pathToExitAvoiding(at, isFilterTest) {
		return false, "a path from this markup constant to the function exit does not consult FilterTag"
	}
	// (3) the predicate is called on the bytes after the recorded length and there is a roll-back followed by &lt;
	called, rolled := false, false
	eachInstr(fn, func(in ssa.Instruction) {
		if call, ok := in.(*ssa.Call); ok {
			if _, ok := isLoadOfField(call.Call.Value, "HTMLRenderer", "FilterTag"); ok && len(call.Call.Args) == 1 {
				if sl, ok := call.Call.Args[0].(*ssa.Slice); ok && h.buf(sl.X) && sl.Low != nil {
					for _, lk := range lenKeys {
						if dependsOn(sl.Low, lk) {
							called = true
						}
					}
				}
			}
		}
		if ev, ok := evs[in]; ok && ev.kind == evRollback {
			for _, lk := range lenKeys {
				if ev.lenKey == lk {
					// next const event after the rollback in the same block must start with &lt;
					after := false
					for _, x := range in.Block().Instrs {
						if x == in {
							after = true
							continue
						}
						if !after {
							continue
						}
						if e2, ok := evs[x]; ok && e2.kind == evConst {
							if strings.HasPrefix(e2.s, "&lt;") {
								rolled = true
							}
							break
						}
					}
				}
			}
		}
	})
	if !called {
		return false, "FilterTag is not called on the bytes written after the recorded length"
	}
	if !rolled {
		return false, "no roll-back to the recorded length followed by &lt;"
	}
	return true, "length recorded before, FilterTag consulted on every path, roll-back writes &lt;"
}

// ruleEscSet: see ESC-SET.
func ruleEscSet(c *Ctx, h *htxEngine) {
	fn := c.P.Func("escapeHTML")
	if fn == nil || fn.Blocks == nil {
		if len(h.escCtx["escapeHTML"]) > 0 {
			c.Undecided("ESC-SET", "escapeHTML", token.NoPos, "escapeHTML not resolved")
		}
		return
	}
	// bytes replaced: for every byte value d, the constants appended during one iteration of the classification loop on
	// the paths feasible when the scanned byte is d (BSET path-conditioning; a constant selected through a phi of string
	// constants is resolved along the path).
	want := map[byte][]string{'&': {"&amp;"}, '<': {"&lt;"}, '>': {"&gt;"}, '"': {"&quot;", "&#34;"}, '\'': {"&#39;", "&apos;"}}
	replaced := map[byte]string{}
	{
		var src ssa.Value
		if len(fn.Params) == 2 {
			src = fn.Params[1]
		}
		// search-walk form: `i := bytes.IndexAny(text, set)` over a walking text variable (a phi fed by the parameter);
		// the byte classified is text[i] and only bytes of the set ever reach the classification
		var walkPhi ssa.Value
		var search *ssa.Call
		searchSet := ""
		eachInstr(fn, func(in ssa.Instruction) {
			call, ok := in.(*ssa.Call)
			if !ok {
				return
			}
			f := call.Call.StaticCallee()
			if f == nil || f.Pkg == nil || f.Pkg.Pkg.Path() != "bytes" || f.Name() != "IndexAny" {
				return
			}
			ph, isPhi := call.Call.Args[0].(*ssa.Phi)
			if !isPhi {
				return
			}
			fed := false
			for _, e := range ph.Edges {
				if e == src {
					fed = true
				}
			}
			if set, ok := constString(call.Call.Args[1]); ok && fed {
				walkPhi, search, searchSet = ph, call, set
			}
		})
		isScan := func(v ssa.Value) bool {
			ld, ok := v.(*ssa.UnOp)
			if !ok || ld.Op != token.MUL {
				return false
			}
			ia, ok := ld.X.(*ssa.IndexAddr)
			if !ok {
				return false
			}
			if search != nil {
				return ia.X == walkPhi && ia.Index == ssa.Value(search)
			}
			return ia.X == src
		}
		var loop *natLoop
		for _, l := range naturalLoops(fn) {
			l := l
			for b := range l.body {
				for _, in := range b.Instrs {
					if v, ok := in.(ssa.Value); ok && isScan(v) {
						loop = &l
					}
				}
			}
		}
		if loop == nil {
			c.Undecided("ESC-SET", "escapeHTML:loop", fn.Pos(), "no loop reading the bytes of the source parameter found")
		} else {
			bs := newBSET(c.P)
			mixed := map[byte][]string{}
			other := map[byte][]string{}
			for d := 0; d < 256; d++ {
				if search != nil && !strings.ContainsRune(searchSet, rune(d)) || (search != nil && d >= 0x80) {
					continue // never found by the search: copied as part of a verbatim run
				}
				st := &evalState{e: bs, fn: fn, isSym: isScan, d: int64(d), from: make([]int, len(fn.Blocks))}
				if search != nil {
					st.symVal = func(v ssa.Value) (int64, bool) {
						if v == ssa.Value(search) {
							return 0, true // found (the not-found exit is a different path)
						}
						return 0, false
					}
				}
				for k := range st.from {
					st.from[k] = -2
				}
				seqs := map[string]bool{}
				visits := make([]int, len(fn.Blocks))
				budget := 5000
				var dfs func(b *ssa.BasicBlock, seq string)
				dfs = func(b *ssa.BasicBlock, seq string) {
					if budget <= 0 {
						return
					}
					budget--
					if visits[b.Index] >= 1 {
						return
					}
					visits[b.Index]++
					defer func() { visits[b.Index]-- }()
					for _, in := range b.Instrs {
						ev, ok := h.events[fn][in]
						if !ok {
							continue
						}
						switch ev.kind {
						case evConst:
							seq += ev.s
						case evRaw:
							// a string selected by a phi of constants?
							if call, isCall := in.(*ssa.Call); isCall && len(call.Call.Args) == 2 {
								if str, ok := stringOnPath(st, call.Call.Args[1]); ok {
									seq += str
								}
							}
						}
					}
					succs := b.Succs
					if iff := blockIf(b); iff != nil {
						st.why = ""
						if v, ok := st.eval(iff.Cond); ok {
							if v != 0 {
								succs = b.Succs[:1]
							} else {
								succs = b.Succs[1:]
							}
						}
					}
					for _, sc := range succs {
						if sc == loop.header || !loop.body[sc] {
							seqs[seq] = true
							continue
						}
						prev := st.from[sc.Index]
						st.from[sc.Index] = b.Index
						dfs(sc, seq)
						st.from[sc.Index] = prev
					}
				}
				// start at the successors of the header that are in the body
				for _, sc := range loop.header.Succs {
					if loop.body[sc] {
						st.from[sc.Index] = loop.header.Index
						dfs(sc, "")
					}
				}
				var list []string
				for q := range seqs {
					list = append(list, q)
				}
				sort.Strings(list)
				switch {
				case len(list) == 1 && list[0] == "":
					// copied verbatim
				case len(list) == 1:
					if _, special := want[byte(d)]; special {
						replaced[byte(d)] = list[0]
					} else {
						other[byte(d)] = list
					}
				default:
					mixed[byte(d)] = list
				}
			}
			for b, l := range mixed {
				c.Viol("ESC-SET", fmt.Sprintf("escapeHTML:%q:sometimes", b), fn.Pos(), fmt.Sprintf("byte %q is replaced on some paths only: %q", b, l))
			}
			for b, l := range other {
				c.Viol("ESC-SET", fmt.Sprintf("escapeHTML:%q:mangled", b), fn.Pos(), fmt.Sprintf("byte %q, which needs no escaping, is replaced by %q", b, l))
			}
		}
	}
	// ESC-COVER: every byte of src is classified (unit-stride loop over the whole parameter)
	{
		var src ssa.Value
		if len(fn.Params) == 2 {
			src = fn.Params[1]
		}
		n := 0
		okAll, why := true, ""
		// search-walk form: the classification sees text[i] for i := bytes.IndexAny(text, set); every byte of the set is
		// found iff the search always runs over the whole remaining text and restarts right after the byte found
		var wsearch *ssa.Call
		var wphi *ssa.Phi
		eachInstr(fn, func(in ssa.Instruction) {
			call, ok := in.(*ssa.Call)
			if !ok {
				return
			}
			f := call.Call.StaticCallee()
			if f == nil || f.Pkg == nil || f.Pkg.Pkg.Path() != "bytes" || f.Name() != "IndexAny" {
				return
			}
			if ph, isPhi := call.Call.Args[0].(*ssa.Phi); isPhi {
				for _, e := range ph.Edges {
					if e == src {
						wsearch, wphi = call, ph
					}
				}
			}
		})
		if wsearch != nil {
			for i, e := range wphi.Edges {
				if e == src {
					continue
				}
				_ = i
				sl, isSl := e.(*ssa.Slice)
				good := false
				if isSl && sl.X == ssa.Value(wphi) && sl.High == nil && sl.Low != nil {
					if bo, isBo := sl.Low.(*ssa.BinOp); isBo && bo.Op == token.ADD && bo.X == ssa.Value(wsearch) {
						if k, isK := constInt(bo.Y); isK && k == 1 {
							good = true
						}
					}
				}
				if !good {
					okAll, why = false, "after a find the text does not continue exactly one byte behind it: bytes are skipped or rescanned"
				}
			}
			if why == "" {
				why = "the search covers the whole remaining text and restarts right after each byte found"
			}
			c.Check(okAll, "ESC-SET", "escapeHTML:covers-every-byte", fn.Pos(), why)
		}
		if wsearch == nil {
			eachInstr(fn, func(in ssa.Instruction) {
				ia, ok := in.(*ssa.IndexAddr)
				if !ok {
					return
				}
				// only element loads that feed the classification (compared with constants)
				feeds := false
				for _, r := range refsOf(ia) {
					if ld, ok := r.(*ssa.UnOp); ok {
						for _, rr := range refsOf(ld) {
							if bo, ok := rr.(*ssa.BinOp); ok && (bo.Op == token.EQL || bo.Op == token.NEQ || bo.Op == token.GEQ || bo.Op == token.LSS || bo.Op == token.GTR || bo.Op == token.LEQ) {
								feeds = true
							}
							// handed to a table function of the byte (classified there)
							if cl, ok := rr.(*ssa.Call); ok && len(cl.Call.Args) == 1 {
								if g := cl.Call.StaticCallee(); g != nil && c.P.InModule(g) {
									feeds = true
								}
							}
						}
					}
				}
				if !feeds {
					return
				}
				n++
				if ia.X != src {
					okAll, why = false, "the bytes classified are not elements of the whole source parameter"
					return
				}
				if ok2, w := unitStrideOver(ia.Index, src); !ok2 {
					okAll, why = false, w
				}
			})
			if n == 0 {
				okAll, why = false, "no per-byte classification loop found"
			}
			if why == "" {
				why = "every byte of the source is classified exactly once"
			}
			c.Check(okAll, "ESC-SET", "escapeHTML:covers-every-byte", fn.Pos(), why)
		}
	}
	var set []string
	for b, ent := range replaced {
		set = append(set, fmt.Sprintf("%q→%s", b, ent))
		okEnt := false
		for _, w := range want[b] {
			if w == ent {
				okEnt = true
			}
		}
		c.Check(okEnt, "ESC-SET", fmt.Sprintf("escapeHTML:%q", b), fn.Pos(), fmt.Sprintf("byte %q is replaced by %s", b, ent))
	}
	sort.Strings(set)
	c.Lists["escapeHTML_replaces"] = set
	// every other append in escapeHTML must be a sub-slice of src (verbatim run) — trusted arithmetic
	for in, ev := range h.events[fn] {
		if ev.kind == evRaw {
			if call, isCall := in.(*ssa.Call); isCall && len(call.Call.Args) == 2 && isStringPhiOfConsts(call.Call.Args[1]) {
				continue
			}
			// the result of a table function all of whose results are string constants
			if call, isCall := in.(*ssa.Call); isCall && len(call.Call.Args) == 2 {
				if tc, ok := call.Call.Args[1].(*ssa.Call); ok {
					if g := tc.Call.StaticCallee(); g != nil && c.P.InModule(g) && g.Blocks != nil {
						all := true
						for _, r := range returnsOf(g) {
							if len(r.Results) != 1 {
								all = false
								continue
							}
							if _, isConst := constString(r.Results[0]); !isConst && !isStringPhiOfConsts(r.Results[0]) {
								all = false
							}
						}
						if all {
							continue
						}
					}
				}
			}
			if call, isCall := in.(*ssa.Call); isCall && len(call.Call.Args) == 2 && sliceOfWalkingSource(call.Call.Args[1], fn) {
				continue
			}
			if !strings.HasPrefix(ev.desc, "src") {
				c.Viol("ESC-SET", "escapeHTML:verbatim", in.Pos(), "escapeHTML appends something other than a run of its source: "+ev.desc)
			}
		}
	}
	need := map[lex]string{lxText: "&<", lxAttrDQ: "&\""}
	for ctx := range h.escCtx["escapeHTML"] {
		req, ok := need[ctx]
		if !ok {
			continue
		}
		var missing []string
		for i := 0; i < len(req); i++ {
			if _, ok := replaced[req[i]]; !ok {
				missing = append(missing, fmt.Sprintf("%q", req[i]))
			}
		}
		c.Check(len(missing) == 0, "ESC-SET", "escapeHTML→"+ctx.String(), fn.Pos(), fmt.Sprintf("output lands in %s, which needs %q escaped; missing: %s", ctx, req, strings.Join(missing, " ")))
	}
	if len(h.escCtx["escapeHTML"]) == 0 {
		c.OK("ESC-SET", "escapeHTML:unused", fn.Pos(), "escapeHTML output reaches no context")
	}
}

func ruleVocab(c *Ctx, h *htxEngine) {
	elems := map[string]bool{}
	n := 0
	for _, fn := range c.P.Funcs {
		eachInstr(fn, func(in ssa.Instruction) {
			call, ok := in.(*ssa.Call)
			if !ok {
				return
			}
			f := call.Call.StaticCallee()
			if f == nil || !h.emitter[f] {
				return
			}
			for _, a := range call.Call.Args {
				if nn := namedOf(a.Type()); nn != nil && nn.Obj().Name() == "Atom" {
					n++
					if _, isParam := a.(*ssa.Parameter); isParam && h.emitter[fn] {
						continue // forwarded inside an emitter; resolved at the outer call site
					}
					names := h.atomNames(a, map[ssa.Value]bool{})
					key := fmt.Sprintf("%s→%s#%d", shortFuncName(fn), f.Name(), n)
					if names == nil {
						c.Viol("VOCAB", key, in.Pos(), "element name is not a compile-time atom constant: "+a.String())
						continue
					}
					for _, nm := range names {
						elems[nm] = true
					}
					c.OK("VOCAB", key, in.Pos(), strings.Join(names, "|"))
				}
			}
		})
	}
	var el, at []string
	for k := range elems {
		el = append(el, k)
	}
	for k := range h.attrNames {
		at = append(at, k)
	}
	sort.Strings(el)
	sort.Strings(at)
	c.Lists["element_vocabulary"] = el
	c.Lists["attribute_vocabulary"] = at
}

func checkC07(c *Ctx) {
	htxRules(c)
	r := runHTX(c)
	reportHTX(c, r, map[string]bool{"HTX-L": true, "HTX-T": true, "HTX-RAW": true})
	ruleEscSet(c, r.h)
	ruleVocab(c, r.h)
	ruleCharRefAlphabet(c)
	ruleSpecBoundsFor(c, "C07")
	ruleWalkWiring(c)
	c.Assume("html.EscapeString and the copy arithmetic of escapeHTML are trusted as sanitisers")
	c.Assume("HTX-RAW (b),(c): the parser restricts the content of CharacterReference spans (recognised references only; see C15 isHex) and SoftLineBreak spans (line-ending bytes)")
	c.Assume("Walk runs Post for a node iff Pre returned true for it (C18 W-rules); that the renderer's callbacks return exactly their emitters' verdicts is WALK-WIRING")
	c.MinCount("HTX", 20)
}

func init() {
	addControls(
		Control{Name: "link-title-unescaped", Props: []string{"C07"}, File: "html_renderer.go",
			Old: "r.dst = append(r.dst, html.EscapeString(def.Title)...)", New: "r.dst = append(r.dst, def.Title...)", Expect: "(*renderState).preInline:RAW"},
		Control{Name: "language-class-unescaped", Props: []string{"C07"}, File: "html_renderer.go",
			Old: "r.dst = append(r.dst, html.EscapeString(words[0])...)", New: "r.dst = append(r.dst, words[0]...)", Expect: "(*renderState).preBlock:RAW"},
		Control{Name: "autolink-text-unescaped", Props: []string{"C07"}, File: "html_renderer.go",
			Old: "r.dst = append(r.dst, html.EscapeString(destination)...)", New: "r.dst = append(r.dst, destination...)", Expect: "HTX-RAW/(*renderState).preInline"},
		Control{Name: "alt-text-unescaped", Props: []string{"C07"}, File: "html_renderer.go",
			Old: "dst = append(dst, html.EscapeString(curr.Text(source))...)", New: "dst = append(dst, curr.Text(source)...)", Expect: "appendAltText"},
		Control{Name: "escapeHTML-forgets-lt", Props: []string{"C07"}, File: "html_renderer.go",
			Old: "\t\tcase '<':\n\t\t\tdst = append(dst, src[verbatimStart:i]...)\n\t\t\tdst = append(dst, \"&lt;\"...)\n\t\t\tverbatimStart = i + 1\n", New: "", Expect: "ESC-SET"},
		Control{Name: "raw-html-ignores-IgnoreRaw", Props: []string{"C07"}, File: "html_renderer.go",
			Old: "\t\tif !r.IgnoreRaw {\n\t\t\tif r.FilterTag == nil {", New: "\t\t{\n\t\t\tif r.FilterTag == nil {", Expect: "HTX-RAW"},
		Control{Name: "title-attribute-without-space", Props: []string{"C07"}, File: "html_renderer.go",
			Old: "r.dst = append(r.dst, ` title=\"`...)", New: "r.dst = append(r.dst, `title=\"`...)", Expect: "HTX-L"},
		Control{Name: "start-attribute-unquoted", Props: []string{"C07"}, File: "html_renderer.go",
			Old: "r.dst = append(r.dst, ` start=\"`...)\n\t\t\t\tr.dst = strconv.AppendInt(r.dst, int64(n), 10)\n\t\t\t\tr.dst = append(r.dst, `\"`...)", New: "r.dst = append(r.dst, ` start=`...)\n\t\t\t\tr.dst = strconv.AppendInt(r.dst, int64(n), 10)", Expect: "HTX-"},
		Control{Name: "unparsed-text-copied-raw", Props: []string{"C07"}, File: "html_renderer.go",
			Old: "\tcase TextKind, UnparsedKind:\n\t\tr.dst = escapeHTML(r.dst, spanSlice(source, inline.Span()))", New: "\tcase UnparsedKind:\n\t\tr.dst = append(r.dst, spanSlice(source, inline.Span())...)\n\t\treturn false\n\tcase TextKind:\n\t\tr.dst = escapeHTML(r.dst, spanSlice(source, inline.Span()))", Expect: "HTX-RAW"},
		Control{Name: "code-tag-left-open", Props: []string{"C07"}, File: "html_renderer.go",
			Old: "\t\t\t\tr.dst = append(r.dst, `\"`...)\n\t\t\t}\n\t\t}\n\t\tr.dst = append(r.dst, \">\"...)\n\tcase BlockQuoteKind:", New: "\t\t\t\tr.dst = append(r.dst, `\"`...)\n\t\t\t\tr.dst = append(r.dst, \">\"...)\n\t\t\t}\n\t\t}\n\tcase BlockQuoteKind:", Expect: "HTX-L"},
		Control{Name: "entity-scan-stops-only-at-space", Props: []string{"C07"}, File: "inlines.go",
			Old: "\t\t\tcase !isASCIILetter(c) && !isASCIIDigit(c):\n\t\t\t\treturn -1\n\t\t\t}\n\t\t}\n\t\treturn -1\n\t}\n\n\tif text[2] == 'x'", New: "\t\t\tcase c == ' ' || c == '&':\n\t\t\t\treturn -1\n\t\t\t}\n\t\t}\n\t\treturn -1\n\t}\n\n\tif text[2] == 'x'", Expect: "CHARREF-ALPHABET"},
		Control{Name: "render-budget-refuses-descent-after-open", Props: []string{"C07", "C10"}, File: "html_renderer.go",
			Old:    "\t\t\tif b := c.Node().Block(); b != nil {\n\t\t\t\treturn state.preBlock(block.Source, c)\n\t\t\t}",
			New:    "\t\t\tif b := c.Node().Block(); b != nil {\n\t\t\t\treturn state.preBlock(block.Source, c) && len(state.dst) < 1<<20\n\t\t\t}",
			Expect: "WALK-WIRING/(*HTMLRenderer).AppendBlock:Pre:returns", Why: "Pre refuses descent after preBlock opened the element: no closing tag"},
		Control{Name: "post-aborts-walk", Props: []string{"C07", "C10"}, File: "html_renderer.go",
			Old:    "\t\t\tif i := c.Node().Inline(); i != nil {\n\t\t\t\treturn state.postInline(block.Source, i)\n\t\t\t}\n\t\t\treturn true",
			New:    "\t\t\tif i := c.Node().Inline(); i != nil {\n\t\t\t\treturn state.postInline(block.Source, i)\n\t\t\t}\n\t\t\treturn false",
			Expect: "WALK-WIRING/(*HTMLRenderer).AppendBlock:Post:returns"},
		Control{Name: "neg-pre-callback-with-local", Props: []string{"C07", "C10", "C19"}, File: "html_renderer.go", Negative: true,
			Old: "\t\t\tif b := c.Node().Block(); b != nil {\n\t\t\t\treturn state.preBlock(block.Source, c)\n\t\t\t}\n\t\t\tif i := c.Node().Inline(); i != nil {\n\t\t\t\treturn state.preInline(block.Source, i)\n\t\t\t}\n\t\t\treturn true",
			New: "\t\t\tdescend := true\n\t\t\tif b := c.Node().Block(); b != nil {\n\t\t\t\tdescend = state.preBlock(block.Source, c)\n\t\t\t} else if i := c.Node().Inline(); i != nil {\n\t\t\t\tdescend = state.preInline(block.Source, i)\n\t\t\t}\n\t\t\treturn descend"},
		Control{Name: "neg-escapeHTML-without-quot", Props: []string{"C07"}, File: "html_renderer.go", Negative: true,
			Old: "\t\tcase '\"':\n\t\t\tdst = append(dst, src[verbatimStart:i]...)\n\t\t\tdst = append(dst, \"&quot;\"...)\n\t\t\tverbatimStart = i + 1\n", New: ""},
		Control{Name: "neg-htmlblock-descends-under-IgnoreRaw", Props: []string{"C07"}, File: "html_renderer.go", Negative: true,
			Old: "\tcase HTMLBlockKind:\n\t\tif r.IgnoreRaw {\n\t\t\treturn false\n\t\t}\n", New: "\tcase HTMLBlockKind:\n"},
		Control{Name: "neg-gt-appended-as-byte", Props: []string{"C07"}, File: "html_renderer.go", Negative: true,
			Old: "\t\t\tr.dst = append(r.dst, `\"`...)\n\t\t}\n\t\tr.dst = append(r.dst, \">\"...)\n\tcase ImageKind:", New: "\t\t\tr.dst = append(r.dst, '\"')\n\t\t}\n\t\tr.dst = append(r.dst, '>')\n\tcase ImageKind:"},
	)
}

// ruleCharRefAlphabet supports assumption HTX-RAW (b): the bytes of a span that becomes a CharacterReference are
// restricted by the recogniser's scanning loops.
func ruleCharRefAlphabet(c *Ctx) {
	c.Rule("CHARREF-ALPHABET", "Character references are copied to the output verbatim, so their recogniser must restrict the bytes it accepts: in every scanning loop of parseCharacterEscape the loop continues only for ASCII letters and digits (exact set by BSET path-conditioning on the scanned byte), and a positive length is returned only when the scanned byte is ';'.")
	p := c.P
	fn := p.Func("parseCharacterEscape")
	if !c.NeedFunc("CHARREF-ALPHABET", fn, "parseCharacterEscape") {
		return
	}
	bs := newBSET(p)
	n := 0
	for li, l := range naturalLoops(fn) {
		l := l
		// the scanned byte: a load of an element indexed by something defined in the loop
		var sym ssa.Value
		for b := range l.body {
			for _, in := range b.Instrs {
				if ld, ok := in.(*ssa.UnOp); ok && ld.Op == token.MUL {
					if ia, ok := ld.X.(*ssa.IndexAddr); ok && definedInLoop(ia.Index, &l) {
						if bt, ok := ld.Type().Underlying().(*types.Basic); ok && bt.Kind() == types.Uint8 {
							sym = ld
						}
					}
				}
			}
		}
		if sym == nil {
			continue
		}
		n++
		reach, edges := bs.reachEdgesUnderSym(fn, func(v ssa.Value) bool { return v == sym }, byteDomain())
		cont := map[int64]bool{}
		for _, latch := range l.latches {
			for d := range edges[[2]int{latch.Index, l.header.Index}] {
				cont[d] = true
			}
		}
		var bad []int64
		for d := range cont {
			if !(d >= '0' && d <= '9' || d >= 'a' && d <= 'z' || d >= 'A' && d <= 'Z') {
				bad = append(bad, d)
			}
		}
		sort.Slice(bad, func(i, j int) bool { return bad[i] < bad[j] })
		key := fmt.Sprintf("parseCharacterEscape:loop#%d", li+1)
		c.Check(len(bad) == 0 && len(cont) > 0, "CHARREF-ALPHABET", key+":continues", sym.Pos(), "scanning continues past bytes that are not ASCII letters or digits: "+describeSet(bad, true))
		// positive returns inside the loop
		var badRet []int64
		for b := range l.body {
			_ = b
		}
		for _, b := range fn.Blocks {
			r, ok := b.Instrs[len(b.Instrs)-1].(*ssa.Return)
			if !ok || !l.header.Dominates(b) || b == l.header {
				continue
			}
			if k, isC := constInt(r.Results[0]); isC && k < 0 {
				continue
			}
			// only returns reached from inside the loop body (not the loop's normal exit)
			fromBody := false
			for _, pr := range b.Preds {
				if l.body[pr] && pr != l.header {
					fromBody = true
				}
			}
			if !fromBody && !l.body[b] {
				// may still be a few blocks after a body block; accept if dominated by a body block other than the header
				for bb := range l.body {
					if bb != l.header && bb.Dominates(b) {
						fromBody = true
					}
				}
			}
			if !fromBody {
				continue
			}
			for d := range reach[b] {
				if d != ';' {
					badRet = append(badRet, d)
				}
			}
		}
		sort.Slice(badRet, func(i, j int) bool { return badRet[i] < badRet[j] })
		c.Check(len(badRet) == 0, "CHARREF-ALPHABET", key+":terminator", sym.Pos(), "a reference can end at a byte other than ';': "+describeSet(badRet, true))
	}
	if n < 1 {
		c.Undecided("CHARREF-ALPHABET", "instance-count", fn.Pos(), fmt.Sprintf("%d scanning loops recognised in parseCharacterEscape; every loop of the function is inspected and at least one must scan a reference body", n))
	}
}

// stringOnPath resolves a string value that is a constant, or a phi of string constants, along the path recorded in st.
func stringOnPath(st *evalState, v ssa.Value) (string, bool) {
	for d := 0; d < 8; d++ {
		if s, ok := constString(v); ok {
			return s, true
		}
		// a table function of the scanned byte: R(b) returning a constant string per byte value
		if call, isCall := v.(*ssa.Call); isCall {
			if g := call.Call.StaticCallee(); g != nil && st.e.p.InModule(g) && g.Blocks != nil && len(call.Call.Args) == 1 && len(g.Params) == 1 {
				if a, ok := st.eval(call.Call.Args[0]); ok {
					if str, ok := constStringResultAt(st.e, g, a); ok {
						return str, true
					}
				}
			}
			return "", false
		}
		ph, ok := v.(*ssa.Phi)
		if !ok {
			return "", false
		}
		from := st.from[ph.Block().Index]
		found := false
		for i, pr := range ph.Block().Preds {
			if pr.Index == from {
				v = ph.Edges[i]
				found = true
				break
			}
		}
		if !found {
			return "", false
		}
	}
	return "", false
}

func isStringPhiOfConsts(v ssa.Value) bool {
	seen := map[ssa.Value]bool{}
	var w func(v ssa.Value) bool
	w = func(v ssa.Value) bool {
		if seen[v] {
			return true
		}
		seen[v] = true
		if _, ok := constString(v); ok {
			return true
		}
		if ph, ok := v.(*ssa.Phi); ok {
			for _, e := range ph.Edges {
				if !w(e) {
					return false
				}
			}
			return true
		}
		return false
	}
	_, isPhi := v.(*ssa.Phi)
	return isPhi && w(v)
}

// sliceOfWalkingSource: v is the source parameter, a walking variable fed by it (phi of the parameter and re-slices of
// itself), or a slice of one of these.
func sliceOfWalkingSource(v ssa.Value, fn *ssa.Function) bool {
	if len(fn.Params) != 2 {
		return false
	}
	src := ssa.Value(fn.Params[1])
	seen := map[ssa.Value]bool{}
	var w func(v ssa.Value, d int) bool
	w = func(v ssa.Value, d int) bool {
		if v == src {
			return true
		}
		if seen[v] || d > 8 {
			return true
		}
		seen[v] = true
		switch x := v.(type) {
		case *ssa.Slice:
			return w(x.X, d+1)
		case *ssa.Phi:
			for _, e := range x.Edges {
				if !w(e, d+1) {
					return false
				}
			}
			return true
		}
		return false
	}
	return w(v, 0)
}

// constStringResultAt: the constant string a loop-free module function of one scalar parameter returns for the
// argument value a (branches decided by the parameter; anything else makes the result unknown).
func constStringResultAt(e *bsetEngine, g *ssa.Function, a int64) (string, bool) {
	param := g.Params[0]
	st := &evalState{e: e, fn: g, d: a, isSym: func(v ssa.Value) bool { return v == ssa.Value(param) }, from: make([]int, len(g.Blocks))}
	for i := range st.from {
		st.from[i] = -2
	}
	b := g.Blocks[0]
	st.from[0] = -1
	for steps := 0; steps <= len(g.Blocks); steps++ {
		switch t := b.Instrs[len(b.Instrs)-1].(type) {
		case *ssa.Return:
			if len(t.Results) != 1 {
				return "", false
			}
			return stringOnPath(st, t.Results[0])
		case *ssa.Jump:
			nb := b.Succs[0]
			st.from[nb.Index] = b.Index
			b = nb
		case *ssa.If:
			v, ok := st.eval(t.Cond)
			if !ok {
				return "", false
			}
			nb := b.Succs[1]
			if v != 0 {
				nb = b.Succs[0]
			}
			st.from[nb.Index] = b.Index
			b = nb
		default:
			return "", false
		}
	}
	return "", false
}
