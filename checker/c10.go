package main

// C10 — HTML output is the canonical serialisation of the tree: per-kind outcome tables (HTX-KIND / HTX-PAIR),
// ALT-KINDS, text provenance, JOIN, write effects and determinism of the render path.

import (
	"fmt"
	"go/token"
	"go/types"
	"regexp"
	"sort"
	"strings"

	"golang.org/x/tools/go/ssa"
)

func init() { props["C10"] = checkC10 }

type kOutcome struct {
	text string
	ret  string
}

type outcomeEnum struct {
	h      *htxEngine
	p      *Program
	sigs   map[*ssa.Function]string
	sigSet map[*ssa.Function]bool
	depth  int
}

func (oe *outcomeEnum) atomName(v int64) string {
	var atomPkg *types.Package
	for _, imp := range oe.p.CM.Types.Imports() {
		if imp.Path() == "golang.org/x/net/html/atom" {
			atomPkg = imp
		}
	}
	if atomPkg == nil {
		return "?"
	}
	for _, n := range atomPkg.Scope().Names() {
		if k, ok := atomPkg.Scope().Lookup(n).(*types.Const); ok {
			if kv, ok := constInt64Of(k); ok && kv == v && namedOf(k.Type()) != nil && namedOf(k.Type()).Obj().Name() == "Atom" {
				return strings.ToLower(n)
			}
		}
	}
	return "?"
}

// signature: the single unfiltered token string an emitter helper produces ("<{NAME}>"), or "" if it is not a simple helper.
func (oe *outcomeEnum) signature(f *ssa.Function) string {
	if oe.sigSet[f] {
		return oe.sigs[f]
	}
	oe.sigSet[f] = true
	oe.sigs[f] = ""
	outs := oe.enumerate(f, func(v ssa.Value) (int64, bool) {
		if isFilterTagLoad(v) {
			return 0, true
		}
		return 0, false
	})
	set := map[string]bool{}
	for _, o := range outs {
		set[o.text] = true
	}
	if len(set) == 1 {
		for t := range set {
			if !strings.Contains(t, "{ESC") && !strings.Contains(t, "{RAW") && !strings.Contains(t, "{CALL") {
				oe.sigs[f] = t
			}
		}
	}
	return oe.sigs[f]
}

// enumerate lists the outcomes (token string + returned bool) of fn over all paths, deciding the branches that are
// functions of the fixed symbols and taking both ways elsewhere; every block is entered at most twice per path.
func (oe *outcomeEnum) enumerate(fn *ssa.Function, symVal func(ssa.Value) (int64, bool)) []kOutcome {
	evs := oe.h.events[fn]
	st := &evalState{e: newBSET(oe.p), fn: fn, symVal: symVal, from: make([]int, len(fn.Blocks))}
	for i := range st.from {
		st.from[i] = -2
	}
	seenOut := map[kOutcome]bool{}
	var outs []kOutcome
	visits := make([]int, len(fn.Blocks))
	budget := 20000
	var dfs func(b *ssa.BasicBlock, text string)
	var dfsFrom func(b *ssa.BasicBlock, start int, text string)
	dfs = func(b *ssa.BasicBlock, text string) {
		if budget <= 0 || visits[b.Index] >= 2 {
			return
		}
		budget--
		visits[b.Index]++
		defer func() { visits[b.Index]-- }()
		dfsFrom(b, 0, text)
	}
	dfsFrom = func(b *ssa.BasicBlock, start int, text string) {
		for ii := start; ii < len(b.Instrs); ii++ {
			in := b.Instrs[ii]
			ev, ok := evs[in]
			if !ok {
				continue
			}
			switch ev.kind {
			case evConst:
				text += ev.s
			case evName:
				text += "{NAME}"
			case evEsc:
				switch {
				case ev.san == "escapeHTML":
					text += "{ESC:text}"
				case strings.Contains(ev.desc, "NormalizeURI"):
					text += "{ESC:uri}"
				default:
					text += "{ESC}"
				}
			case evInt:
				text += "{INT}"
			case evRaw:
				if ev.param > 0 {
					text += fmt.Sprintf("{PARAM:%d}", ev.param-1)
				} else {
					text += "{RAW}"
				}
			case evCall:
				call := in.(*ssa.Call)
				// substitute the call's constant arguments into a callee text
				subst := func(t string) string {
					if strings.Contains(t, "{NAME}") {
						name := "?"
						for _, a := range call.Call.Args {
							if nn := namedOf(a.Type()); nn != nil && nn.Obj().Name() == "Atom" {
								st.why = ""
								if v, ok := st.eval(a); ok {
									name = oe.atomName(v)
								} else if _, isParam := a.(*ssa.Parameter); isParam {
									name = "{NAME}"
								}
							}
						}
						t = strings.ReplaceAll(t, "{NAME}", name)
					}
					for i, a := range call.Call.Args {
						ph := fmt.Sprintf("{PARAM:%d}", i)
						if !strings.Contains(t, ph) {
							continue
						}
						if cs, ok := constString(a); ok {
							t = strings.ReplaceAll(t, ph, cs)
						} else {
							t = strings.ReplaceAll(t, ph, "{RAW}")
						}
					}
					return t
				}
				sig := oe.signature(ev.callee)
				if sig != "" {
					text += subst(sig)
					break
				}
				// a helper that is not a simple tag emitter: splice in each of its outcomes (the two designated
				// sub-renderers stay opaque, the oracle names them)
				if ev.callee.Name() != "filterRaw" && ev.callee.Name() != "appendAltText" && oe.depth < 3 {
					oe.depth++
					couts := oe.enumerate(ev.callee, symVal)
					oe.depth--
					if len(couts) > 0 {
						seenT := map[string]bool{}
						for _, co := range couts {
							t := subst(co.text)
							if seenT[t] {
								continue
							}
							seenT[t] = true
							dfsFrom(b, ii+1, text+t)
						}
						return
					}
				}
				text += "{CALL:" + ev.callee.Name() + "}"
			}
		}
		switch t := b.Instrs[len(b.Instrs)-1].(type) {
		case *ssa.Return:
			ret := "-"
			if len(t.Results) == 1 {
				ret = "?"
				st.why = ""
				if v, ok := st.eval(t.Results[0]); ok {
					if _, isBool := t.Results[0].Type().Underlying().(*types.Basic); isBool {
						ret = map[bool]string{true: "T", false: "F"}[v != 0]
					}
				}
			}
			o := kOutcome{text, ret}
			if !seenOut[o] {
				seenOut[o] = true
				outs = append(outs, o)
			}
		case *ssa.If:
			st.why = ""
			v, ok := st.eval(t.Cond)
			succs := b.Succs
			if ok {
				if v != 0 {
					succs = b.Succs[:1]
				} else {
					succs = b.Succs[1:]
				}
			}
			for _, s := range succs {
				prev := st.from[s.Index]
				st.from[s.Index] = b.Index
				dfs(s, text)
				st.from[s.Index] = prev
			}
		case *ssa.Jump:
			s := b.Succs[0]
			prev := st.from[s.Index]
			st.from[s.Index] = b.Index
			dfs(s, text)
			st.from[s.Index] = prev
		}
	}
	st.from[0] = -1
	dfs(fn.Blocks[0], "")
	if budget <= 0 {
		return nil
	}
	return outs
}

type kindCfg struct {
	ordered   int // -1 n/a, 0 false, 1 true
	tight     int
	kind      string
	level     int64
	sbb       string
	ignoreRaw bool
	filterNil bool
	title     int // -1 n/a, 0 the link/image has no title, 1 it has one (possibly empty)
}

func outcomeSet(outs []kOutcome) []string {
	var s []string
	for _, o := range outs {
		s = append(s, o.text+"→"+o.ret)
	}
	sort.Strings(s)
	return s
}

var spacesOnly = regexp.MustCompile(`^ *$`)

// expectedPre / expectedPost: the documented mapping (DESIGN.md Appendix A). ret "*" = either.
func expectedBlock(cfg kindCfg, post bool) []string {
	h := fmt.Sprintf("h%d", cfg.level)
	if !post {
		switch cfg.kind {
		case "ParagraphKind":
			if cfg.tight == 1 {
				return []string{"→T"}
			}
			return []string{"<p>→T"}
		case "ThematicBreakKind":
			return []string{"<hr>→F"}
		case "ATXHeadingKind", "SetextHeadingKind":
			return []string{"<" + h + ">→T"}
		case "IndentedCodeBlockKind", "FencedCodeBlockKind":
			return []string{"<pre><code>→T", "<pre><code class=\"language-{ESC}\">→T"}
		case "BlockQuoteKind":
			return []string{"<blockquote>→T"}
		case "ListKind":
			if cfg.ordered == 1 {
				return []string{"<ol>→T", "<ol start=\"{INT}\">→T"}
			}
			return []string{"<ul>→T"}
		case "ListItemKind":
			return []string{"<li>→T"}
		}
		return []string{"→*"}
	}
	switch cfg.kind {
	case "ParagraphKind":
		if cfg.tight == 1 {
			return []string{"→T"}
		}
		return []string{"</p>→T"}
	case "ATXHeadingKind", "SetextHeadingKind":
		return []string{"</" + h + ">→T"}
	case "IndentedCodeBlockKind", "FencedCodeBlockKind":
		return []string{"</code></pre>→T"}
	case "BlockQuoteKind":
		return []string{"</blockquote>→T"}
	case "ListKind":
		if cfg.ordered == 1 {
			return []string{"</ol>→T"}
		}
		return []string{"</ul>→T"}
	case "ListItemKind":
		return []string{"</li>→T"}
	}
	return []string{"→T"}
}

func expectedInline(cfg kindCfg, post bool) []string {
	if post {
		switch cfg.kind {
		case "EmphasisKind":
			return []string{"</em>→T"}
		case "StrongKind":
			return []string{"</strong>→T"}
		case "CodeSpanKind":
			return []string{"</code>→T"}
		case "LinkKind":
			return []string{"</a>→T"}
		}
		return []string{"→T"}
	}
	switch cfg.kind {
	case "TextKind", "UnparsedKind":
		return []string{"{ESC:text}→F"}
	case "CharacterReferenceKind":
		return []string{"{RAW}→F"}
	case "RawHTMLKind":
		switch {
		case cfg.ignoreRaw:
			return []string{"→F"}
		case cfg.filterNil:
			return []string{"{RAW}→F"}
		}
		return []string{"{CALL:filterRaw}→F"}
	case "SoftLineBreakKind":
		switch cfg.sbb {
		case "SoftBreakHarden":
			return []string{"<br>\n→F"}
		case "SoftBreakSpace":
			return []string{" →F"}
		}
		return []string{"{RAW}→F", "\n→F"}
	case "HardLineBreakKind":
		return []string{"<br>\n→F"}
	case "EmphasisKind":
		return []string{"<em>→T"}
	case "StrongKind":
		return []string{"<strong>→T"}
	case "CodeSpanKind":
		return []string{"<code>→T"}
	case "LinkKind":
		switch cfg.title {
		case 0:
			return []string{"<a href=\"{ESC:uri}\">→T"}
		case 1:
			return []string{"<a href=\"{ESC:uri}\" title=\"{ESC}\">→T"}
		}
		return []string{"<a href=\"{ESC:uri}\">→T", "<a href=\"{ESC:uri}\" title=\"{ESC}\">→T"}
	case "ImageKind":
		switch cfg.title {
		case 0:
			return []string{"<img src=\"{ESC:uri}\"{CALL:appendAltText}>→F"}
		case 1:
			return []string{"<img src=\"{ESC:uri}\" title=\"{ESC}\"{CALL:appendAltText}>→F"}
		}
		return []string{"<img src=\"{ESC:uri}\"{CALL:appendAltText}>→F", "<img src=\"{ESC:uri}\" title=\"{ESC}\"{CALL:appendAltText}>→F"}
	case "AutolinkKind":
		return []string{"<a href=\"{ESC:uri}\">{ESC}</a>→F", "<a href=\"mailto:{ESC:uri}\">{ESC}</a>→F"}
	case "IndentKind":
		return []string{"SPACES→F"}
	case "HTMLTagKind":
		return []string{"→T"}
	}
	return []string{"→*"}
}

func matchOutcomes(got []kOutcome, want []string) (bool, string) {
	wantSet := map[string]bool{}
	anyRet := false
	spaces := false
	for _, w := range want {
		switch {
		case strings.HasSuffix(w, "→*"):
			anyRet = true
			wantSet[strings.TrimSuffix(w, "→*")] = true
		case strings.HasPrefix(w, "SPACES→"):
			spaces = true
			wantSet[w] = true
		default:
			wantSet[w] = true
		}
	}
	gotSet := map[string]bool{}
	for _, o := range got {
		switch {
		case anyRet:
			gotSet[o.text] = true
		case spaces && spacesOnly.MatchString(o.text):
			gotSet["SPACES→"+o.ret] = true
		default:
			gotSet[o.text+"→"+o.ret] = true
		}
	}
	var missing, extra []string
	for w := range wantSet {
		if !gotSet[w] {
			missing = append(missing, fmt.Sprintf("%q", w))
		}
	}
	for g := range gotSet {
		if !wantSet[g] {
			extra = append(extra, fmt.Sprintf("%q", g))
		}
	}
	sort.Strings(missing)
	sort.Strings(extra)
	if len(missing) == 0 && len(extra) == 0 {
		return true, ""
	}
	return false, fmt.Sprintf("unexpected outcome(s) %s; missing documented outcome(s) %s", strings.Join(extra, ", "), strings.Join(missing, ", "))
}

func ruleHTXKind(c *Ctx, r *htxRun) {
	c.Rule("HTX-KIND", "For every node kind and every value of the configuration the callbacks branch on (SoftBreakBehavior constants, IgnoreRaw, FilterTag nil/non-nil, heading level 1–6), the set of token strings a renderer callback can emit (constants verbatim, tag helpers expanded to their unfiltered form with the atom name resolved on the path, dynamic fragments as {ESC}/{ESC:uri}/{ESC:text}/{RAW}/{INT}) and the descend flag equal the documented mapping (DESIGN.md Appendix A). Kinds documented as silent must emit nothing. Post callbacks must return true on every path (false aborts the walk).")
	c.Rule("HTX-PAIR", "For every kind whose pre-outcome descends, the post-outcome closes exactly the elements the pre-outcome left open, in reverse order, and is conditional iff the open was conditional, on the same guard (same accessor called on the same access path).")
	p := c.P
	oe := &outcomeEnum{h: r.h, p: p, sigs: map[*ssa.Function]string{}, sigSet: map[*ssa.Function]bool{}}
	sbbT := p.NamedType("SoftBreakBehavior")
	var sbbNames []string
	sbbVal := map[string]int64{}
	if sbbT != nil {
		for _, k := range ConstsOfType(p.CM.Types, sbbT) {
			v, _ := constInt64Of(k)
			sbbNames = append(sbbNames, k.Name())
			sbbVal[k.Name()] = v
		}
	}
	sort.Strings(sbbNames)
	if len(sbbNames) != 3 {
		c.Undecided("HTX-KIND", "SoftBreakBehavior", token.NoPos, fmt.Sprintf("expected 3 SoftBreakBehavior constants, found %d: every declared constant needs a documented outcome", len(sbbNames)))
	}
	type target struct {
		name   string
		block  bool
		post   bool
		expect func(kindCfg, bool) []string
	}
	total := 0
	open := map[string]map[string]bool{}   // kind -> set of pre outcomes (for HTX-PAIR)
	closeT := map[string]map[string]bool{} // kind -> set of post outcomes
	for _, tg := range []target{{"preBlock", true, false, expectedBlock}, {"postBlock", true, true, expectedBlock}, {"preInline", false, false, expectedInline}, {"postInline", false, true, expectedInline}} {
		fn := p.Method("renderState", tg.name)
		if !c.NeedFunc("HTX-KIND", fn, "(*renderState)."+tg.name) {
			continue
		}
		isKind, dom, kt := kindSymOf(p, fn)
		if isKind == nil {
			c.Undecided("HTX-KIND", tg.name+":kind", fn.Pos(), "the callback does not branch on the node's Kind()")
			continue
		}
		for _, kv := range dom {
			kname := kindName(p, kt, kv)
			levels := []int64{0}
			if kname == "ATXHeadingKind" || kname == "SetextHeadingKind" {
				levels = []int64{1, 2, 3, 4, 5, 6}
			}
			sbbs := []string{""}
			irs := []bool{false}
			fns := []bool{true}
			if !tg.block && !tg.post {
				if kname == "SoftLineBreakKind" {
					sbbs = sbbNames
				}
				if kname == "RawHTMLKind" {
					irs = []bool{false, true}
					fns = []bool{true, false}
				}
			}
			if tg.block && !tg.post && kname == "HTMLBlockKind" {
				irs = []bool{false, true}
			}
			flags := []int{-1}
			if tg.block && (kname == "ListKind" || kname == "ParagraphKind") {
				flags = []int{0, 1}
			}
			// links and images: with and without a title (LinkDefinition.TitlePresent; an empty title is a title)
			titled := !tg.block && !tg.post && (kname == "LinkKind" || kname == "ImageKind") && usesTitlePresent(fn)
			if titled {
				flags = []int{0, 1}
			}
			for _, flag := range flags {
				for _, lv := range levels {
					for _, sb := range sbbs {
						for _, ir := range irs {
							for _, fnil := range fns {
								cfg := kindCfg{kind: kname, level: lv, sbb: sb, ignoreRaw: ir, filterNil: fnil, ordered: -1, tight: -1, title: -1}
								if titled {
									cfg.title = flag
								}
								if kname == "ListKind" {
									cfg.ordered = flag
								}
								if kname == "ParagraphKind" {
									cfg.tight = flag
								}
								symVal := func(v ssa.Value) (int64, bool) {
									if isKind(v) {
										return kv, true
									}
									if call, ok := v.(*ssa.Call); ok {
										if f := call.Call.StaticCallee(); f != nil && f.Name() == "HeadingLevel" && p.InModule(f) && lv != 0 {
											return lv, true
										}
										if f := call.Call.StaticCallee(); f != nil && p.InModule(f) && flag >= 0 {
											if (f.Name() == "IsOrderedList" && kname == "ListKind") || (f.Name() == "IsTightList" && kname == "ParagraphKind") {
												return int64(flag), true
											}
										}
									}
									if _, ok := isLoadOfField(v, "LinkDefinition", "TitlePresent"); ok && titled {
										return int64(flag), true
									}
									if _, ok := isLoadOfField(v, "HTMLRenderer", "SoftBreakBehavior"); ok && sb != "" {
										return sbbVal[sb], true
									}
									if _, ok := isLoadOfField(v, "HTMLRenderer", "IgnoreRaw"); ok && (kname == "RawHTMLKind" || kname == "HTMLBlockKind") {
										return b2i(ir), true
									}
									if isFilterTagLoad(v) && kname == "RawHTMLKind" {
										return b2i(!fnil), true
									}
									return 0, false
								}
								outs := oe.enumerate(fn, symVal)
								total++
								key := tg.name + "[" + kname
								if lv != 0 {
									key += fmt.Sprintf(",level=%d", lv)
								}
								if sb != "" {
									key += "," + sb
								}
								if cfg.ordered >= 0 {
									key += fmt.Sprintf(",ordered=%v", cfg.ordered == 1)
								}
								if cfg.tight >= 0 {
									key += fmt.Sprintf(",tight=%v", cfg.tight == 1)
								}
								if cfg.title >= 0 {
									key += fmt.Sprintf(",title=%v", cfg.title == 1)
								}
								if kname == "RawHTMLKind" || (kname == "HTMLBlockKind" && !tg.post) {
									key += fmt.Sprintf(",IgnoreRaw=%v", ir)
									if kname == "RawHTMLKind" {
										key += fmt.Sprintf(",FilterTag=%s", map[bool]string{true: "nil", false: "set"}[fnil])
									}
								}
								key += "]"
								if outs == nil {
									c.Undecided("HTX-KIND", key, fn.Pos(), "path enumeration exceeded its budget")
									continue
								}
								ok, why := matchOutcomes(outs, tg.expect(cfg, tg.post))
								if ok {
									c.OK("HTX-KIND", key, fn.Pos(), strings.Join(outcomeSet(outs), " | "))
								} else {
									c.Viol("HTX-KIND", key, fn.Pos(), why)
								}
								if lv <= 1 {
									pk := key[strings.Index(key, "[")+1:]
									_ = pk
									m := open
									if tg.post {
										m = closeT
									}
									pkey := kname
									if flag >= 0 {
										pkey += fmt.Sprintf("/%d", flag)
									}
									if m[pkey] == nil {
										m[pkey] = map[string]bool{}
									}
									for _, o := range outs {
										if tg.post || o.ret != "F" {
											m[pkey][o.text] = true
										}
									}
								}
							}
						}
					}
				}
			}
		}
	}
	c.Analysed["kind_configurations"] = total
	// HTX-PAIR: derive open elements of each descending pre outcome and compare with the post outcomes
	tagRe := regexp.MustCompile(`<(/?)([a-z0-9]+)[^<>]*>`)
	voidEl := map[string]bool{"hr": true, "img": true, "br": true}
	for kname, pres := range open {
		wantClose := map[string]bool{}
		for pre := range pres {
			var stack []string
			for _, m := range tagRe.FindAllStringSubmatch(pre, -1) {
				if m[1] == "/" {
					if len(stack) > 0 && stack[len(stack)-1] == m[2] {
						stack = stack[:len(stack)-1]
					}
				} else if !voidEl[m[2]] {
					stack = append(stack, m[2])
				}
			}
			cl := ""
			for i := len(stack) - 1; i >= 0; i-- {
				cl += "</" + stack[i] + ">"
			}
			wantClose[cl] = true
		}
		got := closeT[kname]
		if got == nil || len(pres) == 0 {
			continue
		}
		var w, g []string
		for x := range wantClose {
			w = append(w, fmt.Sprintf("%q", x))
		}
		for x := range got {
			g = append(g, fmt.Sprintf("%q", x))
		}
		sort.Strings(w)
		sort.Strings(g)
		c.Check(strings.Join(w, ",") == strings.Join(g, ","), "HTX-PAIR", kname, token.NoPos, fmt.Sprintf("post outcomes %s must close what the descending pre outcomes leave open: %s", strings.Join(g, ","), strings.Join(w, ",")))
	}
	// conditional open/close decided by the same accessor on the same receiver access path in pre and post
	for _, pair := range [][2]string{{"preBlock", "postBlock"}, {"preInline", "postInline"}} {
		pre, post := p.Method("renderState", pair[0]), p.Method("renderState", pair[1])
		if pre == nil || post == nil {
			continue
		}
		for _, acc := range []string{"IsTightList", "IsOrderedList", "HeadingLevel"} {
			a, b := accessorPaths(p, pre, acc), accessorPaths(p, post, acc)
			if len(a) == 0 && len(b) == 0 {
				continue
			}
			c.Check(strings.Join(a, ",") == strings.Join(b, ","), "HTX-PAIR", pair[0]+"/"+pair[1]+":"+acc, post.Pos(), fmt.Sprintf("%s is consulted on %v when opening and on %v when closing; the receivers must be the same node", acc, a, b))
		}
	}
}

// usesTitlePresent: the callback reads LinkDefinition.TitlePresent somewhere (the documented "has a title" flag).
// If it does not, the title dimension is not applicable as such and the rule falls back to the union of outcomes —
// unless the field exists, in which case ignoring it is what HTX-KIND reports.
func usesTitlePresent(fn *ssa.Function) bool {
	// the field must exist in the package; whether fn loads it is decided by the enumeration itself
	found := false
	if fn.Pkg != nil {
		if m, ok := fn.Pkg.Members["LinkDefinition"].(*ssa.Type); ok {
			if st, ok := m.Type().Underlying().(*types.Struct); ok {
				for i := 0; i < st.NumFields(); i++ {
					if st.Field(i).Name() == "TitlePresent" {
						found = true
					}
				}
			}
		}
	}
	return found
}

// accessorPaths: the receiver access paths on which the named accessor is called in fn.
func accessorPaths(p *Program, fn *ssa.Function, name string) []string {
	set := map[string]bool{}
	eachInstr(fn, func(in ssa.Instruction) {
		if call, ok := in.(*ssa.Call); ok {
			if f := call.Call.StaticCallee(); f != nil && p.InModule(f) && f.Name() == name && len(call.Call.Args) > 0 {
				set[normalisePath(accessPath(call.Call.Args[0]))] = true
			}
		}
	})
	var out []string
	for k := range set {
		out = append(out, k)
	}
	sort.Strings(out)
	return out
}

// normalisePath: Parent().Block() and ParentBlock() denote the same node for block children.
func normalisePath(s string) string {
	return strings.ReplaceAll(s, ".Parent.Block", ".ParentBlock")
}

// emitGuards: accessor calls (method name + receiver access path) whose result decides a branch that dominates an emit event.
func emitGuards(h *htxEngine, fn *ssa.Function) map[string]bool {
	out := map[string]bool{}
	for in, ev := range h.events[fn] {
		if ev.kind == evMarkLen {
			continue
		}
		for _, b := range fn.Blocks {
			iff := blockIf(b)
			if iff == nil {
				continue
			}
			if !(edgeDominates(b, 0, in.Block()) || edgeDominates(b, 1, in.Block())) {
				continue
			}
			var calls []*ssa.Call
			var collect func(v ssa.Value, d int)
			collect = func(v ssa.Value, d int) {
				if d > 4 {
					return
				}
				switch x := v.(type) {
				case *ssa.Call:
					calls = append(calls, x)
				case *ssa.UnOp:
					collect(x.X, d+1)
				case *ssa.BinOp:
					collect(x.X, d+1)
					collect(x.Y, d+1)
				}
			}
			collect(iff.Cond, 0)
			for _, cl := range calls {
				f := cl.Call.StaticCallee()
				if f == nil || !h.p.InModule(f) || f.Name() == "Kind" || f.Signature.Recv() == nil {
					continue
				}
				recv := "?"
				if len(cl.Call.Args) > 0 {
					recv = accessPath(cl.Call.Args[0])
				}
				out[f.Name()+"("+recv+")"] = true
			}
		}
	}
	return out
}

// accessPath renders a receiver expression as a chain of accessor names rooted at a parameter (names of locals ignored).
func accessPath(v ssa.Value) string {
	switch x := v.(type) {
	case *ssa.Call:
		f := x.Call.StaticCallee()
		if f != nil && len(x.Call.Args) > 0 {
			return accessPath(x.Call.Args[0]) + "." + f.Name()
		}
	case *ssa.Parameter:
		return "<" + typeName(x.Type()) + ">"
	case *ssa.UnOp:
		return accessPath(x.X)
	case *ssa.FieldAddr:
		_, f, _ := fieldAddrInfo(x)
		return accessPath(x.X) + "." + f
	}
	return "?"
}

// ruleAltKinds: see ALT-KINDS.
func ruleAltKinds(c *Ctx, h *htxEngine) {
	c.Rule("ALT-KINDS", "appendAltText treats each inline kind as Inline.Text documents it: Text and CharacterReference contribute their (escaped) text, Indent/SoftLineBreak/HardLineBreak contribute one space, LinkDestination/LinkTitle/LinkLabel contribute nothing, container kinds are descended into.")
	p := c.P
	fn := p.Func("appendAltText")
	if !c.NeedFunc("ALT-KINDS", fn, "appendAltText") {
		return
	}
	isKind, dom, kt := kindSymOf(p, fn)
	if isKind == nil {
		c.Undecided("ALT-KINDS", "appendAltText:kind", fn.Pos(), "no Kind() dispatch found")
		return
	}
	reach := newBSET(p).reachUnderSym(fn, isKind, dom)
	common := map[*ssa.BasicBlock]bool{}
	for _, b := range fn.Blocks {
		if len(reach[b]) == len(dom) {
			common[b] = true
		}
	}
	want := map[string]string{
		"TextKind": "text", "CharacterReferenceKind": "text",
		"IndentKind": "space", "SoftLineBreakKind": "space", "HardLineBreakKind": "space",
		"LinkDestinationKind": "nothing", "LinkTitleKind": "nothing", "LinkLabelKind": "nothing",
		"EmphasisKind": "descend", "StrongKind": "descend", "LinkKind": "descend", "ImageKind": "descend", "CodeSpanKind": "descend", "AutolinkKind": "descend", "HTMLTagKind": "descend",
	}
	for _, kv := range dom {
		kname := kindName(p, kt, kv)
		w, ok := want[kname]
		if !ok {
			continue
		}
		has := map[string]bool{}
		for _, b := range fn.Blocks {
			if common[b] || !reach[b][kv] {
				continue
			}
			for _, in := range b.Instrs {
				if ev, ok := h.events[fn][in]; ok {
					switch ev.kind {
					case evEsc, evRaw:
						has["text"] = true
					case evConst:
						if ev.s == " " {
							has["space"] = true
						}
					}
				}
				if call, ok := in.(*ssa.Call); ok {
					if _, ok := isBuiltinCall(call, "append"); ok && !h.buf(call.Call.Args[0]) {
						if _, isInl := call.Type().Underlying().(*types.Slice); isInl && strings.Contains(call.Type().String(), "Inline") {
							has["descend"] = true
						}
					}
				}
			}
		}
		got := "nothing"
		for _, k := range []string{"text", "space", "descend"} {
			if has[k] {
				got = k
			}
		}
		c.Check(got == w, "ALT-KINDS", "appendAltText["+kname+"]", fn.Pos(), fmt.Sprintf("contributes %s to the alt text, documented: %s", got, w))
	}
}

// ruleJoin: see JOIN.
func ruleJoin(c *Ctx) {
	c.Rule("JOIN", "Every buffer Render hands to w.Write is the result of AppendBlock for the block of the current iteration, started from the emptied buffer, preceded by the separator constant \"\\n\\n\" exactly on the iterations with i > 0; blocks are taken in slice order.")
	p := c.P
	fn := p.Method("HTMLRenderer", "Render")
	ab := p.Method("HTMLRenderer", "AppendBlock")
	if !c.NeedFunc("JOIN", fn, "(*HTMLRenderer).Render") || ab == nil {
		return
	}
	n := 0
	eachInstr(fn, func(in ssa.Instruction) {
		ci, ok := isInvokeOf(in, "Write")
		if !ok {
			return
		}
		n++
		arg := ci.Common().Args[0]
		call, ok := arg.(*ssa.Call)
		if !ok || call.Call.StaticCallee() != ab {
			c.Viol("JOIN", fmt.Sprintf("Render:Write#%d", n), in.Pos(), "bytes written are not the result of AppendBlock: "+describeValue(arg))
			return
		}
		// block argument: element of the blocks parameter at the range index
		blk := call.Call.Args[2]
		okBlk := false
		if ld, ok := blk.(*ssa.UnOp); ok && ld.Op == token.MUL {
			if ia, ok := ld.X.(*ssa.IndexAddr); ok && ia.X == ssa.Value(fn.Params[2]) {
				okBlk = true
			}
		}
		c.Check(okBlk, "JOIN", fmt.Sprintf("Render:block#%d", n), call.Pos(), "AppendBlock must be given blocks[i] of the current iteration")
		// buffer argument: phi{buf[:0], append(buf[:0], "\n\n")} with the append behind i > 0
		buf := call.Call.Args[1]
		okSep, why := false, "buffer passed to AppendBlock is not `buf[:0]` optionally followed by the separator: "+describeValue(buf)
		if ph, ok := buf.(*ssa.Phi); ok && len(ph.Edges) == 2 {
			var plain, sep ssa.Value
			var sepPred *ssa.BasicBlock
			for i, e := range ph.Edges {
				if cl, ok := e.(*ssa.Call); ok {
					if _, ok := isBuiltinCall(cl, "append"); ok {
						if s, ok := constString(cl.Call.Args[1]); ok && s == "\n\n" {
							sep, sepPred = cl.Call.Args[0], ph.Block().Preds[i]
							continue
						}
					}
				}
				plain = e
			}
			isReset := func(v ssa.Value) bool {
				sl, ok := v.(*ssa.Slice)
				return ok && sl.High != nil && isZero(sl.High)
			}
			if plain != nil && sep != nil && isReset(plain) && isReset(sep) {
				// sepPred behind i > 0
				for _, b := range fn.Blocks {
					if iff := blockIf(b); iff != nil {
						if bo, ok := iff.Cond.(*ssa.BinOp); ok && bo.Op == token.GTR && isZero(bo.Y) && edgeDominates(b, 0, sepPred) {
							okSep, why = true, "separator appended exactly when i > 0"
						}
					}
				}
				if !okSep {
					why = "the separator is not guarded by i > 0"
				}
			}
		}
		c.Check(okSep, "JOIN", fmt.Sprintf("Render:separator#%d", n), call.Pos(), why)
	})
	if n != 1 {
		c.Undecided("JOIN", "Render:Write", fn.Pos(), fmt.Sprintf("expected one Write call in Render, found %d", n))
	}
}

// ruleTextProv: dynamic fragments derive only from the callback's parameters and the renderer's configuration.
func ruleTextProv(c *Ctx, h *htxEngine) {
	c.Rule("TEXTPROV", "Every dynamic fragment a renderer callback emits derives (backward data slice through calls, field loads and conversions) only from the callback's own parameters (source, node/cursor) and the renderer's configuration fields; never from the output buffer, scratch state of an earlier node, or package-level variables.")
	n := 0
	for fn, evs := range h.events {
		if fn.Name() == "escapeHTML" || fn.Name() == "filterRaw" {
			continue
		}
		for in, ev := range evs {
			if ev.kind != evEsc && ev.kind != evRaw && ev.kind != evInt {
				continue
			}
			call := in.(*ssa.Call)
			var v ssa.Value
			if _, ok := isBuiltinCall(call, "append"); ok {
				v = call.Call.Args[1]
			} else if len(call.Call.Args) > 1 {
				v = call.Call.Args[1]
			}
			if v == nil {
				continue
			}
			n++
			bad := ""
			seen := map[ssa.Value]bool{}
			var w func(v ssa.Value)
			w = func(v ssa.Value) {
				if v == nil || seen[v] || bad != "" {
					return
				}
				seen[v] = true
				switch x := v.(type) {
				case *ssa.Global:
					bad = "package-level variable " + x.Name()
				case *ssa.UnOp:
					if _, ok := isLoadOfField(x, "renderState", "dst"); ok {
						bad = "the output buffer"
						return
					}
					if _, ok := isLoadOfField(x, "renderState", "lowerBuf"); ok {
						bad = "scratch buffer lowerBuf"
						return
					}
					w(x.X)
				case *ssa.FieldAddr:
					w(x.X)
				case *ssa.IndexAddr:
					w(x.X)
					w(x.Index)
				case *ssa.Call:
					for _, a := range x.Call.Args {
						w(a)
					}
					if x.Call.IsInvoke() {
						w(x.Call.Value)
					}
				case *ssa.BinOp:
					w(x.X)
					w(x.Y)
				case *ssa.Convert:
					w(x.X)
				case *ssa.ChangeType:
					w(x.X)
				case *ssa.Slice:
					w(x.X)
				case *ssa.Phi:
					for _, e := range x.Edges {
						w(e)
					}
				case *ssa.Extract:
					w(x.Tuple)
				case *ssa.Lookup:
					w(x.X)
					w(x.Index)
				case *ssa.Field:
					w(x.X)
				case *ssa.Index:
					w(x.X)
				}
			}
			w(v)
			key := fmt.Sprintf("%s:%s#%d", shortFuncName(fn), [...]string{"", "", "ESC", "INT", "RAW"}[ev.kind], n)
			c.Check(bad == "", "TEXTPROV", key, in.Pos(), "fragment derives from "+bad)
		}
	}
}

func checkC10(c *Ctx) {
	htxRules(c)
	r := runHTX(c)
	reportHTX(c, r, map[string]bool{"HTX-T": true, "HTX-RAW": true})
	ruleHTXKind(c, r)
	ruleAltKinds(c, r.h)
	ruleTextProv(c, r.h)
	ruleTextKinds(c)
	ruleJoin(c)
	ruleWalkWiring(c)
	effRules(c)
	e := newEFF(c.P)
	var entries []*ssa.Function
	for _, f := range []*ssa.Function{c.P.Method("HTMLRenderer", "Render"), c.P.Method("HTMLRenderer", "AppendBlock"), c.P.Func("RenderHTML")} {
		if f != nil {
			entries = append(entries, f)
		}
	}
	ruleEFFR(c, e, entries, "EFF-R")
	sc := false
	for n, ok := range e.scratch {
		if n.Obj().Name() == "renderState" && ok {
			sc = true
		}
	}
	c.Check(sc, "EFF-R", "scratch:renderState", token.NoPos, "renderState must be a scratch type: nothing carries over from one AppendBlock call to the next")
	ruleDET(c, e)
	ruleEFFX(c, e)
	c.Assume("byte-for-byte equality with an independent serialiser is not decided; NormalizeURI's arithmetic and filterRaw's indices are trusted")
	c.MinCount("HTX-KIND", 60)
}

func init() {
	addControls(
		Control{Name: "post-h5-closes-h6", Props: []string{"C10"}, File: "html_renderer.go",
			Old: "\t\tcase 5:\n\t\t\ttagName = atom.H5\n\t\tdefault:\n\t\t\ttagName = atom.H6\n\t\t}\n\t\tr.closeTag(tagName)", New: "\t\tdefault:\n\t\t\ttagName = atom.H6\n\t\t}\n\t\tr.closeTag(tagName)", Expect: "HTX-KIND/postBlock[ATXHeadingKind,level=5]"},
		Control{Name: "soft-break-space-renders-newline", Props: []string{"C10"}, File: "html_renderer.go",
			Old: "\t\tcase SoftBreakSpace:\n\t\t\tr.dst = append(r.dst, ' ')", New: "\t\tcase SoftBreakSpace:\n\t\t\tr.dst = append(r.dst, '\\n')", Expect: "HTX-KIND/preInline[SoftLineBreakKind,SoftBreakSpace]"},
		Control{Name: "postInline-aborts-after-code-span", Props: []string{"C10"}, File: "html_renderer.go",
			Old: "\tcase CodeSpanKind:\n\t\tr.closeTag(atom.Code)\n\tcase LinkKind:", New: "\tcase CodeSpanKind:\n\t\tr.closeTag(atom.Code)\n\t\treturn false\n\tcase LinkKind:", Expect: "HTX-KIND/postInline[CodeSpanKind]"},
		Control{Name: "post-list-tags-swapped", Props: []string{"C10"}, File: "html_renderer.go",
			Old: "\t\tif block.IsOrderedList() {\n\t\t\ttagName = atom.Ol\n\t\t} else {\n\t\t\ttagName = atom.Ul\n\t\t}\n\t\tr.closeTag(tagName)", New: "\t\tif !block.IsOrderedList() {\n\t\t\ttagName = atom.Ol\n\t\t} else {\n\t\t\ttagName = atom.Ul\n\t\t}\n\t\tr.closeTag(tagName)", Expect: "HTX-KIND/postBlock[ListKind"},
		Control{Name: "strong-opens-b", Props: []string{"C10"}, File: "html_renderer.go",
			Old: "\tcase StrongKind:\n\t\tr.openTag(atom.Strong)", New: "\tcase StrongKind:\n\t\tr.openTag(atom.B)", Expect: "HTX-KIND/preInline[StrongKind]"},
		Control{Name: "reference-definition-rendered-as-comment", Props: []string{"C10"}, File: "html_renderer.go",
			Old: "\tcase HTMLBlockKind:\n\t\tif r.IgnoreRaw {\n\t\t\treturn false\n\t\t}\n\tdefault:", New: "\tcase HTMLBlockKind:\n\t\tif r.IgnoreRaw {\n\t\t\treturn false\n\t\t}\n\tcase LinkReferenceDefinitionKind:\n\t\tr.dst = append(r.dst, \"\\n\"...)\n\t\treturn false\n\tdefault:", Expect: "HTX-KIND/preBlock[LinkReferenceDefinitionKind]"},
		Control{Name: "paragraph-close-asks-wrong-node", Props: []string{"C10"}, File: "html_renderer.go",
			Old: "\tcase ParagraphKind:\n\t\tif !cursor.Parent().Block().IsTightList() {\n\t\t\tr.closeTag(atom.P)", New: "\tcase ParagraphKind:\n\t\tif !block.IsTightList() {\n\t\t\tr.closeTag(atom.P)", Expect: "HTX-PAIR"},
		Control{Name: "separator-before-first-block", Props: []string{"C10"}, File: "html_renderer.go",
			Old: "\t\tif i > 0 {\n\t\t\tbuf = append(buf, \"\\n\\n\"...)", New: "\t\tif i >= 0 {\n\t\t\tbuf = append(buf, \"\\n\\n\"...)", Expect: "JOIN"},
		Control{Name: "raw-html-kept-under-IgnoreRaw-with-filter", Props: []string{"C10"}, File: "html_renderer.go",
			Old: "\t\tif !r.IgnoreRaw {\n\t\t\tif r.FilterTag == nil {", New: "\t\tif !r.IgnoreRaw || r.FilterTag != nil {\n\t\t\tif r.FilterTag == nil {", Expect: "preInline"},
		Control{Name: "image-title-dropped", Props: []string{"C10"}, File: "html_renderer.go",
			Old: "\t\tr.dst = append(r.dst, `\"`...)\n\t\tif def.TitlePresent {\n\t\t\tr.dst = append(r.dst, ` title=\"`...)\n\t\t\tr.dst = append(r.dst, html.EscapeString(def.Title)...)\n\t\t\tr.dst = append(r.dst, `\"`...)\n\t\t}\n\t\tr.dst = appendAltText", New: "\t\tr.dst = append(r.dst, `\"`...)\n\t\tr.dst = appendAltText", Expect: "HTX-KIND/preInline[ImageKind"},
		Control{Name: "alt-text-skips-soft-breaks", Props: []string{"C10"}, File: "html_renderer.go",
			Old: "\t\tcase IndentKind, SoftLineBreakKind, HardLineBreakKind:\n\t\t\tif !hasAttr {", New: "\t\tcase IndentKind, HardLineBreakKind:\n\t\t\tif !hasAttr {", Expect: "ALT-KINDS/appendAltText[SoftLineBreakKind]"},
		Control{Name: "neg-preBlock-default-descends", Props: []string{"C10"}, File: "html_renderer.go", Negative: true,
			Old: "\tcase HTMLBlockKind:\n\t\tif r.IgnoreRaw {\n\t\t\treturn false\n\t\t}\n\tdefault:\n\t\treturn false\n\t}\n\treturn true", New: "\tcase HTMLBlockKind:\n\t\tif r.IgnoreRaw {\n\t\t\treturn false\n\t\t}\n\tdefault:\n\t\treturn true\n\t}\n\treturn true"},
		Control{Name: "neg-explicit-ListMarker-case", Props: []string{"C10"}, File: "html_renderer.go", Negative: true,
			Old: "\tcase ListItemKind:\n\t\tr.openTag(atom.Li)\n\tcase HTMLBlockKind:", New: "\tcase ListItemKind:\n\t\tr.openTag(atom.Li)\n\tcase ListMarkerKind:\n\t\treturn false\n\tcase HTMLBlockKind:"},
		Control{Name: "neg-em-strong-via-if-chain", Props: []string{"C10"}, File: "html_renderer.go", Negative: true,
			Old: "\tswitch inline.Kind() {\n\tcase EmphasisKind:\n\t\tr.closeTag(atom.Em)\n\tcase StrongKind:\n\t\tr.closeTag(atom.Strong)\n\tcase CodeSpanKind:", New: "\tif k := inline.Kind(); k == EmphasisKind {\n\t\tr.closeTag(atom.Em)\n\t\treturn true\n\t} else if k == StrongKind {\n\t\tr.closeTag(atom.Strong)\n\t\treturn true\n\t}\n\tswitch inline.Kind() {\n\tcase CodeSpanKind:"},
	)
}
