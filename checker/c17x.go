package main

// c17x.go — FR-TAGSKIP and TAGNAME-SET: the tag branch of filterRaw's scanner agrees with an HTML tokenizer on
// (a) where a `<` opens markup at all, (b) that the skip ends no later than the first `>`, and (c) where a tag name ends.

import (
	"fmt"
	"go/token"
	"go/types"
	"sort"

	"golang.org/x/tools/go/ssa"
)

// frScanLoop finds `for i < len(param)` in fn and returns its header and index phi.
func frScanLoop(fn *ssa.Function) (*natLoop, *ssa.Phi) {
	for _, l := range naturalLoops(fn) {
		l := l
		iff := blockIf(l.header)
		if iff == nil {
			continue
		}
		if bo, ok := iff.Cond.(*ssa.BinOp); ok && bo.Op == token.LSS {
			if ph, ok := bo.X.(*ssa.Phi); ok && ph.Block() == l.header {
				if _, ok := isBuiltinCall(bo.Y, "len"); ok {
					return &l, ph
				}
			}
		}
	}
	return nil, nil
}

func isTagOpenByte(d int64) bool {
	return d >= 'a' && d <= 'z' || d >= 'A' && d <= 'Z' || d == '/' || d == '!' || d == '?'
}

func ruleFRTagSkip(c *Ctx) {
	c.Rule("FR-TAGSKIP", "In filterRaw, every advance of the scan index that is not a constant step (the jump over a tag) is (open) taken only when the byte after `<` is one an HTML tokenizer accepts as opening markup — an ASCII letter, `/`, `!` or `?` (exact set by BSET path-conditioning on that byte); for any other byte the tokenizer emits `<` as text and goes on scanning, so a tag before the next `>` would be live but never shown to the predicate; (esc) is not taken on a path that has written `&lt;` for this `<` — the escaped tag's text is data for a tokenizer, which finds tags in it — and (end) lands on the first `>` after the `<` or at the end of the input: the value is built only from len(input) and the result of bytes.IndexByte(input[from:], '>') with from at the cursor — a later end (quote-aware scanning, for instance) can hide a tag an HTML tokenizer sees.")
	p := c.P
	theProgram = p
	fn := p.Method("renderState", "filterRaw")
	if !c.NeedFunc("FR-TAGSKIP", fn, "(*renderState).filterRaw") {
		return
	}
	loop, idx := frScanLoop(fn)
	if loop == nil {
		c.Undecided("FR-TAGSKIP", "filterRaw:loop", fn.Pos(), "scanning loop `for i < len(rawHTML)` not recognised")
		return
	}
	var input ssa.Value
	if iff := blockIf(loop.header); iff != nil {
		if call, ok := isBuiltinCall(iff.Cond.(*ssa.BinOp).Y, "len"); ok {
			input = call.Call.Args[0]
		}
	}
	// collect the non-constant-step values flowing back into idx, with the predecessor block each comes from
	type jump struct {
		v   ssa.Value
		src *ssa.BasicBlock
	}
	var jumps []jump
	var expand func(v ssa.Value, src *ssa.BasicBlock, seen map[ssa.Value]bool)
	expand = func(v ssa.Value, src *ssa.BasicBlock, seen map[ssa.Value]bool) {
		if seen[v] {
			return
		}
		seen[v] = true
		if v == ssa.Value(idx) {
			return
		}
		if bo, ok := v.(*ssa.BinOp); ok && bo.Op == token.ADD && bo.X == ssa.Value(idx) {
			if _, isC := constInt(bo.Y); isC {
				return
			}
		}
		if ph, ok := v.(*ssa.Phi); ok && ph != idx && loop.body[ph.Block()] {
			// a phi inside the loop joining several advances: look at each
			allStep := true
			for _, e := range ph.Edges {
				if e == ssa.Value(idx) {
					continue
				}
				if bo, ok := e.(*ssa.BinOp); ok && bo.Op == token.ADD && bo.X == ssa.Value(idx) {
					if _, isC := constInt(bo.Y); isC {
						continue
					}
				}
				allStep = false
			}
			if allStep {
				return
			}
			// is this phi itself the tag end (len | from+j+1)? then it is one jump, defined where the phi is
			jumps = append(jumps, jump{v, src})
			return
		}
		jumps = append(jumps, jump{v, src})
	}
	for i, pr := range loop.header.Preds {
		if loop.header.Dominates(pr) {
			expand(idx.Edges[i], pr, map[ssa.Value]bool{})
		}
	}
	if len(jumps) == 0 {
		c.OK("FR-TAGSKIP", "filterRaw:no-jump", fn.Pos(), "the scan index only ever advances by constant steps: every `<` is examined")
		return
	}
	bs := newBSET(p)
	// the byte after '<': a load of input[idx+1]
	isNext := func(v ssa.Value) bool {
		ld, ok := v.(*ssa.UnOp)
		if !ok || ld.Op != token.MUL {
			return false
		}
		ia, ok := ld.X.(*ssa.IndexAddr)
		if !ok {
			return false
		}
		root, base, k, ok := elementPos(ia)
		return ok && (root == input || sameTerm(root, input)) && base == ssa.Value(idx) && k == 1
	}
	reach := bs.reachUnderSym(fn, isNext, byteDomain())
	for n, j := range jumps {
		key := fmt.Sprintf("filterRaw:jump#%d", n+1)
		pos := j.src.Instrs[len(j.src.Instrs)-1].Pos()
		if in, ok := j.v.(ssa.Instruction); ok && in.Pos().IsValid() {
			pos = in.Pos()
		}
		if !pos.IsValid() {
			pos = firstPos([]*ssa.BasicBlock{j.src})
		}
		// (open)
		var bad []int64
		for d := range reach[j.src] {
			if !isTagOpenByte(d) {
				bad = append(bad, d)
			}
		}
		sort.Slice(bad, func(a, b int) bool { return bad[a] < bad[b] })
		c.Check(len(bad) == 0 && len(reach[j.src]) > 0, "FR-TAGSKIP", key+":open", pos,
			"the scanner jumps to the next `>` although the byte after `<` does not open markup for an HTML tokenizer: "+describeSet(bad, true)+" — e.g. `<3 <script>` keeps a live <script> that the predicate never sees")
		// (esc) the jump is not taken on a path that escaped this '<'
		escaped := false
		for b := range loop.body {
			for ii, in := range b.Instrs {
				call, isApp := isBuiltinCall(asValue(in), "append")
				if !isApp || len(call.Call.Args) < 2 {
					continue
				}
				if s, ok := constString(call.Call.Args[1]); !ok || s != "&lt;" {
					continue
				}
				// does control reach the jump's source block from here within the same iteration?
				if b == j.src {
					escaped = true
					continue
				}
				_ = ii
				stop := map[*ssa.BasicBlock]bool{loop.header: true}
				for _, sb := range b.Succs {
					if sb == j.src || reachableBlocks(sb, stop)[j.src] {
						if sb != loop.header {
							escaped = true
						}
					}
				}
			}
		}
		c.Check(!escaped, "FR-TAGSKIP", key+":esc", pos, "the scanner jumps to the tag's `>` also after it has written `&lt;` for this `<`: an HTML tokenizer reads the text of the escaped tag as data and finds tags in it (`<script <xmp>` becomes `&lt;script <xmp>` with a live <xmp> the predicate never sees); after escaping, scanning has to go on right after the `<`")
		// (end)
		ok, why := tagEndShape(j.v, input, idx)
		if ok {
			c.OK("FR-TAGSKIP", key+":end", pos, "jump target is the first `>` after the cursor, or the end of the input")
		} else {
			c.Viol("FR-TAGSKIP", key+":end", pos, "the jump target is not the first `>` after `<` (or the end of the input): "+why)
		}
	}
}

// tagEndShape: v is built only from len(input), the cursor, constants and bytes.IndexByte(input[from:], '>') with from = cursor + const.
func tagEndShape(v ssa.Value, input ssa.Value, idx *ssa.Phi) (bool, string) {
	ok, why, saw := tagEndShapeIn(v, input, idx, 0)
	if ok && !saw {
		return false, "no search for '>' contributes to it"
	}
	return ok, why
}

func tagEndShapeIn(v ssa.Value, input ssa.Value, idx *ssa.Phi, depth int) (bool, string, bool) {
	sawIndex := false
	seen := map[ssa.Value]bool{}
	var w func(v ssa.Value, env *callEnv) (bool, string)
	isInput := func(v ssa.Value, env *callEnv) bool {
		r, renv := env.resolve(v)
		return renv == nil && r == input
	}
	w = func(v ssa.Value, env *callEnv) (bool, string) {
		v, env = env.resolve(v)
		if seen[v] {
			return true, ""
		}
		seen[v] = true
		if env == nil && idx != nil && v == ssa.Value(idx) {
			return true, ""
		}
		switch x := v.(type) {
		case *ssa.Const:
			return true, ""
		case *ssa.Phi:
			for _, e := range x.Edges {
				if ok, why := w(e, env); !ok {
					return false, why
				}
			}
			return true, ""
		case *ssa.BinOp:
			if x.Op != token.ADD {
				return false, "arithmetic other than addition: " + x.String()
			}
			if ok, why := w(x.X, env); !ok {
				return false, why
			}
			return w(x.Y, env)
		case *ssa.Call:
			if call, ok := isBuiltinCall(x, "len"); ok {
				if isInput(call.Call.Args[0], env) {
					return true, ""
				}
				return false, "length of something other than the input"
			}
			f := x.Call.StaticCallee()
			if f != nil && f.Pkg != nil && f.Pkg.Pkg.Path() == "bytes" && f.Name() == "IndexByte" {
				k, isC := constInt(x.Call.Args[1])
				if !isC || k != '>' {
					return false, "the byte searched for is not '>'"
				}
				if isInput(x.Call.Args[0], env) {
					sawIndex = true
					return true, ""
				}
				sl, isSl := x.Call.Args[0].(*ssa.Slice)
				if !isSl {
					return false, "the search does not run over the rest of the input"
				}
				if !isInput(sl.X, env) || sl.High != nil {
					// a re-slice of a re-slice: input[i:][1:]
					root, base, k, okR := sliceRoot(sl)
					if !okR || !isInput(root, env) {
						return false, "the search does not run over the rest of the input"
					}
					if !searchStartOKOff(base, k, env, idx) {
						return false, "the search for '>' starts later than the byte after `<`"
					}
					sawIndex = true
					return true, ""
				}
				if sl.Low != nil && !searchStartOK(sl.Low, env, idx) {
					return false, "the search for '>' starts later than the byte after `<`"
				}
				sawIndex = true
				return true, ""
			}
			// a module helper applied to the rest of the input: its results must have the same shape, relative to its parameter
			if f != nil && f.Blocks != nil && len(x.Call.Args) == 1 && len(f.Params) == 1 && depth < 2 {
				if sl, isSl := x.Call.Args[0].(*ssa.Slice); isSl && isInput(sl.X, env) && sl.High == nil {
					if sl.Low != nil && !searchStartOK(sl.Low, env, idx) {
						return false, "the search for '>' starts later than the byte after `<`"
					}
					for _, r := range returnsOf(f) {
						if len(r.Results) != 1 {
							return false, "helper " + f.Name() + " has several results"
						}
						ok, why, saw := tagEndShapeIn(r.Results[0], f.Params[0], nil, depth+1)
						if !ok {
							return false, "in " + f.Name() + ": " + why
						}
						if saw {
							sawIndex = true
						}
					}
					return true, ""
				}
			}
		}
		// a result of a module helper that receives the input and the cursor as they are (the tag branch moved into a method)
		if rets, cenv, ok := calleeResultsAny(v, env); ok {
			for _, rv := range rets {
				if ok, why := w(rv, cenv); !ok {
					return false, why
				}
			}
			return true, ""
		}
		return false, fmt.Sprintf("depends on %s", v.String())
	}
	ok, why := w(v, nil)
	return ok, why, sawIndex
}

var theProgram *Program // set by the rule that uses tagEndShape

// calleeResultsAny is calleeResults without the module test (the caller only reaches module code).
func calleeResultsAny(v ssa.Value, outer *callEnv) ([]ssa.Value, *callEnv, bool) {
	return calleeResults(theProgram, v, outer)
}

// searchStartOK: low is the cursor or the cursor plus one (the byte after `<`), possibly seen through helper
// parameters; inside a single-argument search helper (idx == nil, env == nil) it is 0.
// searchStartOKOff: the start base + extra (base nil: the constant extra).
func searchStartOKOff(base ssa.Value, extra int64, env *callEnv, idx *ssa.Phi) bool {
	if base == nil {
		return idx == nil && env == nil && extra == 0
	}
	return searchStartOKWith(base, extra, env, idx)
}

func searchStartOK(low ssa.Value, env *callEnv, idx *ssa.Phi) bool {
	return searchStartOKWith(low, 0, env, idx)
}

func searchStartOKWith(low ssa.Value, extra int64, env *callEnv, idx *ssa.Phi) bool {
	var off func(v ssa.Value, env *callEnv, d int) (int64, bool)
	off = func(v ssa.Value, env *callEnv, d int) (int64, bool) {
		v, env = env.resolve(v)
		if d > 6 {
			return 0, false
		}
		if env == nil && idx != nil && v == ssa.Value(idx) {
			return 0, true
		}
		if bo, ok := v.(*ssa.BinOp); ok && bo.Op == token.ADD {
			if k, ok := constInt(bo.Y); ok {
				b, ok := off(bo.X, env, d+1)
				return b + k, ok
			}
			if k, ok := constInt(bo.X); ok {
				b, ok := off(bo.Y, env, d+1)
				return b + k, ok
			}
		}
		return 0, false
	}
	if k, ok := constInt(low); ok {
		return idx == nil && env == nil && k+extra == 0
	}
	k, ok := off(low, env, 0)
	k += extra
	return ok && k >= 0 && k <= 1
}

// TAGNAME-SET: the function that measures the tag name handed to FilterTag stops at every byte that ends a tag name
// for an HTML tokenizer.
func ruleTagNameSet(c *Ctx) {
	c.Rule("TAGNAME-SET", "The name filterRaw hands to FilterTag is measured by a module function (resolved from the slice bounds of the FilterTag argument). In its scanning loop the set of bytes on which the name continues (exact, by BSET path-conditioning on the scanned byte) contains none of the bytes that end a tag name for an HTML tokenizer: tab, line feed, form feed, carriage return, space, `/`, `>`. Otherwise `<script\\f>` is asked about as \"script\\f\" and stays live.")
	p := c.P
	fn := p.Method("renderState", "filterRaw")
	if !c.NeedFunc("TAGNAME-SET", fn, "(*renderState).filterRaw") {
		return
	}
	// candidates: module functions called in filterRaw (or in helpers it calls) with a []byte argument returning int,
	// whose result flows into the high bound of a slice that reaches a FilterTag call
	measurers := map[*ssa.Function]bool{}
	var visitFn func(f *ssa.Function, depth int)
	seenFn := map[*ssa.Function]bool{}
	visitFn = func(f *ssa.Function, depth int) {
		if f == nil || seenFn[f] || depth > 3 || !p.InModule(f) {
			return
		}
		seenFn[f] = true
		eachInstr(f, func(in ssa.Instruction) {
			call, ok := in.(*ssa.Call)
			if !ok {
				return
			}
			if call.Call.IsInvoke() {
				return
			}
			// FilterTag call: dynamic call through a field of func type
			if call.Call.StaticCallee() == nil {
				if ld, ok := call.Call.Value.(*ssa.UnOp); ok {
					if fa, ok := ld.X.(*ssa.FieldAddr); ok {
						if _, fld, _ := fieldAddrInfo(fa); fld == "FilterTag" && len(call.Call.Args) == 1 {
							// walk back from the argument to slice highs
							seen := map[ssa.Value]bool{}
							var w func(v ssa.Value, d int)
							w = func(v ssa.Value, d int) {
								if v == nil || seen[v] || d > 8 {
									return
								}
								seen[v] = true
								switch x := v.(type) {
								case *ssa.Parameter:
									// the name reaches the predicate through a helper's parameter: look at every call site
									hf := x.Parent()
									for i, q := range hf.Params {
										if q != x {
											continue
										}
										for _, g := range p.Funcs {
											eachInstr(g, func(y ssa.Instruction) {
												if cl, ok := y.(*ssa.Call); ok && cl.Call.StaticCallee() == hf && i < len(cl.Call.Args) {
													w(cl.Call.Args[i], d+1)
												}
											})
										}
									}
								case *ssa.Slice:
									w(x.High, d+1)
									w(x.X, d+1)
								case *ssa.BinOp:
									w(x.X, d+1)
									w(x.Y, d+1)
								case *ssa.Phi:
									// not through loop-carried variables (the scan cursor itself)
									for _, pr := range x.Block().Preds {
										if x.Block().Dominates(pr) {
											return
										}
									}
									for _, e := range x.Edges {
										w(e, d+1)
									}
								case *ssa.Call:
									if g := x.Call.StaticCallee(); g != nil && p.InModule(g) {
										if bt, ok := x.Type().Underlying().(*types.Basic); ok && bt.Kind() == types.Int {
											measurers[g] = true
											return
										}
										for _, a := range x.Call.Args {
											w(a, d+1)
										}
									}
								}
							}
							w(call.Call.Args[0], 0)
						}
					}
				}
				return
			}
			visitFn(call.Call.StaticCallee(), depth+1)
		})
	}
	visitFn(fn, 0)
	if len(measurers) == 0 {
		c.Undecided("TAGNAME-SET", "filterRaw:name-end", fn.Pos(), "no module function measuring the tag name handed to FilterTag was found")
		return
	}
	terminators := []int64{'\t', '\n', '\f', '\r', ' ', '/', '>'}
	bs := newBSET(p)
	var ms []*ssa.Function
	for m := range measurers {
		ms = append(ms, m)
	}
	sort.Slice(ms, func(i, j int) bool { return ms[i].Name() < ms[j].Name() })
	for _, m := range ms {
		loops := naturalLoops(m)
		n := 0
		for li, l := range loops {
			l := l
			// scanned byte: loads of param[i] with i a phi of this loop's header
			var param ssa.Value
			isScan := func(v ssa.Value) bool {
				ld, ok := v.(*ssa.UnOp)
				if !ok || ld.Op != token.MUL {
					return false
				}
				ia, ok := ld.X.(*ssa.IndexAddr)
				if !ok {
					return false
				}
				ph, ok := ia.Index.(*ssa.Phi)
				if !ok || ph.Block() != l.header {
					return false
				}
				if _, isP := ia.X.(*ssa.Parameter); !isP {
					return false
				}
				if param == nil {
					param = ia.X
				}
				return ia.X == param
			}
			found := false
			eachInstr(m, func(in ssa.Instruction) {
				if v, ok := in.(ssa.Value); ok && l.body[in.Block()] && isScan(v) {
					found = true
				}
			})
			if !found {
				continue
			}
			n++
			_, edges := bs.reachEdgesUnderSym(m, isScan, byteDomain())
			cont := map[int64]bool{}
			for _, latch := range l.latches {
				for d := range edges[[2]int{latch.Index, l.header.Index}] {
					cont[d] = true
				}
			}
			var bad []int64
			for _, t := range terminators {
				if cont[t] {
					bad = append(bad, t)
				}
			}
			key := fmt.Sprintf("%s:loop#%d", shortFuncName(m), li+1)
			c.Check(len(bad) == 0 && len(cont) > 0 && len(cont) < 256, "TAGNAME-SET", key, m.Pos(),
				fmt.Sprintf("the tag name continues over %d byte values; among them bytes that end a tag name for an HTML tokenizer: %s", len(cont), describeSet(bad, true)))
		}
		if n == 0 {
			c.Undecided("TAGNAME-SET", shortFuncName(m)+":loop", m.Pos(), "no byte-scanning loop recognised in the function that measures the tag name")
		}
	}
}

// LOWER-TRANSIENT: the lower-cased name may live in the reusable scratch buffer; it must not be kept.
func ruleLowerTransient(c *Ctx) {
	c.Rule("LOWER-TRANSIENT", "maybeLower returns either its argument or the reusable scratch buffer, which the next call overwrites. Its result (followed through the parameters of module helpers it is passed to) is therefore only read — passed to FilterTag, compared, measured — and never stored into a field, a variable that outlives the statement, a slice element or a map: a remembered name would silently change when the next tag is lower-cased (a memoised verdict then answers for the wrong tag).")
	p := c.P
	if len(theLowerFns) == 0 {
		c.Undecided("LOWER-TRANSIENT", "lowering-function", token.NoPos, "no lowering function identified by LOWER")
		return
	}
	isLower := func(f *ssa.Function) bool { return f != nil && theLowerFns[f] }
	var ml *ssa.Function
	for f := range theLowerFns {
		ml = f
	}
	n := 0
	var follow func(v ssa.Value, fn *ssa.Function, depth int, seen map[ssa.Value]bool) (bool, string, ssa.Instruction)
	follow = func(v ssa.Value, fn *ssa.Function, depth int, seen map[ssa.Value]bool) (bool, string, ssa.Instruction) {
		if seen[v] || depth > 4 {
			return true, "", nil
		}
		seen[v] = true
		for _, r := range refsOf(v) {
			switch x := r.(type) {
			case *ssa.Store:
				if x.Val == v {
					if al, ok := x.Addr.(*ssa.Alloc); ok && !al.Heap {
						continue // a plain local
					}
					return false, "stored into memory: " + x.Addr.String(), x
				}
			case *ssa.MapUpdate:
				return false, "stored into a map", x
			case *ssa.Phi, *ssa.Slice, *ssa.ChangeType, *ssa.Convert:
				if ok, why, at := follow(x.(ssa.Value), fn, depth, seen); !ok {
					return false, why, at
				}
			case *ssa.MakeInterface:
				return false, "boxed into an interface", x
			case ssa.CallInstruction:
				g := x.Common().StaticCallee()
				if g == nil || !p.InModule(g) || g.Blocks == nil {
					continue // FilterTag (dynamic), bytes.Equal, len, ...: reads
				}
				for i, a := range x.Common().Args {
					if a == v && i < len(g.Params) {
						if ok, why, at := follow(g.Params[i], g, depth+1, seen); !ok {
							return false, why, at
						}
					}
				}
			case *ssa.Return:
				// returned to the caller: follow the call results
				for _, caller := range p.Funcs {
					var bad ssa.Instruction
					var badWhy string
					eachInstr(caller, func(y ssa.Instruction) {
						if cl, ok := y.(*ssa.Call); ok && cl.Call.StaticCallee() == fn && !isLower(fn) {
							if ok2, why, at := follow(cl, caller, depth+1, seen); !ok2 {
								bad, badWhy = at, why
							}
						}
					})
					if bad != nil {
						return false, badWhy, bad
					}
				}
			}
		}
		return true, "", nil
	}
	for _, fn := range p.Funcs {
		eachInstr(fn, func(in ssa.Instruction) {
			call, ok := in.(*ssa.Call)
			if !ok || !isLower(call.Call.StaticCallee()) {
				return
			}
			n++
			key := fmt.Sprintf("%s:maybeLower#%d", shortFuncName(fn), n)
			ok2, why, at := follow(call, fn, 0, map[ssa.Value]bool{})
			pos := in.Pos()
			if at != nil {
				pos = at.Pos()
			}
			c.Check(ok2, "LOWER-TRANSIENT", key, pos, "the lower-cased name is kept: "+why)
		})
	}
	if n < 1 {
		c.Undecided("LOWER-TRANSIENT", "instance-count", ml.Pos(), "the lowering function is never called")
	}
}
