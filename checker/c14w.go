package main

// C14 / C06 — WINDOW-SEARCH: a sliding search over a line finds a needle that ends at the line's last byte.

import (
	"fmt"
	"go/token"
	"go/types"

	"golang.org/x/tools/go/ssa"
)

func ruleWindowSearch(c *Ctx) {
	c.Rule("WINDOW-SEARCH", "In package commonmark, a loop that slides a window over a byte slice B looking for a string S — a counter i that starts at 0 and steps by one, whose body hands B[i:] and S to a predicate (a prefix test) — visits the last position at which S still fits: its bound is i <= len(B)-len(S) (or i+len(S) <= len(B)), not i < len(B)-len(S). The last line of an input need not end in a line ending, so the needle may be the line's very last bytes: with the strict bound the end marker of an HTML block ('-->', '?>', ']]>', '</pre>') is not seen on a last line without line ending, and the line is collected differently than when a final line ending is present.")
	p := c.P
	n := 0
	for _, fn := range p.Funcs {
		if fn.Pkg != p.CMs || fn.Blocks == nil {
			continue
		}
		for li, l := range naturalLoops(fn) {
			iff := blockIf(l.header)
			if iff == nil {
				continue
			}
			bo, ok := iff.Cond.(*ssa.BinOp)
			if !ok {
				continue
			}
			ph, ok := bo.X.(*ssa.Phi)
			if !ok || ph.Block() != l.header {
				continue
			}
			// counter: 0 at entry, +1 on the back edge
			unit := true
			for i, pr := range l.header.Preds {
				e := ph.Edges[i]
				if l.body[pr] {
					if b, k := linTerm(e); b != ssa.Value(ph) || k != 1 {
						unit = false
					}
				} else if k, ok := constInt(e); !ok || k != 0 {
					unit = false
				}
			}
			if !unit {
				continue
			}
			// bound: len(B) - len(S)
			sub, ok := bo.Y.(*ssa.BinOp)
			if !ok || sub.Op != token.SUB {
				continue
			}
			lb, ok1 := isBuiltinCall(sub.X, "len")
			ls, ok2 := isBuiltinCall(sub.Y, "len")
			if !ok1 || !ok2 {
				continue
			}
			B, S := lb.Call.Args[0], ls.Call.Args[0]
			if _, ok := B.Type().Underlying().(*types.Slice); !ok {
				continue
			}
			// body: some call with (slice B[i:], S)
			window := false
			for b := range l.body {
				for _, x := range b.Instrs {
					call, ok := x.(*ssa.Call)
					if !ok || len(call.Call.Args) < 2 {
						continue
					}
					var hasWin, hasS bool
					for _, a := range call.Call.Args {
						if sl, ok := a.(*ssa.Slice); ok && sl.X == B && sl.Low == ssa.Value(ph) && sl.High == nil {
							hasWin = true
						}
						if a == S {
							hasS = true
						}
					}
					if hasWin && hasS {
						window = true
					}
				}
			}
			if !window {
				continue
			}
			n++
			key := fmt.Sprintf("%s:loop#%d", shortFuncName(fn), li+1)
			c.Check(bo.Op == token.LEQ, "WINDOW-SEARCH", key, bo.Pos(), fmt.Sprintf("the window loop runs while i %s len(B)-len(S): the position at which the needle ends exactly at the end of the bytes is not tried", bo.Op))
		}
	}
	c.Analysed["window_search_loops"] = n
	if n < 1 {
		c.OK("WINDOW-SEARCH", "none", token.NoPos, "no hand-written sliding search in the package (library searches are not subject to this rule)")
	}
}

func init() {
	addControls(
		Control{Name: "contains-misses-needle-at-the-very-end", Props: []string{"C14", "C06"}, File: "parse.go",
			Old: "\tfor i := 0; i <= len(b)-len(search); i++ {\n\t\tif hasBytePrefix(b[i:], search) {", New: "\tfor i := 0; i < len(b)-len(search); i++ {\n\t\tif hasBytePrefix(b[i:], search) {", Expect: "WINDOW-SEARCH/contains",
			Why: "the defect repaired by /repo 8c34e2a: '<!--\\n\\t-->' without a final line ending copied the tab through, with one it rendered four spaces"},
		Control{Name: "neg-contains-via-bytes-index", Props: []string{"C14", "C06"}, File: "parse.go", Negative: true,
			Old: "\tfor i := 0; i <= len(b)-len(search); i++ {\n\t\tif hasBytePrefix(b[i:], search) {\n\t\t\treturn true\n\t\t}\n\t}\n\treturn false", New: "\treturn bytes.Index(b, []byte(search)) >= 0"},
	)
}
