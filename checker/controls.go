package main

// controls.go — in-situ self-validation of the checker: seeded edits of the real source applied through
// packages.Config.Overlay (nothing is written to /repo). A positive control must make the named rule report the
// seeded construct; a negative control is a behaviour-preserving edit on which every rule must stay silent.
// Controls test the checker, not the repository: if the anchor text of a control no longer exists it is skipped.

import (
	"encoding/json"
	"fmt"
	"os"
	"path/filepath"
	"runtime"
	"sort"
	"strings"
)

type Control struct {
	Name     string
	Props    []string
	File     string // relative to repo
	Old, New string
	Edits    [][2]string // additional replacements in the same file
	More     []fileEdits // replacements in further files
	Negative bool
	Expect   string // substring expected in the key (rule/construct) of a new violation
	Why      string
}

type fileEdits struct {
	File  string      `json:"file"`
	Edits [][2]string `json:"edits"`
}

type ControlResult struct {
	Name     string `json:"name"`
	Negative bool   `json:"negative"`
	Pass     bool   `json:"pass"`
	Skipped  bool   `json:"skipped"`
	Detail   string `json:"detail"`
}

var controls []Control

// jsonControl is the on-disk form of a control under <verif>/controls/*.json (written by diff2control.py from a
// unified diff: every hunk becomes one exact-text replacement, so a control still skips cleanly when its anchor moves).
type jsonControl struct {
	Name     string      `json:"name"`
	Props    []string    `json:"props"`
	File     string      `json:"file"`
	Edits    [][2]string `json:"edits"`
	More     []fileEdits `json:"more"`
	Negative bool        `json:"negative"`
	Expect   string      `json:"expect"`
	Why      string      `json:"why"`
}

var jsonControlsLoaded bool

// loadJSONControls adds the controls stored as JSON files (idempotent).
func loadJSONControls(verifDir string) {
	if jsonControlsLoaded {
		return
	}
	jsonControlsLoaded = true
	files, _ := filepath.Glob(filepath.Join(verifDir, "controls", "*.json"))
	sort.Strings(files)
	for _, f := range files {
		b, err := os.ReadFile(f)
		if err != nil {
			continue
		}
		var jc jsonControl
		if err := json.Unmarshal(b, &jc); err != nil || len(jc.Edits) == 0 {
			fmt.Fprintf(os.Stderr, "control file %s unreadable: %v\n", f, err)
			continue
		}
		controls = append(controls, Control{Name: jc.Name, Props: jc.Props, File: jc.File, Old: jc.Edits[0][0], New: jc.Edits[0][1], Edits: jc.Edits[1:], More: jc.More, Negative: jc.Negative, Expect: jc.Expect, Why: jc.Why})
	}
}

func addControls(cs ...Control) { controls = append(controls, cs...) }

// sharedControls: properties that are decided through rules of other properties re-use those rules' controls.
var sharedControls = map[string][]string{
	"C03": {"full-reference-no-resync", "inline-link-readers-after-resync", "offsettree-skips-infostring-children", "refdef-rest-at-eol-offset",
		"refdef-rest-skips-indent", "spanend-falls-back-to-source-length", "neg-offsettree-lifo-offsetspan-helper", "neg-finish-inline-link-helper"},
	"C06": {"isHex-upper-bound", "punctuation-drops-Pc", "seven-hashes-heading", "fence-needs-four-bytes", "underscore-key-constant",
		"no-rebase-after-match", "star-key-ignores-length", "list-accepts-any-child", "block-quote-accepts-items", "item-delimiter-constant",
		"strong-opens-b", "post-list-tags-swapped", "post-h5-closes-h6", "soft-break-space-renders-newline", "escapeHTML-forgets-lt",
		"Extract-last-definition-wins", "Extract-children-ascending", "ref-lowercased-instead-of-folded",
		"neg-isHex-via-IndexByte", "neg-em-strong-via-if-chain", "neg-canContain-as-switch", "neg-match-predicate-early-returns", "neg-Extract-exists-test-split"},
}

func controlApplies(ct Control, prop string) bool {
	for _, p := range ct.Props {
		if p == prop {
			return true
		}
	}
	for _, n := range sharedControls[prop] {
		if n == ct.Name {
			return true
		}
	}
	return false
}

func nonOKKeys(c *Ctx) map[string]Ob {
	m := map[string]Ob{}
	for _, o := range c.Obs {
		if o.Status != "ok" {
			m[o.Key()] = o
		}
	}
	return m
}

func runControls(repo, prop string) []ControlResult {
	var out []ControlResult
	pf := props[prop]
	var base map[string]Ob
	for _, ct := range controls {
		if !controlApplies(ct, prop) {
			continue
		}
		res := ControlResult{Name: ct.Name, Negative: ct.Negative}
		path := filepath.Join(repo, ct.File)
		src, err := os.ReadFile(path)
		if err != nil {
			res.Skipped, res.Detail = true, "file missing: "+ct.File
			out = append(out, res)
			continue
		}
		text := string(src)
		edits := append([][2]string{{ct.Old, ct.New}}, ct.Edits...)
		skip := false
		for _, e := range edits {
			if strings.Count(text, e[0]) < 1 {
				skip = true
				break
			}
			text = strings.Replace(text, e[0], e[1], 1)
		}
		overlay := map[string][]byte{path: []byte(text)}
		for _, fe := range ct.More {
			p2 := filepath.Join(repo, fe.File)
			b2, err := os.ReadFile(p2)
			if err != nil {
				skip = true
				break
			}
			t2 := string(b2)
			for _, e := range fe.Edits {
				if strings.Count(t2, e[0]) < 1 {
					skip = true
					break
				}
				t2 = strings.Replace(t2, e[0], e[1], 1)
			}
			overlay[p2] = []byte(t2)
		}
		if skip {
			res.Skipped, res.Detail = true, "anchor text not present in current tree"
			out = append(out, res)
			continue
		}
		if base == nil {
			p0, err := Load(LoadOpts{Repo: repo})
			if err != nil {
				res.Detail = "baseline load failed: " + err.Error()
				out = append(out, res)
				continue
			}
			c0 := NewCtx(p0, prop, "quick")
			pf(c0)
			base = nonOKKeys(c0)
		}
		p, err := Load(LoadOpts{Repo: repo, Overlay: overlay})
		if err != nil {
			res.Detail = "mutant does not load: " + err.Error()
			out = append(out, res)
			continue
		}
		cc := NewCtx(p, prop, "quick")
		func() {
			defer func() {
				if r := recover(); r != nil {
					cc.Undecided("PANIC", "checker", 0, fmt.Sprint(r))
				}
			}()
			pf(cc)
		}()
		var fresh []string
		hit := false
		for k, o := range nonOKKeys(cc) {
			if _, ok := base[k]; ok {
				continue
			}
			d := o.Detail
			if len(d) > 200 {
				d = d[:200] + "…"
			}
			fresh = append(fresh, k+" ["+o.Status+": "+d+"]")
			if strings.Contains(k, ct.Expect) {
				hit = true
			}
		}
		if ct.Negative {
			res.Pass = len(fresh) == 0
			if !res.Pass {
				res.Detail = "rule fired on a behaviour-preserving edit: " + strings.Join(fresh, "; ")
			} else {
				res.Detail = "silent"
			}
		} else {
			res.Pass = hit
			if hit {
				res.Detail = "reported: " + strings.Join(fresh, "; ")
			} else {
				res.Detail = fmt.Sprintf("expected a new report containing %q, got: %s", ct.Expect, strings.Join(fresh, "; "))
			}
		}
		out = append(out, res)
		p, cc = nil, nil
		runtime.GC()
	}
	return out
}

// runSelfTest runs all controls of the given properties (or of all) and prints a table; exit 1 on any failure.
func runSelfTest(repo, verif string, args []string) int {
	ids := args
	if len(ids) == 0 {
		for k := range props {
			ids = append(ids, k)
		}
	}
	rc := 0
	for _, id := range ids {
		for _, r := range runControls(repo, id) {
			st := "PASS"
			if r.Skipped {
				st = "SKIP"
			} else if !r.Pass {
				st = "FAIL"
				rc = 1
			}
			kind := "pos"
			if r.Negative {
				kind = "neg"
			}
			fmt.Printf("%s %s %s %-40s %s\n", st, id, kind, r.Name, r.Detail)
		}
	}
	return rc
}
