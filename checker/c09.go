package main

// c09.go — necessary structural conditions for C09 (quoting or list-indenting a document nests its blocks unchanged).
// The property as a whole is a metamorphic relation between two parses and is not decided. What is decided are three
// facts about the places where the inline phase sees text through container prefixes: a construct that runs over several
// lines must look the same with and without a "> " (or indentation) in front of every line only if
//   - its text is collected through the line-jumping reader over a node window that still holds the line the text starts
//     on (READER-WINDOW),
//   - what is left of a paragraph after a link reference definition starts where the reader stands, not at a byte offset
//     measured along the raw source (PARA-REST-START),
//   - no length limit is applied to a raw distance between two reader positions (READER-DIST).

import (
	"fmt"
	"go/token"
	"go/types"
	"sort"
	"strings"

	"golang.org/x/tools/go/ssa"
)

func init() {
	props["C09"] = checkC09
}

func checkC09(c *Ctx) {
	c.Assume("only three necessary conditions about reading inline text through container prefixes are decided; that the block phase strips the same prefix from every line of a container, and everything else behind the metamorphic relation, is behavioural and not decided")
	ruleReaderWindow(c, "C09")
	ruleParaRestStart(c)
	ruleReaderDist(c)
	ruleStartNonBlank(c)
	ruleEdgeLine(c)
	ruleCollectBound(c)
	ruleFenceIndent(c)
}

// readerCtor reports a call that builds an inlineByteReader from a node window and a position:
// a module function returning *inlineByteReader with one []*Inline and one int argument.
func readerCtor(p *Program, in ssa.Instruction) (call *ssa.Call, window, pos ssa.Value, ok bool) {
	call, isCall := in.(*ssa.Call)
	if !isCall {
		return nil, nil, nil, false
	}
	g := call.Call.StaticCallee()
	if g == nil || !p.InModule(g) || g.Signature.Results().Len() != 1 || typeName(deref(g.Signature.Results().At(0).Type())) != "inlineByteReader" {
		return nil, nil, nil, false
	}
	for _, a := range call.Call.Args {
		switch t := a.Type().Underlying().(type) {
		case *types.Slice:
			if typeName(deref(t.Elem())) == "Inline" {
				window = a
			}
		case *types.Basic:
			if t.Kind() == types.Int {
				pos = a
			}
		}
	}
	return call, window, pos, window != nil && pos != nil
}

// restWindow: v is state.unparsed[state.unparsedPos:] (possibly through phis of one such slice); returns the Slice instruction.
func restWindow(v ssa.Value) (*ssa.Slice, bool) {
	sl, ok := v.(*ssa.Slice)
	if !ok || sl.Low == nil {
		return nil, false
	}
	if _, ok := isLoadOfField(sl.X, "inlineState", "unparsed"); !ok {
		return nil, false
	}
	if _, ok := isLoadOfField(sl.Low, "inlineState", "unparsedPos"); !ok {
		return nil, false
	}
	return sl, true
}

// scannerSources collects the module calls returning spans (a Span, or a struct holding Spans) from whose results the
// integer v is computed: through arithmetic, phis, field selections, and loads of fields of a local struct variable
// that was assigned such a result.
func scannerSources(p *Program, v ssa.Value) []*ssa.Call {
	var out []*ssa.Call
	seen := map[ssa.Value]bool{}
	var walk func(v ssa.Value, d int)
	rootAlloc := func(a ssa.Value) *ssa.Alloc {
		for d := 0; d < 8; d++ {
			switch x := a.(type) {
			case *ssa.FieldAddr:
				a = x.X
			case *ssa.Alloc:
				return x
			default:
				return nil
			}
		}
		return nil
	}
	walk = func(v ssa.Value, d int) {
		if v == nil || seen[v] || d > 12 {
			return
		}
		seen[v] = true
		switch x := v.(type) {
		case *ssa.BinOp:
			walk(x.X, d+1)
			walk(x.Y, d+1)
		case *ssa.Phi:
			// a loop-carried position is the tokenizer's own cursor, kept in step with the line cursor (RESYNC);
			// only positions handed over within one iteration are followed
			for _, pr := range x.Block().Preds {
				if x.Block().Dominates(pr) {
					return
				}
			}
			for _, e := range x.Edges {
				walk(e, d+1)
			}
		case *ssa.Convert:
			walk(x.X, d+1)
		case *ssa.Field:
			walk(x.X, d+1)
		case *ssa.Extract:
			walk(x.Tuple, d+1)
		case *ssa.Call:
			if g := x.Call.StaticCallee(); g != nil && p.InModule(g) && g.Signature.Results().Len() >= 1 && containsSpan(g.Signature.Results().At(0).Type(), 0) {
				out = append(out, x)
			}
		case *ssa.UnOp:
			if x.Op != token.MUL {
				walk(x.X, d+1)
				return
			}
			al := rootAlloc(x.X)
			if al == nil {
				return
			}
			// every value stored into the local variable or one of its fields
			var refs func(a ssa.Value, dd int)
			refs = func(a ssa.Value, dd int) {
				if dd > 4 {
					return
				}
				for _, r := range refsOf(a) {
					switch y := r.(type) {
					case *ssa.Store:
						if y.Addr == a {
							walk(y.Val, d+1)
						}
					case *ssa.FieldAddr:
						refs(y, dd+1)
					}
				}
			}
			refs(al, 0)
		}
	}
	walk(v, 0)
	return out
}

// READER-WINDOW
func ruleReaderWindow(c *Ctx, prop string) {
	c.Rule("READER-WINDOW", "The inline phase reads a construct that may run over several lines through a reader over a window of the container's line nodes; the reader finds its position in the window by searching forward, and where it cannot find it, everything up to the requested end is taken as one run of text — container prefixes ('> ', indentation) of the lines in between included, backslash escapes and character references on them not looked at. Hence: where a reader over the remaining lines state.unparsed[state.unparsedPos:] is built at a position that a scanner returned, the window is taken before the line cursor state.unparsedPos is moved to that scanner's end — either the window slice is evaluated before the scanner call, or no store of the cursor (direct, or in a callee that is handed the state, the scanner included) lies on a path from the scanner call to it.")
	p := c.P
	_, isResync := resyncInfo(p)
	n := 0
	for _, top := range p.Funcs {
		if top.Pkg != p.CMs || top.Parent() != nil {
			continue
		}
		for _, fn := range withAnons(top) {
			if fn.Blocks == nil {
				continue
			}
			dom := func(a, b ssa.Instruction) bool { // a executes before b on every path to b
				if a.Block() == b.Block() {
					return instrIndex(a) < instrIndex(b)
				}
				return a.Block().Dominates(b.Block())
			}
			site := 0
			eachInstr(fn, func(in ssa.Instruction) {
				var call *ssa.Call
				var pos ssa.Value
				var wi ssa.Instruction
				if cc, w, ps, ok := readerCtor(p, in); ok {
					sl, ok := restWindow(w)
					if !ok {
						return
					}
					call, pos, wi = cc, ps, sl
				} else if cc, ps, ok := restReaderWrapperCall(p, in); ok {
					// a helper that builds the reader over the remaining lines: the window is taken when it is called
					call, pos, wi = cc, ps, cc
				} else {
					return
				}
				srcs := scannerSources(p, pos)
				if len(srcs) == 0 {
					return
				}
				site++
				n++
				var names []string
				bad := ""
				for _, s := range srcs {
					names = append(names, s.Call.StaticCallee().Name())
					if s.Parent() != fn {
						continue
					}
					if dom(wi, s) {
						continue
					}
					// search forward from the scanner call; the scanner itself counts
					type st struct {
						b *ssa.BasicBlock
						r bool
					}
					seen := map[st]bool{}
					hit := false
					var run func(b *ssa.BasicBlock, from int, resynced bool)
					run = func(b *ssa.BasicBlock, from int, resynced bool) {
						for _, x := range b.Instrs[from:] {
							if x == ssa.Instruction(s) {
								return
							}
							if x == wi && resynced {
								hit = true
								return
							}
							if isResync(x) {
								resynced = true
							}
						}
						for _, nb := range b.Succs {
							k := st{nb, resynced}
							if !seen[k] {
								seen[k] = true
								run(nb, 0, resynced)
							}
						}
					}
					run(s.Block(), instrIndex(s)+1, isResync(s))
					if hit {
						bad = fmt.Sprintf("the window of the reader built at a position returned by %s is state.unparsed[state.unparsedPos:] taken after the line cursor was moved (by %s itself, or between it and the slice): a part of the construct that lies on an earlier line is not found in the window and is collected as one raw run", s.Call.StaticCallee().Name(), s.Call.StaticCallee().Name())
					}
				}
				sort.Strings(names)
				key := fmt.Sprintf("%s:reader#%d(%s)", shortFuncName(fn), site, strings.Join(uniqStrings(names), ","))
				c.Check(bad == "", "READER-WINDOW", key, call.Pos(), bad)
			})
		}
	}
	c.Analysed["readers_over_remaining_lines_at_scanner_positions"] = n
	if n < 1 {
		c.Undecided("READER-WINDOW", "instance-count", token.NoPos, "no reader over state.unparsed[state.unparsedPos:] at a scanner-returned position was found; the rule recognises nothing")
	}
}

func uniqStrings(in []string) []string {
	var out []string
	for i, s := range in {
		if i == 0 || s != in[i-1] {
			out = append(out, s)
		}
	}
	return out
}

// PARA-REST-START
//
// pathHits reports whether some CFG path from (after) instruction from to instruction to executes an instruction
// satisfying hit on the way, without executing from again.
func pathHits(from, to ssa.Instruction, hit func(ssa.Instruction) bool) bool {
	type st struct {
		b *ssa.BasicBlock
		h bool
	}
	seen := map[st]bool{}
	found := false
	var run func(b *ssa.BasicBlock, start int, h bool)
	run = func(b *ssa.BasicBlock, start int, h bool) {
		for _, x := range b.Instrs[start:] {
			if x == from {
				return
			}
			if x == to {
				if h {
					found = true
				}
				return
			}
			if hit(x) {
				h = true
			}
		}
		for _, nb := range b.Succs {
			k := st{nb, h}
			if !seen[k] && !found {
				seen[k] = true
				run(nb, 0, h)
			}
		}
	}
	run(from.Block(), instrIndex(from)+1, false)
	return found
}

func ruleParaRestStart(c *Ctx) {
	c.Rule("PARA-REST-START", "Where a paragraph's onClose hook splits leading link reference definitions off a paragraph, what remains starts where the line-jumping reader stood right after the line ending that ends the definition. (provenance) Every value stored into the Start of the remaining block's span — followed through a helper's parameter to its call sites — is a load of an inlineByteReader's pos field (of the reader or of a saved copy), possibly clamped to the Start of the first child kept; never a value returned as 'end of line' (a raw offset that differs from the reader's position by the container prefix of the next line), never a position adjusted by a byte count. (pairing) That position belongs to the same moment as the End given to the definition block just before: if End is the result of an end-of-line scan E over reader r, the position is r.pos with no call that is handed r between E and the load, or the pos of a copy of *r made after E with no such call in between. (children) The children kept are looked up at that same position. (resume) Where that position comes from a saved copy and the reader has been used since the copy was taken, the copy is put back into the reader before the reader is used again.")
	p := c.P
	n := 0
	readerPosLoad := func(v ssa.Value) (*ssa.UnOp, ssa.Value, bool) { // the load, and the reader (pointer or local copy) it reads
		fa, ok := isLoadOfField(v, "inlineByteReader", "pos")
		if !ok {
			return nil, nil, false
		}
		return v.(*ssa.UnOp), fa.X, true
	}
	posStoreSet := mayStoreFieldSet(p, "inlineByteReader", "pos")
	type site struct {
		fn  *ssa.Function
		at  ssa.Instruction // the store, or the call of the helper that stores
		val ssa.Value
		key string
		rdr ssa.Value // set when the position is read, inside a helper, from a reader handed to it: the reader argument
	}
	var sites []site
	for _, fn := range p.Funcs {
		if fn.Pkg != p.CMs || fn.Blocks == nil {
			continue
		}
		eachInstr(fn, func(in ssa.Instruction) {
			st, ok := in.(*ssa.Store)
			if !ok {
				return
			}
			fa, ok := st.Addr.(*ssa.FieldAddr)
			if !ok {
				return
			}
			if tn, f, _ := fieldAddrInfo(fa); tn != "Span" || f != "Start" {
				return
			}
			inner, ok := fa.X.(*ssa.FieldAddr)
			if !ok {
				return
			}
			if tn, f, _ := fieldAddrInfo(inner); tn != "Block" || f != "span" {
				return
			}
			blk, ok := spilledParam(inner.X)
			if !ok {
				return
			}
			// only blocks handed in from outside: the paragraph being closed (onClose hooks and their helpers)
			hook := false
			if fn.Signature.Params().Len() == 2 && fn.Signature.Results().Len() == 1 {
				if sl, ok := fn.Signature.Results().At(0).Type().Underlying().(*types.Slice); ok && typeName(deref(sl.Elem())) == "Block" {
					hook = true
				}
			}
			var leaves []ssa.Value
			seen := map[ssa.Value]bool{}
			var w func(v ssa.Value)
			w = func(v ssa.Value) {
				if seen[v] {
					return
				}
				seen[v] = true
				if ph, ok := v.(*ssa.Phi); ok {
					for _, e := range ph.Edges {
						w(e)
					}
					return
				}
				leaves = append(leaves, v)
			}
			w(st.Val)
			for _, lf := range leaves {
				if k := termKey(lf, 0); strings.Contains(k, "inlineChildren") && strings.HasSuffix(k, ".Start") {
					continue // clamped to the first child kept
				}
				if q, ok := lf.(*ssa.Parameter); ok && !hook {
					// follow the helper's parameter to the call sites, where the block argument is itself a hook's block
					pi := -1
					bi := -1
					for i, fp := range fn.Params {
						if fp == q {
							pi = i
						}
						if fp == blk {
							bi = i
						}
					}
					for _, caller := range p.Funcs {
						eachInstr(caller, func(x ssa.Instruction) {
							cl, ok := x.(*ssa.Call)
							if !ok || cl.Call.StaticCallee() != fn || pi >= len(cl.Call.Args) || bi >= len(cl.Call.Args) {
								return
							}
							n++
							sites = append(sites, site{fn: caller, at: cl, val: cl.Call.Args[pi], key: fmt.Sprintf("%s:rest.span.Start#%d(via %s)", shortFuncName(caller), n, fn.Name())})
						})
					}
					continue
				}
				if !hook {
					// the helper reads the position from a reader it is handed: follow the reader to the call sites
					if _, rdv, ok := readerPosLoad(lf); ok {
						if rq, ok := rdv.(*ssa.Parameter); ok {
							ri := -1
							for i, fp := range fn.Params {
								if fp == rq {
									ri = i
								}
							}
							for _, caller := range p.Funcs {
								eachInstr(caller, func(x ssa.Instruction) {
									cl, ok := x.(*ssa.Call)
									if !ok || cl.Call.StaticCallee() != fn || ri < 0 || ri >= len(cl.Call.Args) {
										return
									}
									n++
									sites = append(sites, site{fn: caller, at: cl, val: nil, key: fmt.Sprintf("%s:rest.span.Start#%d(via %s)", shortFuncName(caller), n, fn.Name()), rdr: cl.Call.Args[ri]})
								})
							}
							continue
						}
					}
					return
				}
				n++
				sites = append(sites, site{fn: fn, at: st, val: lf, key: fmt.Sprintf("%s:rest.span.Start#%d", shortFuncName(fn), n)})
			}
		})
	}
	for _, s := range sites {
		var ld ssa.Instruction
		var rd ssa.Value
		ok := false
		if s.rdr != nil {
			ld, rd, ok = s.at, s.rdr, true
		} else if l, r, k := readerPosLoad(s.val); k {
			ld, rd, ok = l, r, true
		}
		if !ok {
			c.Viol("PARA-REST-START", s.key, s.at.Pos(), "the rest of the paragraph starts at "+describeValue(s.val)+", which is not the reader's position after the definition")
			continue
		}
		// pairing with the End of the definition block set just before
		var endStore *ssa.Store
		for b := s.at.Block(); b != nil && endStore == nil; b = b.Idom() {
			lim := len(b.Instrs)
			if b == s.at.Block() {
				lim = instrIndex(s.at)
			}
			for i := lim - 1; i >= 0; i-- {
				if st, ok := b.Instrs[i].(*ssa.Store); ok {
					if fa, ok := st.Addr.(*ssa.FieldAddr); ok {
						if tn, f, _ := fieldAddrInfo(fa); tn == "Span" && f == "End" {
							if inner, ok := fa.X.(*ssa.FieldAddr); ok {
								if tn2, f2, _ := fieldAddrInfo(inner); tn2 == "Block" && f2 == "span" {
									endStore = st
									break
								}
							}
						}
					}
				}
			}
		}
		bad := ""
		if endStore != nil {
			if ecall, ok := endStore.Val.(*ssa.Call); ok {
				// the reader E scans
				var r ssa.Value
				for _, a := range ecall.Call.Args {
					if typeName(deref(a.Type())) == "inlineByteReader" {
						r = a
					}
				}
				takesR := func(x ssa.Instruction) bool {
					cl, ok := x.(*ssa.Call)
					if !ok || r == nil {
						return false
					}
					// a call that only inspects the reader (current(), a position accessor) does not move it
					if g := cl.Call.StaticCallee(); g != nil && p.InModule(g) && !posStoreSet[g] {
						return false
					}
					for _, a := range cl.Call.Args {
						if a == r {
							return true
						}
					}
					return false
				}
				switch {
				case r == nil:
				case rd == r:
					if pathHits(ecall, ld, takesR) {
						bad = "the definition block ends at the line ending found by " + ecall.Call.StaticCallee().Name() + ", but the rest of the paragraph starts at the reader's position after further scanning: the text in between belongs to neither"
					}
				default:
					if al, ok := rd.(*ssa.Alloc); ok {
						// the copy: *al = *r
						var cp *ssa.Store
						for _, ref := range refsOf(al) {
							if st, ok := ref.(*ssa.Store); ok && st.Addr == ssa.Value(al) {
								if src, ok := st.Val.(*ssa.UnOp); ok && src.Op == token.MUL && src.X == r {
									cp = st
								}
							}
						}
						if cp == nil {
							bad = "the position is read from a reader that is not a copy of the one the definition was scanned with"
						} else if pathHits(ecall, cp, takesR) {
							bad = "the saved copy of the reader was made after further scanning behind the line ending that ends the definition"
						} else if pathHits(cp, s.at, takesR) {
							// (resume) the reader has moved on since the copy was taken: before it is used again it is put back
							restores := func(x ssa.Instruction) bool {
								st, ok := x.(*ssa.Store)
								if !ok || st.Addr != r {
									return false
								}
								src, ok := st.Val.(*ssa.UnOp)
								return ok && src.Op == token.MUL && src.X == ssa.Value(al)
							}
							if reachesUseWithout(s.at, takesR, restores) {
								bad = "the rest of the paragraph starts at the saved position, but scanning for the next definition goes on with the reader where the look-ahead for a title left it (the saved copy is not put back): the next definition is recognised from a position past the indentation of its line"
							}
						}
					}
				}
			}
		}
		if bad != "" {
			c.Viol("PARA-REST-START", s.key, s.at.Pos(), bad)
			continue
		}
		// the node search that follows uses the same position
		want := termKey(s.val, 0)
		if _, isStore := s.at.(*ssa.Store); isStore {
			var idxCall *ssa.Call
			for _, x := range s.at.Block().Instrs[instrIndex(s.at)+1:] {
				if cl, ok := x.(*ssa.Call); ok {
					if g := cl.Call.StaticCallee(); g != nil && g.Name() == "nodeIndexForPosition" {
						idxCall = cl
						break
					}
				}
			}
			if idxCall != nil && len(idxCall.Call.Args) == 2 {
				got := termKey(idxCall.Call.Args[1], 0)
				c.Check(got == want, "PARA-REST-START", s.key, s.at.Pos(), "the remaining children are looked up at "+got+" while the block starts at "+want)
				continue
			}
		}
		c.OK("PARA-REST-START", s.key, s.at.Pos(), "")
	}
	c.Analysed["paragraph_rest_start_sites"] = len(sites)
	if len(sites) < 1 {
		c.Undecided("PARA-REST-START", "instance-count", token.NoPos, "no store into the Start of a paragraph handed to an onClose hook was found")
	}
}

// READER-DIST
func ruleReaderDist(c *Ctx) {
	c.Rule("READER-DIST", "Outside the reader's own methods, the difference between two positions of an inlineByteReader is never compared with a limit. The reader skips container prefixes between lines, so r.pos - start counts the prefix bytes of every line crossed: a label of 960 characters spread over 30 quoted lines would exceed the 999-character limit only inside the quote.")
	p := c.P
	n := 0
	for _, top := range p.Funcs {
		if top.Pkg != p.CMs {
			continue
		}
		if rv := receiverOf(top); rv != nil && typeName(deref(rv.Type())) == "inlineByteReader" {
			continue
		}
		for _, fn := range withAnons(top) {
			eachInstr(fn, func(in ssa.Instruction) {
				bo, ok := in.(*ssa.BinOp)
				if !ok || bo.Op != token.SUB {
					return
				}
				if _, ok := isLoadOfField(bo.X, "inlineByteReader", "pos"); !ok {
					return
				}
				// subtrahend: an earlier reader position (a load of pos, or a phi/local of one)
				isPos := false
				seen := map[ssa.Value]bool{}
				var w func(v ssa.Value, d int)
				w = func(v ssa.Value, d int) {
					if seen[v] || d > 4 {
						return
					}
					seen[v] = true
					if _, ok := isLoadOfField(v, "inlineByteReader", "pos"); ok {
						isPos = true
					}
					if ph, ok := v.(*ssa.Phi); ok {
						for _, e := range ph.Edges {
							w(e, d+1)
						}
					}
					// a position kept in a field of a local (result.span.Start = r.pos … r.pos - result.span.Start)
					if ld, ok := v.(*ssa.UnOp); ok && ld.Op == token.MUL {
						if path, root, ok := localFieldPath(ld.X); ok {
							eachInstr(fn, func(x ssa.Instruction) {
								if st, ok := x.(*ssa.Store); ok {
									if p2, r2, ok := localFieldPath(st.Addr); ok && r2 == root && p2 == path {
										w(st.Val, d+1)
									}
								}
							})
						}
					}
				}
				w(bo.Y, 0)
				if !isPos {
					return
				}
				n++
				key := fmt.Sprintf("%s:pos-difference#%d", shortFuncName(fn), n)
				limited := false
				for _, r := range refsOf(bo) {
					if cmp, ok := r.(*ssa.BinOp); ok {
						switch cmp.Op {
						case token.LSS, token.LEQ, token.GTR, token.GEQ:
							other := cmp.Y
							if other == ssa.Value(bo) {
								other = cmp.X
							}
							if k, ok := constInt(other); ok && k > 1 {
								limited = true
							}
							if _, isParam := other.(*ssa.Parameter); isParam {
								limited = true
							}
						}
					}
				}
				c.Check(!limited, "READER-DIST", key, bo.Pos(), "a distance between two reader positions (which includes the container prefixes of the lines crossed) is compared with a length limit")
			})
		}
	}
	c.Analysed["reader_position_differences"] = n
	if n == 0 {
		c.OK("READER-DIST", "none", token.NoPos, "no difference of reader positions outside the reader's methods")
	}
}

// localFieldPath: addr is a chain of field addresses rooted at a local allocation; returns the field index path.
func localFieldPath(addr ssa.Value) (string, *ssa.Alloc, bool) {
	path := ""
	for i := 0; i < 6; i++ {
		switch x := addr.(type) {
		case *ssa.FieldAddr:
			path = fmt.Sprintf(".%d", x.Field) + path
			addr = x.X
			continue
		case *ssa.Alloc:
			return path, x, path != ""
		}
		break
	}
	return "", nil, false
}

// restReaderWrapperCall: in is a call of a module function that is handed the inline state and a position and returns
// a reader built (by a reader constructor) over state.unparsed[state.unparsedPos:] at that position.
func restReaderWrapperCall(p *Program, in ssa.Instruction) (*ssa.Call, ssa.Value, bool) {
	call, ok := in.(*ssa.Call)
	if !ok {
		return nil, nil, false
	}
	g := call.Call.StaticCallee()
	if g == nil || !p.InModule(g) || g.Blocks == nil || g.Signature.Results().Len() != 1 || typeName(deref(g.Signature.Results().At(0).Type())) != "inlineByteReader" {
		return nil, nil, false
	}
	if _, _, _, isCtor := readerCtor(p, in); isCtor {
		return nil, nil, false
	}
	// every return of g returns a reader constructor's result over the rest window at one of g's int parameters
	var posParam *ssa.Parameter
	good := true
	nret := 0
	for _, r := range returnsOf(g) {
		nret++
		if len(r.Results) != 1 {
			good = false
			continue
		}
		inner, isInstr := r.Results[0].(ssa.Instruction)
		if !isInstr {
			good = false
			continue
		}
		_, w, ps, ok := readerCtor(p, inner)
		if !ok {
			good = false
			continue
		}
		if _, ok := restWindow(w); !ok {
			good = false
			continue
		}
		prm, ok := ps.(*ssa.Parameter)
		if !ok || (posParam != nil && prm != posParam) {
			good = false
			continue
		}
		posParam = prm
	}
	if !good || nret == 0 || posParam == nil {
		return nil, nil, false
	}
	for i, prm := range g.Params {
		if prm == posParam && i < len(call.Call.Args) {
			return call, call.Call.Args[i], true
		}
	}
	return nil, nil, false
}

// reachesUseWithout: some path from (after) instruction from reaches an instruction satisfying use without first
// executing one satisfying fix.
func reachesUseWithout(from ssa.Instruction, use, fix func(ssa.Instruction) bool) bool {
	seen := map[*ssa.BasicBlock]bool{}
	found := false
	var run func(b *ssa.BasicBlock, start int)
	run = func(b *ssa.BasicBlock, start int) {
		for _, x := range b.Instrs[start:] {
			if fix(x) {
				return
			}
			if use(x) {
				found = true
				return
			}
		}
		for _, nb := range b.Succs {
			if !seen[nb] && !found {
				seen[nb] = true
				run(nb, 0)
			}
		}
	}
	run(from.Block(), instrIndex(from)+1)
	return found
}

// spilledParam: v is a parameter, or a load of the cell a parameter was spilled into because a closure captures it
// (the cell is stored exactly once, with the parameter).
func spilledParam(v ssa.Value) (*ssa.Parameter, bool) {
	if q, ok := v.(*ssa.Parameter); ok {
		return q, true
	}
	u, ok := v.(*ssa.UnOp)
	if !ok || u.Op != token.MUL {
		return nil, false
	}
	if fv, ok := u.X.(*ssa.FreeVar); ok {
		// captured by a closure: the cell bound where the closure is made
		fn := fv.Parent()
		if fn == nil || fn.Parent() == nil {
			return nil, false
		}
		idx := -1
		for i, f := range fn.FreeVars {
			if f == fv {
				idx = i
			}
		}
		var cell ssa.Value
		eachInstr(fn.Parent(), func(in ssa.Instruction) {
			if mc, ok := in.(*ssa.MakeClosure); ok && mc.Fn == ssa.Value(fn) && idx >= 0 && idx < len(mc.Bindings) {
				cell = mc.Bindings[idx]
			}
		})
		if cell == nil {
			return nil, false
		}
		return spilledParam(&ssa.UnOp{Op: token.MUL, X: cell})
	}
	al, ok := u.X.(*ssa.Alloc)
	if !ok {
		return nil, false
	}
	var q *ssa.Parameter
	n := 0
	for _, r := range refsOf(al) {
		if st, ok := r.(*ssa.Store); ok && st.Addr == ssa.Value(al) {
			n++
			q, _ = st.Val.(*ssa.Parameter)
		}
	}
	if n == 1 && q != nil {
		return q, true
	}
	return nil, false
}
