package main

// c09.go — necessary structural conditions for C09 (quoting or list-indenting a document nests its blocks unchanged).
// The property as a whole is a metamorphic relation between two parses and is not decided. What is decided are three
// facts about the places where the inline phase sees text through container prefixes: a construct that runs over several
// lines must look the same with and without a "> " (or indentation) in front of every line only if
//   - its text is collected through the line-jumping reader over a node window that still holds the line the text starts
//     on (READER-WINDOW),
//   - what is left of a paragraph after a link reference definition starts where the reader stands, not at a byte offset
//     measured along the raw source (PARA-REST-START),
//   - no length limit is applied to a raw distance between two reader positions (READER-DIST).

import (
	"fmt"
	"go/token"
	"go/types"
	"sort"
	"strings"

	"golang.org/x/tools/go/ssa"
)

func init() {
	props["C09"] = checkC09
}

func checkC09(c *Ctx) {
	c.Assume("only three necessary conditions about reading inline text through container prefixes are decided; that the block phase strips the same prefix from every line of a container, and everything else behind the metamorphic relation, is behavioural and not decided")
	ruleReaderWindow(c, "C09")
	ruleParaRestStart(c)
	ruleReaderDist(c)
}

// readerCtor reports a call that builds an inlineByteReader from a node window and a position:
// a module function returning *inlineByteReader with one []*Inline and one int argument.
func readerCtor(p *Program, in ssa.Instruction) (call *ssa.Call, window, pos ssa.Value, ok bool) {
	call, isCall := in.(*ssa.Call)
	if !isCall {
		return nil, nil, nil, false
	}
	g := call.Call.StaticCallee()
	if g == nil || !p.InModule(g) || g.Signature.Results().Len() != 1 || typeName(deref(g.Signature.Results().At(0).Type())) != "inlineByteReader" {
		return nil, nil, nil, false
	}
	for _, a := range call.Call.Args {
		switch t := a.Type().Underlying().(type) {
		case *types.Slice:
			if typeName(deref(t.Elem())) == "Inline" {
				window = a
			}
		case *types.Basic:
			if t.Kind() == types.Int {
				pos = a
			}
		}
	}
	return call, window, pos, window != nil && pos != nil
}

// restWindow: v is state.unparsed[state.unparsedPos:] (possibly through phis of one such slice); returns the Slice instruction.
func restWindow(v ssa.Value) (*ssa.Slice, bool) {
	sl, ok := v.(*ssa.Slice)
	if !ok || sl.Low == nil {
		return nil, false
	}
	if _, ok := isLoadOfField(sl.X, "inlineState", "unparsed"); !ok {
		return nil, false
	}
	if _, ok := isLoadOfField(sl.Low, "inlineState", "unparsedPos"); !ok {
		return nil, false
	}
	return sl, true
}

// scannerSources collects the module calls returning spans (a Span, or a struct holding Spans) from whose results the
// integer v is computed: through arithmetic, phis, field selections, and loads of fields of a local struct variable
// that was assigned such a result.
func scannerSources(p *Program, v ssa.Value) []*ssa.Call {
	var out []*ssa.Call
	seen := map[ssa.Value]bool{}
	var walk func(v ssa.Value, d int)
	rootAlloc := func(a ssa.Value) *ssa.Alloc {
		for d := 0; d < 8; d++ {
			switch x := a.(type) {
			case *ssa.FieldAddr:
				a = x.X
			case *ssa.Alloc:
				return x
			default:
				return nil
			}
		}
		return nil
	}
	walk = func(v ssa.Value, d int) {
		if v == nil || seen[v] || d > 12 {
			return
		}
		seen[v] = true
		switch x := v.(type) {
		case *ssa.BinOp:
			walk(x.X, d+1)
			walk(x.Y, d+1)
		case *ssa.Phi:
			// a loop-carried position is the tokenizer's own cursor, kept in step with the line cursor (RESYNC);
			// only positions handed over within one iteration are followed
			for _, pr := range x.Block().Preds {
				if x.Block().Dominates(pr) {
					return
				}
			}
			for _, e := range x.Edges {
				walk(e, d+1)
			}
		case *ssa.Convert:
			walk(x.X, d+1)
		case *ssa.Field:
			walk(x.X, d+1)
		case *ssa.Extract:
			walk(x.Tuple, d+1)
		case *ssa.Call:
			if g := x.Call.StaticCallee(); g != nil && p.InModule(g) && g.Signature.Results().Len() >= 1 && containsSpan(g.Signature.Results().At(0).Type(), 0) {
				out = append(out, x)
			}
		case *ssa.UnOp:
			if x.Op != token.MUL {
				walk(x.X, d+1)
				return
			}
			al := rootAlloc(x.X)
			if al == nil {
				return
			}
			// every value stored into the local variable or one of its fields
			var refs func(a ssa.Value, dd int)
			refs = func(a ssa.Value, dd int) {
				if dd > 4 {
					return
				}
				for _, r := range refsOf(a) {
					switch y := r.(type) {
					case *ssa.Store:
						if y.Addr == a {
							walk(y.Val, d+1)
						}
					case *ssa.FieldAddr:
						refs(y, dd+1)
					}
				}
			}
			refs(al, 0)
		}
	}
	walk(v, 0)
	return out
}

// READER-WINDOW
func ruleReaderWindow(c *Ctx, prop string) {
	c.Rule("READER-WINDOW", "The inline phase reads a construct that may run over several lines through a reader over a window of the container's line nodes; the reader finds its position in the window by searching forward, and where it cannot find it, everything up to the requested end is taken as one run of text — container prefixes ('> ', indentation) of the lines in between included, backslash escapes and character references on them not looked at. Hence: where a reader over the remaining lines state.unparsed[state.unparsedPos:] is built at a position that a scanner returned, the window is taken before the line cursor state.unparsedPos is moved to that scanner's end — either the window slice is evaluated before the scanner call, or no store of the cursor (direct, or in a callee that is handed the state, the scanner included) lies on a path from the scanner call to it.")
	p := c.P
	_, isResync := resyncInfo(p)
	n := 0
	for _, top := range p.Funcs {
		if top.Pkg != p.CMs || top.Parent() != nil {
			continue
		}
		for _, fn := range withAnons(top) {
			if fn.Blocks == nil {
				continue
			}
			dom := func(a, b ssa.Instruction) bool { // a executes before b on every path to b
				if a.Block() == b.Block() {
					return instrIndex(a) < instrIndex(b)
				}
				return a.Block().Dominates(b.Block())
			}
			site := 0
			eachInstr(fn, func(in ssa.Instruction) {
				call, w, pos, ok := readerCtor(p, in)
				if !ok {
					return
				}
				wi, ok := restWindow(w)
				if !ok {
					return
				}
				srcs := scannerSources(p, pos)
				if len(srcs) == 0 {
					return
				}
				site++
				n++
				var names []string
				bad := ""
				for _, s := range srcs {
					names = append(names, s.Call.StaticCallee().Name())
					if s.Parent() != fn {
						continue
					}
					if dom(wi, s) {
						continue
					}
					// search forward from the scanner call; the scanner itself counts
					type st struct {
						b *ssa.BasicBlock
						r bool
					}
					seen := map[st]bool{}
					hit := false
					var run func(b *ssa.BasicBlock, from int, resynced bool)
					run = func(b *ssa.BasicBlock, from int, resynced bool) {
						for _, x := range b.Instrs[from:] {
							if x == ssa.Instruction(s) {
								return
							}
							if x == ssa.Instruction(wi) && resynced {
								hit = true
								return
							}
							if isResync(x) {
								resynced = true
							}
						}
						for _, nb := range b.Succs {
							k := st{nb, resynced}
							if !seen[k] {
								seen[k] = true
								run(nb, 0, resynced)
							}
						}
					}
					run(s.Block(), instrIndex(s)+1, isResync(s))
					if hit {
						bad = fmt.Sprintf("the window of the reader built at a position returned by %s is state.unparsed[state.unparsedPos:] taken after the line cursor was moved (by %s itself, or between it and the slice): a part of the construct that lies on an earlier line is not found in the window and is collected as one raw run", s.Call.StaticCallee().Name(), s.Call.StaticCallee().Name())
					}
				}
				sort.Strings(names)
				key := fmt.Sprintf("%s:reader#%d(%s)", shortFuncName(fn), site, strings.Join(uniqStrings(names), ","))
				c.Check(bad == "", "READER-WINDOW", key, call.Pos(), bad)
			})
		}
	}
	c.Analysed["readers_over_remaining_lines_at_scanner_positions"] = n
	if n < 1 {
		c.Undecided("READER-WINDOW", "instance-count", token.NoPos, "no reader over state.unparsed[state.unparsedPos:] at a scanner-returned position was found; the rule recognises nothing")
	}
}

func uniqStrings(in []string) []string {
	var out []string
	for i, s := range in {
		if i == 0 || s != in[i-1] {
			out = append(out, s)
		}
	}
	return out
}

// PARA-REST-START
func ruleParaRestStart(c *Ctx) {
	c.Rule("PARA-REST-START", "Where a paragraph's onClose hook splits leading link reference definitions off a paragraph, what remains starts where the line-jumping reader stands after the definition's last line ending: every value stored into the Start of the remaining block's span is a load of an inlineByteReader's pos field (of the reader or of a saved copy), or the Start of the span of the child found at such a position — never a value returned as 'end of line' (a raw offset that differs from the reader's position by the container prefix of the next line), never a position adjusted by a byte count. The children kept are those from the node that contains that same position.")
	p := c.P
	n := 0
	for _, fn := range p.Funcs {
		if fn.Pkg != p.CMs || fn.Blocks == nil {
			continue
		}
		// functions of the shape func(source []byte, b *Block) []*Block that store into b.span.Start
		var blk *ssa.Parameter
		if fn.Signature.Params().Len() == 2 && fn.Signature.Results().Len() == 1 {
			for _, q := range fn.Params {
				if typeName(deref(q.Type())) == "Block" {
					blk = q
				}
			}
		}
		if blk == nil {
			continue
		}
		eachInstr(fn, func(in ssa.Instruction) {
			st, ok := in.(*ssa.Store)
			if !ok {
				return
			}
			fa, ok := st.Addr.(*ssa.FieldAddr)
			if !ok {
				return
			}
			if tn, f, _ := fieldAddrInfo(fa); tn != "Span" || f != "Start" {
				return
			}
			inner, ok := fa.X.(*ssa.FieldAddr)
			if !ok || inner.X != ssa.Value(blk) {
				return
			}
			n++
			key := fmt.Sprintf("%s:rest.span.Start#%d", shortFuncName(fn), n)
			readerPos := func(v ssa.Value) bool {
				_, ok := isLoadOfField(v, "inlineByteReader", "pos")
				return ok
			}
			good := readerPos(st.Val)
			if !good {
				// Start of the span of an element of the block's inline children
				if k := termKey(st.Val, 0); strings.Contains(k, "inlineChildren") && strings.HasSuffix(k, ".Start") {
					good = true
				}
			}
			if !good {
				c.Viol("PARA-REST-START", key, st.Pos(), "the rest of the paragraph starts at "+describeValue(st.Val)+", which is not the reader's position after the definition")
				return
			}
			// the node search that follows uses the same position
			want := termKey(st.Val, 0)
			var idxCall *ssa.Call
			for _, x := range st.Block().Instrs[instrIndex(st)+1:] {
				if cl, ok := x.(*ssa.Call); ok {
					if g := cl.Call.StaticCallee(); g != nil && g.Name() == "nodeIndexForPosition" {
						idxCall = cl
						break
					}
				}
			}
			if idxCall != nil && len(idxCall.Call.Args) == 2 && readerPos(st.Val) {
				got := termKey(idxCall.Call.Args[1], 0)
				c.Check(got == want, "PARA-REST-START", key, st.Pos(), "the remaining children are looked up at "+got+" while the block starts at "+want)
				return
			}
			c.OK("PARA-REST-START", key, st.Pos(), "")
		})
	}
	c.Analysed["paragraph_rest_start_stores"] = n
	if n < 1 {
		c.Undecided("PARA-REST-START", "instance-count", token.NoPos, "no store into the Start of a block handed to an onClose-shaped function was found")
	}
}

// READER-DIST
func ruleReaderDist(c *Ctx) {
	c.Rule("READER-DIST", "Outside the reader's own methods, the difference between two positions of an inlineByteReader is never compared with a limit. The reader skips container prefixes between lines, so r.pos - start counts the prefix bytes of every line crossed: a label of 960 characters spread over 30 quoted lines would exceed the 999-character limit only inside the quote.")
	p := c.P
	n := 0
	for _, top := range p.Funcs {
		if top.Pkg != p.CMs {
			continue
		}
		if rv := receiverOf(top); rv != nil && typeName(deref(rv.Type())) == "inlineByteReader" {
			continue
		}
		for _, fn := range withAnons(top) {
			eachInstr(fn, func(in ssa.Instruction) {
				bo, ok := in.(*ssa.BinOp)
				if !ok || bo.Op != token.SUB {
					return
				}
				if _, ok := isLoadOfField(bo.X, "inlineByteReader", "pos"); !ok {
					return
				}
				// subtrahend: an earlier reader position (a load of pos, or a phi/local of one)
				isPos := false
				seen := map[ssa.Value]bool{}
				var w func(v ssa.Value, d int)
				w = func(v ssa.Value, d int) {
					if seen[v] || d > 4 {
						return
					}
					seen[v] = true
					if _, ok := isLoadOfField(v, "inlineByteReader", "pos"); ok {
						isPos = true
					}
					if ph, ok := v.(*ssa.Phi); ok {
						for _, e := range ph.Edges {
							w(e, d+1)
						}
					}
				}
				w(bo.Y, 0)
				if !isPos {
					return
				}
				n++
				key := fmt.Sprintf("%s:pos-difference#%d", shortFuncName(fn), n)
				limited := false
				for _, r := range refsOf(bo) {
					if cmp, ok := r.(*ssa.BinOp); ok {
						switch cmp.Op {
						case token.LSS, token.LEQ, token.GTR, token.GEQ:
							other := cmp.Y
							if other == ssa.Value(bo) {
								other = cmp.X
							}
							if k, ok := constInt(other); ok && k > 1 {
								limited = true
							}
							if _, isParam := other.(*ssa.Parameter); isParam {
								limited = true
							}
						}
					}
				}
				c.Check(!limited, "READER-DIST", key, bo.Pos(), "a distance between two reader positions (which includes the container prefixes of the lines crossed) is compared with a length limit")
			})
		}
	}
	c.Analysed["reader_position_differences"] = n
	if n == 0 {
		c.OK("READER-DIST", "none", token.NoPos, "no difference of reader positions outside the reader's methods")
	}
}
