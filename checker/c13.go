package main

// C13 — each node's span delimits the syntax of its construct: necessary conditions for the block constructs whose
// span is fixed by the order of lineParser calls in the block-start rules, and for emphasis.
//
//  OPEN-AT-MARKER  a block whose construct starts with a marker (block quote, ATX heading, fenced code, thematic break,
//                  list / list item / list marker) is opened after all indentation of the rest of the line has been
//                  consumed and before anything else is: its span starts at the marker byte the recogniser looked at.
//  MARKER-LEN      the list-marker block is closed after advancing by exactly the length the marker recogniser
//                  returned for these bytes; the heading level / fence length handed to the open call are components
//                  of the recogniser's result for these bytes.
//  SETEXT-CHAR     the setext recogniser's level is decided by the underline's first byte: '=' gives 1, '-' gives 2.
//  EMPH-SHRINK     a pair of delimiter runs is shortened by two characters each exactly when the node made is strong
//                  emphasis, by one each exactly when it is emphasis, and the node spans from the shortened end of
//                  the opener to the shortened start of the closer.

import (
	"fmt"
	"go/token"
	"go/types"
	"sort"
	"strings"

	"golang.org/x/tools/go/ssa"
)

func init() { props["C13"] = checkC13 }

func checkC13(c *Ctx) {
	c.Assume("Only the listed shape conditions are decided. Spans of links, images, code spans, autolinks, raw HTML, character references and hard breaks, the END of block spans, and all arithmetic inside the recognisers (how long the marker is) are value-level and not decided.")
	ruleOpenAtMarker(c)
	ruleSetextChar(c)
	ruleEmphShrink(c)
	ruleEmphCurrent(c)
	ruleTabSync(c)
	ruleHardBreakSet(c)
	ruleSpecBoundsFor(c, "C13")
}

// lpAPI: the primitive methods of lineParser the rules know the meaning of; any other method is analysed as a helper.
var lpAPI = map[string]bool{"Indent": true, "ConsumeIndent": true, "Advance": true, "ConsumeLine": true, "CollectInline": true, "EndBlock": true,
	"MorphSetext": true, "BytesAfterIndent": true, "IsRestBlank": true, "ContainerKind": true, "TipKind": true, "ContainerListDelim": true,
	"ContainerIndent": true, "ListItemContainerHasChildren": true, "ContainerCodeFence": true, "ContainerHTMLCondition": true, "SetContainerIndent": true}

// positionMoving: lineParser methods that move the cursor.
var positionMovingLP = map[string]bool{"Advance": true, "ConsumeIndent": true, "ConsumeLine": true, "CollectInline": true}

func isOpenLP(name string) bool { return strings.HasPrefix(name, "Open") }

// openedKind: the block kind an Open* call opens (ok=false if not constant).
func openedKind(p *Program, call *ssa.Call, name string) (int64, bool) {
	switch name {
	case "OpenBlock", "OpenListBlock", "OpenHeadingBlock":
		return constInt(call.Call.Args[1])
	case "OpenFencedCodeBlock":
		return kindValue(p, "BlockKind", "FencedCodeBlockKind")
	case "OpenHTMLBlock":
		return kindValue(p, "BlockKind", "HTMLBlockKind")
	}
	return 0, false
}

// zeroEdge: for a branch on `v <op> const`, the successor index on which v is known to be zero (-1 if none).
func zeroEdge(iff *ssa.If, v ssa.Value) int {
	bo, ok := iff.Cond.(*ssa.BinOp)
	if !ok || bo.X != v {
		return -1
	}
	k, ok := constInt(bo.Y)
	if !ok {
		return -1
	}
	switch {
	case bo.Op == token.GTR && k == 0, bo.Op == token.NEQ && k == 0, bo.Op == token.GEQ && k == 1:
		return 1
	case bo.Op == token.EQL && k == 0, bo.Op == token.LSS && k == 1, bo.Op == token.LEQ && k == 0:
		return 0
	}
	return -1
}

// recogniserResultOf: v is (a component of) the result of a call to a module function (not a lineParser method) one
// of whose arguments is the result of p.BytesAfterIndent(); returns that BytesAfterIndent call.
func recogniserResultOf(p *Program, v ssa.Value) (*ssa.Call, *ssa.Call) {
	for i := 0; i < 6; i++ {
		switch x := v.(type) {
		case *ssa.Field:
			v = x.X
			continue
		case *ssa.Extract:
			v = x.Tuple
			continue
		case *ssa.UnOp:
			if x.Op == token.MUL {
				// load of a field of a local struct the call result was stored into
				if fa, ok := x.X.(*ssa.FieldAddr); ok {
					if al, ok := fa.X.(*ssa.Alloc); ok {
						var stored ssa.Value
						n := 0
						for _, r := range refsOf(al) {
							if st, ok := r.(*ssa.Store); ok && st.Addr == ssa.Value(al) {
								stored = st.Val
								n++
							}
						}
						if n == 1 {
							v = stored
							continue
						}
					}
				}
			}
			return nil, nil
		case *ssa.Convert:
			v = x.X
			continue
		case *ssa.ChangeType:
			v = x.X
			continue
		case *ssa.Call:
			f := x.Call.StaticCallee()
			if f == nil || !p.InModule(f) {
				return nil, nil
			}
			if _, nm := lpCall(x); nm != "" {
				return nil, nil
			}
			for _, a := range x.Call.Args {
				if ac, ok := a.(*ssa.Call); ok {
					if _, nm := lpCall(ac); nm == "BytesAfterIndent" {
						return x, ac
					}
				}
			}
			return nil, nil
		}
		break
	}
	return nil, nil
}

func ruleOpenAtMarker(c *Ctx) {
	c.Rule("OPEN-AT-MARKER", "In every block-start rule (entry of blockStarts), on every path to the first call that opens a block of a kind whose construct begins with a marker (BlockQuote, ATXHeading, FencedCodeBlock, ThematicBreak, List, ListItem, ListMarker), the cursor has been moved exactly once, by ConsumeIndent(n) with n the value p.Indent() returned while the cursor had not moved (or not at all on a path on which that value is known to be zero): the block's span starts at the first byte after the indentation — the byte the recogniser, which is handed p.BytesAfterIndent(), looked at ('>', '#', the fence, the bullet or digit). Further blocks opened before the cursor moves again (List, ListItem, ListMarker) start at the same byte. A rule that opens the block first and consumes the indentation afterwards (or hands both to a helper that does) makes the span of an indented construct begin with spaces.")
	c.Rule("MARKER-LEN", "Between OpenBlock(ListMarkerKind) and the EndBlock that closes it the cursor moves exactly once, by Advance(x) with x a component of what the marker recogniser returned for p.BytesAfterIndent() at the position the block was opened at: the marker's span is exactly what the recogniser accepted (a bullet, or 1–9 digits and '.' or ')', by SPEC-BOUNDS). Likewise the level handed to OpenHeadingBlock(ATXHeadingKind, …), the level handed to MorphSetext and the fence character and length handed to OpenFencedCodeBlock are components of their recogniser's result for these bytes: the accessors then agree with what the span starts with.")
	p := c.P
	markerKinds := map[int64]string{}
	for _, n := range []string{"BlockQuoteKind", "ATXHeadingKind", "FencedCodeBlockKind", "ThematicBreakKind", "ListKind", "ListItemKind", "ListMarkerKind"} {
		if v, ok := kindValue(p, "BlockKind", n); ok {
			markerKinds[v] = n
		}
	}
	markK, _ := kindValue(p, "BlockKind", "ListMarkerKind")
	atxK, _ := kindValue(p, "BlockKind", "ATXHeadingKind")
	starts := blockStartFuncs(p)
	nOpen, nLen := 0, 0
	for idx, fn := range starts {
		if fn == nil || fn.Blocks == nil {
			continue
		}
		// path state
		type pst struct {
			b        *ssa.BasicBlock
			phase    int       // 0 nothing moved, 1 indent consumed, 2 opened (cursor not moved since), 3 moved otherwise / after open, 4 inside marker block before its advance, 5 inside marker block after its advance
			fresh    ssa.Value // last p.Indent() result obtained with the cursor where it is now
			zero     bool      // that value is known to be zero on this path
			entryBAI bool
		}
		type key struct {
			b     *ssa.BasicBlock
			phase int
			fresh ssa.Value
			zero  bool
		}
		seen := map[key]bool{}
		reported := map[string]bool{}
		report := func(ok bool, rule, construct string, pos token.Pos, detail string) {
			k := rule + "/" + construct
			if ok {
				if !reported[k+"/ok"] && !reported[k+"/bad"] {
					reported[k+"/ok"] = true
				}
				return
			}
			if !reported[k+"/bad"] {
				reported[k+"/bad"] = true
				c.Viol(rule, construct, pos, detail)
			}
		}
		okSites := map[string]token.Pos{}
		var walk func(b *ssa.BasicBlock, from int, s pst)
		walk = func(b *ssa.BasicBlock, from int, s pst) {
			for _, in := range b.Instrs[from:] {
				call, name := lpCall(in)
				if call != nil && !lpAPI[name] && !isOpenLP(name) {
					// a method of the line parser that is not part of its primitive API: a helper like any other
					call = nil
				}
				if call == nil {
					// a helper that is handed the parser may move the cursor
					if ci, ok := in.(ssa.CallInstruction); ok {
						if f := ci.Common().StaticCallee(); f != nil && p.InModule(f) {
							for _, a := range ci.Common().Args {
								if typeName(deref(a.Type())) == "lineParser" && !helperMovesCursor(p, f, map[*ssa.Function]bool{}) && helperCallsLP(p, f, "Indent", map[*ssa.Function]bool{}) {
									// a helper that looks at the indentation without moving the cursor: what it returns may be the indent
									if v, ok := in.(ssa.Value); ok {
										s.fresh, s.zero = v, false
									}
								}
								if typeName(deref(a.Type())) == "lineParser" && helperMovesCursor(p, f, map[*ssa.Function]bool{}) {
									if s.phase <= 1 {
										s.phase = 3
									} else if s.phase == 2 {
										s.phase = 3
									} else if s.phase == 4 || s.phase == 5 {
										report(false, "MARKER-LEN", fmt.Sprintf("blockStarts[%d]:marker-advance", idx), in.Pos(), "a helper that moves the cursor is called while the marker block is open")
									}
									s.fresh = nil
								}
							}
						}
					}
					continue
				}
				switch {
				case name == "Indent":
					s.fresh, s.zero = call, false
				case name == "ConsumeIndent":
					arg := call.Call.Args[1]
					if ex, ok := arg.(*ssa.Extract); ok && s.fresh != nil && ex.Tuple == s.fresh {
						arg = s.fresh
					}
					if s.phase == 0 && s.fresh != nil && arg == s.fresh {
						s.phase = 1
					} else if s.phase == 4 || s.phase == 5 {
						report(false, "MARKER-LEN", fmt.Sprintf("blockStarts[%d]:marker-advance", idx), in.Pos(), "ConsumeIndent while the marker block is open")
					} else {
						s.phase = 3
					}
					s.fresh = nil
				case positionMovingLP[name]:
					if s.phase == 4 && name == "Advance" {
						rc, bai := recogniserResultOf(p, call.Call.Args[1])
						nLen++
						okc := rc != nil && bai != nil
						report(okc, "MARKER-LEN", fmt.Sprintf("blockStarts[%d]:marker-advance", idx), in.Pos(), "the length advanced inside the list-marker block is not a component of a recogniser's result for p.BytesAfterIndent()")
						if okc {
							okSites[fmt.Sprintf("MARKER-LEN/blockStarts[%d]:marker-advance", idx)] = in.Pos()
						}
						s.phase = 5
					} else if s.phase == 4 || s.phase == 5 {
						report(false, "MARKER-LEN", fmt.Sprintf("blockStarts[%d]:marker-advance", idx), in.Pos(), name+" while the marker block is open (the cursor must move exactly once, by the recognised marker length)")
					} else {
						s.phase = 3
					}
					s.fresh = nil
				case name == "EndBlock":
					if s.phase == 4 {
						report(false, "MARKER-LEN", fmt.Sprintf("blockStarts[%d]:marker-advance", idx), in.Pos(), "the marker block is closed without the cursor having advanced over the marker")
						s.phase = 3
					} else if s.phase == 5 {
						s.phase = 3
					}
				case name == "MorphSetext":
					nLen++
					rc, _ := recogniserResultOf(p, call.Call.Args[1])
					key := fmt.Sprintf("blockStarts[%d]:MorphSetext.level", idx)
					report(rc != nil, "MARKER-LEN", key, in.Pos(), "the level handed to MorphSetext is not the recogniser's result for p.BytesAfterIndent()")
					if rc != nil {
						okSites["MARKER-LEN/"+key] = in.Pos()
					}
				case isOpenLP(name):
					k, isConst := openedKind(p, call, name)
					kn, isMarker := markerKinds[k]
					if isConst && isMarker {
						nOpen++
						key := fmt.Sprintf("blockStarts[%d]:open[%s]", idx, kn)
						switch {
						case s.phase == 1, s.phase == 2, s.phase == 0 && s.fresh != nil && s.zero:
							report(true, "OPEN-AT-MARKER", key, in.Pos(), "")
							okSites["OPEN-AT-MARKER/"+key] = in.Pos()
						case s.phase == 0:
							report(false, "OPEN-AT-MARKER", key, in.Pos(), "the block is opened before the indentation in front of its marker is consumed: the span of an indented "+kn+" starts with white space")
						default:
							report(false, "OPEN-AT-MARKER", key, in.Pos(), "the cursor has been moved by something other than one ConsumeIndent(p.Indent()) before the block is opened: the span of "+kn+" does not start at its marker")
						}
						// arguments that describe the marker
						if name == "OpenHeadingBlock" && k == atxK {
							nLen++
							rc, _ := recogniserResultOf(p, call.Call.Args[2])
							k2 := fmt.Sprintf("blockStarts[%d]:OpenHeadingBlock.level", idx)
							report(rc != nil, "MARKER-LEN", k2, in.Pos(), "the level handed to OpenHeadingBlock is not a component of the recogniser's result for p.BytesAfterIndent()")
							if rc != nil {
								okSites["MARKER-LEN/"+k2] = in.Pos()
							}
						}
						if name == "OpenFencedCodeBlock" {
							for ai, an := range []string{"char", "length"} {
								nLen++
								rc, _ := recogniserResultOf(p, call.Call.Args[1+ai])
								k2 := fmt.Sprintf("blockStarts[%d]:OpenFencedCodeBlock.%s", idx, an)
								report(rc != nil, "MARKER-LEN", k2, in.Pos(), "the fence "+an+" handed to OpenFencedCodeBlock is not a component of the recogniser's result for p.BytesAfterIndent()")
								if rc != nil {
									okSites["MARKER-LEN/"+k2] = in.Pos()
								}
							}
						}
						if s.phase == 1 || s.phase == 0 {
							s.phase = 2
						}
						if isConst && k == markK {
							s.phase = 4
						}
					} else {
						// a block of another kind: its start is not claimed; but it ends the "same position" run
						if s.phase == 4 || s.phase == 5 {
							report(false, "MARKER-LEN", fmt.Sprintf("blockStarts[%d]:marker-advance", idx), in.Pos(), "another block is opened inside the marker block")
						}
					}
				}
			}
			iff := blockIf(b)
			for i, sc := range b.Succs {
				ns := s
				ns.b = sc
				if iff != nil && s.fresh != nil && zeroEdge(iff, s.fresh) == i {
					ns.zero = true
				}
				k := key{sc, ns.phase, ns.fresh, ns.zero}
				if seen[k] {
					continue
				}
				seen[k] = true
				walk(sc, 0, ns)
			}
		}
		walk(fn.Blocks[0], 0, pst{b: fn.Blocks[0]})
		for k, pos := range okSites {
			if !reported[k+"/bad"] {
				parts := strings.SplitN(k, "/", 2)
				c.OK(parts[0], parts[1], pos, "")
			}
		}
	}
	c.Analysed["block_start_rules"] = len(starts)
	c.Analysed["marker_block_opens_on_paths"] = nOpen
	if c.Count("OPEN-AT-MARKER") < 7 {
		c.Undecided("OPEN-AT-MARKER", "instance-count", token.NoPos, fmt.Sprintf("%d marker-kind opens found in the block-start rules; 7 were confirmed by hand (block quote, ATX heading, fenced code, thematic break, list, list item, list marker)", c.Count("OPEN-AT-MARKER")))
	}
	if c.Count("MARKER-LEN") < 5 {
		c.Undecided("MARKER-LEN", "instance-count", token.NoPos, fmt.Sprintf("%d marker-description sites found; 5 were confirmed by hand (marker advance, ATX level, setext level, fence character, fence length)", c.Count("MARKER-LEN")))
	}
}

// helperCallsLP: f (handed the parser) calls the named lineParser method, directly or through further helpers.
func helperCallsLP(p *Program, f *ssa.Function, method string, busy map[*ssa.Function]bool) bool {
	if f == nil || f.Blocks == nil || busy[f] {
		return false
	}
	busy[f] = true
	found := false
	eachInstr(f, func(in ssa.Instruction) {
		if found {
			return
		}
		if call, name := lpCall(in); call != nil {
			if name == method {
				found = true
			}
			return
		}
		if ci, ok := in.(ssa.CallInstruction); ok {
			if g := ci.Common().StaticCallee(); g != nil && p.InModule(g) {
				for _, a := range ci.Common().Args {
					if typeName(deref(a.Type())) == "lineParser" && helperCallsLP(p, g, method, busy) {
						found = true
					}
				}
			}
		}
	})
	return found
}

// helperMovesCursor: f (handed the parser) calls, directly or through further helpers, a cursor-moving or
// block-opening lineParser method.
func helperMovesCursor(p *Program, f *ssa.Function, busy map[*ssa.Function]bool) bool {
	if f == nil || f.Blocks == nil || busy[f] {
		return false
	}
	busy[f] = true
	moves := false
	eachInstr(f, func(in ssa.Instruction) {
		if moves {
			return
		}
		if call, name := lpCall(in); call != nil {
			if positionMovingLP[name] || isOpenLP(name) || name == "EndBlock" {
				moves = true
			}
			return
		}
		if ci, ok := in.(ssa.CallInstruction); ok {
			if g := ci.Common().StaticCallee(); g != nil && p.InModule(g) {
				for _, a := range ci.Common().Args {
					if typeName(deref(a.Type())) == "lineParser" && helperMovesCursor(p, g, busy) {
						moves = true
					}
				}
			}
		}
	})
	return moves
}

// ---------------------------------------------------------------------------------------------
// SETEXT-CHAR

func ruleSetextChar(c *Ctx) {
	c.Rule("SETEXT-CHAR", "In the setext underline recogniser the level returned is decided by the first byte of the line: evaluating the function with that byte fixed (every other branch taken both ways), '=' can only return 0 or 1, '-' only 0 or 2, and every other byte only 0 — a setext heading of level 1 ends in an '=' underline, level 2 in a '-' underline.")
	p := c.P
	fn := p.Func("parseSetextHeadingUnderline")
	if !c.NeedFunc("SETEXT-CHAR", fn, "parseSetextHeadingUnderline") {
		return
	}
	// the symbol: loads of line[0] (index constant 0 of the parameter)
	var param *ssa.Parameter
	for _, prm := range fn.Params {
		if sl, ok := prm.Type().Underlying().(*types.Slice); ok {
			if bt, ok := sl.Elem().Underlying().(*types.Basic); ok && bt.Kind() == types.Uint8 {
				param = prm
			}
		}
	}
	if param == nil {
		c.Undecided("SETEXT-CHAR", "parseSetextHeadingUnderline:param", fn.Pos(), "no byte-slice parameter")
		return
	}
	isFirst := func(v ssa.Value) bool {
		u, ok := v.(*ssa.UnOp)
		if !ok || u.Op != token.MUL {
			return false
		}
		ia, ok := u.X.(*ssa.IndexAddr)
		if !ok || ia.X != ssa.Value(param) {
			return false
		}
		k, ok := constInt(ia.Index)
		return ok && k == 0
	}
	found := false
	eachInstr(fn, func(in ssa.Instruction) {
		if v, ok := in.(ssa.Value); ok && isFirst(v) {
			found = true
		}
	})
	if !found {
		c.Undecided("SETEXT-CHAR", "parseSetextHeadingUnderline:first-byte", fn.Pos(), "the recogniser no longer reads line[0] directly; the level's dependence on the underline character is not visible")
		return
	}
	e := newBSET(p)
	want := map[int64][]int64{'=': {0, 1}, '-': {0, 2}}
	bad := ""
	for d := int64(0); d < 256; d++ {
		sig := e.outcomeSig(fn, isFirst, d)
		// collect ret0 values
		allowed := want[d]
		if allowed == nil {
			allowed = []int64{0}
		}
		for _, part := range strings.Split(sig, ",") {
			if strings.HasPrefix(part, "ret0=") {
				var v int64
				fmt.Sscanf(part, "ret0=%d", &v)
				okv := false
				for _, a := range allowed {
					if a == v {
						okv = true
					}
				}
				if !okv {
					bad += fmt.Sprintf(" byte %q may return level %d;", rune(d), v)
				}
			}
		}
		// the wanted non-zero level must be possible
		if w := want[d]; w != nil {
			if !strings.Contains(","+sig+",", fmt.Sprintf(",ret0=%d,", w[1])) {
				bad += fmt.Sprintf(" byte %q cannot return level %d;", rune(d), w[1])
			}
		}
		if len(bad) > 300 {
			break
		}
	}
	c.Check(bad == "", "SETEXT-CHAR", "parseSetextHeadingUnderline", fn.Pos(), "level by first byte:"+bad)
}

// ---------------------------------------------------------------------------------------------
// EMPH-SHRINK

func ruleEmphShrink(c *Ctx) {
	c.Rule("EMPH-SHRINK", "In processEmphasis every call of wrap(kind, opener, closer) with a constant kind is preceded, in its own basic block or the blocks that lead only to it, by exactly one subtraction from opener.span.End and one addition to closer.span.Start of the same constant n, with n = 2 when kind is StrongKind and n = 1 when kind is EmphasisKind; and wrap takes the new node's Start from its start node's span End and its End from its end node's span Start. The node then starts with n delimiter characters of the opener run and ends with n of the closer run.")
	p := c.P
	fn := p.Method("InlineParser", "processEmphasis")
	wrap := p.Method("inlineState", "wrap")
	if !c.NeedFunc("EMPH-SHRINK", fn, "(*InlineParser).processEmphasis") || !c.NeedFunc("EMPH-SHRINK", wrap, "(*inlineState).wrap") {
		return
	}
	strongK, _ := kindValue(p, "InlineKind", "StrongKind")
	emphK, _ := kindValue(p, "InlineKind", "EmphasisKind")
	// alternatives: a constant, or a phi all of whose edges are constants → per-edge values (edge -1 = constant)
	alts := func(v ssa.Value) (map[int]int64, *ssa.Phi, bool) {
		if cv, ok := v.(*ssa.Convert); ok {
			v = cv.X
		}
		if k, ok := constInt(v); ok {
			return map[int]int64{-1: k}, nil, true
		}
		if ph, ok := v.(*ssa.Phi); ok {
			m := map[int]int64{}
			for i, e := range ph.Edges {
				k, ok := constInt(e)
				if !ok {
					return nil, nil, false
				}
				m[i] = k
			}
			return m, ph, true
		}
		return nil, nil, false
	}
	n := 0
	eachInstr(fn, func(in ssa.Instruction) {
		call, ok := in.(*ssa.Call)
		if !ok || call.Call.StaticCallee() != wrap {
			return
		}
		args := call.Call.Args // state, kind, start, end
		if len(args) != 4 {
			return
		}
		kinds, kphi, ok := alts(args[1])
		if !ok {
			return
		}
		isEmph := false
		for _, k := range kinds {
			if k == strongK || k == emphK {
				isEmph = true
			}
		}
		if !isEmph {
			return
		}
		n++
		key := fmt.Sprintf("processEmphasis:wrap#%d", n)
		// the shrinking stores that reach this call: in the call's block, or in blocks between the kind phi and the call
		var blocks []*ssa.BasicBlock
		if kphi == nil {
			blocks = []*ssa.BasicBlock{call.Block()}
		} else {
			for _, b := range fn.Blocks {
				if kphi.Block().Dominates(b) && b.Dominates(call.Block()) {
					blocks = append(blocks, b)
				}
			}
		}
		type delta struct {
			vals map[int]int64
			phi  *ssa.Phi
		}
		var endD, startD []delta
		okShape := true
		why := ""
		for _, b := range blocks {
			for _, bi := range b.Instrs {
				if bi == in {
					break
				}
				st, ok := bi.(*ssa.Store)
				if !ok {
					continue
				}
				fa, ok := st.Addr.(*ssa.FieldAddr)
				if !ok {
					continue
				}
				tn, fld, _ := fieldAddrInfo(fa)
				if tn != "Span" {
					continue
				}
				inner, ok := fa.X.(*ssa.FieldAddr)
				if !ok {
					continue
				}
				tn2, fld2, _ := fieldAddrInfo(inner)
				if tn2 != "Inline" || fld2 != "span" {
					continue
				}
				bo, ok := st.Val.(*ssa.BinOp)
				if !ok {
					okShape, why = false, "a span boundary of a delimiter node is overwritten by something other than ±constant"
					continue
				}
				dv, dphi, isAlt := alts(bo.Y)
				if !isAlt {
					okShape, why = false, "a span boundary of a delimiter node changes by a non-constant amount"
					continue
				}
				switch {
				case (inner.X == args[2] || sameTerm(inner.X, args[2])) && fld == "End" && bo.Op == token.SUB:
					endD = append(endD, delta{dv, dphi})
				case (inner.X == args[3] || sameTerm(inner.X, args[3])) && fld == "Start" && bo.Op == token.ADD:
					startD = append(startD, delta{dv, dphi})
				default:
					okShape, why = false, "a span boundary other than the opener's End (−) and the closer's Start (+) is changed before wrap"
				}
			}
		}
		if okShape && (len(endD) != 1 || len(startD) != 1) {
			okShape, why = false, fmt.Sprintf("%d subtraction(s) from the opener's End and %d addition(s) to the closer's Start precede wrap; exactly one of each is expected", len(endD), len(startD))
		}
		if okShape {
			for _, d := range []delta{endD[0], startD[0]} {
				// correlate per alternative
				if (d.phi == nil) != (kphi == nil) || (d.phi != nil && d.phi.Block() != kphi.Block()) {
					okShape, why = false, "the amount and the kind are not chosen together (one is a constant or is selected at a different join than the other)"
					break
				}
				for i, k := range kinds {
					want := int64(0)
					switch k {
					case strongK:
						want = 2
					case emphK:
						want = 1
					default:
						okShape, why = false, "wrap may be called with a kind other than emphasis / strong emphasis here"
					}
					if d.vals[i] != want {
						okShape, why = false, fmt.Sprintf("kind %s goes with a change of %d delimiter character(s), want %d", inlineKindName(p, k), d.vals[i], want)
					}
				}
			}
		}
		if why == "" {
			why = "strong ⇔ 2, emphasis ⇔ 1 on both runs"
		}
		c.Check(okShape, "EMPH-SHRINK", key, call.Pos(), why)
	})
	if n < 1 {
		c.Undecided("EMPH-SHRINK", "instance-count", fn.Pos(), "no wrap call with an emphasis kind found in processEmphasis")
	}
	// wrap: span of the new node
	var startOK, endOK bool
	var newNode *ssa.Alloc
	eachInstr(wrap, func(in ssa.Instruction) {
		if al, ok := in.(*ssa.Alloc); ok && typeName(deref(al.Type())) == "Inline" && al.Heap {
			newNode = al
		}
	})
	if newNode == nil {
		c.Undecided("EMPH-SHRINK", "wrap:new-node", wrap.Pos(), "wrap no longer allocates the new node itself")
		return
	}
	spanOf := func(v ssa.Value, which string, node ssa.Value) bool {
		// v is (Span of node).which, through the Span() accessor or the field
		for i := 0; i < 4; i++ {
			switch x := v.(type) {
			case *ssa.Field:
				_, f := fieldInfo(x)
				if f != which {
					return false
				}
				if cl, ok := x.X.(*ssa.Call); ok {
					if g := cl.Call.StaticCallee(); g != nil && g.Name() == "Span" && len(cl.Call.Args) == 1 && cl.Call.Args[0] == node {
						return true
					}
				}
				return false
			case *ssa.UnOp:
				if fa, ok := x.X.(*ssa.FieldAddr); ok {
					tn, f, _ := fieldAddrInfo(fa)
					if tn == "Span" && f == which {
						if in2, ok := fa.X.(*ssa.FieldAddr); ok && in2.X == node {
							return true
						}
					}
				}
				return false
			}
		}
		return false
	}
	if len(wrap.Params) >= 4 {
		startNode, endNode := ssa.Value(wrap.Params[2]), ssa.Value(wrap.Params[3])
		eachInstr(wrap, func(in ssa.Instruction) {
			st, ok := in.(*ssa.Store)
			if !ok {
				return
			}
			fa, ok := st.Addr.(*ssa.FieldAddr)
			if !ok {
				return
			}
			tn, fld, _ := fieldAddrInfo(fa)
			if tn != "Span" {
				return
			}
			inner, ok := fa.X.(*ssa.FieldAddr)
			if !ok || inner.X != ssa.Value(newNode) {
				return
			}
			if fld == "Start" && spanOf(st.Val, "End", startNode) {
				startOK = true
			}
			if fld == "End" && spanOf(st.Val, "Start", endNode) {
				endOK = true
			}
		})
	}
	c.Check(startOK && endOK, "EMPH-SHRINK", "wrap:span", wrap.Pos(), fmt.Sprintf("new node's Start taken from startNode's span End: %v; End taken from endNode's span Start: %v", startOK, endOK))
}

func init() {
	addControls(
		Control{Name: "blockquote-opened-before-indent-consumed", Props: []string{"C13"}, File: "blocks.go",
			Old: "\t\tp.ConsumeIndent(indent)\n\t\tp.OpenBlock(BlockQuoteKind)\n", New: "\t\tp.OpenBlock(BlockQuoteKind)\n\t\tp.ConsumeIndent(indent)\n", Expect: "OPEN-AT-MARKER/blockStarts[0]",
			Why: "'   > a' then has a block quote whose span starts with three spaces"},
		Control{Name: "thematic-break-opened-after-advance", Props: []string{"C13"}, File: "blocks.go",
			Old: "\t\tp.OpenBlock(ThematicBreakKind)\n\t\tp.Advance(end)\n", New: "\t\tp.Advance(end)\n\t\tp.OpenBlock(ThematicBreakKind)\n", Expect: "OPEN-AT-MARKER/blockStarts[5]"},
		Control{Name: "list-marker-advance-not-recognised-length", Props: []string{"C13"}, File: "blocks.go",
			Old: "\t\tp.OpenBlock(ListMarkerKind)\n\t\tp.Advance(m.end)\n", New: "\t\tp.OpenBlock(ListMarkerKind)\n\t\tp.Advance(1)\n", Expect: "MARKER-LEN/blockStarts[6]:marker-advance",
			Why: "'10. a' would get the marker '1'"},
		Control{Name: "atx-level-constant", Props: []string{"C13"}, File: "blocks.go",
			Old: "p.OpenHeadingBlock(ATXHeadingKind, h.level)", New: "p.OpenHeadingBlock(ATXHeadingKind, 1)", Expect: "MARKER-LEN/blockStarts[1]:OpenHeadingBlock.level"},
		Control{Name: "setext-levels-swapped", Props: []string{"C13"}, File: "blocks.go",
			Old: "\tcase '=':\n\t\tlevel = 1\n\tcase '-':\n\t\tlevel = 2\n", New: "\tcase '=':\n\t\tlevel = 2\n\tcase '-':\n\t\tlevel = 1\n", Expect: "SETEXT-CHAR"},
		Control{Name: "strong-closer-shrinks-by-one", Props: []string{"C13"}, File: "inlines.go",
			Old: "\t\t\t\topener.span.End -= 2\n\t\t\t\tcloser.span.Start += 2\n", New: "\t\t\t\topener.span.End -= 2\n\t\t\t\tcloser.span.Start++\n", Expect: "EMPH-SHRINK/processEmphasis:wrap"},
		Control{Name: "wrap-span-starts-at-start-node-start", Props: []string{"C13"}, File: "inlines.go",
			Old: "\t\t\tStart: startNode.Span().End,\n\t\t\tEnd:   parent.Span().End,", New: "\t\t\tStart: startNode.Span().Start,\n\t\t\tEnd:   parent.Span().End,", Expect: "EMPH-SHRINK/wrap:span"},
		Control{Name: "neg-emphasis-kind-and-amount-as-variables", Props: []string{"C13", "C11"}, File: "inlines.go", Negative: true,
			Old: "\t\t\tif strong {\n\t\t\t\topener.span.End -= 2\n\t\t\t\tcloser.span.Start += 2\n\t\t\t\tstate.wrap(StrongKind, opener, closer)\n\t\t\t} else {\n\t\t\t\topener.span.End--\n\t\t\t\tcloser.span.Start++\n\t\t\t\tstate.wrap(EmphasisKind, opener, closer)\n\t\t\t}\n",
			New: "\t\t\tkind, use := EmphasisKind, 1\n\t\t\tif strong {\n\t\t\t\tkind, use = StrongKind, 2\n\t\t\t}\n\t\t\topener.span.End -= use\n\t\t\tcloser.span.Start += use\n\t\t\tstate.wrap(kind, opener, closer)\n"},
		Control{Name: "neg-blockquote-consume-indent-only-if-positive", Props: []string{"C13", "C04"}, File: "blocks.go", Negative: true,
			Old: "\t\tp.ConsumeIndent(indent)\n\t\tp.OpenBlock(BlockQuoteKind)\n", New: "\t\tif indent > 0 {\n\t\t\tp.ConsumeIndent(indent)\n\t\t}\n\t\tp.OpenBlock(BlockQuoteKind)\n"},
		Control{Name: "neg-fence-result-in-locals", Props: []string{"C13"}, File: "blocks.go", Negative: true,
			Old: "\t\tp.OpenFencedCodeBlock(f.char, f.n)\n", New: "\t\tfenceChar, fenceLen := f.char, f.n\n\t\tp.OpenFencedCodeBlock(fenceChar, fenceLen)\n"},
	)
}

// ---------------------------------------------------------------------------------------------
// START-NONBLANK (C15, C09, C06): no block start opens a block on a rest of line that is blank.

func ruleStartNonBlank(c *Ctx) {
	c.Rule("START-NONBLANK", "Every call that opens a block in a block-start rule (entry of blockStarts) is dominated by a decision about the content of the rest of the line: the failing edge of a p.IsRestBlank() test, or a branch on a value computed from p.BytesAfterIndent() (a recogniser's result, a prefix test, a comparison of its first byte). CommonMark starts no block on a blank line; a rule that looks only at the indentation and at the kind of the open blocks (the indented-code rule without its blank test) opens an empty code block on a line of four spaces — which never happens at top level, where blank lines do not reach the block starts, but does inside a block quote, where the line is '>' followed by spaces.")
	p := c.P
	starts := blockStartFuncs(p)
	n := 0
	for idx, fn := range starts {
		if fn == nil || fn.Blocks == nil {
			continue
		}
		// does v depend on the line's content?
		var dep func(v ssa.Value, d int, seen map[ssa.Value]bool) bool
		dep = func(v ssa.Value, d int, seen map[ssa.Value]bool) bool {
			if v == nil || d > 10 || seen[v] {
				return false
			}
			seen[v] = true
			if call, ok := v.(*ssa.Call); ok {
				if _, nm := lpCall(call); nm == "BytesAfterIndent" {
					return true
				}
				if _, nm := lpCall(call); nm != "" {
					return false
				}
				// a helper that is handed the parser and looks at the rest of the line
				if g := call.Call.StaticCallee(); g != nil && p.InModule(g) {
					for _, a := range call.Call.Args {
						if typeName(deref(a.Type())) == "lineParser" && (helperCallsLP(p, g, "BytesAfterIndent", map[*ssa.Function]bool{}) || helperCallsLP(p, g, "IsRestBlank", map[*ssa.Function]bool{})) {
							return true
						}
					}
				}
			}
			if in, ok := v.(ssa.Instruction); ok {
				for _, op := range in.Operands(nil) {
					if op != nil && *op != nil && dep(*op, d+1, seen) {
						return true
					}
				}
			}
			// loads of locals: what was stored
			if u, ok := v.(*ssa.UnOp); ok && u.Op == token.MUL {
				if _, root, ok := localFieldPath(u.X); ok {
					for _, r := range refsOf(root) {
						if st, ok := r.(*ssa.Store); ok && dep(st.Val, d+1, seen) {
							return true
						}
					}
				} else if al, ok := u.X.(*ssa.Alloc); ok {
					for _, r := range refsOf(al) {
						if st, ok := r.(*ssa.Store); ok && st.Addr == ssa.Value(al) && dep(st.Val, d+1, seen) {
							return true
						}
					}
				}
			}
			return false
		}
		eachInstr(fn, func(in ssa.Instruction) {
			call, name := lpCall(in)
			if call == nil || !isOpenLP(name) {
				return
			}
			n++
			k, _ := openedKind(p, call, name)
			key := fmt.Sprintf("blockStarts[%d]:%s[%s]", idx, name, blockKindName(p, k))
			good := false
			for _, b := range fn.Blocks {
				iff := blockIf(b)
				if iff == nil {
					continue
				}
				cond := iff.Cond
				neg := false
				if u, ok := cond.(*ssa.UnOp); ok && u.Op == token.NOT {
					cond, neg = u.X, true
				}
				if cc, ok := cond.(*ssa.Call); ok {
					if _, nm := lpCall(cc); nm == "IsRestBlank" {
						edge := 1
						if neg {
							edge = 0
						}
						if edgeDominates(b, edge, call.Block()) {
							good = true
						}
						continue
					}
				}
				if dep(iff.Cond, 0, map[ssa.Value]bool{}) && (edgeDominates(b, 0, call.Block()) || edgeDominates(b, 1, call.Block())) {
					good = true
				}
			}
			c.Check(good, "START-NONBLANK", key, call.Pos(), "the block is opened without any dominating decision about the content of the rest of the line (neither a blank test nor a test of p.BytesAfterIndent())")
		})
	}
	if n < 9 {
		c.Undecided("START-NONBLANK", "instance-count", token.NoPos, fmt.Sprintf("%d block-opening calls found in the block-start rules; 9 confirmed by hand", n))
	}
}

func init() {
	addControls(
		Control{Name: "indented-code-start-without-blank-test", Props: []string{"C15", "C09"}, File: "blocks.go",
			Old: "if p.Indent() < codeBlockIndentLimit || p.IsRestBlank() || p.TipKind() == ParagraphKind {", New: "if p.Indent() < codeBlockIndentLimit || p.TipKind() == ParagraphKind {", Expect: "START-NONBLANK/blockStarts[7]",
			Why: "'>     ' (a quoted line of spaces) after a heading opens an empty indented code block inside the quote"},
		Control{Name: "neg-indented-code-start-blank-test-first", Props: []string{"C15", "C09"}, File: "blocks.go", Negative: true,
			Old: "if p.Indent() < codeBlockIndentLimit || p.IsRestBlank() || p.TipKind() == ParagraphKind {\n\t\t\treturn\n\t\t}", New: "if p.IsRestBlank() {\n\t\t\treturn\n\t\t}\n\t\tif p.TipKind() == ParagraphKind || p.Indent() < codeBlockIndentLimit {\n\t\t\treturn\n\t\t}"},
	)
}

// ---------------------------------------------------------------------------------------------
// HARDBREAK-SET

func ruleHardBreakSet(c *Ctx) {
	c.Rule("HARDBREAK-SET", "The scanner for a hard line break written with spaces passes over spaces and the bytes of the line ending only: for every loop of parseHardLineBreakSpace, the set of values of the byte it reads for which the loop goes round again (branches that depend on that byte alone decided for each of the 256 values, all others both ways) is a subset of {space, LF, CR}. A scanner that also passes over tabs makes 'foo␠␠⇥⏎' a hard break whose span is not '2+ spaces with the line ending'.")
	p := c.P
	fn := p.Func("parseHardLineBreakSpace")
	if !c.NeedFunc("HARDBREAK-SET", fn, "parseHardLineBreakSpace") {
		return
	}
	e := newBSET(p)
	loops := naturalLoops(fn)
	n := 0
	for li, l := range loops {
		inLoop := func(v ssa.Value) bool {
			u, ok := v.(*ssa.UnOp)
			if !ok || u.Op != token.MUL || !l.body[u.Block()] {
				return false
			}
			ia, ok := u.X.(*ssa.IndexAddr)
			if !ok {
				return false
			}
			_, isParam := ia.X.(*ssa.Parameter)
			return isParam
		}
		has := false
		eachInstr(fn, func(in ssa.Instruction) {
			if v, ok := in.(ssa.Value); ok && inLoop(v) {
				has = true
			}
		})
		if !has {
			continue
		}
		n++
		_, edges := e.reachEdgesUnderSym(fn, inLoop, byteDomain())
		cont := map[int64]bool{}
		for _, lt := range l.latches {
			for v := range edges[[2]int{lt.Index, l.header.Index}] {
				cont[v] = true
			}
		}
		var extra, all []int64
		for v := range cont {
			all = append(all, v)
			if v != ' ' && v != '\n' && v != '\r' {
				extra = append(extra, v)
			}
		}
		sort.Slice(all, func(i, j int) bool { return all[i] < all[j] })
		sort.Slice(extra, func(i, j int) bool { return extra[i] < extra[j] })
		c.Check(len(extra) == 0, "HARDBREAK-SET", fmt.Sprintf("parseHardLineBreakSpace:loop#%d", li+1), l.header.Instrs[0].Pos(), fmt.Sprintf("the loop continues for %s; bytes other than space, LF, CR: %s", describeSet(all, true), describeSet(extra, true)))
	}
	if n < 1 {
		c.Undecided("HARDBREAK-SET", "instance-count", fn.Pos(), "no loop of parseHardLineBreakSpace reads the text byte by byte any more; the scanner's byte set is not visible")
	}
}

func init() {
	addControls(
		Control{Name: "hard-break-scan-passes-tabs", Props: []string{"C13"}, File: "inlines.go",
			Old: "\t\tif c := remaining[end]; c != ' ' && c != '\\n' && c != '\\r' {", New: "\t\tif !isSpaceTabOrLineEnding(remaining[end]) {", Expect: "HARDBREAK-SET/parseHardLineBreakSpace:loop"},
		Control{Name: "neg-hard-break-scan-as-switch", Props: []string{"C13", "C14"}, File: "inlines.go", Negative: true,
			Old: "\t\tif c := remaining[end]; c != ' ' && c != '\\n' && c != '\\r' {\n\t\t\treturn end, false\n\t\t}", New: "\t\tswitch remaining[end] {\n\t\tcase ' ', '\\n', '\\r':\n\t\tdefault:\n\t\t\treturn end, false\n\t\t}"},
	)
}

// ---------------------------------------------------------------------------------------------
// EMPH-CURRENT: whether a pair of runs makes strong emphasis is decided by what is left of each run now.

func ruleEmphCurrent(c *Ctx) {
	c.Rule("EMPH-CURRENT", "A delimiter run can be used by several matches; each takes one or two characters off it. Whether a match makes strong emphasis ('both runs have at least two characters left') must therefore look at what is left of the opener and of the closer at that moment: in processEmphasis every quantity that the strong decision compares with 2 is the current length of a delimiter node's span (Span().Len() of the node handed to wrap, or End−Start of its span), or a field of an element of the delimiter stack that the function reduces, through the stack slot itself, when delimiters are used. A count read from a copy of the stack element, or one that is never reduced (the run length as scanned), lets a closer that has given away all but one character make strong emphasis again: the node then does not end in two delimiter characters.")
	p := c.P
	fn := p.Method("InlineParser", "processEmphasis")
	wrap := p.Method("inlineState", "wrap")
	if !c.NeedFunc("EMPH-CURRENT", fn, "(*InlineParser).processEmphasis") || wrap == nil {
		return
	}
	strongK, _ := kindValue(p, "InlineKind", "StrongKind")
	// the branches that select strong: every If on the dominator chain of the point where the kind becomes StrongKind
	// (the block of wrap(StrongKind, …), or the predecessor that feeds StrongKind into the kind phi) one of whose edges
	// leads there; only comparisons with 2 are looked at below, so outer conditions (an opener was found) do not matter
	var conds []ssa.Value
	addDominatingIfs := func(at *ssa.BasicBlock) {
		for id := at.Idom(); id != nil; id = id.Idom() {
			if iff := blockIf(id); iff != nil && (edgeDominates(id, 0, at) != edgeDominates(id, 1, at)) {
				conds = append(conds, iff.Cond)
			}
		}
	}
	eachInstr(fn, func(in ssa.Instruction) {
		call, ok := in.(*ssa.Call)
		if !ok || call.Call.StaticCallee() != wrap || len(call.Call.Args) != 4 {
			return
		}
		if k, ok := constInt(call.Call.Args[1]); ok && k == strongK {
			addDominatingIfs(call.Block())
		}
		if ph, ok := call.Call.Args[1].(*ssa.Phi); ok {
			for i, e := range ph.Edges {
				if k, ok := constInt(e); ok && k == strongK {
					pr := ph.Block().Preds[i]
					addDominatingIfs(pr)
					if iff := blockIf(pr); iff != nil {
						conds = append(conds, iff.Cond)
					}
				}
			}
		}
	})
	if len(conds) == 0 {
		c.Undecided("EMPH-CURRENT", "processEmphasis:strong-decision", fn.Pos(), "the branch that decides between emphasis and strong emphasis was not found")
		return
	}
	// operands compared with 2
	var ops []ssa.Value
	seen := map[ssa.Value]bool{}
	var walk func(v ssa.Value)
	walk = func(v ssa.Value) {
		if v == nil || seen[v] {
			return
		}
		seen[v] = true
		switch x := v.(type) {
		case *ssa.Phi:
			for _, e := range x.Edges {
				walk(e)
			}
			// the && / || lowering: the branch conditions that lead into this phi
			for _, pr := range x.Block().Preds {
				if iff := blockIf(pr); iff != nil {
					walk(iff.Cond)
				}
			}
		case *ssa.UnOp:
			if x.Op == token.NOT {
				walk(x.X)
			}
		case *ssa.BinOp:
			k, isC := constInt(x.Y)
			switch {
			case isC && ((x.Op == token.GEQ && k == 2) || (x.Op == token.GTR && k == 1) || (x.Op == token.LSS && k == 2) || (x.Op == token.LEQ && k == 1)):
				ops = append(ops, x.X)
			case x.Op == token.LAND || x.Op == token.LOR || x.Op == token.AND || x.Op == token.OR:
				walk(x.X)
				walk(x.Y)
			}
		}
	}
	for _, cnd := range conds {
		walk(cnd)
	}
	if len(ops) == 0 {
		c.Undecided("EMPH-CURRENT", "processEmphasis:strong-decision", fn.Pos(), "the strong decision does not compare anything with 2 in a form this rule recognises")
		return
	}
	// stores that reduce a field of a stack slot
	reducedVia := map[int]bool{} // field index of delimiterStackElement reduced through a slot pointer
	slotPtr := func(v ssa.Value) bool {
		ia, ok := v.(*ssa.IndexAddr)
		if !ok {
			return false
		}
		_, ok = isLoadOfField(ia.X, "inlineState", "stack")
		return ok
	}
	eachInstr(fn, func(in ssa.Instruction) {
		st, ok := in.(*ssa.Store)
		if !ok {
			return
		}
		fa, ok := st.Addr.(*ssa.FieldAddr)
		if !ok || typeName(deref(fa.X.Type())) != "delimiterStackElement" || !slotPtr(fa.X) {
			return
		}
		if bo, ok := st.Val.(*ssa.BinOp); ok && bo.Op == token.SUB {
			reducedVia[fa.Field] = true
		}
	})
	for i, v := range ops {
		key := fmt.Sprintf("processEmphasis:strong-operand#%d", i+1)
		good, why := false, ""
		switch x := v.(type) {
		case *ssa.Call:
			if g := x.Call.StaticCallee(); g != nil && g.Name() == "Len" && len(x.Call.Args) == 1 {
				if sc, ok := x.Call.Args[0].(*ssa.Call); ok {
					if sg := sc.Call.StaticCallee(); sg != nil && sg.Name() == "Span" && typeName(deref(sc.Call.Args[0].Type())) == "Inline" {
						good, why = true, "current length of a delimiter node's span"
					}
				}
				if ld, ok := x.Call.Args[0].(*ssa.UnOp); ok && ld.Op == token.MUL {
					if fa, ok := ld.X.(*ssa.FieldAddr); ok {
						if tn, f, _ := fieldAddrInfo(fa); tn == "Inline" && f == "span" {
							good, why = true, "current length of a delimiter node's span"
						}
					}
				}
			}
		case *ssa.BinOp:
			if x.Op == token.SUB {
				good, why = true, "difference of two positions"
			}
		case *ssa.UnOp:
			if x.Op == token.MUL {
				if fa, ok := x.X.(*ssa.FieldAddr); ok && typeName(deref(fa.X.Type())) == "delimiterStackElement" {
					switch {
					case !slotPtr(fa.X):
						why = "a count read from a copy of the stack element (a local), not from the stack slot"
					case !reducedVia[fa.Field]:
						why = "a field of the stack element that processEmphasis never reduces through the stack slot"
					default:
						good, why = true, "a field of the stack slot that is reduced through the slot when delimiters are used"
					}
				}
			}
		case *ssa.Field:
			if typeName(x.X.Type()) == "delimiterStackElement" {
				why = "a count read from a copy of the stack element (a value loaded earlier), which later matches do not update"
			}
		}
		if why == "" {
			why = "not a quantity this rule can relate to what is left of the run: " + describeValue(v)
		}
		c.Check(good, "EMPH-CURRENT", key, v.Pos(), why)
	}
}

func init() {
	addControls(
		Control{Name: "strong-decided-by-scanned-run-length", Props: []string{"C13", "C11"}, File: "inlines.go",
			Old: "strong := opener.Span().Len() >= 2 && closer.Span().Len() >= 2", New: "strong := opener.Span().Len() >= 2 && state.stack[currentPosition].n >= 2", Expect: "EMPH-CURRENT/processEmphasis:strong-operand",
			Why: "'**a **b*** c': the closer has one character left when it meets the second opener"},
		Control{Name: "neg-strong-decision-with-locals", Props: []string{"C13", "C11"}, File: "inlines.go", Negative: true,
			Old: "strong := opener.Span().Len() >= 2 && closer.Span().Len() >= 2", New: "openerLeft, closerLeft := opener.Span().Len(), closer.Span().Len()\n\t\t\tstrong := openerLeft > 1 && closerLeft > 1"},
	)
}

// ---------------------------------------------------------------------------------------------
// TAB-SYNC: the cached width of the tab under the cursor is recomputed whenever the cursor moves.

func ruleTabSync(c *Ctx) {
	c.Rule("TAB-SYNC", "lineParser caches, in tabRemaining, how many columns of the tab under the cursor are still unconsumed; Indent() and ConsumeIndent() trust it. In every method of lineParser that stores the cursor index (the field i), every path from such a store to a return (or panic) stores tabRemaining or calls a method that does (updateTabRemaining): a fast path that advances over a run of spaces and returns early leaves the cursor on a tab with a stale width of 0 — Indent() then reports no indentation while BytesAfterIndent() skips the tab, and the block that starts there gets a span that begins with the tab.")
	p := c.P
	storesTab := mayStoreFieldSet(p, "lineParser", "tabRemaining")
	n := 0
	for _, fn := range p.Funcs {
		if fn.Pkg != p.CMs || fn.Blocks == nil {
			continue
		}
		if rv := receiverOf(fn); rv == nil || typeName(deref(rv.Type())) != "lineParser" {
			continue
		}
		refresh := func(in ssa.Instruction) bool {
			switch x := in.(type) {
			case *ssa.Store:
				_, ok := isFieldAddr(x.Addr, "lineParser", "tabRemaining")
				return ok
			case ssa.CallInstruction:
				if g := x.Common().StaticCallee(); g != nil && storesTab[g] && g != fn {
					return true
				}
			}
			return false
		}
		site := 0
		eachInstr(fn, func(in ssa.Instruction) {
			st, ok := in.(*ssa.Store)
			if !ok {
				return
			}
			if _, ok := isFieldAddr(st.Addr, "lineParser", "i"); !ok {
				return
			}
			// constructors / reset: a store of a constant together with the rest of the state is not a cursor move
			if _, isC := st.Val.(*ssa.Const); isC {
				return
			}
			n++
			site++
			c.Check(!pathToExitAvoiding(st, refresh), "TAB-SYNC", fmt.Sprintf("%s:i-store#%d", shortFuncName(fn), site), st.Pos(), "the cursor index is stored and the method can return without recomputing the width of the tab under the cursor")
		})
	}
	if n < 2 {
		c.Undecided("TAB-SYNC", "instance-count", token.NoPos, fmt.Sprintf("%d stores of the cursor index found in lineParser methods; 2 confirmed by hand (Advance, ConsumeIndent)", n))
	}
}

func init() {
	addControls(
		Control{Name: "consume-indent-space-run-returns-before-tab-refresh", Props: []string{"C13", "C04"}, File: "blocks.go",
			Old: "\t\tcase p.i < len(p.line) && p.line[p.i] == ' ':\n\t\t\tn--\n\t\t\tp.col++\n", New: "\t\tcase p.i < len(p.line) && p.line[p.i] == ' ':\n\t\t\tn--\n\t\t\tp.col++\n\t\t\tif n == 0 {\n\t\t\t\tp.i++\n\t\t\t\treturn\n\t\t\t}\n", Expect: "TAB-SYNC/(*lineParser).ConsumeIndent",
			Why: "'> \\t# foo': the heading's span then starts on the tab"},
	)
}

// ---------------------------------------------------------------------------------------------
// FENCE-INDENT (C09, C06): the indentation remembered for a fenced code block is the indentation of its fence
// relative to the enclosing container — the value p.Indent() returned and ConsumeIndent consumed at the block start.

func ruleFenceIndent(c *Ctx) {
	c.Rule("FENCE-INDENT", "Up to as many columns of indentation as the opening fence had are stripped from every line of a fenced code block. That number is relative to the enclosing container: it is the value p.Indent() returned at the block start, the same value that is handed to ConsumeIndent before the block is opened. In the block-start rule that opens a fenced code block, that very value is what is remembered — it is an argument of the opening call, or of a SetContainerIndent call that the opening call dominates. A rule that records the cursor's absolute column instead strips too much inside a block quote or list item (where the column includes the container's prefix): '    y()' keeps its four spaces at top level and loses them when the document is quoted.")
	p := c.P
	n := 0
	for idx, fn := range blockStartFuncs(p) {
		if fn == nil || fn.Blocks == nil {
			continue
		}
		eachInstr(fn, func(in ssa.Instruction) {
			call, name := lpCall(in)
			if call == nil || name != "OpenFencedCodeBlock" {
				return
			}
			n++
			key := fmt.Sprintf("blockStarts[%d]:fence-indent", idx)
			// the indent value consumed before the open
			var consumed ssa.Value
			eachInstr(fn, func(x ssa.Instruction) {
				if cc, nm := lpCall(x); cc != nil && nm == "ConsumeIndent" && (cc.Block() == call.Block() || cc.Block().Dominates(call.Block())) {
					arg := cc.Call.Args[1]
					if ic, ok := arg.(*ssa.Call); ok {
						if _, nm2 := lpCall(ic); nm2 == "Indent" {
							consumed = arg
						}
					}
					if ex, ok := arg.(*ssa.Extract); ok {
						consumed = ex
					}
				}
			})
			if consumed == nil {
				c.Undecided("FENCE-INDENT", key, call.Pos(), "no ConsumeIndent(p.Indent()) in front of the opening call (OPEN-AT-MARKER reports that)")
				return
			}
			good := false
			for _, a := range call.Call.Args[1:] {
				if a == consumed {
					good = true
				}
			}
			eachInstr(fn, func(x ssa.Instruction) {
				if cc, nm := lpCall(x); cc != nil && nm == "SetContainerIndent" && (cc.Block() == call.Block() || call.Block().Dominates(cc.Block())) && cc.Call.Args[1] == consumed {
					good = true
				}
			})
			c.Check(good, "FENCE-INDENT", key, call.Pos(), "the indentation consumed in front of the fence is not what is remembered for the block (neither an argument of the opening call nor of a SetContainerIndent call after it)")
		})
	}
	if n < 1 {
		c.Undecided("FENCE-INDENT", "instance-count", token.NoPos, "no block-start rule opens a fenced code block through OpenFencedCodeBlock")
	}
}

func init() {
	addControls(
		Control{Name: "fence-indent-not-recorded-at-block-start", Props: []string{"C09", "C06"}, File: "blocks.go",
			Old: "\t\tp.OpenFencedCodeBlock(f.char, f.n)\n\t\tp.SetContainerIndent(indent)\n", New: "\t\tp.OpenFencedCodeBlock(f.char, f.n)\n\t\tp.SetContainerIndent(p.col)\n", Expect: "FENCE-INDENT/blockStarts[2]",
			Why: "the absolute column includes the container's prefix: code lines lose their own indentation inside a quote or list item"},
	)
}
