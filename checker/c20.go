package main

// C20 — Format: sticky first error, no write after failure, result provenance, no mutation, determinism.

import (
	"fmt"
	"go/token"
	"go/types"

	"golang.org/x/tools/go/ssa"
)

func init() { props["C20"] = checkC20 }

// isWriterIface: an interface type offering Write([]byte) or WriteString(string).
func isWriterIface(t types.Type) bool {
	it, ok := t.Underlying().(*types.Interface)
	if !ok {
		return false
	}
	for i := 0; i < it.NumMethods(); i++ {
		m := it.Method(i)
		if m.Name() == "Write" || m.Name() == "WriteString" {
			return true
		}
	}
	return false
}

// writerCall describes a call through which bytes can reach the underlying writer.
type writerCall struct {
	instr  ssa.CallInstruction
	writer ssa.Value // the writer value (receiver of the invoke or the argument)
	errVal ssa.Value // the error result, nil if the result is discarded or absent
}

func errResultOf(ci ssa.CallInstruction) ssa.Value {
	v, ok := ci.(ssa.Value)
	if !ok {
		return nil
	}
	res := ci.Common().Signature().Results()
	if res.Len() == 0 {
		return nil
	}
	last := res.Len() - 1
	if !isErrorType(res.At(last).Type()) {
		return nil
	}
	if res.Len() == 1 {
		return v
	}
	for _, r := range refsOf(v) {
		if ex, ok := r.(*ssa.Extract); ok && ex.Index == last {
			return ex
		}
	}
	return nil
}

func writerCallsOf(fn *ssa.Function) []writerCall {
	var out []writerCall
	eachInstr(fn, func(in ssa.Instruction) {
		ci, ok := in.(ssa.CallInstruction)
		if !ok {
			return
		}
		com := ci.Common()
		if _, isB := com.Value.(*ssa.Builtin); isB {
			return
		}
		if com.IsInvoke() {
			if (com.Method.Name() == "Write" || com.Method.Name() == "WriteString") && isWriterIface(com.Value.Type()) {
				out = append(out, writerCall{ci, com.Value, errResultOf(ci)})
			}
			return
		}
		for _, a := range com.Args {
			if isWriterIface(a.Type()) {
				// constructors that merely store the writer are not writes; they are handled by the flow check in checkWriterFlow
				if f := com.StaticCallee(); f != nil && f.Name() == "newFormatWriter" {
					continue
				}
				out = append(out, writerCall{ci, a, errResultOf(ci)})
				break
			}
		}
	})
	return out
}

// fwBaseOf: if the writer value is loaded from field w of a *formatWriter, return that pointer.
func fwBaseOf(w ssa.Value) ssa.Value {
	for {
		switch x := w.(type) {
		case *ssa.ChangeInterface:
			w = x.X
			continue
		case *ssa.MakeInterface:
			w = x.X
			continue
		}
		break
	}
	if fa, ok := isLoadOfField(w, "formatWriter", "w"); ok {
		return fa.X
	}
	return nil
}

func checkC20(c *Ctx) {
	c.Rule("LATCH", "Every store to formatWriter.err outside the constructor happens in a state where the same writer's err field is known to be nil (forward must-analysis over the CFG: nil after the nil edge of a test of a fresh load, unknown after any store or after a call that may store the field).")
	c.Rule("WRITE-GUARD", "In package format every call through which bytes reach the underlying writer (interface Write/WriteString, or any call passing a writer-typed value) is made only while the format writer's err field is known to be nil, and its error result is stored into that field. In helper functions that hold only the raw writer (ERR-CHAIN), the error result of each such call is either returned or tested, the nil edge is the only way to a further write, and the failing edge returns that error without writing.")
	c.Rule("RETERR", "Every value Format returns is a load of the err field of the format writer it created.")
	c.Rule("WRITER-FLOW", "Format's io.Writer parameter flows only into the format writer's w field (possibly wrapped by the fallback adapter); nothing else in package format obtains it.")
	c.Rule("EFF-R/format", "Every write reachable from format.Format targets call-owned memory (tree, Source and block list untouched); formatWriter is a scratch type (nothing survives a call).")
	c.Rule("DET/format", "No nondeterminism source reachable from Format (shares DET/EFF-X with C19 over the whole module).")
	p := c.P
	storeSet := mayStoreFieldSet(p, "formatWriter", "err")
	// 1. LATCH
	var fmtFuncs []*ssa.Function
	for _, fn := range p.Funcs {
		if fn.Pkg == p.FMTs {
			fmtFuncs = append(fmtFuncs, fn)
		}
	}
	nStores := 0
	for _, fn := range fmtFuncs {
		eachInstr(fn, func(in ssa.Instruction) {
			st, ok := in.(*ssa.Store)
			if !ok {
				return
			}
			fa, ok := isFieldAddr(st.Addr, "formatWriter", "err")
			if !ok {
				return
			}
			key := shortFuncName(fn) + ":store#" + fmt.Sprint(nStores)
			nStores++
			if _, isAlloc := fa.X.(*ssa.Alloc); isAlloc {
				c.OK("LATCH", key, st.Pos(), "constructor initialisation")
				return
			}
			ff := newFieldFlow(p, fn, fa.X, "formatWriter", "err", storeSet)
			s := ff.before(st)
			c.Check(s == nsNil, "LATCH", key, st.Pos(), "err field state before this store: "+s.String()+" (must be nil: the first error is never overwritten)")
		})
	}
	if nStores < 1 {
		c.Undecided("LATCH", "instance-count", token.NoPos, fmt.Sprintf("%d stores to formatWriter.err found; every store to the field is inspected and a writer that can fail needs one", nStores))
	}
	// 2. WRITE-GUARD over every function of the package
	nCalls := 0
	for _, fn := range fmtFuncs {
		wcs := writerCallsOf(fn)
		for i, wc := range wcs {
			nCalls++
			key := fmt.Sprintf("%s:%s#%d", shortFuncName(fn), calleeName(wc.instr.Common()), i)
			if base := fwBaseOf(wc.writer); base != nil {
				ff := newFieldFlow(p, fn, base, "formatWriter", "err", storeSet)
				s := ff.before(wc.instr)
				if s != nsNil {
					c.Viol("WRITE-GUARD", key, wc.instr.Pos(), "write reachable while the err field is "+s.String()+": a failed writer could be written again")
					continue
				}
				if wc.errVal == nil {
					c.Viol("WRITE-GUARD", key, wc.instr.Pos(), "error result of the write is discarded")
					continue
				}
				stored := false
				for _, r := range refsOf(wc.errVal) {
					if st, ok := r.(*ssa.Store); ok && st.Val == wc.errVal {
						if fa, ok := isFieldAddr(st.Addr, "formatWriter", "err"); ok && fa.X == base {
							stored = true
						}
					}
				}
				c.Check(stored, "WRITE-GUARD", key, wc.instr.Pos(), "error result must be stored into the same writer's err field")
				continue
			}
			ok, why := errChain(fn, wc, wcs)
			c.Check(ok, "WRITE-GUARD", key, wc.instr.Pos(), "ERR-CHAIN: "+why)
		}
	}
	c.Analysed["writer_reaching_calls"] = nCalls
	if nCalls < 1 {
		c.Undecided("WRITE-GUARD", "instance-count", token.NoPos, fmt.Sprintf("%d writer-reaching calls found; every call in package format is inspected and output needs at least one", nCalls))
	}
	// 3. RETERR
	if f := p.FmtFunc("Format"); c.NeedFunc("RETERR", f, "format.Format") {
		for i, r := range returnsOf(f) {
			key := fmt.Sprintf("Format:return#%d", i)
			if len(r.Results) != 1 {
				c.Undecided("RETERR", key, r.Pos(), "unexpected result arity")
				continue
			}
			fa, ok := isLoadOfField(r.Results[0], "formatWriter", "err")
			if !ok {
				c.Viol("RETERR", key, r.Pos(), "returned value is not a load of the format writer's err field: "+r.Results[0].String())
				continue
			}
			c.Check(derivesFromNewFormatWriter(p, fa.X), "RETERR", key, r.Pos(), "the writer whose err is returned must be the one created by newFormatWriter in this call")
		}
		checkWriterFlow(c, f)
	}
	// 4. effects and determinism
	e := newEFF(p)
	if f := p.FmtFunc("Format"); f != nil {
		ruleEFFR(c, e, []*ssa.Function{f}, "EFF-R/format")
		reach := e.reachableFrom([]*ssa.Function{f})
		bad := 0
		cnt := 0
		for fn := range reach {
			if !p.InModule(fn) {
				continue
			}
			cnt++
			eachInstr(fn, func(in ssa.Instruction) {
				switch x := in.(type) {
				case *ssa.Go, *ssa.Select, *ssa.Send, *ssa.MakeChan:
					bad++
					c.Viol("DET/format", shortFuncName(fn), in.Pos(), "concurrency construct reachable from Format")
				case *ssa.Range:
					if _, isMap := x.X.Type().Underlying().(*types.Map); isMap {
						if ok, why := mapRangeOrderFree(e, x); !ok {
							bad++
							c.Viol("DET/format", shortFuncName(fn)+":maprange", in.Pos(), why)
						}
					}
				case ssa.CallInstruction:
					if cal := x.Common().StaticCallee(); cal != nil && cal.Pkg != nil && !p.InModule(cal) && deniedPkg(cal.Pkg.Pkg.Path()) && !(cal.Name() == "init") {
						if ok, _ := modelledSync(cal.String(), in); !ok {
							bad++
							c.Viol("DET/format", shortFuncName(fn)+"→"+cal.String(), in.Pos(), "call into a package with ambient state or nondeterminism")
						}
					}
				}
			})
		}
		if bad == 0 {
			c.OK("DET/format", "reachable-from-Format", f.Pos(), fmt.Sprintf("%d functions reachable, no nondeterminism source", cnt))
		}
	}
	sc := false
	for n, ok := range e.scratch {
		if n.Obj().Name() == "formatWriter" && ok {
			sc = true
		}
	}
	c.Check(sc, "EFF-R/format", "scratch:formatWriter", token.NoPos, "formatWriter must be a scratch type (no allocation site escapes the Format call)")
	ruleFmtEsc(c)
	ruleFmtQuote(c)
	ruleFmtIndent(c)
	ruleLineReset(c)
}

// errChain: see rule WRITE-GUARD (helper mode).
func errChain(fn *ssa.Function, wc writerCall, all []writerCall) (bool, string) {
	isWriter := map[ssa.Instruction]bool{}
	for _, w := range all {
		isWriter[w.instr.(ssa.Instruction)] = true
	}
	E := wc.errVal
	start := wc.instr.(ssa.Instruction)
	// tail call: the call's tuple/value is what the function returns
	returnsE := func(r *ssa.Return) bool {
		for _, res := range r.Results {
			if E != nil && res == E {
				return true
			}
			// returning the extracts of the same tuple
			if ex, ok := res.(*ssa.Extract); ok {
				if v, ok := start.(ssa.Value); ok && ex.Tuple == v && isErrorType(ex.Type()) {
					return true
				}
			}
		}
		return false
	}
	if E == nil {
		// maybe `return w.Write(...)`: extracts feed the return directly
		v, ok := start.(ssa.Value)
		if !ok {
			return false, "error result discarded"
		}
		found := false
		for _, r := range refsOf(v) {
			if ex, ok := r.(*ssa.Extract); ok && isErrorType(ex.Type()) {
				E = ex
				found = true
			}
		}
		if !found {
			return false, "error result of the write is discarded"
		}
	}
	type st struct {
		b      *ssa.BasicBlock
		failed bool
	}
	seen := map[st]bool{}
	var bad string
	var walk func(b *ssa.BasicBlock, from int, failed bool) bool
	walk = func(b *ssa.BasicBlock, from int, failed bool) bool {
		for _, in := range b.Instrs[from:] {
			if isWriter[in] {
				if failed {
					bad = "a write is reachable after the failing edge of the error test"
				} else {
					bad = "a further write is reachable before the error of this one was tested"
				}
				return false
			}
			switch x := in.(type) {
			case *ssa.Return:
				if !returnsE(x) {
					if failed {
						bad = "the failing edge does not return this write's error"
					} else {
						bad = "function can return without this write's error having been tested or returned"
					}
					return false
				}
				return true
			case *ssa.If:
				if v, nilIdx, ok := nilTest(x.Cond); ok && v == E && !failed {
					// nil edge: cleared. non-nil edge: failed mode.
					nb := b.Succs[1-nilIdx]
					k := st{nb, true}
					if !seen[k] {
						seen[k] = true
						if !walk(nb, 0, true) {
							return false
						}
					}
					return true
				}
			}
		}
		for _, s := range b.Succs {
			k := st{s, failed}
			if seen[k] {
				continue
			}
			seen[k] = true
			if !walk(s, 0, failed) {
				return false
			}
		}
		return true
	}
	if !walk(start.Block(), instrIndex(start)+1, false) {
		return false, bad
	}
	return true, "error is tested or returned before any further write; failing edge returns it"
}

func derivesFromNewFormatWriter(p *Program, v ssa.Value) bool {
	seen := map[ssa.Value]bool{}
	var ok func(v ssa.Value) bool
	ok = func(v ssa.Value) bool {
		if seen[v] {
			return true
		}
		seen[v] = true
		switch x := v.(type) {
		case *ssa.Call:
			f := x.Call.StaticCallee()
			return f != nil && f == p.FmtFunc("newFormatWriter")
		case *ssa.Alloc:
			return typeName(deref(x.Type())) == "formatWriter"
		case *ssa.Phi:
			for _, e := range x.Edges {
				if !ok(e) {
					return false
				}
			}
			return true
		case *ssa.UnOp:
			if x.Op != token.MUL {
				return false
			}
			// load of a local cell: all stores to the cell must qualify
			cell, isAlloc := x.X.(*ssa.Alloc)
			if !isAlloc {
				return false
			}
			n := 0
			for _, r := range refsOf(cell) {
				if st, isSt := r.(*ssa.Store); isSt && st.Addr == cell {
					n++
					if !ok(st.Val) {
						return false
					}
				}
			}
			return n > 0
		}
		return false
	}
	return ok(v)
}

// checkWriterFlow: Format's writer parameter reaches only newFormatWriter, and inside it only the w field.
func checkWriterFlow(c *Ctx, format *ssa.Function) {
	var wparam *ssa.Parameter
	for _, prm := range format.Params {
		if isWriterIface(prm.Type()) {
			wparam = prm
		}
	}
	if wparam == nil {
		c.Undecided("WRITER-FLOW", "Format.w", format.Pos(), "Format has no writer parameter")
		return
	}
	seen := map[ssa.Value]bool{}
	okAll := true
	var why string
	var follow func(v ssa.Value)
	follow = func(v ssa.Value) {
		if seen[v] {
			return
		}
		seen[v] = true
		for _, r := range refsOf(v) {
			switch x := r.(type) {
			case *ssa.TypeAssert, *ssa.Extract, *ssa.Phi, *ssa.MakeInterface, *ssa.ChangeInterface, *ssa.ChangeType:
				follow(r.(ssa.Value))
			case *ssa.Store:
				if x.Val != v {
					continue
				}
				if _, ok := isFieldAddr(x.Addr, "formatWriter", "w"); ok {
					continue
				}
				// wrapping adapter: a struct whose only purpose is to be converted to the writer interface
				if fa, ok := x.Addr.(*ssa.FieldAddr); ok {
					if al, ok := fa.X.(*ssa.Alloc); ok {
						for _, rr := range refsOf(al) {
							if ld, ok := rr.(*ssa.UnOp); ok && ld.Op == token.MUL {
								follow(ld)
							}
						}
						continue
					}
				}
				okAll, why = false, "writer stored somewhere other than formatWriter.w at "+c.P.Pos(x.Pos())
			case ssa.CallInstruction:
				com := x.Common()
				if com.IsInvoke() && com.Value == v {
					okAll, why = false, "writer invoked directly at "+c.P.Pos(x.Pos())
					continue
				}
				f := com.StaticCallee()
				if f != nil && f == c.P.FmtFunc("newFormatWriter") {
					for i, a := range com.Args {
						if a == v {
							follow(f.Params[i])
						}
					}
					continue
				}
				okAll, why = false, "writer passed to "+calleeName(com)+" at "+c.P.Pos(x.Pos())
			case *ssa.MakeClosure:
				okAll, why = false, "writer captured by a closure at "+c.P.Pos(x.Pos())
			case *ssa.Return:
				okAll, why = false, "writer returned at "+c.P.Pos(x.Pos())
			}
		}
	}
	follow(wparam)
	if why == "" {
		why = "flows only into formatWriter.w"
	}
	c.Check(okAll, "WRITER-FLOW", "Format.w", wparam.Pos(), why)
}

func init() {
	addControls(
		Control{Name: "s-drops-entry-latch-test", Props: []string{"C20"}, File: "format/format.go",
			Old: "func (fw *formatWriter) s(s string) {\n\tif fw.err != nil {\n\t\treturn\n\t}\n", New: "func (fw *formatWriter) s(s string) {\n", Expect: "WRITE-GUARD"},
		Control{Name: "Format-returns-nil", Props: []string{"C20"}, File: "format/format.go",
			Old: "\treturn fw.err\n}", New: "\t_ = fw.err\n\treturn nil\n}", Expect: "RETERR"},
		Control{Name: "direct-write-in-preBlock", Props: []string{"C20"}, File: "format/format.go",
			Old: "\t\tfw.s(\"> \")\n", New: "\t\tfw.w.WriteString(\"> \")\n", Expect: "WRITE-GUARD/format.preBlock"},
		Control{Name: "indent-error-not-tested", Props: []string{"C20"}, File: "format/format.go",
			Old: "\t\t\tif fw.err = writeStrings(fw.w, fw.indents); fw.err != nil {\n\t\t\t\treturn\n\t\t\t}\n\t\t}\n\n\t\tif _, fw.err = fw.w.WriteString(s[:i+1])",
			New: "\t\t\tfw.err = writeStrings(fw.w, fw.indents)\n\t\t}\n\n\t\tif _, fw.err = fw.w.WriteString(s[:i+1])", Expect: "LATCH"},
		Control{Name: "writeStrings-keeps-writing-after-error", Props: []string{"C20"}, File: "format/format.go",
			Old:   "\t\tif _, err := w.WriteString(s); err != nil {\n\t\t\treturn err\n\t\t}\n\t}\n\treturn nil",
			New:   "\t\tif _, err := w.WriteString(s); err != nil {\n\t\t\tfirst = err\n\t\t}\n\t}\n\treturn first",
			Edits: [][2]string{{"func writeStrings(w io.StringWriter, slice []string) error {\n", "func writeStrings(w io.StringWriter, slice []string) error {\n\tvar first error\n"}}, Expect: "WRITE-GUARD/format.writeStrings"},
		Control{Name: "header-written-to-raw-writer", Props: []string{"C20"}, File: "format/format.go",
			Old: "\tfw := newFormatWriter(w)\n", New: "\tfw := newFormatWriter(w)\n\tw.Write(nil)\n", Expect: "W"},
		Control{Name: "neg-s-test-reordered", Props: []string{"C20"}, File: "format/format.go", Negative: true,
			Old: "\t_, fw.err = fw.w.WriteString(s)\n\tfw.startedLine = true", New: "\tfw.startedLine = true\n\t_, fw.err = fw.w.WriteString(s)"},
		Control{Name: "neg-b-writes-via-s-with-local", Props: []string{"C20"}, File: "format/format.go", Negative: true,
			Old: "\tfw.s(string(p))", New: "\tstr := string(p)\n\tfw.s(str)"},
	)
}
