package main

// C04 — structural parts of totality: PARSE-NOPANIC (+LATCH, STICKY), ERRPROV, LOOP-D, LOOP-N, UNREACH, OPENKIND, LP-TYPESTATE, ARITY.

import (
	"fmt"
	"go/token"
	"go/types"
	"sort"
	"strings"

	"golang.org/x/tools/go/ssa"
)

func init() { props["C04"] = checkC04 }

func checkC04(c *Ctx) {
	ruleParsePanic(c)
	ruleParserLatch(c)
	ruleSticky(c)
	ruleErrProv(c)
	ruleLoops(c)
	ruleAdvanceRel(c)
	ruleUnreach(c)
	ruleOpenKind(c)
	ruleLPTypestate(c)
	ruleArity(c)
	ruleIndexGuard(c)
	ruleGuardSuffices(c)
	ruleNilMatcher(c)
	ruleNulRange(c)
	c.Assume("implicit panics (index, slice bounds, nil dereference), the value-guard panics (Advance, ConsumeIndent, close, wrap), termination of loops that make progress on every path, and stack depth are not decided")
	ruleTabSync(c)
}

// ---------------------------------------------------------------------------------------------
// purity

type purity struct {
	p    *Program
	pure map[*ssa.Function]bool
}

var pureExtPkgs = map[string]bool{"bytes": true, "strings": true, "unicode": true, "unicode/utf8": true, "html": true, "math": true, "errors": true, "golang.org/x/net/html/atom": true, "strconv": true}

// neutralReaderMethods: inlineByteReader methods that do not advance the reader (their only store narrows r.spans idempotently).
var neutralReaderMethods = map[string]bool{"current": true, "currentNode": true, "remainingNodeBytes": true, "jumped": true}

func newPurity(p *Program) *purity {
	pu := &purity{p: p, pure: map[*ssa.Function]bool{}}
	for _, f := range p.Funcs {
		pu.pure[f] = true
	}
	hasEffect := func(fn *ssa.Function) bool {
		eff := false
		eachInstr(fn, func(in ssa.Instruction) {
			switch x := in.(type) {
			case *ssa.Store:
				if !addrIsLocalAlloc(x.Addr) {
					eff = true
				}
			case *ssa.MapUpdate, *ssa.Send, *ssa.Go:
				eff = true
			case ssa.CallInstruction:
				com := x.Common()
				if b, ok := com.Value.(*ssa.Builtin); ok {
					switch b.Name() {
					case "append", "copy", "delete", "clear":
						// appends to local slices are fine; conservatively treat as effect unless arg0 is local
						if len(com.Args) > 0 {
							if _, isAlloc := com.Args[0].(*ssa.Alloc); !isAlloc {
								if !localSliceValue(com.Args[0]) {
									eff = true
								}
							}
						}
					}
					return
				}
				f := com.StaticCallee()
				if f == nil {
					eff = true
					return
				}
				if p.InModule(f) {
					if !pu.pure[f] && !(isReaderMethod(f) && neutralReaderMethods[f.Name()]) {
						eff = true
					}
					return
				}
				if f.Pkg == nil || !pureExtPkgs[f.Pkg.Pkg.Path()] || strings.HasPrefix(f.String(), "strconv.Append") {
					eff = true
				}
			}
		})
		return eff
	}
	for changed := true; changed; {
		changed = false
		for _, f := range p.Funcs {
			if pu.pure[f] && hasEffect(f) {
				pu.pure[f] = false
				changed = true
			}
		}
	}
	return pu
}

func localSliceValue(v ssa.Value) bool {
	seen := map[ssa.Value]bool{}
	var w func(v ssa.Value) bool
	w = func(v ssa.Value) bool {
		if seen[v] {
			return true
		}
		seen[v] = true
		switch x := v.(type) {
		case *ssa.Const, *ssa.MakeSlice, *ssa.Alloc:
			return true
		case *ssa.Slice:
			return w(x.X)
		case *ssa.Phi:
			for _, e := range x.Edges {
				if !w(e) {
					return false
				}
			}
			return true
		case *ssa.Call:
			if _, ok := isBuiltinCall(x, "append"); ok {
				return w(x.Call.Args[0])
			}
		}
		return false
	}
	return w(v)
}

func isReaderMethod(f *ssa.Function) bool {
	return f.Signature.Recv() != nil && typeName(f.Signature.Recv().Type()) == "inlineByteReader"
}

// instrNeutral: the instruction cannot change anything a later branch condition could read.
func (pu *purity) instrNeutral(in ssa.Instruction) bool {
	switch x := in.(type) {
	case *ssa.Store:
		return addrIsLocalAlloc(x.Addr) && false // a store to a local changes state a condition may read
	case *ssa.MapUpdate, *ssa.Send, *ssa.Go, *ssa.Defer, *ssa.RunDefers, *ssa.Next:
		return false // Next advances a string/map iterator: progress
	case ssa.CallInstruction:
		com := x.Common()
		if b, ok := com.Value.(*ssa.Builtin); ok {
			switch b.Name() {
			case "len", "cap", "min", "max":
				return true
			}
			return false
		}
		f := com.StaticCallee()
		if f == nil {
			return false
		}
		if pu.p.InModule(f) {
			return pu.pure[f] || (isReaderMethod(f) && neutralReaderMethods[f.Name()])
		}
		return f.Pkg != nil && pureExtPkgs[f.Pkg.Pkg.Path()] && !strings.HasPrefix(f.String(), "strconv.Append")
	}
	return true
}

// ---------------------------------------------------------------------------------------------
// loops

type natLoop struct {
	header  *ssa.BasicBlock
	latches []*ssa.BasicBlock
	body    map[*ssa.BasicBlock]bool
}

func naturalLoops(fn *ssa.Function) []natLoop {
	byHeader := map[*ssa.BasicBlock]*natLoop{}
	var order []*ssa.BasicBlock
	for _, b := range fn.Blocks {
		for _, s := range b.Succs {
			if s.Dominates(b) {
				l := byHeader[s]
				if l == nil {
					l = &natLoop{header: s, body: map[*ssa.BasicBlock]bool{s: true}}
					byHeader[s] = l
					order = append(order, s)
				}
				l.latches = append(l.latches, b)
				// body: blocks that reach b without passing s
				var stack []*ssa.BasicBlock
				if !l.body[b] {
					l.body[b] = true
					stack = append(stack, b)
				}
				for len(stack) > 0 {
					x := stack[len(stack)-1]
					stack = stack[:len(stack)-1]
					for _, p := range x.Preds {
						if !l.body[p] {
							l.body[p] = true
							stack = append(stack, p)
						}
					}
				}
			}
		}
	}
	var out []natLoop
	for _, h := range order {
		out = append(out, *byHeader[h])
	}
	return out
}

// resolveOnPath follows phis according to the path's block order: for a phi in block b, the incoming edge is the
// path's predecessor of b.
func resolveOnPath(v ssa.Value, predOf map[*ssa.BasicBlock]*ssa.BasicBlock, header *ssa.BasicBlock, depth int) ssa.Value {
	for depth < 50 {
		ph, ok := v.(*ssa.Phi)
		if !ok || ph.Block() == header {
			return v
		}
		pr, ok := predOf[ph.Block()]
		if !ok {
			return v
		}
		found := false
		for i, p := range ph.Block().Preds {
			if p == pr {
				v = ph.Edges[i]
				found = true
				break
			}
		}
		if !found {
			return v
		}
		depth++
	}
	return v
}

func definedInLoop(v ssa.Value, l *natLoop) bool {
	in, ok := v.(ssa.Instruction)
	if !ok {
		return false
	}
	return l.body[in.Block()]
}

func ruleLoops(c *Ctx) {
	c.Rule("LOOP-D", "Definite divergence: no natural loop of the module has a cycle path (header → … → back edge) on which every header phi receives its own value or a loop-invariant and no instruction has a side effect (store, map update, append, impure call; the reader's idempotent methods current, currentNode, remainingNodeBytes, jumped are admitted as neutral). On such a path nothing any branch on the cycle can read has changed, so once taken it repeats forever.")
	c.Rule("LOOP-N", "Reader exit discipline: in a loop that calls (*inlineByteReader).next, no cycle path exists on which next()'s result decides no branch and every branch condition is a predicate of current() that evaluates in favour of the cycle for some byte value — once the reader has run out of nodes next() returns false without moving and current() keeps returning the byte that follows in the source (0 only at the very end of the root block) — or a constant.")
	p := c.P
	pu := newPurity(p)
	bs := newBSET(p)
	nLoops, nPaths, nReader := 0, 0, 0
	budgetHit := 0
	for _, fn := range p.Funcs {
		if fn.Blocks == nil {
			continue
		}
		for li, l := range naturalLoops(fn) {
			l := l
			nLoops++
			key := fmt.Sprintf("%s:loop#%d", shortFuncName(fn), li+1)
			var headerPhis []*ssa.Phi
			for _, in := range l.header.Instrs {
				if ph, ok := in.(*ssa.Phi); ok {
					headerPhis = append(headerPhis, ph)
				} else {
					break
				}
			}
			hasNext := false
			for b := range l.body {
				for _, in := range b.Instrs {
					if call, ok := in.(*ssa.Call); ok {
						if f := call.Call.StaticCallee(); f != nil && isReaderMethod(f) && f.Name() == "next" {
							hasNext = true
						}
					}
				}
			}
			if hasNext {
				nReader++
			}
			// enumerate cycle paths
			budget := 20000
			var path []*ssa.BasicBlock
			onPath := map[*ssa.BasicBlock]bool{}
			var divergent, blind string
			var divPos, blindPos token.Pos
			var dfs func(b *ssa.BasicBlock, neutral bool)
			checkPath := func(latch *ssa.BasicBlock, neutral bool) {
				nPaths++
				predOf := map[*ssa.BasicBlock]*ssa.BasicBlock{}
				for i := 1; i < len(path); i++ {
					predOf[path[i]] = path[i-1]
				}
				if neutral && divergent == "" {
					// header phis unchanged?
					li := -1
					for i, pr := range l.header.Preds {
						if pr == latch {
							li = i
						}
					}
					unchanged := li >= 0
					for _, ph := range headerPhis {
						v := resolveOnPath(ph.Edges[li], predOf, l.header, 0)
						if v == ssa.Value(ph) {
							continue
						}
						if !definedInLoop(v, &l) {
							if _, isConst := v.(*ssa.Const); isConst || true {
								// loop-invariant value: the phi takes the same value every time round only if it already had it;
								// after one iteration it is stable, so the cycle still repeats.
								continue
							}
						}
						unchanged = false
					}
					if unchanged {
						var names []string
						for _, b := range path {
							names = append(names, fmt.Sprint(b.Index))
						}
						divergent = "cycle through blocks " + strings.Join(names, "→") + " changes nothing a branch could read"
						divPos = latch.Instrs[len(latch.Instrs)-1].Pos()
						if !divPos.IsValid() {
							divPos = firstPos(path)
						}
					}
				}
				if hasNext && blind == "" {
					// LOOP-N
					var nextCalls []*ssa.Call
					for _, b := range path {
						for _, in := range b.Instrs {
							if call, ok := in.(*ssa.Call); ok {
								if f := call.Call.StaticCallee(); f != nil && isReaderMethod(f) && f.Name() == "next" {
									nextCalls = append(nextCalls, call)
								}
							}
						}
					}
					if len(nextCalls) == 0 {
						return
					}
					isCurrent := func(v ssa.Value) bool {
						call, ok := v.(*ssa.Call)
						if !ok {
							return false
						}
						f := call.Call.StaticCallee()
						return f != nil && isReaderMethod(f) && f.Name() == "current"
					}
					// When the reader has run out of nodes next() returns false without moving, and current() returns whatever
					// byte follows in the source (0 only at the very end of the root block): the cycle is blind if for SOME byte
					// value every condition on it stays in favour of the cycle.
					allBlind := false
					witness := int64(0)
					for d := int64(0); d < 256 && !allBlind; d++ {
						blindAtD := true
						for i, b := range path {
							iff := blockIf(b)
							if iff == nil {
								continue
							}
							var next *ssa.BasicBlock
							if i+1 < len(path) {
								next = path[i+1]
							} else {
								next = l.header
							}
							// does the condition depend on a next() result?
							depNext := false
							for _, nc := range nextCalls {
								if dependsOn(iff.Cond, nc) {
									depNext = true
								}
							}
							// any next() anywhere (other loops' results flowing in) also counts
							if !depNext {
								seen := map[ssa.Value]bool{}
								var w func(v ssa.Value)
								w = func(v ssa.Value) {
									if v == nil || seen[v] {
										return
									}
									seen[v] = true
									switch x := v.(type) {
									case *ssa.Call:
										if f := x.Call.StaticCallee(); f != nil && isReaderMethod(f) && f.Name() == "next" {
											depNext = true
										}
									case *ssa.UnOp:
										w(x.X)
									case *ssa.BinOp:
										w(x.X)
										w(x.Y)
									case *ssa.Phi:
										for _, e := range x.Edges {
											w(e)
										}
									}
								}
								w(iff.Cond)
							}
							if depNext {
								blindAtD = false
								break
							}
							st := &evalState{e: bs, fn: fn, isSym: isCurrent, d: d, from: make([]int, len(fn.Blocks))}
							for j := range st.from {
								st.from[j] = -2
							}
							for bb, pr := range predOf {
								st.from[bb.Index] = pr.Index
							}
							v, ok := st.eval(iff.Cond)
							if !ok {
								blindAtD = false // depends on something else (a counter, a position): may exit
								break
							}
							taken := b.Succs[1]
							if v != 0 {
								taken = b.Succs[0]
							}
							if taken != next {
								blindAtD = false // for this byte the path is left
								break
							}
						}
						if blindAtD {
							allBlind, witness = true, d
						}
					}
					if allBlind {
						var names []string
						for _, b := range path {
							names = append(names, fmt.Sprint(b.Index))
						}
						blind = fmt.Sprintf("cycle through blocks %s calls next() without looking at its result and every condition on it stays true when current() keeps returning %q once the reader has run out of nodes", strings.Join(names, "→"), rune(witness))
						blindPos = nextCalls[0].Pos()
					}
				}
			}
			dfs = func(b *ssa.BasicBlock, neutral bool) {
				if budget <= 0 {
					return
				}
				budget--
				path = append(path, b)
				onPath[b] = true
				defer func() {
					path = path[:len(path)-1]
					onPath[b] = false
				}()
				if neutral {
					for _, in := range b.Instrs {
						if !pu.instrNeutral(in) {
							neutral = false
							break
						}
					}
				}
				if !neutral && !hasNext {
					return // nothing left to find on this path
				}
				for _, s := range b.Succs {
					if s == l.header {
						checkPath(b, neutral)
						continue
					}
					if !l.body[s] || onPath[s] {
						continue
					}
					dfs(s, neutral)
				}
			}
			dfs(l.header, true)
			if budget <= 0 {
				budgetHit++
			}
			if divergent != "" {
				c.Viol("LOOP-D", key, divPos, divergent)
			} else {
				c.OK("LOOP-D", key, l.header.Instrs[0].Pos(), "no state-preserving cycle")
			}
			if hasNext {
				if blind != "" {
					c.Viol("LOOP-N", key, blindPos, blind)
				} else {
					c.OK("LOOP-N", key, l.header.Instrs[0].Pos(), "every cycle that advances the reader looks at next()'s result or leaves the loop at end of input")
				}
			}
		}
	}
	c.Analysed["natural_loops"] = nLoops
	c.Analysed["reader_loops"] = nReader
	c.Analysed["cycle_paths_examined"] = nPaths
	c.Analysed["loops_with_path_budget_exhausted"] = budgetHit
	c.MinCount("LOOP-D", 30)
	c.MinCount("LOOP-N", 5)
}

func firstPos(path []*ssa.BasicBlock) token.Pos {
	for _, b := range path {
		for _, in := range b.Instrs {
			if in.Pos().IsValid() {
				return in.Pos()
			}
		}
	}
	return token.NoPos
}

// ---------------------------------------------------------------------------------------------
// UNREACH

func ruleUnreach(c *Ctx) {
	c.Rule("UNREACH", "Finite-domain unreachability of explicit unreachable-defaults: a panic guarded only by comparisons of a local state variable is unreachable when the variable is only ever assigned constants that all have a case; a call of a module function that panics on part of its scalar domain passes an argument whose value range (as a function of one byte) avoids the panic set.")
	p := c.P
	bs := newBSET(p)
	// (i) state-variable panics
	for _, fn := range p.Funcs {
		var panics []*ssa.Panic
		eachInstr(fn, func(in ssa.Instruction) {
			if pn, ok := in.(*ssa.Panic); ok {
				panics = append(panics, pn)
			}
		})
		for i, pn := range panics {
			// the panic block is reached through If chains comparing one phi with constants
			var sym *ssa.Phi
			ok := true
			var visit func(b *ssa.BasicBlock, depth int)
			seen := map[*ssa.BasicBlock]bool{}
			visit = func(b *ssa.BasicBlock, depth int) {
				if seen[b] || depth > 40 {
					return
				}
				seen[b] = true
				for _, pr := range b.Preds {
					var ph *ssa.Phi
					isCmp := false
					if iff := blockIf(pr); iff != nil {
						if bo, isBo := iff.Cond.(*ssa.BinOp); isBo && bo.Op == token.EQL && pr.Succs[1] == b {
							if p2, isPh := bo.X.(*ssa.Phi); isPh {
								if _, isC := constInt(bo.Y); isC && (sym == nil || sym == p2) {
									ph, isCmp = p2, true
								}
							}
						}
					}
					if !isCmp {
						if b == pn.Block() {
							ok = false // the panic is not the default of a state switch
						}
						continue // reached the entry of the switch
					}
					sym = ph
					// continue up the chain through blocks that contain nothing but the comparison
					if len(pr.Instrs) <= 2 && len(pr.Preds) == 1 {
						visit(pr, depth+1)
					}
				}
			}
			visit(pn.Block(), 0)
			if !ok || sym == nil {
				continue
			}
			// constants that flow into sym
			vals := map[int64]bool{}
			allConst := true
			seenV := map[ssa.Value]bool{}
			var collect func(v ssa.Value)
			collect = func(v ssa.Value) {
				if seenV[v] {
					return
				}
				seenV[v] = true
				switch x := v.(type) {
				case *ssa.Const:
					if k, ok := constInt(x); ok {
						vals[k] = true
					} else {
						allConst = false
					}
				case *ssa.Phi:
					for _, e := range x.Edges {
						collect(e)
					}
				default:
					allConst = false
				}
			}
			collect(sym)
			key := fmt.Sprintf("%s:panic#%d", shortFuncName(fn), i+1)
			if !allConst {
				// a variable that also takes data values (a byte of the line, say) is not a state variable: the panic is a
				// documented value guard, which this rule does not claim — unless the code itself says "unreachable"
				msg := ""
				if mi, ok := pn.X.(*ssa.MakeInterface); ok {
					msg, _ = constString(mi.X)
				}
				if strings.Contains(strings.ToLower(msg), "unreachable") {
					c.Undecided("UNREACH", key, pn.Pos(), "the state variable guarding this unreachable-default is assigned a non-constant")
				}
				continue
			}
			var dom []int64
			for v := range vals {
				dom = append(dom, v)
			}
			sort.Slice(dom, func(i, j int) bool { return dom[i] < dom[j] })
			reach := bs.reachUnderSym(fn, func(v ssa.Value) bool { return v == ssa.Value(sym) }, dom)
			var bad []int64
			for d := range reach[pn.Block()] {
				bad = append(bad, d)
			}
			sort.Slice(bad, func(i, j int) bool { return bad[i] < bad[j] })
			c.Check(len(bad) == 0, "UNREACH", key, pn.Pos(), fmt.Sprintf("state variable takes values %v; the panic is reachable for %v (a state without a case)", dom, bad))
		}
	}
	// (ii) arguments of partially-panicking scalar functions
	n := 0
	for _, fn := range p.Funcs {
		eachInstr(fn, func(in ssa.Instruction) {
			call, ok := in.(*ssa.Call)
			if !ok {
				return
			}
			f := call.Call.StaticCallee()
			if f == nil || !p.InModule(f) || len(call.Call.Args) != 1 || f.Signature.Recv() != nil {
				return
			}
			if d, _ := bs.domainFor(f.Params[0].Type()); d == nil || len(d) != 256 {
				return
			}
			t := bs.Table(f)
			if t.why != "" {
				return
			}
			panics := false
			for _, r := range t.res {
				if r.kind == oPanic {
					panics = true
				}
			}
			if !panics {
				return
			}
			n++
			key := fmt.Sprintf("%s→%s#%d", shortFuncName(fn), f.Name(), n)
			// symbol: innermost byte-typed operand that is not itself arithmetic
			arg := call.Call.Args[0]
			var sym ssa.Value
			var find func(v ssa.Value)
			find = func(v ssa.Value) {
				switch x := v.(type) {
				case *ssa.BinOp:
					find(x.X)
					find(x.Y)
				case *ssa.Convert:
					find(x.X)
				case *ssa.Const:
				default:
					if sym == nil {
						sym = v
					}
				}
			}
			find(arg)
			if sym == nil {
				if k, ok := constInt(arg); ok {
					o, found := t.lookup(k)
					c.Check(found && o.kind != oPanic, "UNREACH", key, in.Pos(), fmt.Sprintf("constant argument %d", k))
				}
				return
			}
			dsym, _ := bs.domainFor(sym.Type())
			if dsym == nil {
				c.Undecided("UNREACH", key, in.Pos(), "argument is not a function of one byte: "+describeValue(arg))
				return
			}
			var bad []int64
			for _, d := range dsym {
				st := &evalState{e: bs, fn: fn, isSym: func(v ssa.Value) bool { return v == sym }, d: d, from: make([]int, len(fn.Blocks))}
				v, ok := st.eval(arg)
				if !ok {
					c.Undecided("UNREACH", key, in.Pos(), "argument not evaluable: "+st.why)
					return
				}
				if o, found := t.lookup(v); !found || o.kind == oPanic {
					bad = append(bad, d)
				}
			}
			c.Check(len(bad) == 0, "UNREACH", key, in.Pos(), fmt.Sprintf("argument %s can take values on which %s panics, for source bytes %s", describeValue(arg), f.Name(), describeSet(bad, false)))
		})
	}
}

// ---------------------------------------------------------------------------------------------
// LP-TYPESTATE

type lpInterp struct {
	p      *Program
	bs     *bsetEngine
	memo   map[string][]int64
	inprog map[string]bool
	viol   map[string]string
	violAt map[string]token.Pos
	root   *ssa.Function
}

func isStateLoad(v ssa.Value) bool {
	_, ok := isLoadOfField(v, "lineParser", "state")
	return ok
}

// run interprets fn with the abstract parser state `s` at entry; returns possible exit states.
func (li *lpInterp) run(fn *ssa.Function, s int64, depth int) []int64 {
	key := fmt.Sprintf("%p/%d", fn, s)
	if r, ok := li.memo[key]; ok {
		return r
	}
	if li.inprog[key] || depth > 12 {
		return []int64{s}
	}
	li.inprog[key] = true
	defer delete(li.inprog, key)
	in := map[*ssa.BasicBlock]map[int64]bool{fn.Blocks[0]: {s: true}}
	work := []*ssa.BasicBlock{fn.Blocks[0]}
	exits := map[int64]bool{}
	for len(work) > 0 {
		b := work[0]
		work = work[1:]
		for s0 := range in[b] {
			cur := map[int64]bool{s0: true}
			for _, ins := range b.Instrs {
				switch x := ins.(type) {
				case *ssa.Store:
					if _, ok := isFieldAddr(x.Addr, "lineParser", "state"); ok {
						if k, ok := constInt(x.Val); ok {
							cur = map[int64]bool{k: true}
						}
					}
				case *ssa.Call:
					f := x.Call.StaticCallee()
					if f != nil && f.Signature.Recv() != nil && typeName(f.Signature.Recv().Type()) == "lineParser" && f.Blocks != nil {
						next := map[int64]bool{}
						for sc := range cur {
							for _, e := range li.run(f, sc, depth+1) {
								next[e] = true
							}
						}
						cur = next
					}
				}
			}
			term := b.Instrs[len(b.Instrs)-1]
			switch t := term.(type) {
			case *ssa.Return:
				for sc := range cur {
					exits[sc] = true
				}
			case *ssa.Panic:
				// state-guard panic? every edge into this block is decided by the state alone
				if li.stateGuard(b) {
					for sc := range cur {
						k := fmt.Sprintf("%s panics in state %s", shortFuncName(fn), lpStateName(li.p, sc))
						li.viol[k] = k
						li.violAt[k] = t.Pos()
					}
				}
			default:
				for sc := range cur {
					succs := b.Succs
					if iff, ok := term.(*ssa.If); ok {
						st := &evalState{e: li.bs, fn: fn, isSym: isStateLoad, d: sc, from: make([]int, len(fn.Blocks))}
						// a state load is only meaningful if no store intervened in this block; conservative: decide only when cur came unchanged
						if v, ok := st.eval(iff.Cond); ok && len(cur) == 1 {
							if v != 0 {
								succs = b.Succs[:1]
							} else {
								succs = b.Succs[1:]
							}
						}
					}
					for _, sb := range succs {
						if in[sb] == nil {
							in[sb] = map[int64]bool{}
						}
						if !in[sb][sc] {
							in[sb][sc] = true
							work = append(work, sb)
						}
					}
				}
			}
		}
	}
	var out []int64
	for e := range exits {
		out = append(out, e)
	}
	sort.Slice(out, func(i, j int) bool { return out[i] < out[j] })
	li.memo[key] = out
	return out
}

// stateGuard: the panic block is entered only over branches whose conditions are functions of the parser state alone.
func (li *lpInterp) stateGuard(b *ssa.BasicBlock) bool {
	if len(b.Preds) == 0 {
		return false
	}
	for _, pr := range b.Preds {
		iff := blockIf(pr)
		if iff == nil {
			return false
		}
		st := &evalState{e: li.bs, fn: b.Parent(), isSym: isStateLoad, d: 0, from: make([]int, len(b.Parent().Blocks))}
		if _, ok := st.eval(iff.Cond); !ok {
			return false
		}
	}
	return true
}

func lpStateName(p *Program, v int64) string {
	for _, n := range []string{"stateOpening", "stateOpenMatched", "stateLineConsumed", "stateDescending", "stateDescendTerminated"} {
		if k, ok := p.CM.Types.Scope().Lookup(n).(*types.Const); ok {
			if kv, ok := constInt64Of(k); ok && kv == v {
				return n
			}
		}
	}
	return fmt.Sprint(v)
}

func ruleLPTypestate(c *Ctx) {
	c.Rule("LP-TYPESTATE", "The lineParser API methods panic in some of the five parser states (transfer functions state → {panic, states} are derived from each method's own constant tests and stores of the state field). Interpreting every blockStarts closure from stateOpening and every blockRules[*].match closure from stateDescending, no API call is reachable in a state in which it panics.")
	p := c.P
	op, ok1 := p.CM.Types.Scope().Lookup("stateOpening").(*types.Const)
	de, ok2 := p.CM.Types.Scope().Lookup("stateDescending").(*types.Const)
	if !ok1 || !ok2 {
		c.Undecided("LP-TYPESTATE", "states", token.NoPos, "parser state constants not found")
		return
	}
	opening, _ := constInt64Of(op)
	descending, _ := constInt64Of(de)
	run := func(fn *ssa.Function, s int64, label string) {
		li := &lpInterp{p: p, bs: newBSET(p), memo: map[string][]int64{}, inprog: map[string]bool{}, viol: map[string]string{}, violAt: map[string]token.Pos{}, root: fn}
		ex := li.run(fn, s, 0)
		var names []string
		for _, e := range ex {
			names = append(names, lpStateName(p, e))
		}
		if len(li.viol) > 0 {
			var vs []string
			var pos token.Pos
			for k := range li.viol {
				vs = append(vs, k)
				pos = li.violAt[k]
			}
			sort.Strings(vs)
			c.Viol("LP-TYPESTATE", label, pos, strings.Join(vs, "; "))
		} else {
			c.OK("LP-TYPESTATE", label, fn.Pos(), "exit states {"+strings.Join(names, ",")+"}; no state-guard panic reachable")
		}
	}
	starts := blockStartFuncs(p)
	for i, f := range starts {
		run(f, opening, fmt.Sprintf("blockStarts[%d]", i))
	}
	tab := blockRulesTable(p)
	var ks []int64
	for k := range tab {
		ks = append(ks, k)
	}
	sort.Slice(ks, func(i, j int) bool { return ks[i] < ks[j] })
	nm := 0
	for _, k := range ks {
		if tab[k].match != nil {
			nm++
			run(tab[k].match, descending, "blockRules["+blockKindName(p, k)+"].match")
		}
	}
	wantS, wantM, okT := astTableSizes(p)
	if !okT || len(starts) != wantS || nm != wantM || wantS < 1 || wantM < 1 {
		c.Undecided("LP-TYPESTATE", "instance-count", token.NoPos, fmt.Sprintf("%d block starts and %d match rules recovered from the initialiser; the blockStarts literal has %d elements and blockRules has %d entries with a match function", len(starts), nm, wantS, wantM))
	}
}

// ---------------------------------------------------------------------------------------------
// ARITY

// minChildren: producer guarantees (from CS / MARKER-FIRST in C05): kind → guaranteed number of children.
var minChildren = map[string]int64{"LinkReferenceDefinitionKind": 2, "AutolinkKind": 1, "ListItemKind": 1}

func ruleArity(c *Ctx) {
	c.Rule("ARITY", "Every consumer on the read path (and the reference extractor) that takes a child of a node by constant position is backed by a producer guarantee for every node kind that can reach the access (LinkReferenceDefinition ≥ 2 children, Autolink = 1, ListItem ≥ 1: rules CS and MARKER-FIRST), or by a dominating length guard.")
	p := c.P
	bs := newBSET(p)
	n := 0
	readers := []*ssa.Function{p.Method("renderState", "preInline"), p.Method("renderState", "preBlock"), p.Method("ReferenceMap", "Extract"), p.FmtFunc("preBlock"), p.FmtFunc("isFirstParagraph"), p.FmtFunc("postInline"), p.FmtFunc("visitInline"), p.FmtFunc("postBlock")}
	for _, fn := range readers {
		if fn == nil {
			continue
		}
		isKind, dom, kt := kindSymOf(p, fn)
		var reach map[*ssa.BasicBlock]map[int64]bool
		if isKind != nil {
			reach = bs.reachUnderSym(fn, isKind, dom)
		}
		eachInstr(fn, func(in ssa.Instruction) {
			var idx int64
			var container ssa.Value
			switch x := in.(type) {
			case *ssa.IndexAddr:
				k, ok := constInt(x.Index)
				if !ok {
					return
				}
				isChildren := false
				for _, f := range [][2]string{{"Inline", "children"}, {"Block", "inlineChildren"}, {"Block", "blockChildren"}} {
					if _, ok := isLoadOfField(x.X, f[0], f[1]); ok {
						isChildren = true
					}
				}
				if !isChildren {
					return
				}
				idx, container = k, x.X
			case *ssa.Call:
				f := x.Call.StaticCallee()
				if f == nil || f.Name() != "Child" || !p.InModule(f) || len(x.Call.Args) != 2 {
					return
				}
				k, ok := constInt(x.Call.Args[1])
				if !ok {
					// a variable start index initialised to a constant (curr.Child(start))
					if ph, isPhi := x.Call.Args[1].(*ssa.Phi); isPhi {
						_ = ph
					}
					return
				}
				idx, container = k, x.Call.Args[0]
			default:
				return
			}
			n++
			key := fmt.Sprintf("%s:child[%d]#%d", shortFuncName(fn), idx, n)
			// dominating length guard: len(children) > idx / ChildCount() > idx
			guarded := false
			for _, b := range fn.Blocks {
				iff := blockIf(b)
				if iff == nil {
					continue
				}
				bo, ok := stripNot(iff.Cond).(*ssa.BinOp)
				if !ok {
					continue
				}
				lenLike := func(v ssa.Value) bool {
					if cl, ok := isBuiltinCall(v, "len"); ok {
						return sameLoad(cl.Call.Args[0], container) || true
					}
					if cl, ok := v.(*ssa.Call); ok && cl.Call.StaticCallee() != nil && cl.Call.StaticCallee().Name() == "ChildCount" {
						return true
					}
					return false
				}
				if bo.Op == token.GTR && lenLike(bo.X) {
					if k, ok := constInt(bo.Y); ok && k >= idx {
						ti := 0
						if isNegated(iff.Cond) {
							ti = 1
						}
						if edgeDominates(b, ti, in.Block()) {
							guarded = true
						}
					}
				}
			}
			// a stored boolean `TitlePresent: len(children) > 2` tested later
			if !guarded {
				for _, b := range fn.Blocks {
					iff := blockIf(b)
					if iff == nil {
						continue
					}
					if ld, ok := iff.Cond.(*ssa.UnOp); ok && ld.Op == token.MUL {
						if fa, ok := ld.X.(*ssa.FieldAddr); ok {
							for _, r := range refsOf(fa.X) {
								if fa2, ok := r.(*ssa.FieldAddr); ok && fa2.Field == fa.Field {
									for _, rr := range refsOf(fa2) {
										if st, ok := rr.(*ssa.Store); ok {
											if bo, ok := st.Val.(*ssa.BinOp); ok && bo.Op == token.GTR {
												if k, ok := constInt(bo.Y); ok && k >= idx && edgeDominates(b, 0, in.Block()) {
													guarded = true
												}
											}
										}
									}
								}
							}
						}
					}
				}
			}
			if guarded {
				c.OK("ARITY", key, in.Pos(), "behind a length guard")
				return
			}
			if reach == nil {
				c.Viol("ARITY", key, in.Pos(), "positional child access without a kind dispatch or length guard")
				return
			}
			var bad []string
			for d := range reach[in.Block()] {
				kn := kindName(p, kt, d)
				if minChildren[kn] <= idx {
					bad = append(bad, kn)
				}
			}
			sort.Strings(bad)
			// a block reachable for every kind is not kind-specific at all
			if len(reach[in.Block()]) == len(dom) {
				c.Viol("ARITY", key, in.Pos(), "positional child access is not specific to a node kind and has no length guard")
				return
			}
			c.Check(len(bad) == 0, "ARITY", key, in.Pos(), fmt.Sprintf("child %d is taken for node kinds without a producer guarantee: %s", idx, strings.Join(bad, ", ")))
		})
	}
	if n < 1 {
		c.Undecided("ARITY", "instance-count", token.NoPos, fmt.Sprintf("%d positional child accesses found (every constant-position child access in the two packages is inspected; the renderer's autolink access alone is one)", n))
	}
}

func init() {
	addControls(
		Control{Name: "filterRaw-comment-state-stuck", Props: []string{"C04"}, File: "html_renderer.go",
			Old: "\t\t\tdefault:\n\t\t\t\ti++\n\t\t\t}\n\t\tcase piState:", New: "\t\t\t}\n\t\tcase piState:", Expect: "LOOP-D/(*renderState).filterRaw"},
		Control{Name: "filterRaw-decl-offset-relative", Props: []string{"C04"}, File: "html_renderer.go",
			Old: "\t\t\tif rawHTML[i] == '>' {\n\t\t\t\tstate = copyState\n\t\t\t}\n\t\t\ti++", New: "\t\t\tif j := bytes.IndexByte(rawHTML[i:], '>'); j >= 0 {\n\t\t\t\tstate = copyState\n\t\t\t\ti = j + 1\n\t\t\t} else {\n\t\t\t\ti = len(rawHTML)\n\t\t\t}", Expect: "ADVANCE-REL"},
		Control{Name: "neg-filterRaw-decl-via-IndexByte", Props: []string{"C04"}, File: "html_renderer.go", Negative: true,
			Old: "\t\t\tif rawHTML[i] == '>' {\n\t\t\t\tstate = copyState\n\t\t\t}\n\t\t\ti++", New: "\t\t\tif j := bytes.IndexByte(rawHTML[i:], '>'); j >= 0 {\n\t\t\t\tstate = copyState\n\t\t\t\ti += j + 1\n\t\t\t} else {\n\t\t\t\ti = len(rawHTML)\n\t\t\t}"},
		Control{Name: "tab-test-loses-cursor-bound", Props: []string{"C04"}, File: "parse.go",
			Old: "if p.i < len(p.line) && p.line[p.i] == '\\t' && p.tabRemaining > 0 && p.tabRemaining < tabStopSize {", New: "if p.line[p.i] == '\\t' && p.tabRemaining < tabStopSize {", Expect: "INDEX-GUARD/addLineText"},
		Control{Name: "bang-lookahead-unbounded", Props: []string{"C04"}, File: "inlines.go",
			Old: "if pos+1 >= state.spanEnd() || source[pos+1] != '[' {", New: "if source[pos+1] != '[' {", Expect: "INDEX-GUARD/(*InlineParser).parse"},
		Control{Name: "neg-cursor-bound-flipped", Props: []string{"C04"}, File: "parse.go", Negative: true,
			Old: "if p.i < len(p.line) && p.line[p.i] == '\\t' && p.tabRemaining > 0 && p.tabRemaining < tabStopSize {", New: "if len(p.line) > p.i && p.line[p.i] == '\\t' && p.tabRemaining > 0 && p.tabRemaining < tabStopSize {"},
		Control{Name: "neg-bang-lookahead-nested-if", Props: []string{"C04"}, File: "inlines.go", Negative: true,
			Old: "if pos+1 >= state.spanEnd() || source[pos+1] != '[' {\n\t\t\t\t\t\tpos++\n\t\t\t\t\t\tcontinue\n\t\t\t\t\t}", New: "if end := state.spanEnd(); pos+1 >= end {\n\t\t\t\t\t\tpos++\n\t\t\t\t\t\tcontinue\n\t\t\t\t\t} else if source[pos+1] != '[' {\n\t\t\t\t\t\tpos++\n\t\t\t\t\t\tcontinue\n\t\t\t\t\t}"},
		Control{Name: "declaration-scan-ignores-next", Props: []string{"C04"}, File: "parse_html.go",
			Old: "\t\t\tfor r.current() != '>' {\n\t\t\t\tif !r.next() {\n\t\t\t\t\treturn NullSpan()\n\t\t\t\t}\n\t\t\t}", New: "\t\t\tfor r.current() != '>' {\n\t\t\t\tr.next()\n\t\t\t}", Expect: "LOOP-N/parseHTMLTag"},
		Control{Name: "filterRaw-state-without-case", Props: []string{"C04"}, File: "html_renderer.go",
			Old: "\t\t\t\t\tstate = declState\n\t\t\t\t\ti += len(\"<!x\")", New: "\t\t\t\t\tstate = declState + 1\n\t\t\t\t\ti += len(\"<!x\")", Expect: "UNREACH/(*renderState).filterRaw"},
		Control{Name: "urlHexDigit-wrong-shift", Props: []string{"C04"}, File: "html_renderer.go",
			Old: "sb.WriteByte(urlHexDigit(b >> 4))", New: "sb.WriteByte(urlHexDigit(b >> 3))", Expect: "UNREACH/NormalizeURI"},
		Control{Name: "html-match-collects-after-consume", Props: []string{"C04"}, File: "blocks.go",
			Old: "\t\t\t\tif !p.IsRestBlank() {\n\t\t\t\t\tp.CollectInline(RawHTMLKind, len(p.BytesAfterIndent()))\n\t\t\t\t}\n\t\t\t\tp.ConsumeLine()\n\t\t\t\treturn false", New: "\t\t\t\tblank := p.IsRestBlank()\n\t\t\t\tn := len(p.BytesAfterIndent())\n\t\t\t\tp.ConsumeLine()\n\t\t\t\tif !blank {\n\t\t\t\t\tp.CollectInline(RawHTMLKind, n)\n\t\t\t\t}\n\t\t\t\treturn false", Expect: "LP-TYPESTATE/blockRules[HTMLBlockKind].match"},
		Control{Name: "fenced-match-sets-indent", Props: []string{"C04"}, File: "blocks.go",
			Old: "\t\t\t\t\t// Closing fence.\n\t\t\t\t\tp.ConsumeLine()\n\t\t\t\t\treturn false", New: "\t\t\t\t\t// Closing fence.\n\t\t\t\t\tp.SetContainerIndent(0)\n\t\t\t\t\tp.ConsumeLine()\n\t\t\t\t\treturn false", Expect: "LP-TYPESTATE/blockRules[FencedCodeBlockKind].match"},
		Control{Name: "autolink-second-child", Props: []string{"C04"}, File: "html_renderer.go",
			Old: "destination := inline.children[0].Text(source)", New: "destination := inline.children[1].Text(source)", Expect: "ARITY/(*renderState).preInline"},
		Control{Name: "render-synthesises-error", Props: []string{"C04"}, File: "html_renderer.go",
			Old: "\tvar buf []byte\n\tfor i, b := range blocks {", New: "\tvar buf []byte\n\tif len(blocks) == 0 {\n\t\treturn fmt.Errorf(\"render markdown to html: nothing to render\")\n\t}\n\tfor i, b := range blocks {", Expect: "ERRPROV/(*HTMLRenderer).Render"},
		Control{Name: "Parse-without-EOF-latch", Props: []string{"C04"}, File: "parse.go",
			Old: "\t\tlineno: 1,\n\t\terr:    io.EOF,\n", New: "\t\tlineno: 1,\n", Expect: "PARSE-NOPANIC"},
		Control{Name: "extract-title-unguarded", Props: []string{"C04"}, File: "references.go",
			Old: "\t\t\tif def.TitlePresent {\n\t\t\t\tdef.Title = block.inlineChildren[2].Text(source)\n\t\t\t}", New: "\t\t\tdef.Title = block.inlineChildren[2].Text(source)", Expect: "ARITY/(ReferenceMap).Extract"},
		Control{Name: "neg-skipSpaces-rewritten", Props: []string{"C04"}, File: "blocks.go", Negative: true,
			Old: "\tfor r.current() == ' ' || r.current() == '\\t' {\n\t\tif !r.next() {\n\t\t\treturn false\n\t\t}\n\t}", New: "\tfor {\n\t\tc := r.current()\n\t\tif c != ' ' && c != '\\t' {\n\t\t\tbreak\n\t\t}\n\t\tif !r.next() {\n\t\t\treturn false\n\t\t}\n\t}"},
		Control{Name: "neg-filterRaw-state-as-if-chain", Props: []string{"C04"}, File: "html_renderer.go", Negative: true,
			Old: "\t\tcase declState:\n\t\t\tif rawHTML[i] == '>' {\n\t\t\t\tstate = copyState\n\t\t\t}\n\t\t\ti++", New: "\t\tcase declState:\n\t\t\tdone := rawHTML[i] == '>'\n\t\t\ti++\n\t\t\tif done {\n\t\t\t\tstate = copyState\n\t\t\t}"},
	)
}

// ruleAdvanceRel: see ADVANCE-REL.
func ruleAdvanceRel(c *Ctx) {
	c.Rule("ADVANCE-REL", "In every index-driven scanning loop (header test `i < bound` on a loop-carried index that the body advances by hand), each value that flows back into the index is the index itself plus something (i + …), or the loop bound: an index recomputed from an offset that is relative to a sub-slice (i = j + 3 for j := bytes.Index(x[i:], …)) can move backwards and the loop never ends.")
	p := c.P
	n := 0
	for _, fn := range p.Funcs {
		for li, l := range naturalLoops(fn) {
			l := l
			iff := blockIf(l.header)
			if iff == nil {
				continue
			}
			bo, ok := iff.Cond.(*ssa.BinOp)
			if !ok || bo.Op != token.LSS {
				continue
			}
			ph, ok := bo.X.(*ssa.Phi)
			if !ok || ph.Block() != l.header {
				continue
			}
			bound := bo.Y
			// back-edge values
			var updates []ssa.Value
			for i, pr := range l.header.Preds {
				if l.body[pr] && l.header.Dominates(pr) {
					updates = append(updates, ph.Edges[i])
				}
			}
			if len(updates) < 2 {
				continue // a plain counting loop (i++ only) or range loop
			}
			n++
			key := fmt.Sprintf("%s:loop#%d", shortFuncName(fn), li+1)
			// does v contain ph as an additive term (through phis, additions and the results of module helpers), or is
			// it the bound?
			var rel func(v ssa.Value, seen map[ssa.Value]bool, env *callEnv) bool
			rel = func(v ssa.Value, seen map[ssa.Value]bool, env *callEnv) bool {
				v, env = env.resolve(v)
				if env == nil && (v == ssa.Value(ph) || sameValueDeep(v, bound)) {
					return true
				}
				if seen[v] {
					return true
				}
				seen[v] = true
				switch x := v.(type) {
				case *ssa.BinOp:
					if x.Op == token.ADD {
						return rel(x.X, seen, env) || rel(x.Y, seen, env)
					}
					if x.Op == token.SUB {
						return rel(x.X, seen, env)
					}
				case *ssa.Phi:
					for _, e := range x.Edges {
						if !rel(e, seen, env) {
							return false
						}
					}
					return true
				case *ssa.Call:
					if cl, ok := isBuiltinCall(x, "len"); ok {
						if bl, ok := isBuiltinCall(bound, "len"); ok {
							a, aenv := env.resolve(cl.Call.Args[0])
							if aenv == nil && a == bl.Call.Args[0] {
								return true
							}
						}
						return false
					}
				}
				if rets, cenv, ok := calleeResults(p, v, env); ok {
					for _, rv := range rets {
						if !rel(rv, seen, cenv) {
							return false
						}
					}
					return true
				}
				return false
			}
			var bad []string
			for _, u := range updates {
				if !rel(u, map[ssa.Value]bool{}, nil) {
					bad = append(bad, describeValue(u))
				}
			}
			pos := l.header.Instrs[0].Pos()
			c.Check(len(bad) == 0, "ADVANCE-REL", key, pos, "the scan index is set to a value that is not relative to its previous value: "+strings.Join(bad, ", "))
		}
	}
	c.Analysed["hand_advanced_scanning_loops"] = n
	if n < 1 {
		c.Undecided("ADVANCE-REL", "instance-count", token.NoPos, fmt.Sprintf("%d hand-advanced scanning loops found; every loop of the module is inspected and the idiom must be recognised at least once", n))
	}
}

// ---------------------------------------------------------------------------------------------
// INDEX-GUARD

// splitAdd decomposes v into base + k for a constant k >= 0 (k = 0 when v is not such a sum).
func splitAdd(v ssa.Value) (ssa.Value, int64) {
	if bo, ok := v.(*ssa.BinOp); ok && bo.Op == token.ADD {
		if k, ok := constInt(bo.Y); ok && k >= 0 {
			b, k2 := splitAdd(bo.X)
			return b, k + k2
		}
		if k, ok := constInt(bo.X); ok && k >= 0 {
			b, k2 := splitAdd(bo.Y)
			return b, k + k2
		}
	}
	return v, 0
}

// sameTerm: structural equality of index terms (field loads through the same access path, calls of the same pure
// accessor on the same receiver, identical arithmetic).
func sameTerm(a, b ssa.Value) bool {
	if sameValueDeep(a, b) || sameLoad(a, b) {
		return true
	}
	ca, ok1 := a.(*ssa.Call)
	cb, ok2 := b.(*ssa.Call)
	if ok1 && ok2 {
		// len(x) / cap(x) of the same term
		ba, isBa := ca.Call.Value.(*ssa.Builtin)
		bb, isBb := cb.Call.Value.(*ssa.Builtin)
		if isBa && isBb && ba.Name() == bb.Name() && (ba.Name() == "len" || ba.Name() == "cap") && len(ca.Call.Args) == 1 && len(cb.Call.Args) == 1 {
			return sameTerm(ca.Call.Args[0], cb.Call.Args[0])
		}
	}
	if ok1 && ok2 && ca.Call.StaticCallee() != nil && ca.Call.StaticCallee() == cb.Call.StaticCallee() && len(ca.Call.Args) == len(cb.Call.Args) {
		for i := range ca.Call.Args {
			if !sameTerm(ca.Call.Args[i], cb.Call.Args[i]) {
				return false
			}
		}
		return true
	}
	fa, ok1 := a.(*ssa.Field)
	fb, ok2 := b.(*ssa.Field)
	if ok1 && ok2 && fa.Field == fb.Field {
		return sameTerm(fa.X, fb.X)
	}
	ba, ok1 := a.(*ssa.BinOp)
	bb, ok2 := b.(*ssa.BinOp)
	if ok1 && ok2 && ba.Op == bb.Op {
		return sameTerm(ba.X, bb.X) && sameTerm(ba.Y, bb.Y)
	}
	return false
}

// upperGuarded: some dominating branch establishes (idxBase + k') < B with k' >= k on the edge leading to blk.
func upperGuarded(fn *ssa.Function, blk *ssa.BasicBlock, at ssa.Instruction, base ssa.Value, k int64) bool {
	// G < B with G = gb + gk and B = bb + bc (constants of either sign) says gb + (gk - bc) < bb: a bound written
	// as e < n-1 covers a read at e+1
	coversB := func(g, bnd ssa.Value) bool {
		gb, gk := linTerm(g)
		_, bc := linTerm(bnd)
		return sameTerm(gb, base) && gk-bc >= k
	}
	for _, b := range fn.Blocks {
		iff := blockIf(b)
		if iff == nil {
			continue
		}
		neg := isNegated(iff.Cond)
		bo, ok := stripNot(iff.Cond).(*ssa.BinOp)
		if !ok {
			continue
		}
		edge := -1
		// the distance form: B - G > c says G + c < B (B - G >= c: G + c - 1 < B)
		if c, isC := constInt(bo.Y); isC {
			if sub, isSub := bo.X.(*ssa.BinOp); isSub && sub.Op == token.SUB {
				gb, gk := linTerm(sub.Y)
				_, bc := linTerm(sub.X)
				if sameTerm(gb, base) {
					m := gk - bc + c // G + c < B on the GTR edge
					switch bo.Op {
					case token.GTR:
						if m >= k {
							edge = 0
						}
					case token.GEQ:
						if m-1 >= k {
							edge = 0
						}
					case token.LEQ: // false edge: B - G > c
						if m >= k {
							edge = 1
						}
					case token.LSS: // false edge: B - G >= c
						if m-1 >= k {
							edge = 1
						}
					}
					if edge >= 0 {
						if neg {
							edge = 1 - edge
						}
						if edgeDominates(b, edge, blk) {
							return true
						}
					}
					continue
				}
			}
		}
		switch bo.Op {
		case token.LSS: // G < B
			if coversB(bo.X, bo.Y) {
				edge = 0
			}
		case token.GEQ: // G >= B : false edge
			if coversB(bo.X, bo.Y) {
				edge = 1
			}
		case token.GTR: // B > G
			if coversB(bo.Y, bo.X) {
				edge = 0
			}
		case token.LEQ: // B <= G : false edge
			if coversB(bo.Y, bo.X) {
				edge = 1
			}
		}
		if edge < 0 {
			continue
		}
		if neg {
			edge = 1 - edge
		}
		if edgeDominates(b, edge, blk) {
			return true
		}
	}
	return false
}

func ruleIndexGuard(c *Ctx) {
	c.Rule("INDEX-GUARD", "Every read of a byte slice at the cursor (index = a loaded cursor field such as p.i or r.pos) or ahead of a position (index = V + k with a constant k >= 1), or at a position that is also used as the exclusive end of a slice of the same bytes (it may equal the length), and every look-ahead read s[V+k] of a string, in packages commonmark and format is dominated by a branch that established an upper bound on that very index (G < B or the false edge of G >= B, with G the index or the index plus a non-negative constant). Indices counted from the end (len-1, End-1), range/loop counters and positions taken from node spans are outside this rule. A dropped bound on a look-ahead or cursor read is an index-out-of-range panic for input that ends right there.")
	p := c.P
	n := 0
	perFn := map[*ssa.Function]int{}
	for _, fn := range p.Funcs {
		if fn.Pkg != p.CMs && fn.Pkg != p.FMTs {
			continue
		}
		eachInstr(fn, func(in ssa.Instruction) {
			// bytes of a string: s[i+k] (look-ahead form only)
			var strX, strIdx ssa.Value
			switch y := in.(type) {
			case *ssa.Index:
				strX, strIdx = y.X, y.Index
			case *ssa.Lookup:
				strX, strIdx = y.X, y.Index
			}
			if strX != nil {
				if bt, ok := strX.Type().Underlying().(*types.Basic); ok && bt.Info()&types.IsString != 0 {
					if _, isConst := strX.(*ssa.Const); !isConst {
						base, k := splitAdd(strIdx)
						if _, fromEnd := base.(*ssa.BinOp); k >= 1 && !fromEnd {
							n++
							perFn[fn]++
							key := fmt.Sprintf("%s:string-look-ahead#%d", shortFuncName(fn), perFn[fn])
							c.Check(upperGuarded(fn, in.Block(), in, base, k), "INDEX-GUARD", key, in.Pos(), "look-ahead read of a string without a dominating upper-bound test on its index")
						}
					}
				}
				return
			}
			ia, ok := in.(*ssa.IndexAddr)
			if !ok {
				return
			}
			sl, ok := ia.X.Type().Underlying().(*types.Slice)
			if !ok {
				return
			}
			if bt, ok := sl.Elem().Underlying().(*types.Basic); !ok || bt.Kind() != types.Uint8 {
				return
			}
			// only reads
			isRead := false
			for _, r := range refsOf(ia) {
				if ld, ok := r.(*ssa.UnOp); ok && ld.Op == token.MUL {
					isRead = true
				}
			}
			if !isRead {
				return
			}
			base, k := splitAdd(ia.Index)
			form := ""
			if ld, ok := base.(*ssa.UnOp); ok && ld.Op == token.MUL {
				if fa, ok := ld.X.(*ssa.FieldAddr); ok {
					if _, isParam := fa.X.(*ssa.Parameter); isParam {
						form = "cursor field"
					}
				}
			}
			if form == "" && k >= 1 {
				// not from-the-end arithmetic
				if bo, ok := base.(*ssa.BinOp); ok && bo.Op == token.SUB {
					return
				}
				form = "look-ahead"
			}
			if form == "" {
				// an end position: the same value is the (exclusive) high bound of a slice of the same byte slice somewhere
				// in the function, so it may equal the length
				// (not from-the-end arithmetic such as s[e-1] next to s[:e-1], and not positions taken from node spans,
				// which are outside this rule)
				fromEnd := false
				if bo, ok := ia.Index.(*ssa.BinOp); ok && bo.Op == token.SUB {
					fromEnd = true
				}
				isSpanPos := false
				switch y := ia.Index.(type) {
				case *ssa.Field:
					isSpanPos = typeName(y.X.Type()) == "Span"
				case *ssa.UnOp:
					if fa, ok := y.X.(*ssa.FieldAddr); ok {
						tn, _, _ := fieldAddrInfo(fa)
						isSpanPos = tn == "Span"
					}
				}
				// a position found by a search over the very same bytes is an element position, not an end
				isFound := false
				if sc, ok := ia.Index.(*ssa.Call); ok {
					if f := sc.Call.StaticCallee(); f != nil && f.Pkg != nil && (f.Pkg.Pkg.Path() == "bytes" || f.Pkg.Pkg.Path() == "strings") && strings.HasPrefix(f.Name(), "Index") {
						if len(sc.Call.Args) > 0 && (sc.Call.Args[0] == ia.X || sameTerm(sc.Call.Args[0], ia.X)) {
							isFound = true
						}
					}
				}
				if !fromEnd && !isSpanPos && !isFound {
					eachInstr(fn, func(x ssa.Instruction) {
						if s2, ok := x.(*ssa.Slice); ok && s2.High != nil && (s2.X == ia.X || sameTerm(s2.X, ia.X)) {
							if s2.High == ia.Index || sameTerm(s2.High, ia.Index) {
								form = "end-position"
							}
						}
					})
				}
			}
			if form == "" {
				return
			}
			// unit-stride loops over the same slice bound the counter by construction
			if ok, _ := unitStrideOver(ia.Index, ia.X); ok {
				return
			}
			n++
			perFn[fn]++
			key := fmt.Sprintf("%s:%s#%d", shortFuncName(fn), strings.ReplaceAll(form, " ", "-"), perFn[fn])
			g := upperGuarded(fn, ia.Block(), ia, base, k)
			if !g {
				// loop-header bound on a counter the index is derived from
				if ph, ok := base.(*ssa.Phi); ok {
					if iff := blockIf(ph.Block()); iff != nil {
						if bo, ok := iff.Cond.(*ssa.BinOp); ok && bo.Op == token.LSS {
							gb, gk := splitAdd(bo.X)
							if gb == ssa.Value(ph) && gk >= k && ph.Block().Dominates(ia.Block()) {
								g = true
							}
						}
					}
				}
			}
			c.Check(g, "INDEX-GUARD", key, ia.Pos(), form+" read without a dominating upper-bound test on its index")
		})
	}
	c.Analysed["guarded_cursor_and_lookahead_reads"] = n
	if n < 3 {
		c.Undecided("INDEX-GUARD", "instance-count", token.NoPos, fmt.Sprintf("%d cursor/look-ahead reads found; every byte-slice read in the package is inspected and the idiom must still be recognised", n))
	}
}

// ---------------------------------------------------------------------------------------------
// NILMATCHER: the optional reference matcher is never called while it may be nil.

func ruleNilMatcher(c *Ctx) {
	c.Rule("NILMATCHER", "InlineParser.ReferenceMatcher is optional (the zero InlineParser is usable: block-by-block parsing without a reference map). Every method call on it is dominated by the non-nil edge of a test of that field, in its function or at every call site of its function: a call on a nil interface is a panic for any input that contains a bracketed span.")
	p := c.P
	n := 0
	nonNilDominates := func(fn *ssa.Function, blk *ssa.BasicBlock) bool {
		for _, b := range fn.Blocks {
			iff := blockIf(b)
			if iff == nil {
				continue
			}
			x, nilIdx, ok := nilTest(iff.Cond)
			if !ok {
				continue
			}
			if _, isRM := isLoadOfField(x, "InlineParser", "ReferenceMatcher"); !isRM {
				continue
			}
			if edgeDominates(b, 1-nilIdx, blk) {
				return true
			}
		}
		return false
	}
	var guardedEverywhere func(fn *ssa.Function, busy map[*ssa.Function]bool) bool
	guardedEverywhere = func(fn *ssa.Function, busy map[*ssa.Function]bool) bool {
		if busy[fn] || (fn.Object() != nil && fn.Object().Exported()) {
			return false
		}
		busy[fn] = true
		defer delete(busy, fn)
		sites, ok := 0, true
		for _, caller := range p.Funcs {
			eachInstr(caller, func(in ssa.Instruction) {
				if call, isC := in.(*ssa.Call); isC && call.Call.StaticCallee() == fn {
					sites++
					if !nonNilDominates(caller, call.Block()) && !guardedEverywhere(caller, busy) {
						ok = false
					}
				}
			})
		}
		return sites > 0 && ok
	}
	for _, fn := range p.Funcs {
		eachInstr(fn, func(in ssa.Instruction) {
			ci, ok := in.(ssa.CallInstruction)
			if !ok || !ci.Common().IsInvoke() {
				return
			}
			if _, isRM := isLoadOfField(ci.Common().Value, "InlineParser", "ReferenceMatcher"); !isRM {
				return
			}
			n++
			key := fmt.Sprintf("%s:%s#%d", shortFuncName(fn), ci.Common().Method.Name(), n)
			good := nonNilDominates(fn, in.Block()) || guardedEverywhere(fn, map[*ssa.Function]bool{})
			c.Check(good, "NILMATCHER", key, in.Pos(), "the reference matcher is called where it may be nil")
		})
	}
	if n < 1 {
		c.Undecided("NILMATCHER", "instance-count", token.NoPos, "no call on InlineParser.ReferenceMatcher found")
	}
}
