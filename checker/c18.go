package main

// C18 — structural obligations W1..W8 on commonmark.Walk.

import (
	"fmt"
	"go/token"
	"go/types"

	"golang.org/x/tools/go/ssa"
)

func init() { props["C18"] = checkC18 }

type walkShape struct {
	c      *Ctx
	fn     *ssa.Function
	opts   *ssa.Parameter
	root   *ssa.Parameter
	header *ssa.BasicBlock // loop header testing len(stack) > 0
	stack  *ssa.Phi        // the stack at the header
	curr   *ssa.Alloc      // the popped frame
	popped ssa.Value       // stack[:len-1]
}

func sameAddr(a, b ssa.Value) bool {
	if a == b {
		return true
	}
	fa, ok1 := a.(*ssa.FieldAddr)
	fb, ok2 := b.(*ssa.FieldAddr)
	if ok1 && ok2 {
		return fa.Field == fb.Field && sameAddr(fa.X, fb.X)
	}
	ia, ok1 := a.(*ssa.IndexAddr)
	ib, ok2 := b.(*ssa.IndexAddr)
	if ok1 && ok2 {
		return sameValue(ia.Index, ib.Index) && (ia.X == ib.X || sameLoad(ia.X, ib.X))
	}
	return false
}

// sameLoad: two loads of the same address path.
func sameLoad(a, b ssa.Value) bool {
	if a == b {
		return true
	}
	ua, ok1 := a.(*ssa.UnOp)
	ub, ok2 := b.(*ssa.UnOp)
	return ok1 && ok2 && ua.Op == token.MUL && ub.Op == token.MUL && sameAddr(ua.X, ub.X)
}

func (w *walkShape) optLoad(v ssa.Value, field string) bool {
	fa, ok := isLoadOfField(v, "WalkOptions", field)
	return ok && fa.X == w.opts
}

// addrPath renders &curr.Cursor.node style paths relative to an alloc: returns field names.
func addrPath(v ssa.Value) (root ssa.Value, path string) {
	switch x := v.(type) {
	case *ssa.FieldAddr:
		r, p := addrPath(x.X)
		_, f, _ := fieldAddrInfo(x)
		if p == "" {
			return r, f
		}
		return r, p + "." + f
	case *ssa.IndexAddr:
		if _, isAl := x.X.(*ssa.Alloc); isAl {
			if _, ok := constInt(x.Index); ok {
				return x.X, ""
			}
		}
	}
	return v, ""
}

func (w *walkShape) isCurrLoad(v ssa.Value, path string) bool {
	u, ok := v.(*ssa.UnOp)
	if !ok || u.Op != token.MUL {
		return false
	}
	r, p := addrPath(u.X)
	return r == ssa.Value(w.curr) && p == path
}

func checkC18(c *Ctx) {
	c.Rule("W1", "Custom child functions everywhere: every call in Walk that obtains a child count or a child resolves to opts.ChildCount / opts.Child where that field is non-nil and to the Node method only where it is nil; no other call of a ChildCount/Child method occurs in Walk.")
	c.Rule("W2", "Prune: from the false edge of Pre's result the path back to the loop header performs no call and no append, and the stack that reaches the header along it is the popped stack (no children, no post frame).")
	c.Rule("W3", "Abort: the false edge of Post's result reaches a return without passing any call and without re-entering the loop.")
	c.Rule("W4", "Cursor coherence for children: in the child frame the node is getChild(X, I), the parent is the same access path X (the popped frame's node), the index is the same value I, and the block is X.Block() when that is non-nil, else the popped frame's block.")
	c.Rule("W5", "Root frame: index is the constant -1, node is the root parameter, parent and block are left zero.")
	c.Rule("W6", "The cursor handed to Pre/Post is the popped frame's Cursor: assigned from it in the same block immediately before the call, with no call or other store in between (or passed by address directly).")
	c.Rule("W7", "The post frame (popped frame with post=true) is appended onto the popped stack, is the base of the children appends, lies behind the not-post edge, and is not reachable from Pre's false edge.")
	c.Rule("W8", "TRAV: frames are popped from the end of the stack and children are pushed by descending index from childCount(X)-1 to 0 (a stack), which yields document order.")
	fn := c.P.Func("Walk")
	if !c.NeedFunc("W1", fn, "Walk") {
		return
	}
	if len(fn.Params) != 2 {
		c.Undecided("W1", "Walk:signature", fn.Pos(), "Walk no longer takes (root, opts)")
		return
	}
	w := &walkShape{c: c, fn: fn, root: fn.Params[0], opts: fn.Params[1]}
	// locate the loop header: a block whose If tests len(phi) > 0 with phi a slice
	for _, b := range fn.Blocks {
		iff := blockIf(b)
		if iff == nil {
			continue
		}
		bo, ok := iff.Cond.(*ssa.BinOp)
		if !ok || bo.Op != token.GTR || !isZero(bo.Y) {
			continue
		}
		cl, ok := isBuiltinCall(bo.X, "len")
		if !ok {
			continue
		}
		if ph, ok := cl.Call.Args[0].(*ssa.Phi); ok && ph.Block() == b {
			if _, isSl := ph.Type().Underlying().(*types.Slice); isSl {
				w.header, w.stack = b, ph
			}
		}
	}
	if w.header == nil {
		c.Undecided("W8", "Walk:loop", fn.Pos(), "explicit-stack loop `for len(stack) > 0` not recognised (a rewrite of Walk needs the rules re-instantiated)")
		return
	}
	// pop: curr := stack[len-1]; stack = stack[:len-1]
	body := w.header.Succs[0]
	isLenMinus1 := func(v ssa.Value) bool {
		bo, ok := v.(*ssa.BinOp)
		if !ok || bo.Op != token.SUB {
			return false
		}
		one, ok := constInt(bo.Y)
		if !ok || one != 1 {
			return false
		}
		cl, ok := isBuiltinCall(bo.X, "len")
		return ok && cl.Call.Args[0] == ssa.Value(w.stack)
	}
	popEnd := false
	for _, in := range body.Instrs {
		switch x := in.(type) {
		case *ssa.Store:
			if al, ok := x.Addr.(*ssa.Alloc); ok {
				if ld, ok := x.Val.(*ssa.UnOp); ok && ld.Op == token.MUL {
					if ia, ok := ld.X.(*ssa.IndexAddr); ok && ia.X == ssa.Value(w.stack) {
						w.curr = al
						popEnd = isLenMinus1(ia.Index)
					}
				}
			}
		case *ssa.Slice:
			if x.X == ssa.Value(w.stack) && x.Low == nil && x.High != nil && isLenMinus1(x.High) {
				w.popped = x
			}
		}
	}
	if w.curr == nil || w.popped == nil {
		c.Undecided("W8", "Walk:pop", body.Instrs[0].Pos(), "pop idiom `curr := stack[len-1]; stack = stack[:len-1]` not recognised")
		return
	}
	c.Check(popEnd, "W8", "Walk:pop-from-end", w.curr.Pos(), "the frame popped is the last element of the stack")

	w.checkChildFuncs()
	w.checkCallbacks()
	w.checkFrames()
}

// defaultMethod reports whether v denotes the Node method `name` (thunk, bound or direct function value).
func defaultMethod(v ssa.Value, name string) bool {
	switch x := v.(type) {
	case *ssa.Function:
		if x.Name() == name || x.Name() == name+"$thunk" || x.Name() == name+"$bound" {
			if x.Signature.Recv() != nil && typeName(x.Signature.Recv().Type()) == "Node" {
				return true
			}
			// thunks have the receiver as first parameter
			if len(x.Params) > 0 && typeName(x.Params[0].Type()) == "Node" {
				return true
			}
		}
	case *ssa.MakeClosure:
		return defaultMethod(x.Fn, name)
	}
	return false
}

// resolvesCustom decides rule W1 for a callee value used at call site `site`.
func (w *walkShape) resolvesCustom(v ssa.Value, site *ssa.BasicBlock, field string) (bool, string) {
	// the nil test on opts.<field>
	var tests []*ssa.BasicBlock
	nilIdx := map[*ssa.BasicBlock]int{}
	for _, b := range w.fn.Blocks {
		iff := blockIf(b)
		if iff == nil {
			continue
		}
		if x, ni, ok := nilTest(iff.Cond); ok && w.optLoad(x, field) {
			tests = append(tests, b)
			nilIdx[b] = ni
		}
	}
	onSide := func(blk *ssa.BasicBlock, nonNil bool) bool {
		for _, t := range tests {
			idx := nilIdx[t]
			if nonNil {
				idx = 1 - idx
			}
			if edgeDominates(t, idx, blk) {
				return true
			}
		}
		return false
	}
	switch x := v.(type) {
	case *ssa.Phi:
		if len(x.Edges) != 2 {
			return false, "callee is a phi with an unexpected number of edges"
		}
		sawDefault, sawCustom := false, false
		for i, e := range x.Edges {
			pred := x.Block().Preds[i]
			switch {
			case defaultMethod(e, field):
				// default must come from the nil side: pred is the test block itself taking its nil edge, or lies on the nil side
				ok := onSide(pred, false)
				for _, t := range tests {
					if pred == t && t.Succs[nilIdx[t]] == x.Block() {
						ok = true
					}
				}
				if !ok {
					return false, "the default method is selected on a path where opts." + field + " may be non-nil"
				}
				sawDefault = true
			case w.optLoad(e, field):
				ok := onSide(pred, true)
				for _, t := range tests {
					if pred == t && t.Succs[1-nilIdx[t]] == x.Block() {
						ok = true
					}
				}
				if !ok {
					return false, "opts." + field + " is selected without a non-nil test"
				}
				sawCustom = true
			default:
				return false, "callee phi has an edge that is neither the Node method nor opts." + field + ": " + e.String()
			}
		}
		if !(sawDefault && sawCustom) {
			return false, "callee phi does not choose between opts." + field + " and the Node method"
		}
		return true, "phi{opts." + field + " if non-nil, Node method otherwise}"
	default:
		if w.optLoad(v, field) {
			if onSide(site, true) {
				return true, "opts." + field + " called under its non-nil test"
			}
			return false, "opts." + field + " called without a non-nil test"
		}
		if defaultMethod(v, field) {
			if onSide(site, false) {
				return true, "Node method called under the nil edge of the opts." + field + " test"
			}
			return false, "the Node method is called although opts." + field + " may be set"
		}
	}
	return false, "callee not recognised: " + v.String()
}

func (w *walkShape) checkChildFuncs() {
	c := w.c
	nCC, nCh := 0, 0
	eachInstr(w.fn, func(in ssa.Instruction) {
		call, ok := in.(*ssa.Call)
		if !ok {
			return
		}
		com := call.Common()
		if _, isB := com.Value.(*ssa.Builtin); isB {
			return
		}
		sig := com.Signature()
		// classify by signature: func(Node) int  /  func(Node, int) Node
		isCC := sig.Params().Len() == 1 && typeName(sig.Params().At(0).Type()) == "Node" && sig.Results().Len() == 1 && types.Identical(sig.Results().At(0).Type(), types.Typ[types.Int])
		isCh := sig.Params().Len() == 2 && typeName(sig.Params().At(0).Type()) == "Node" && sig.Results().Len() == 1 && typeName(sig.Results().At(0).Type()) == "Node"
		if f := com.StaticCallee(); f != nil && f.Signature.Recv() != nil {
			// method calls x.ChildCount() / x.Child(i) on Node, *Block, *Inline
			switch f.Name() {
			case "ChildCount":
				isCC, isCh = true, false
			case "Child":
				isCh, isCC = true, false
			default:
				return
			}
			tn := typeName(f.Signature.Recv().Type())
			if tn != "Node" {
				c.Viol("W1", fmt.Sprintf("Walk:call %s.%s", tn, f.Name()), call.Pos(), "children obtained through a concrete node method, bypassing the custom child functions")
				return
			}
			field := f.Name()
			ok, why := w.resolvesCustom(f, call.Block(), field)
			if field == "ChildCount" {
				nCC++
			} else {
				nCh++
			}
			c.Check(ok, "W1", fmt.Sprintf("Walk:%s#%d", field, nCC+nCh), call.Pos(), why)
			return
		}
		switch {
		case isCC:
			nCC++
			ok, why := w.resolvesCustom(com.Value, call.Block(), "ChildCount")
			c.Check(ok, "W1", fmt.Sprintf("Walk:ChildCount#%d", nCC), call.Pos(), why)
		case isCh:
			nCh++
			ok, why := w.resolvesCustom(com.Value, call.Block(), "Child")
			c.Check(ok, "W1", fmt.Sprintf("Walk:Child#%d", nCh), call.Pos(), why)
		}
	})
	if nCC == 0 || nCh == 0 {
		c.Undecided("W1", "Walk:child-calls", w.fn.Pos(), fmt.Sprintf("found %d child-count and %d child calls; at least one of each expected", nCC, nCh))
	}
}

func (w *walkShape) checkCallbacks() {
	c := w.c
	nPre, nPost := 0, 0
	eachInstr(w.fn, func(in ssa.Instruction) {
		call, ok := in.(*ssa.Call)
		if !ok {
			return
		}
		v := call.Call.Value
		var which string
		switch {
		case w.optLoad(v, "Pre"):
			which = "Pre"
			nPre++
		case w.optLoad(v, "Post"):
			which = "Post"
			nPost++
		default:
			return
		}
		// callback must be called under its non-nil test
		guard := false
		for _, b := range w.fn.Blocks {
			if iff := blockIf(b); iff != nil {
				if x, ni, ok := nilTest(iff.Cond); ok && w.optLoad(x, which) && edgeDominates(b, 1-ni, call.Block()) {
					guard = true
				}
			}
		}
		c.Check(guard, "W6", "Walk:"+which+":nil-guard", call.Pos(), "opts."+which+" must be called only when non-nil")
		// W6: the cursor argument
		arg := call.Call.Args[0]
		okCur, why := false, ""
		if fa, ok := arg.(*ssa.FieldAddr); ok {
			r, p := addrPath(fa)
			okCur = r == ssa.Value(w.curr) && p == "Cursor"
			why = "address of the popped frame's Cursor passed directly"
		} else {
			// find the last store to arg in this block before the call
			var last *ssa.Store
			clean := true
			for _, x := range call.Block().Instrs {
				if x == ssa.Instruction(call) {
					break
				}
				switch y := x.(type) {
				case *ssa.Store:
					if y.Addr == arg {
						last = y
						clean = true
					} else if r, _ := addrPath(y.Addr); r == arg {
						clean = false
					}
				case ssa.CallInstruction:
					if _, isB := y.Common().Value.(*ssa.Builtin); !isB {
						clean = false
					}
				}
			}
			if last != nil && clean && w.isCurrLoad(last.Val, "Cursor") {
				okCur, why = true, "cursor assigned from the popped frame immediately before the call"
			} else {
				why = "the cursor passed to " + which + " is not (re)assigned from the popped frame's Cursor right before the call"
			}
		}
		c.Check(okCur, "W6", "Walk:"+which+":cursor", call.Pos(), why)
		// the If on the result
		iff := blockIf(call.Block())
		if iff == nil || stripNot(iff.Cond) != ssa.Value(call) {
			if which == "Pre" {
				c.Viol("W2", "Walk:Pre:false-edge", call.Pos(), "the result of Pre does not decide a branch: pruning is ignored")
			} else {
				c.Viol("W3", "Walk:Post:false-edge", call.Pos(), "the result of Post does not decide a branch: abort is ignored")
			}
			return
		}
		falseIdx := 1
		if isNegated(iff.Cond) {
			falseIdx = 0
		}
		fs := call.Block().Succs[falseIdx]
		if which == "Pre" {
			// W2: path from fs to header: no calls/appends, and phi edge value is the popped stack
			ok, why := w.quietPathTo(call.Block(), fs, w.header)
			if ok {
				// the stack value arriving at the header along that path
				for i, pred := range w.header.Preds {
					if pred == call.Block() && fs == w.header || (fs != w.header && canReachWithout(fs, pred, w.header)) || pred == fs {
						if w.stack.Edges[i] != w.popped {
							ok, why = false, "the stack that reaches the loop header after pruning is not the popped stack: "+w.stack.Edges[i].String()
						}
					}
				}
			}
			c.Check(ok, "W2", "Walk:Pre:false-edge", call.Pos(), why)
		} else {
			// W3: fs reaches return without call and without header
			ok, why := w.quietPathToReturn(fs)
			c.Check(ok, "W3", "Walk:Post:false-edge", call.Pos(), why)
			// and the true edge continues the loop
			ts := call.Block().Succs[1-falseIdx]
			ok2, _ := w.quietPathTo(call.Block(), ts, w.header)
			c.Check(ok2, "W3", "Walk:Post:true-edge", call.Pos(), "after Post returns true the loop continues with the popped stack")
		}
	})
	if nPre != 1 || nPost != 1 {
		c.Undecided("W6", "Walk:callbacks", w.fn.Pos(), fmt.Sprintf("expected exactly one call of opts.Pre and one of opts.Post, found %d and %d", nPre, nPost))
	}
}

func stripNot(v ssa.Value) ssa.Value {
	for {
		u, ok := v.(*ssa.UnOp)
		if !ok || u.Op != token.NOT {
			return v
		}
		v = u.X
	}
}
func isNegated(v ssa.Value) bool {
	n := false
	for {
		u, ok := v.(*ssa.UnOp)
		if !ok || u.Op != token.NOT {
			return n
		}
		n = !n
		v = u.X
	}
}

func canReachWithout(from, to, avoid *ssa.BasicBlock) bool {
	seen := map[*ssa.BasicBlock]bool{}
	var walk func(b *ssa.BasicBlock) bool
	walk = func(b *ssa.BasicBlock) bool {
		if b == to {
			return true
		}
		if b == avoid || seen[b] {
			return false
		}
		seen[b] = true
		for _, s := range b.Succs {
			if walk(s) {
				return true
			}
		}
		return false
	}
	return walk(from)
}

// quietPathTo: every path from `start` reaches `target` and executes no call (incl. append) on the way.
func (w *walkShape) quietPathTo(from, start, target *ssa.BasicBlock) (bool, string) {
	seen := map[*ssa.BasicBlock]bool{}
	var walk func(b *ssa.BasicBlock) (bool, string)
	walk = func(b *ssa.BasicBlock) (bool, string) {
		if b == target {
			return true, ""
		}
		if seen[b] {
			return true, ""
		}
		seen[b] = true
		for _, in := range b.Instrs {
			switch x := in.(type) {
			case ssa.CallInstruction:
				return false, "a call (" + calleeName(x.Common()) + ") is executed on the path at " + w.c.P.Pos(in.Pos())
			case *ssa.Return:
				return false, "the path returns instead of continuing the loop"
			}
		}
		for _, s := range b.Succs {
			if ok, why := walk(s); !ok {
				return false, why
			}
		}
		return true, ""
	}
	ok, why := walk(start)
	if ok {
		why = "no call or append between the edge and the loop header"
	}
	return ok, why
}

func (w *walkShape) quietPathToReturn(start *ssa.BasicBlock) (bool, string) {
	seen := map[*ssa.BasicBlock]bool{}
	var walk func(b *ssa.BasicBlock) (bool, string)
	walk = func(b *ssa.BasicBlock) (bool, string) {
		if b == w.header {
			return false, "the loop is re-entered after Post returned false"
		}
		if seen[b] {
			return true, ""
		}
		seen[b] = true
		for _, in := range b.Instrs {
			switch x := in.(type) {
			case ssa.CallInstruction:
				return false, "a call (" + calleeName(x.Common()) + ") follows Post's false result at " + w.c.P.Pos(in.Pos())
			case *ssa.Return:
				return true, ""
			}
		}
		for _, s := range b.Succs {
			if ok, why := walk(s); !ok {
				return false, why
			}
		}
		return true, ""
	}
	ok, why := walk(start)
	if ok {
		why = "reaches return without any call"
	}
	return ok, why
}

// cursorLits collects, per Cursor composite literal (a Cursor-typed local, or the Cursor field of a local frame
// literal), the values stored to its fields.
func (w *walkShape) cursorLits() map[ssa.Value]map[string]ssa.Value {
	out := map[ssa.Value]map[string]ssa.Value{}
	eachInstr(w.fn, func(in ssa.Instruction) {
		st, ok := in.(*ssa.Store)
		if !ok {
			return
		}
		fa, ok := st.Addr.(*ssa.FieldAddr)
		if !ok || typeName(deref(fa.X.Type())) != "Cursor" {
			return
		}
		root, _ := addrPath(fa.X)
		al, ok := root.(*ssa.Alloc)
		if !ok || al == w.curr {
			return
		}
		_, f, _ := fieldAddrInfo(fa)
		if out[al] == nil {
			out[al] = map[string]ssa.Value{}
		}
		out[al][f] = st.Val
	})
	return out
}

func (w *walkShape) checkFrames() {
	c := w.c
	lits := w.cursorLits()
	var rootLit, childLit map[string]ssa.Value
	var rootAl, childAl *ssa.Alloc
	for v, m := range lits {
		al := v.(*ssa.Alloc)
		if al.Block() == w.fn.Blocks[0] || al.Block().Dominates(w.header) {
			rootLit, rootAl = m, al
		} else {
			childLit, childAl = m, al
		}
	}
	if rootLit == nil || childLit == nil || len(lits) != 2 {
		c.Undecided("W4", "Walk:frames", w.fn.Pos(), fmt.Sprintf("expected a root and a child Cursor literal, found %d", len(lits)))
		return
	}
	// W5
	idx, okIdx := constInt(rootLit["index"])
	c.Check(okIdx && idx < 0, "W5", "Walk:root:index", rootAl.Pos(), "root index must be a negative constant")
	c.Check(rootLit["node"] == ssa.Value(w.root), "W5", "Walk:root:node", rootAl.Pos(), "root frame's node must be the root parameter")
	_, hasParent := rootLit["parent"]
	_, hasBlock := rootLit["block"]
	c.Check(!hasParent && !hasBlock, "W5", "Walk:root:parent-block", rootAl.Pos(), "root frame must leave parent and block zero")

	// W4
	node := childLit["node"]
	parent := childLit["parent"]
	index := childLit["index"]
	block := childLit["block"]
	if node == nil || parent == nil || index == nil || block == nil {
		c.Viol("W4", "Walk:child:fields", childAl.Pos(), "child frame does not set all of node, parent, block, index")
		return
	}
	c.Check(w.isCurrLoad(parent, "Cursor.node"), "W4", "Walk:child:parent", childAl.Pos(), "parent must be the popped frame's node, got "+parent.String())
	ncall, ok := node.(*ssa.Call)
	if !ok {
		c.Viol("W4", "Walk:child:node", childAl.Pos(), "child node is not obtained by a child-function call: "+node.String())
	} else {
		okNode := len(ncall.Call.Args) == 2 && sameLoad(ncall.Call.Args[0], parent) && ncall.Call.Args[1] == index
		c.Check(okNode, "W4", "Walk:child:node", ncall.Pos(), "node must be getChild(X, I) with X the parent access path and I the stored index")
	}
	// block: phi{ X.Block() if non-nil, else curr.Cursor.block }
	okBlock, why := false, "block is not phi{X.Block() if non-nil, popped frame's block otherwise}: "+block.String()
	if ph, ok := block.(*ssa.Phi); ok && len(ph.Edges) == 2 {
		var callE, loadE ssa.Value
		var callPred *ssa.BasicBlock
		for i, e := range ph.Edges {
			if cl, ok := e.(*ssa.Call); ok && cl.Call.StaticCallee() != nil && cl.Call.StaticCallee().Name() == "Block" && len(cl.Call.Args) == 1 && sameLoad(cl.Call.Args[0], parent) {
				callE, callPred = e, ph.Block().Preds[i]
			} else if w.isCurrLoad(e, "Cursor.block") {
				loadE = e
			}
		}
		if callE != nil && loadE != nil {
			// the edge carrying the call result must come from the non-nil side of a test of that result
			for _, b := range w.fn.Blocks {
				if iff := blockIf(b); iff != nil {
					if x, ni, ok := nilTest(iff.Cond); ok && x == callE {
						if edgeDominates(b, 1-ni, callPred) || (callPred == b && b.Succs[1-ni] == ph.Block()) {
							okBlock, why = true, "nearest enclosing block: X.Block() when non-nil, inherited otherwise"
						} else {
							why = "X.Block() is selected on the nil side of its test (ParentBlock would not be the nearest block)"
						}
					}
				}
			}
		}
	} else if cl, ok := block.(*ssa.Call); ok && cl.Call.StaticCallee() != nil && cl.Call.StaticCallee().Name() == "Block" {
		why = "block is always X.Block(): nil for children of inline nodes"
	}
	c.Check(okBlock, "W4", "Walk:child:block", childAl.Pos(), why)

	// W8: index loop descending from childCount(X)-1
	okTrav, whyT := false, "index is not a loop variable running from childCount(X)-1 down to 0"
	if ph, ok := index.(*ssa.Phi); ok && len(ph.Edges) == 2 {
		var init, step ssa.Value
		for i, e := range ph.Edges {
			if ph.Block().Preds[i].Dominates(ph.Block()) && !canReachWithout(ph.Block(), ph.Block().Preds[i], nil) {
				init = e
			} else {
				step = e
			}
		}
		if init == nil || step == nil {
			// fall back: the edge defined in terms of the phi is the step
			for _, e := range ph.Edges {
				if bo, ok := e.(*ssa.BinOp); ok && bo.X == ssa.Value(ph) {
					step = e
				} else {
					init = e
				}
			}
		}
		initOK, stepOK, condOK := false, false, false
		if bo, ok := init.(*ssa.BinOp); ok && bo.Op == token.SUB {
			if one, ok := constInt(bo.Y); ok && one == 1 {
				var isCount func(v ssa.Value) bool
				isCount = func(v ssa.Value) bool {
					switch x := v.(type) {
					case *ssa.Call:
						return len(x.Call.Args) == 1 && sameLoad(x.Call.Args[0], parent)
					case *ssa.Phi:
						for _, e := range x.Edges {
							if !isCount(e) {
								return false
							}
						}
						return len(x.Edges) > 0
					}
					return false
				}
				initOK = isCount(bo.X)
			}
		}
		if bo, ok := step.(*ssa.BinOp); ok && bo.Op == token.SUB && bo.X == ssa.Value(ph) {
			if one, ok := constInt(bo.Y); ok && one == 1 {
				stepOK = true
			}
		}
		if iff := blockIf(ph.Block()); iff != nil {
			if bo, ok := iff.Cond.(*ssa.BinOp); ok && bo.X == ssa.Value(ph) && bo.Op == token.GEQ && isZero(bo.Y) {
				condOK = true
			}
		}
		if initOK && stepOK && condOK {
			okTrav, whyT = true, "children pushed for i = childCount(X)-1 … 0 and popped from the end"
		} else {
			whyT = fmt.Sprintf("descending-index idiom incomplete (init=%v step=%v cond=%v)", initOK, stepOK, condOK)
		}
	}
	c.Check(okTrav, "W8", "Walk:children-order", childAl.Pos(), whyT)

	// W7: post frame append
	var postAppend *ssa.Call
	eachInstr(w.fn, func(in ssa.Instruction) {
		call, ok := in.(*ssa.Call)
		if !ok {
			return
		}
		if _, ok := isBuiltinCall(call, "append"); !ok {
			return
		}
		// element appended is a load of the whole popped frame
		if sl, ok := call.Call.Args[1].(*ssa.Slice); ok {
			if al, ok := sl.X.(*ssa.Alloc); ok {
				for _, r := range refsOf(al) {
					if ia, ok := r.(*ssa.IndexAddr); ok {
						for _, rr := range refsOf(ia) {
							if st, ok := rr.(*ssa.Store); ok {
								if ld, ok := st.Val.(*ssa.UnOp); ok && ld.Op == token.MUL && ld.X == ssa.Value(w.curr) {
									postAppend = call
								}
							}
						}
					}
				}
			}
		}
	})
	if postAppend == nil {
		c.Viol("W7", "Walk:post-frame", w.fn.Pos(), "no append of the popped frame (the post frame) found: Post would never be called")
		return
	}
	// post=true stored before, in the same block
	postSet := false
	for _, in := range postAppend.Block().Instrs {
		if in == ssa.Instruction(postAppend) {
			break
		}
		if st, ok := in.(*ssa.Store); ok {
			if r, p := addrPath(st.Addr); r == ssa.Value(w.curr) && p == "post" {
				if cv, ok := st.Val.(*ssa.Const); ok && cv.Value != nil && cv.Value.String() == "true" {
					postSet = true
				}
			}
		}
	}
	c.Check(postSet, "W7", "Walk:post-frame:flag", postAppend.Pos(), "the re-pushed frame must have post=true set before it is appended")
	c.Check(postAppend.Call.Args[0] == w.popped, "W7", "Walk:post-frame:base", postAppend.Pos(), "the post frame must be appended onto the popped stack")
	// behind the not-post edge
	behind := false
	for _, b := range w.fn.Blocks {
		if iff := blockIf(b); iff != nil && w.isCurrLoad(stripNot(iff.Cond), "post") {
			idx := 1
			if isNegated(iff.Cond) {
				idx = 0
			}
			if edgeDominates(b, idx, postAppend.Block()) {
				behind = true
			}
		}
	}
	c.Check(behind, "W7", "Walk:post-frame:not-post-edge", postAppend.Pos(), "the post frame is pushed only for frames that are not themselves post frames")
	// children appends are based (through phis) on the post append
	var childAppend *ssa.Call
	for _, r := range refsOf(childAl) {
		_ = r
	}
	eachInstr(w.fn, func(in ssa.Instruction) {
		call, ok := in.(*ssa.Call)
		if !ok || call == postAppend {
			return
		}
		if _, ok := isBuiltinCall(call, "append"); ok {
			if _, isSl := call.Type().Underlying().(*types.Slice); isSl && types.Identical(call.Type(), w.stack.Type()) {
				childAppend = call
			}
		}
	})
	if childAppend == nil {
		c.Viol("W7", "Walk:children-append", w.fn.Pos(), "no append of child frames found")
		return
	}
	based := false
	seen := map[ssa.Value]bool{}
	var back func(v ssa.Value)
	back = func(v ssa.Value) {
		if seen[v] {
			return
		}
		seen[v] = true
		if v == ssa.Value(postAppend) {
			based = true
			return
		}
		switch x := v.(type) {
		case *ssa.Phi:
			for _, e := range x.Edges {
				back(e)
			}
		case *ssa.Call:
			if x == childAppend {
				back(x.Call.Args[0])
			}
		}
	}
	back(childAppend.Call.Args[0])
	onlyPost := true
	// every non-loop origin of the child append's base must be the post append (not the bare popped stack)
	seen2 := map[ssa.Value]bool{}
	var origins func(v ssa.Value)
	origins = func(v ssa.Value) {
		if seen2[v] {
			return
		}
		seen2[v] = true
		switch x := v.(type) {
		case *ssa.Phi:
			for _, e := range x.Edges {
				origins(e)
			}
		case *ssa.Call:
			if x == childAppend {
				origins(x.Call.Args[0])
				return
			}
			if x != postAppend {
				onlyPost = false
			}
		default:
			onlyPost = false
		}
	}
	origins(childAppend.Call.Args[0])
	c.Check(based && onlyPost, "W7", "Walk:children-on-post-frame", childAppend.Pos(), "children are pushed on top of the post frame (so Post runs after them), never directly on the popped stack")
	// the stack reaching the header from the children loop is the children-append chain
	viaChildren := false
	for _, e := range w.stack.Edges {
		s3 := map[ssa.Value]bool{}
		var has func(v ssa.Value) bool
		has = func(v ssa.Value) bool {
			if s3[v] {
				return false
			}
			s3[v] = true
			if v == ssa.Value(childAppend) || v == ssa.Value(postAppend) {
				return true
			}
			if ph, ok := v.(*ssa.Phi); ok {
				for _, ee := range ph.Edges {
					if has(ee) {
						return true
					}
				}
			}
			return false
		}
		if has(e) {
			viaChildren = true
		}
	}
	c.Check(viaChildren, "W7", "Walk:stack-continues", w.header.Instrs[0].Pos(), "the loop continues with the stack that holds the post frame and the children")
}

func init() {
	addControls(
		Control{Name: "abort-ignored", Props: []string{"C18"}, File: "walk.go",
			Old: "\t\t\t\tif !opts.Post(cursor) {\n\t\t\t\t\tbreak\n\t\t\t\t}", New: "\t\t\t\tif !opts.Post(cursor) {\n\t\t\t\t\tcontinue\n\t\t\t\t}", Expect: "W3"},
		Control{Name: "ParentBlock-only-when-nil", Props: []string{"C18"}, File: "walk.go",
			Old: "\t\t\tif b := curr.node.Block(); b != nil {\n\t\t\t\tcurrBlock = b\n\t\t\t}", New: "\t\t\tif b := curr.node.Block(); b != nil && currBlock == nil {\n\t\t\t\tcurrBlock = b\n\t\t\t}", Expect: "W4"},
		Control{Name: "default-ChildCount-always", Props: []string{"C18"}, File: "walk.go",
			Old: "\t\tfor i := childCount(curr.node) - 1; i >= 0; i-- {", New: "\t\tfor i := curr.node.ChildCount() - 1; i >= 0; i-- {",
			Edits: [][2]string{{"\tchildCount := Node.ChildCount\n\tif opts.ChildCount != nil {\n\t\tchildCount = opts.ChildCount\n\t}\n", ""}}, Expect: "W1"},
		Control{Name: "children-ascending", Props: []string{"C18"}, File: "walk.go",
			Old: "\t\tfor i := childCount(curr.node) - 1; i >= 0; i-- {", New: "\t\tfor i, n := 0, childCount(curr.node); i < n; i++ {", Expect: "W8"},
		Control{Name: "prune-still-calls-post", Props: []string{"C18"}, File: "walk.go",
			Old: "\t\t\tif !opts.Pre(cursor) {\n\t\t\t\tcontinue\n\t\t\t}", New: "\t\t\tif !opts.Pre(cursor) {\n\t\t\t\tcurr.post = true\n\t\t\t\tstack = append(stack, curr)\n\t\t\t\tcontinue\n\t\t\t}", Expect: "W2"},
		Control{Name: "index-off-by-one", Props: []string{"C18"}, File: "walk.go",
			Old: "\t\t\t\t\tindex:  i,", New: "\t\t\t\t\tindex:  i + 1,", Expect: "W4"},
		Control{Name: "root-index-zero", Props: []string{"C18"}, File: "walk.go",
			Old: "stack := []walkFrame{{Cursor: Cursor{node: root, index: -1}}}", New: "stack := []walkFrame{{Cursor: Cursor{node: root}}}", Expect: "W5"},
		Control{Name: "post-cursor-stale", Props: []string{"C18"}, File: "walk.go",
			Old: "\t\t\tif opts.Post != nil {\n\t\t\t\t*cursor = curr.Cursor\n", New: "\t\t\tif opts.Post != nil {\n", Expect: "W6"},
		Control{Name: "neg-childCount-selected-at-call", Props: []string{"C18"}, File: "walk.go", Negative: true,
			Old: "\t\tfor i := childCount(curr.node) - 1; i >= 0; i-- {", New: "\t\tvar n int\n\t\tif opts.ChildCount != nil {\n\t\t\tn = opts.ChildCount(curr.node)\n\t\t} else {\n\t\t\tn = curr.node.ChildCount()\n\t\t}\n\t\tfor i := n - 1; i >= 0; i-- {",
			Edits: [][2]string{{"\tchildCount := Node.ChildCount\n\tif opts.ChildCount != nil {\n\t\tchildCount = opts.ChildCount\n\t}\n", ""}}},
	)
}
