package main

// C03 — no source text is lost or duplicated by the tree: necessary conditions only. Each rule below names one of the
// mechanisms the property lists (re-basing of carried-over blocks, the end of the text run being tokenised, the
// multi-line cursor after a multi-line construct, text collection across line jumps, the rest of a paragraph after its
// reference definitions, the heading content range) and decides a shape-level fact without which some byte is covered
// twice or not at all. All of them are also rules of C02 / C09 / C15, where they were first needed.

func init() { props["C03"] = checkC03 }

func checkC03(c *Ctx) {
	c.Assume("Coverage of every letter, digit and non-ASCII byte by exactly one leaf is a sum over data-dependent span endpoints and is not decided. Decided: six mechanisms that, when wrong, duplicate or drop text — carried-over blocks whose children are not all re-based (a leaf keeps the offsets of the previous buffer), a text run that is taken to end at the end of the root block, the line cursor left behind after a construct that ends on a later line (the rest of that line is tokenised twice), a reader window taken after the line cursor moved (a run collected as one piece, container prefixes included), the remainder of a paragraph after its reference definitions not starting where the definition ended, Unicode white space stripped from a heading's content range (non-ASCII bytes covered by no leaf), and a recogniser's scan of a span that skips the span's first byte (the heading \"# b##\" lost its b).")
	ruleRebase(c)
	ruleSpanLen(c)
	ruleResync(c)
	ruleResyncNotFound(c)
	ruleTextResume(c)
	ruleCollectBound(c)
	ruleReaderWindow(c, "C03")
	ruleParaRestStart(c)
	ruleWSSpecRecognisers(c)
	ruleSpanScan(c)
}
