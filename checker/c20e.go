package main

// c20e.go — FMT-ESC (C20, second sentence, one necessary condition): the formatter's text escaping agrees with
// the parser's own notion of which ASCII punctuation bytes carry meaning. The "reader" table is recovered from the
// parser (the bytes its inline tokenizer and its block-start recognisers compare input with), the "writer" table
// from the formatter (for which bytes a backslash can be written in front of a text rune).

import (
	"fmt"
	"go/constant"
	"go/token"
	"go/types"
	"sort"
	"strings"

	"golang.org/x/tools/go/ssa"
)

func isBackslashConst(v ssa.Value) bool {
	if s, ok := constString(v); ok && s == `\` {
		return true
	}
	if c, ok := v.(*ssa.Const); ok && c.Value != nil && c.Value.Kind() == constant.Int {
		if i, ok := constant.Int64Val(c.Value); ok && i == '\\' {
			if b, ok := c.Type().Underlying().(*types.Basic); ok && (b.Kind() == types.Uint8 || b.Kind() == types.Int32 || b.Kind() == types.UntypedRune) {
				return true
			}
		}
	}
	if lit, ok := byteSliceLit(v); ok && len(lit) == 1 && lit[0] == '\\' {
		return true
	}
	return false
}

// byteConstsComparedWithInput: the byte constants that fn (and its function literals) compares a non-constant byte with.
func byteConstsComparedWithInput(fn *ssa.Function, into map[int64][]token.Pos) {
	for _, g := range withAnons(fn) {
		eachInstr(g, func(in ssa.Instruction) {
			bo, ok := in.(*ssa.BinOp)
			if !ok || (bo.Op != token.EQL && bo.Op != token.NEQ) {
				return
			}
			x, y := bo.X, bo.Y
			if _, isC := x.(*ssa.Const); isC {
				x, y = y, x
			}
			if _, isC := x.(*ssa.Const); isC {
				return
			}
			cv, ok := constInt(y)
			if !ok {
				return
			}
			b, ok := x.Type().Underlying().(*types.Basic)
			if !ok || b.Kind() != types.Uint8 {
				return
			}
			into[cv] = append(into[cv], bo.Pos())
		})
	}
}

func isASCIIPunctByte(v int64) bool {
	return v >= 0x21 && v <= 0x7e && !(v >= '0' && v <= '9') && !(v >= 'a' && v <= 'z') && !(v >= 'A' && v <= 'Z')
}

// escapeSites: in package format, the calls that write a lone backslash, together with the decoded text rune the
// enclosing function looks at (the first result of a utf8 decode call, or the value of a range-over-string step).
type escapeSite struct {
	fn   *ssa.Function
	call ssa.Instruction
	sym  ssa.Value
}

func formatEscapeSites(p *Program) (sites []escapeSite, undecided []string) {
	for _, fn := range p.Funcs {
		if fn.Pkg != p.FMTs {
			continue
		}
		var calls []ssa.Instruction
		eachInstr(fn, func(in ssa.Instruction) {
			ci, ok := in.(ssa.CallInstruction)
			if !ok {
				return
			}
			if _, isB := ci.Common().Value.(*ssa.Builtin); isB {
				return
			}
			// only calls that write: a method of the format writer, or a Write* method of some writer/builder
			isWrite := false
			if g := ci.Common().StaticCallee(); g != nil {
				if rv := receiverOf(g); rv != nil && typeName(deref(rv.Type())) == "formatWriter" {
					isWrite = true
				}
				if strings.HasPrefix(g.Name(), "Write") {
					isWrite = true
				}
			}
			if ci.Common().IsInvoke() && strings.HasPrefix(ci.Common().Method.Name(), "Write") {
				isWrite = true
			}
			if !isWrite {
				return
			}
			for _, a := range ci.Common().Args {
				if isBackslashConst(a) {
					calls = append(calls, in)
					return
				}
			}
		})
		if len(calls) == 0 {
			continue
		}
		var syms []ssa.Value
		eachInstr(fn, func(in ssa.Instruction) {
			switch x := in.(type) {
			case *ssa.Extract:
				if c, ok := x.Tuple.(*ssa.Call); ok && x.Index == 0 {
					if f := c.Call.StaticCallee(); f != nil && f.Pkg != nil && f.Pkg.Pkg.Path() == "unicode/utf8" && strings.HasPrefix(f.Name(), "DecodeRune") {
						syms = append(syms, x)
					}
				}
				if nx, ok := x.Tuple.(*ssa.Next); ok && nx.IsString && x.Index == 2 {
					syms = append(syms, x)
				}
			}
		})
		for _, prm := range fn.Params {
			if b, ok := prm.Type().Underlying().(*types.Basic); ok && (b.Kind() == types.Int32 || b.Kind() == types.Uint8) {
				syms = append(syms, prm)
			}
		}
		if len(syms) != 1 {
			undecided = append(undecided, fmt.Sprintf("%s writes a backslash but has %d candidate text runes/bytes (need exactly one)", shortFuncName(fn), len(syms)))
			continue
		}
		for _, c := range calls {
			sites = append(sites, escapeSite{fn, c, syms[0]})
		}
	}
	return
}

func ruleFmtEsc(c *Ctx) {
	c.Rule("FMT-ESC", "Reader/writer agreement on text escaping (a necessary condition of 'the formatted text parses to the same document'): every ASCII punctuation byte that the parser gives meaning to — a byte its inline tokenizer ((*InlineParser).parse) compares the current input byte with, or a byte a block-start rule or a line recogniser it calls compares the line with (HTML-block recognition, which only looks past a '<', contributes '<' alone) — can be written with a backslash in front of it by the formatter's text loop: with the text rune fixed to that byte, the write of the lone backslash is reachable (branches decided by the rune alone are decided, all others are taken both ways). A byte for which no path escapes it cannot be reproduced as literal text at the places where the parser would read it as markup (\"\\+ a\" came back as the list \"+ a\"). Only reachability is decided: whether the conditions under which a byte is escaped are the right ones is not.")
	p := c.P
	special := map[int64]string{}
	// reader side 1: inline tokenizer
	if f := p.Method("InlineParser", "parse"); c.NeedFunc("FMT-ESC", f, "(*InlineParser).parse") {
		m := map[int64][]token.Pos{}
		byteConstsComparedWithInput(f, m)
		n := 0
		for v := range m {
			if isASCIIPunctByte(v) {
				special[v] = "inline tokenizer"
				n++
			}
		}
		c.Analysed["fmtesc_inline_dispatch_bytes"] = n
		if n < 9 {
			c.Undecided("FMT-ESC", "reader:inline-dispatch", f.Pos(), fmt.Sprintf("only %d punctuation bytes recovered from the inline tokenizer's comparisons (9 confirmed by hand: * _ [ ] ! ` < \\ &); the dispatch is no longer a comparison of the input byte with constants", n))
		}
	}
	// reader side 2: block starts and the recognisers they call, without the HTML family
	starts := blockStartFuncs(p)
	htmlFam := map[*ssa.Function]bool{}
	for _, f := range p.Funcs {
		if f.Pkg == p.CMs && strings.HasSuffix(p.Fset.Position(f.Pos()).Filename, "parse_html.go") {
			htmlFam[f] = true
		}
	}
	nb := 0
	mb := map[int64][]token.Pos{}
	// the rules themselves, what they call directly, and what those call (byte predicates); the lineParser API
	// (tree building, inline collection) and HTML-block recognition (which only looks past a '<') are not recognisers
	scope := map[*ssa.Function]bool{}
	var grow func(f *ssa.Function, depth int)
	grow = func(f *ssa.Function, depth int) {
		if f == nil || f.Blocks == nil || !p.InModule(f) || htmlFam[f] || (f.Parent() != nil && htmlFam[f.Parent()]) {
			return
		}
		if rp := receiverOf(f); rp != nil && typeName(deref(rp.Type())) == "lineParser" {
			return
		}
		if scope[f] && depth > 0 {
			return
		}
		scope[f] = true
		if depth >= 2 {
			return
		}
		for _, g := range withAnons(f) {
			eachInstr(g, func(in ssa.Instruction) {
				if ci, ok := in.(ssa.CallInstruction); ok {
					grow(ci.Common().StaticCallee(), depth+1)
				}
			})
		}
	}
	for _, f := range starts {
		grow(f, 0)
	}
	c.Analysed["fmtesc_block_start_functions"] = len(scope)
	for f := range scope {
		byteConstsComparedWithInput(f, mb)
		// constant prefixes the line is compared with
		for _, g := range withAnons(f) {
			eachInstr(g, func(in ssa.Instruction) {
				ci, ok := in.(ssa.CallInstruction)
				if !ok {
					return
				}
				cal := ci.Common().StaticCallee()
				if cal == nil || !strings.Contains(strings.ToLower(cal.Name()), "prefix") {
					return
				}
				for _, a := range ci.Common().Args {
					if s, ok := constString(a); ok && len(s) > 0 {
						mb[int64(s[0])] = append(mb[int64(s[0])], in.Pos())
					}
				}
			})
		}
	}
	for v := range mb {
		if isASCIIPunctByte(v) {
			if _, dup := special[v]; !dup {
				special[v] = "block start"
			}
			nb++
		}
	}
	c.Analysed["fmtesc_block_start_bytes"] = nb
	if nb < 11 {
		c.Undecided("FMT-ESC", "reader:block-starts", token.NoPos, fmt.Sprintf("only %d punctuation bytes recovered from the block-start rules and recognisers (11 confirmed by hand: > # - _ * + = ` ~ . ))", nb))
	}
	// writer side
	sites, und := formatEscapeSites(p)
	for _, u := range und {
		c.Undecided("FMT-ESC", "writer:escape-site", token.NoPos, u)
	}
	if len(sites) == 0 {
		c.Undecided("FMT-ESC", "writer:escape-site", token.NoPos, "no call in package format writes a lone backslash in a function that decodes a text rune: the text escaper was not found")
		return
	}
	var dom []int64
	for v := range special {
		dom = append(dom, v)
	}
	sort.Slice(dom, func(i, j int) bool { return dom[i] < dom[j] })
	e := newBSET(p)
	escapable := map[int64]bool{}
	for _, s := range sites {
		reach := e.reachUnderSym(s.fn, func(v ssa.Value) bool { return v == s.sym }, dom)
		for v := range reach[s.call.Block()] {
			escapable[v] = true
		}
	}
	var list []string
	for _, v := range dom {
		list = append(list, fmt.Sprintf("%q (%s) escapable=%v", rune(v), special[v], escapable[v]))
		c.Check(escapable[v], "FMT-ESC", fmt.Sprintf("byte-0x%02x", v), sites[0].call.Pos(),
			fmt.Sprintf("byte %q has meaning for the parser (%s); a path of the formatter's text loop that writes a backslash in front of it must exist", rune(v), special[v]))
	}
	c.Lists["fmtesc_special_bytes"] = list
}

func init() {
	addControls(
		Control{Name: "escape-set-without-plus", Props: []string{"C20"}, File: "format/format.go",
			Old: "`\\[]*_-+=<>&#~`", New: "`\\[]*_-=<>&#~`", Expect: "FMT-ESC/byte-0x2b",
			Why: "the defect repaired by /repo 34f06e8: '\\+ a' came back as a bullet list"},
		Control{Name: "bang-before-link-not-escaped", Props: []string{"C20"}, File: "format/format.go",
			Old: "\t\t\tcase r == '!' && n == len(s) && isFollowedByLink(cursor):\n\t\t\t\t// Otherwise the link would be read as an image.\n\t\t\t\tfw.s(`\\`)\n", New: "", Expect: "FMT-ESC/byte-0x21",
			Why: "the defect repaired by /repo 87435c0: '\\![a](b)' came back as an image"},
		Control{Name: "ordered-marker-paren-not-escaped", Props: []string{"C20"}, File: "format/format.go",
			Old: "case (r == '.' || r == ')') && (n >= len(s)", New: "case r == '.' && (n >= len(s)", Expect: "FMT-ESC/byte-0x29",
			Why: "the defect repaired by /repo 87435c0: '1\\) a' came back as an ordered list"},
		Control{Name: "escape-table-without-tilde", Props: []string{"C20"}, File: "format/format.go",
			Old:    "case strings.ContainsRune(`\\[]*_-+=<>&#~`+\"`\", r):",
			New:    "case r < utf8.RuneSelf && escapedPunctuation[r]:",
			Edits:  [][2]string{{"const codeBlockIndentLimit = 4\n", "const codeBlockIndentLimit = 4\n\nvar escapedPunctuation = [utf8.RuneSelf]bool{'\\\\': true, '`': true, '[': true, ']': true, '*': true, '_': true, '<': true, '>': true, '&': true, '#': true, '-': true, '+': true, '=': true}\n"}},
			Expect: "FMT-ESC/byte-0x7e", Why: "a lookup table that forgot '~' ('\\~~~' opens a code fence)"},
		Control{Name: "neg-escape-table-complete", Props: []string{"C20"}, File: "format/format.go", Negative: true,
			Old:   "case strings.ContainsRune(`\\[]*_-+=<>&#~`+\"`\", r):",
			New:   "case r < utf8.RuneSelf && escapedPunctuation[r]:",
			Edits: [][2]string{{"const codeBlockIndentLimit = 4\n", "const codeBlockIndentLimit = 4\n\nvar escapedPunctuation = [utf8.RuneSelf]bool{'\\\\': true, '`': true, '[': true, ']': true, '*': true, '_': true, '<': true, '>': true, '&': true, '#': true, '-': true, '+': true, '=': true, '~': true}\n"}}},
		Control{Name: "neg-escape-decision-in-helper", Props: []string{"C20"}, File: "format/format.go", Negative: true,
			Old:   "case strings.ContainsRune(`\\[]*_-+=<>&#~`+\"`\", r):",
			New:   "case alwaysEscaped(r):",
			Edits: [][2]string{{"const codeBlockIndentLimit = 4\n", "const codeBlockIndentLimit = 4\n\nfunc alwaysEscaped(r rune) bool {\n\tswitch r {\n\tcase '\\\\', '`', '[', ']', '*', '_', '<', '>', '&', '#', '-', '+', '=', '~':\n\t\treturn true\n\t}\n\treturn false\n}\n"}}},
	)
}
