package main

// C02 / C03 / C09 — text collection across line jumps (collectTextNodes):
//  COLLECT-BOUND   a piece's End is taken from the reader only while the reader is known not to have passed `end`
//  FLUSH-GUARD     the guard under which a piece [S, E) is added is exactly "E > S" (a one-byte piece is a piece)

import (
	"fmt"
	"go/token"
	"go/types"

	"golang.org/x/tools/go/ssa"
)

func ruleCollectBound(c *Ctx) {
	c.Rule("COLLECT-BOUND", "collectTextNodes(parent, r, end, …) cuts the text of a label, destination, title or raw HTML run into pieces as the reader walks it; no piece may reach beyond end (the node's own span). The reader's position is known to be below end right after a test r.pos < end; each call of r.next() moves it by one byte (or jumps to the next line). Counting, along every path, the advances since the last such test: a piece whose End is r.pos needs none, a piece whose End is r.prevPos or r.prevPos+1 at most one (prevPos is then the tested position). A path that advances twice without re-testing — the byte after a backslash that is the last byte of the run, and then once more — produces a piece that includes the line ending behind the run: inside a container, where the next line starts with a prefix and the reader 'jumps', the destination '/x\\\\' of '> [a]: /x\\\\⏎> b' got the child [7,11) in a parent [7,10).")
	c.Rule("FLUSH-GUARD", "In collectTextNodes a piece [S, E) is added under a guard that compares a reader position with S; taken together with how E is computed from that position the guard must be equivalent to E > S. 'r.prevPos > plainStart' in front of a piece that ends at r.prevPos+1 drops a piece of exactly one byte — the line ending a title starts with, when the next line carries a container prefix.")
	p := c.P
	fn := p.Func("collectTextNodes")
	if !c.NeedFunc("COLLECT-BOUND", fn, "collectTextNodes") {
		return
	}
	var rdr, end *ssa.Parameter
	for _, q := range fn.Params {
		if typeName(deref(q.Type())) == "inlineByteReader" {
			rdr = q
		}
		if bt, ok := q.Type().Underlying().(*types.Basic); ok && bt.Kind() == types.Int {
			end = q
		}
	}
	if rdr == nil || end == nil {
		c.Undecided("COLLECT-BOUND", "collectTextNodes:signature", fn.Pos(), "expected a reader and an end position among the parameters")
		return
	}
	posStore := mayStoreFieldSet(p, "inlineByteReader", "pos")
	isPosLoad := func(v ssa.Value, field string) bool {
		fa, ok := isLoadOfField(v, "inlineByteReader", field)
		return ok && fa.X == ssa.Value(rdr)
	}
	// advances: state 0 (tested), 1, 2 (unknown); forward dataflow with max-join; the true edge of `r.pos < end` resets
	nb := len(fn.Blocks)
	in := make([]int, nb)
	out := make([]int, nb)
	const exhausted = -2 // a next() has returned false: the reader has no more bytes, every later next() returns false as well
	isNextResult := func(v ssa.Value) (neg bool, ok bool) {
		if u, isU := v.(*ssa.UnOp); isU && u.Op == token.NOT {
			v, neg = u.X, true
		}
		call, isC := v.(*ssa.Call)
		if !isC {
			return false, false
		}
		g := call.Call.StaticCallee()
		return neg, g != nil && g.Name() == "next" && len(call.Call.Args) == 1 && call.Call.Args[0] == ssa.Value(rdr)
	}
	edgeState := func(from *ssa.BasicBlock, toIdx int, s int) int {
		iff := blockIf(from)
		if iff == nil {
			return s
		}
		if neg, ok := isNextResult(iff.Cond); ok {
			trueIdx := 0
			if neg {
				trueIdx = 1
			}
			if toIdx != trueIdx {
				return exhausted // next() returned false
			}
			if s == exhausted {
				return -1 // infeasible: an exhausted reader does not advance
			}
		}
		if s == exhausted {
			return s
		}
		if bo, ok := iff.Cond.(*ssa.BinOp); ok && bo.Y == ssa.Value(end) && isPosLoad(bo.X, "pos") {
			if (bo.Op == token.LSS && toIdx == 0) || (bo.Op == token.GEQ && toIdx == 1) {
				return 0
			}
		}
		return s
	}
	transfer := func(b *ssa.BasicBlock, s int, visit func(ssa.Instruction, int)) int {
		for _, x := range b.Instrs {
			if visit != nil {
				visit(x, s)
			}
			if ci, ok := x.(ssa.CallInstruction); ok {
				g := ci.Common().StaticCallee()
				handed := false
				for _, a := range ci.Common().Args {
					if a == ssa.Value(rdr) {
						handed = true
					}
				}
				if handed && (g == nil || posStore[g]) && s != exhausted {
					if g != nil && g.Name() == "next" {
						if s < 2 {
							s++
						}
					} else {
						s = 2
					}
				}
			}
		}
		return s
	}
	for i := range in {
		in[i], out[i] = -1, -1
	}
	in[0] = 2 // nothing is known at entry (the caller positions the reader; the loop test comes first)
	for changed := true; changed; {
		changed = false
		for _, b := range fn.Blocks {
			s := in[b.Index]
			if b.Index != 0 {
				s = -1
				anyExh := false
				for _, pr := range b.Preds {
					if out[pr.Index] == -1 {
						continue
					}
					idx := 0
					if len(pr.Succs) == 2 && pr.Succs[1] == b {
						idx = 1
					}
					es := edgeState(pr, idx, out[pr.Index])
					if es == exhausted {
						anyExh = true
						continue
					}
					if es > s {
						s = es
					}
				}
				if s == -1 && anyExh {
					s = exhausted
				}
			}
			if s == -1 {
				continue
			}
			in[b.Index] = s
			o := transfer(b, s, nil)
			if o != out[b.Index] {
				out[b.Index] = o
				changed = true
			}
		}
	}
	// pieces: Inline literals whose span End is a function of the reader's pos / prevPos
	type piece struct {
		al         *ssa.Alloc
		startV     ssa.Value
		endV       ssa.Value
		endStore   *ssa.Store
		stateAtEnd int
		at         *ssa.Call // for a piece built by a helper closure: the call
	}
	var pieces []*piece
	eachInstr(fn, func(x ssa.Instruction) {
		al, ok := x.(*ssa.Alloc)
		if !ok || typeName(deref(al.Type())) != "Inline" {
			return
		}
		pc := &piece{al: al, stateAtEnd: -1}
		for _, r := range refsOf(al) {
			fa, ok := r.(*ssa.FieldAddr)
			if !ok {
				continue
			}
			if tn, f, _ := fieldAddrInfo(fa); tn != "Inline" || f != "span" {
				continue
			}
			for _, r2 := range refsOf(fa) {
				fa2, ok := r2.(*ssa.FieldAddr)
				if !ok {
					continue
				}
				_, f2, _ := fieldAddrInfo(fa2)
				for _, r3 := range refsOf(fa2) {
					if st, ok := r3.(*ssa.Store); ok && st.Addr == ssa.Value(fa2) {
						if f2 == "Start" {
							pc.startV = st.Val
						} else if f2 == "End" {
							pc.endV, pc.endStore = st.Val, st
						}
					}
				}
			}
		}
		if pc.endV != nil {
			pieces = append(pieces, pc)
		}
	})
	// pieces built by a helper closure whose End is the closure's parameter: one piece per call of the closure, with
	// the argument as End (the closure's own guard compares that parameter with the start: FLUSH-GUARD holds by shape)
	// helpers: the function's closures and the module functions it calls directly
	helperSet := map[*ssa.Function]bool{}
	var helpers []*ssa.Function
	for _, g := range fn.AnonFuncs {
		if !helperSet[g] {
			helperSet[g] = true
			helpers = append(helpers, g)
		}
	}
	eachInstr(fn, func(x ssa.Instruction) {
		if call, ok := x.(*ssa.Call); ok {
			if g := call.Call.StaticCallee(); g != nil && p.InModule(g) && g.Blocks != nil && g != fn && !helperSet[g] {
				helperSet[g] = true
				helpers = append(helpers, g)
			}
		}
	})
	for _, g := range helpers {
		eachInstr(g, func(x ssa.Instruction) {
			al, ok := x.(*ssa.Alloc)
			if !ok || typeName(deref(al.Type())) != "Inline" {
				return
			}
			for _, r := range refsOf(al) {
				fa, ok := r.(*ssa.FieldAddr)
				if !ok {
					continue
				}
				if tn, f, _ := fieldAddrInfo(fa); tn != "Inline" || f != "span" {
					continue
				}
				for _, r2 := range refsOf(fa) {
					fa2, ok := r2.(*ssa.FieldAddr)
					if !ok {
						continue
					}
					if _, f2, _ := fieldAddrInfo(fa2); f2 != "End" {
						continue
					}
					for _, r3 := range refsOf(fa2) {
						st, ok := r3.(*ssa.Store)
						if !ok || st.Addr != ssa.Value(fa2) {
							continue
						}
						prm, ok := st.Val.(*ssa.Parameter)
						if !ok {
							continue
						}
						pi := -1
						for i, q := range g.Params {
							if q == prm {
								pi = i
							}
						}
						eachInstr(fn, func(y ssa.Instruction) {
							call, ok := y.(*ssa.Call)
							if !ok || call.Call.StaticCallee() != g || pi < 0 || pi >= len(call.Call.Args) {
								return
							}
							pieces = append(pieces, &piece{al: nil, startV: nil, endV: call.Call.Args[pi], endStore: nil, stateAtEnd: -1, at: call})
						})
					}
				}
			}
		})
	}
	// the state at the load of the reader field the End is computed from
	stateAt := func(at ssa.Instruction) int {
		b := at.Block()
		res := -1
		transfer(b, in[b.Index], func(x ssa.Instruction, s int) {
			if x == at {
				res = s
			}
		})
		return res
	}
	n := 0
	for _, pc := range pieces {
		base, k := linTerm(pc.endV)
		field := ""
		switch {
		case isPosLoad(base, "pos"):
			field = "pos"
		case isPosLoad(base, "prevPos"):
			field = "prevPos"
		default:
			continue // End is `end` itself or a value this rule does not bound
		}
		if field == "pos" && k != 0 {
			continue // r.pos + length of a recognised reference: bounded by the recogniser, not by this rule
		}
		n++
		ldInstr, _ := base.(ssa.Instruction)
		s := stateAt(ldInstr)
		pos := token.NoPos
		if pc.endStore != nil {
			pos = pc.endStore.Pos()
		} else if pc.at != nil {
			pos = pc.at.Pos()
		}
		allowed := 0
		if field == "prevPos" {
			allowed = 1
		}
		key := fmt.Sprintf("collectTextNodes:piece#%d(End=r.%s%+d)", n, field, k)
		// a piece flushed because the reader jumped to the next line ends with the byte before the jump: prevPos+1
		atBlock := (*ssa.BasicBlock)(nil)
		if pc.al != nil {
			atBlock = pc.al.Block()
		} else if pc.at != nil {
			atBlock = pc.at.Block()
		}
		if atBlock != nil {
			for id := atBlock.Idom(); id != nil; id = id.Idom() {
				iff := blockIf(id)
				if iff == nil {
					continue
				}
				if jc, ok := iff.Cond.(*ssa.Call); ok {
					if g := jc.Call.StaticCallee(); g != nil && g.Name() == "jumped" && edgeDominates(id, 0, atBlock) {
						c.Check(field == "prevPos" && k == 1, "COLLECT-BOUND", key+":after-jump", pos, fmt.Sprintf("after a jump the bytes up to and including r.prevPos belong to the pending piece; its End is r.%s%+d", field, k))
					}
				}
			}
		}
		c.Check(s == exhausted || (s >= 0 && s <= allowed), "COLLECT-BOUND", key, pos, fmt.Sprintf("advances of the reader since r.pos < end was last established: %d (2 = two or more); at most %d allowed for an End taken from r.%s", s, allowed, field))
		// FLUSH-GUARD: the nearest dominating If comparing a reader position with the piece's Start
		if pc.startV == nil || pc.al == nil {
			continue
		}
		for id := pc.al.Block().Idom(); id != nil; id = id.Idom() {
			iff := blockIf(id)
			if iff == nil || !edgeDominates(id, 0, pc.al.Block()) {
				continue
			}
			bo, ok := iff.Cond.(*ssa.BinOp)
			if !ok || !(bo.Y == pc.startV || sameTerm(bo.Y, pc.startV)) {
				continue
			}
			gb, gk := linTerm(bo.X)
			if !(isPosLoad(gb, field)) {
				continue
			}
			// guard: (r.f + gk) OP S ; piece: E = r.f + k. Equivalent to E > S  <=>  r.f + k > S
			good := false
			switch bo.Op {
			case token.GTR: // r.f + gk > S  ≡ r.f + k > S  iff gk == k
				good = gk == k
			case token.GEQ: // r.f + gk >= S ≡ r.f + gk + 1 > S iff gk+1 == k
				good = gk+1 == k
			}
			c.Check(good, "FLUSH-GUARD", fmt.Sprintf("collectTextNodes:piece#%d", n), bo.Pos(), fmt.Sprintf("the piece ends at r.%s%+d and is added when r.%s%+d %s its start: not the same as 'the piece is not empty'", field, k, field, gk, bo.Op))
			break
		}
	}
	c.Analysed["collect_pieces_bounded_by_reader"] = n
	if n < 3 {
		c.Undecided("COLLECT-BOUND", "instance-count", fn.Pos(), fmt.Sprintf("%d pieces whose End comes from the reader found; 3 confirmed by hand", n))
	}
}

func init() {
	addControls(
		Control{Name: "backslash-at-end-of-run-advances-twice", Props: []string{"C02", "C03", "C09"}, File: "inlines.go",
			Old: "\t\t\t\tif r.pos >= end {\n\t\t\t\t\t// The backslash was the last byte of the run:\n\t\t\t\t\t// what the reader stands on now is no longer part of it.\n\t\t\t\t\tcontinue\n\t\t\t\t}\n", New: "", Expect: "COLLECT-BOUND/collectTextNodes:piece",
			Why: "the defect repaired by /repo e81e2ff: '> [a]: /x\\\\' gave the destination a Text child that ends after its parent"},
		Control{Name: "one-byte-piece-before-a-jump-dropped", Props: []string{"C02", "C03", "C09"}, File: "inlines.go",
			Old: "\t\tif r.jumped() {\n\t\t\tif r.prevPos >= plainStart {", New: "\t\tif r.jumped() {\n\t\t\tif r.prevPos > plainStart {", Expect: "FLUSH-GUARD/collectTextNodes:piece",
			Why: "the defect repaired by /repo e81e2ff: a title that starts with a line ending lost it inside a block quote"},
	)
}
